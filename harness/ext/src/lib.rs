//! l21v-ext: harnesses that need only the public API of the Layout21 crates.
//! Built by `cargo kani` (harness wrappers) and by plain cargo (native replay of counterexamples).
#![allow(clippy::all)]
#![cfg_attr(kani, feature(allocator_api))]
include!("../../common/src.rs");
include!("../../common/libm.rs");

pub mod c12;
pub mod c13;
pub mod c15;

/// native replay entry: run harness `name` on recorded values against the real build
#[cfg(not(kani))]
pub fn replay(name: &str, vals: Vec<Vec<u8>>) -> ReplayOut {
    let tables: &[fn(&str, &mut VecSrc) -> bool] = &[c12::k::dispatch, c13::k::dispatch, c15::k::dispatch];
    for d in tables {
        let out = run_native(name, vals.clone(), *d);
        if out.0 {
            return out;
        }
    }
    #[cfg(l21v_verif)]
    {
        let incrate: &[fn(&str, Vec<Vec<u8>>) -> ReplayOut] = &[gds21::l21v::replay, layout21raw::l21v::replay, layout21tetris::l21v::replay];
        for d in incrate {
            let out = d(name, vals.clone());
            if out.0 {
                return out;
            }
        }
    }
    (false, None, vec![], vec![], vec![], 0, false, None)
}
