// C12 — instance transforms compose like the geometric operations they name (DESIGN.md §5 C12)
// encodes: layout21raw::Transform::from_instance, Transform::cascade, Transform::rotate, Transform::reflect_vert, Transform::translate, Point::transform, matmul, matvec
// stubs: f64::sin / f64::cos -> platform table keyed on the bit pattern of to_radians(k*90) (T2,T3); one pair of symbolic doubles (T1)
// bound *: T1 any angle (sin/cos symbolic), all i32 locations. T2z: location 0, every i32 point. T2g: points and locations in +-2^7. T2w: points +-2^7, every i32 location. T3c: chains of depth 2..4 with concrete orientations and concrete offsets (incl. extreme i32), every i32 point. T3g: depth 2, offsets and point in +-8. Right angles only for T2/T3.
#[allow(unused_imports)]
use crate::*;
use layout21raw::{Point, Transform};

/// exact integer image of (x, y): reflect about the x-axis first, then rotate ccw by k quarter turns, then translate
fn imap(refl: bool, k: u8, loc: (i64, i64), p: (i64, i64)) -> (i64, i64) {
    let (x, y) = (p.0, if refl { -p.1 } else { p.1 });
    let (x, y) = match k % 4 {
        0 => (x, y),
        1 => (-y, x),
        2 => (-x, -y),
        _ => (y, -x),
    };
    (x + loc.0, y + loc.1)
}

fn angle_of(sel: u8) -> Option<f64> {
    // 0: None, 1..=4: 0/90/180/270, 5..=8: -90,-180,-270,360 (equivalent turns 3,2,1,0)
    match sel {
        0 => None,
        1 => Some(0.0),
        2 => Some(90.0),
        3 => Some(180.0),
        4 => Some(270.0),
        5 => Some(-90.0),
        6 => Some(-180.0),
        7 => Some(-270.0),
        _ => Some(360.0),
    }
}
fn turns_of(sel: u8) -> u8 {
    match sel {
        0 | 1 | 8 => 0,
        2 | 7 => 1,
        3 | 6 => 2,
        _ => 3,
    }
}

/// T1: from_instance == translate ∘ rotate ∘ reflect, entry by entry, for ANY angle (sin/cos symbolic)
pub fn c12_q_t1_identity<S: Src>(s: &mut S) {
    let lx = s.i32();
    let ly = s.i32();
    let refl = s.bool();
    let sn = s.f64();
    let cs = s.f64();
    vassume!(s, sn >= -1.0 && sn <= 1.0 && cs >= -1.0 && cs <= 1.0);
    #[cfg(kani)]
    let angle: f64 = {
        unsafe {
            libm_models::SYM_SIN = sn;
            libm_models::SYM_COS = cs;
        }
        1.0
    };
    // natively the real libm runs, so hand it the angle whose sine/cosine the solver chose
    #[cfg(not(kani))]
    let angle: f64 = sn.atan2(cs).to_degrees();
    vnote!(s, "in", "loc=({},{}) refl={} sin={:e} cos={:e} angle={}", lx, ly, refl, sn, cs, angle);
    s.tag("reflected_and_rotated", refl && sn != 0.0);
    let loc = Point::new(lx as isize, ly as isize);
    let got = Transform::from_instance(&loc, refl, Some(angle));
    let inner = if refl { Transform::reflect_vert() } else { Transform::identity() };
    let want = Transform::cascade(
        &Transform::translate(lx as f64, ly as f64),
        &Transform::cascade(&Transform::rotate(angle), &inner),
    );
    vnote!(s, "got", "{:?} want {:?}", got, want);
    vcover!(s, refl && sn != 0.0 && cs != 0.0, "reflected general angle reachable");
    vcheck!(s, got.a[0][0] == want.a[0][0], "c12.t1 a00");
    vcheck!(s, got.a[0][1] == want.a[0][1], "c12.t1 a01");
    vcheck!(s, got.a[1][0] == want.a[1][0], "c12.t1 a10");
    vcheck!(s, got.a[1][1] == want.a[1][1], "c12.t1 a11");
    vcheck!(s, got.b[0] == want.b[0] && got.b[1] == want.b[1], "c12.t1 b");
    // angle None is angle 0
    let none = Transform::from_instance(&loc, refl, None);
    let ident = Transform::cascade(&Transform::translate(lx as f64, ly as f64), &inner);
    vcheck!(s, none.a == ident.a && none.b == ident.b, "c12.t1 no angle");
}

/// draw an i32 in [-2^bits, 2^bits) (bits = 31: all of i32; bits = 0: the constant 0)
fn ranged<S: Src>(s: &mut S, bits: u32) -> i32 {
    if bits == 0 {
        return 0;
    }
    let v = s.i32();
    if bits < 31 {
        let lim = 1i64 << bits;
        vassume!(s, (v as i64) >= -lim && (v as i64) < lim);
    }
    v
}

/// T2: for one right-angle orientation, every location in +-2^lb and every point in +-2^pb
fn t2_body<S: Src>(s: &mut S, o: u8, pb: u32, lb: u32) {
    let (refl, sel) = (o >= 5, o % 5);
    let lx = ranged(s, lb);
    let ly = ranged(s, lb);
    let x = ranged(s, pb);
    let y = ranged(s, pb);
    vnote!(s, "in", "loc=({},{}) p=({},{}) refl={} angle={:?}", lx, ly, x, y, refl, angle_of(sel));
    s.tag("reflected_and_rotated", refl && turns_of(sel) % 2 == 1);
    let t = Transform::from_instance(&Point::new(lx as isize, ly as isize), refl, angle_of(sel));
    let p = Point::new(x as isize, y as isize).transform(&t);
    let want = imap(refl, turns_of(sel), (lx as i64, ly as i64), (x as i64, y as i64));
    vnote!(s, "got", "({},{}) want ({},{})", p.x, p.y, want.0, want.1);
    vcover!(s, x < 0 && y > 0, "generic point reachable");
    vcheck!(s, p.x as i64 == want.0 && p.y as i64 == want.1, "c12.t2 point image under right-angle placement");
}
/// orientation index o: 0..=4 = not reflected x {None, 0, 90, 180, 270}; 5..=9 reflected
macro_rules! t2_inst {
    ($($name:ident: $o:expr, $pb:expr, $lb:expr;)*) => { $( pub fn $name<S: Src>(s: &mut S) { t2_body(s, $o, $pb, $lb) } )* };
}
// z: location 0, every i32 point.  g: 8-bit grid points, 8-bit locations.  w: 8-bit grid points, every i32 location.
t2_inst! {
    c12_q_t2z_o0: 0, 31, 0; c12_q_t2z_o1: 1, 31, 0; c12_q_t2z_o2: 2, 31, 0; c12_q_t2z_o3: 3, 31, 0; c12_q_t2z_o4: 4, 31, 0;
    c12_q_t2z_o5: 5, 31, 0; c12_q_t2z_o6: 6, 31, 0; c12_q_t2z_o7: 7, 31, 0; c12_q_t2z_o8: 8, 31, 0; c12_q_t2z_o9: 9, 31, 0;
    c12_q_t2g_o0: 0, 7, 7; c12_q_t2g_o1: 1, 7, 7; c12_q_t2g_o2: 2, 7, 7; c12_q_t2g_o3: 3, 7, 7; c12_q_t2g_o4: 4, 7, 7;
    c12_q_t2g_o5: 5, 7, 7; c12_q_t2g_o6: 6, 7, 7; c12_q_t2g_o7: 7, 7, 7; c12_q_t2g_o8: 8, 7, 7; c12_q_t2g_o9: 9, 7, 7;
    c12_t_t2w_o0: 0, 7, 31; c12_t_t2w_o1: 1, 7, 31; c12_t_t2w_o2: 2, 7, 31; c12_t_t2w_o3: 3, 7, 31; c12_t_t2w_o4: 4, 7, 31;
    c12_t_t2w_o5: 5, 7, 31; c12_t_t2w_o6: 6, 7, 31; c12_t_t2w_o7: 7, 7, 31; c12_t_t2w_o8: 8, 7, 31; c12_t_t2w_o9: 9, 7, 31;
}
/// negative angles and 360 degrees (location 0, every i32 point)
pub fn c12_t_t2z_neg<S: Src>(s: &mut S) {
    let refl = s.bool();
    let sel = s.u8();
    vassume!(s, sel >= 5 && sel <= 8);
    let x = s.i32();
    let y = s.i32();
    vnote!(s, "in", "p=({},{}) refl={} angle={:?}", x, y, refl, angle_of(sel));
    let t = Transform::from_instance(&Point::new(0, 0), refl, angle_of(sel));
    let p = Point::new(x as isize, y as isize).transform(&t);
    let want = imap(refl, turns_of(sel), (0, 0), (x as i64, y as i64));
    vcover!(s, refl && sel == 7, "reflected -270 reachable");
    vcheck!(s, p.x as i64 == want.0 && p.y as i64 == want.1, "c12.t2 point image under negative / full-turn angles");
}

/// orientation digit d in 0..8: reflected iff d >= 4, angle (d % 4) * 90 degrees
fn orient(d: u8) -> (bool, u8) {
    (d >= 4, 1 + d % 4)
}

/// T3 (matrix level): cascade of a chain of right-angle placements applied to a point is the composition of the exact
/// integer maps — no rounding drift. Orientations are concrete per instance. `locs` = None: locations symbolic in
/// +-2^bits and the point symbolic in +-2^bits (the float additions with symbolic operands on both sides are what
/// limits this form to tiny grids); `locs` = Some: concrete offsets (small, mid-size and extreme i32 values), the
/// point symbolic over ALL of i32.
fn t3_body<S: Src>(s: &mut S, o: [u8; 4], clocs: Option<[(i32, i32); 4]>, depth: usize, bits: u32) {
    let mut locs = [(0i32, 0i32); 4];
    let mut i = 0;
    while i < depth {
        locs[i] = match clocs {
            Some(c) => c[i],
            None => (ranged(s, bits), ranged(s, bits)),
        };
        i += 1;
    }
    let x = ranged(s, bits);
    let y = ranged(s, bits);
    vnote!(s, "in", "orients={:?} locs={:?} p=({},{})", &o[..depth], &locs[..depth], x, y);
    // outermost placement first
    let mut t = Transform::identity();
    let mut i = 0;
    while i < depth {
        let (refl, sel) = orient(o[i]);
        let ti = Transform::from_instance(&Point::new(locs[i].0 as isize, locs[i].1 as isize), refl, angle_of(sel));
        t = Transform::cascade(&t, &ti);
        s.tag("reflected_and_rotated", refl && turns_of(sel) % 2 == 1);
        i += 1;
    }
    let p = Point::new(x as isize, y as isize).transform(&t);
    // integer composition: innermost placement is applied first
    let mut w = (x as i64, y as i64);
    let mut i = depth;
    while i > 0 {
        i -= 1;
        let (refl, sel) = orient(o[i]);
        w = imap(refl, turns_of(sel), (locs[i].0 as i64, locs[i].1 as i64), w);
    }
    vnote!(s, "got", "({},{}) want ({},{})", p.x, p.y, w.0, w.1);
    vcover!(s, x > 0 && y < 0, "generic point reachable");
    vcheck!(s, p.x as i64 == w.0 && p.y as i64 == w.1, "c12.t3 nested placements compose exactly");
}
macro_rules! t3c_inst {
    ($($name:ident: $o:expr, $l:expr, $d:expr;)*) => { $( pub fn $name<S: Src>(s: &mut S) { t3_body(s, $o, Some($l), $d, 31) } )* };
}
t3c_inst! {
    c12_s_t3c_d2_00: [1, 5, 0, 0], [(948, 325), (-2, 272), (0, 0), (0, 0)], 2;
    c12_s_t3c_d2_01: [6, 7, 0, 0], [(-97, -2147483648), (-835, 0), (0, 0), (0, 0)], 2;
    c12_s_t3c_d2_02: [1, 7, 0, 0], [(6, -1244575616), (591491980, 163486748), (0, 0), (0, 0)], 2;
    c12_s_t3c_d2_03: [4, 7, 0, 0], [(-1073741823, 905646816), (-167192254, 3), (0, 0), (0, 0)], 2;
    c12_s_t3c_d2_04: [7, 1, 0, 0], [(1010956, 36253), (961292, 60), (0, 0), (0, 0)], 2;
    c12_s_t3c_d2_05: [0, 3, 0, 0], [(-2147483648, 816), (4, -451255), (0, 0), (0, 0)], 2;
    c12_s_t3c_d2_06: [7, 3, 0, 0], [(5, 4221), (-177, 851793187), (0, 0), (0, 0)], 2;
    c12_s_t3c_d2_07: [6, 6, 0, 0], [(-2147483647, -2107639684), (-1073741823, 1004609), (0, 0), (0, 0)], 2;
    c12_s_t3c_d2_08: [5, 3, 0, 0], [(827416575, 1036652), (-907564, -787451737), (0, 0), (0, 0)], 2;
    c12_s_t3c_d2_09: [1, 7, 0, 0], [(-470, -280814), (961109, -1), (0, 0), (0, 0)], 2;
    c12_s_t3c_d2_10: [7, 5, 0, 0], [(-3, -434704), (-989720, -9), (0, 0), (0, 0)], 2;
    c12_s_t3c_d2_11: [7, 1, 0, 0], [(625, 2147483647), (-8, 958), (0, 0), (0, 0)], 2;
    c12_s_t3c_d2_12: [4, 5, 0, 0], [(-2147483648, 1549196423), (-1073741823, 1073741824), (0, 0), (0, 0)], 2;
    c12_s_t3c_d2_13: [2, 4, 0, 0], [(4, 2147483647), (-374, -157), (0, 0), (0, 0)], 2;
    c12_s_t3c_d2_14: [6, 2, 0, 0], [(652, 1073741824), (-6, -740575), (0, 0), (0, 0)], 2;
    c12_s_t3c_d2_15: [0, 5, 0, 0], [(1911566153, 7), (326149, -214145418), (0, 0), (0, 0)], 2;
    c12_s_t3c_d2_16: [1, 7, 0, 0], [(-332468, -1073741823), (-577, 362466), (0, 0), (0, 0)], 2;
    c12_s_t3c_d2_17: [7, 3, 0, 0], [(8, -905330), (2147483647, 8), (0, 0), (0, 0)], 2;
    c12_s_t3c_d2_18: [0, 7, 0, 0], [(1073741824, -5), (-553, 832), (0, 0), (0, 0)], 2;
    c12_s_t3c_d2_19: [2, 2, 0, 0], [(1073741824, -1809646609), (-1343470987, -2147483647), (0, 0), (0, 0)], 2;
    c12_s_t3c_d2_20: [7, 7, 0, 0], [(158000, -306343), (83043665, -544817), (0, 0), (0, 0)], 2;
    c12_s_t3c_d2_21: [4, 1, 0, 0], [(2147483647, -7), (337398, -283320), (0, 0), (0, 0)], 2;
    c12_s_t3c_d2_22: [0, 5, 0, 0], [(-2147483647, 407), (621, -557), (0, 0), (0, 0)], 2;
    c12_s_t3c_d2_23: [1, 4, 0, 0], [(538, 497), (-1073741823, 269858754), (0, 0), (0, 0)], 2;
    c12_s_t3c_d3_00: [2, 1, 4, 0], [(4, -2147483648), (2, -2147483648), (-358, -1872970670), (0, 0)], 3;
    c12_s_t3c_d3_01: [5, 2, 4, 0], [(-1877420043, 29536), (-983858, -6), (-2147483648, -1619115405), (0, 0)], 3;
    c12_s_t3c_d3_02: [5, 5, 7, 0], [(281, -923), (277091, -559), (-53, -547608), (0, 0)], 3;
    c12_s_t3c_d3_03: [5, 4, 6, 0], [(-617109863, -949325), (838809816, 1786110552), (1150593468, 1961898492), (0, 0)], 3;
    c12_s_t3c_d3_04: [3, 0, 1, 0], [(-1073741823, -6), (-5, -275), (326, -2023813603), (0, 0)], 3;
    c12_s_t3c_d3_05: [2, 5, 6, 0], [(533440, 1073741824), (2147483647, -1073741823), (8, -188), (0, 0)], 3;
    c12_s_t3c_d3_06: [4, 2, 3, 0], [(-9, 176737819), (57948, 1373802548), (-783840365, -2), (0, 0)], 3;
    c12_s_t3c_d3_07: [7, 0, 3, 0], [(765, 1073741824), (1413268785, 1551398189), (-605122697, 939786), (0, 0)], 3;
    c12_s_t3c_d3_08: [4, 3, 2, 0], [(-403578, -1026297), (869080604, -4), (0, -1009253457), (0, 0)], 3;
    c12_s_t3c_d3_09: [1, 0, 3, 0], [(-372, -909), (547700, 972), (663, -1073741823), (0, 0)], 3;
    c12_s_t3c_d3_10: [1, 1, 2, 0], [(350685, -465), (1233702869, -2147483647), (176803705, -478408294), (0, 0)], 3;
    c12_s_t3c_d3_11: [0, 7, 6, 0], [(69537160, -2147483647), (-704, -2147483648), (7, 2), (0, 0)], 3;
    c12_s_t3c_d3_12: [1, 5, 4, 0], [(-1073741823, -1073741823), (-492, -2147483648), (-66293691, 3), (0, 0)], 3;
    c12_s_t3c_d3_13: [4, 4, 1, 0], [(-5371285, 62), (-2147483647, 398957), (-7, 6), (0, 0)], 3;
    c12_s_t3c_d3_14: [4, 4, 3, 0], [(-2147483647, 342727), (1534382838, 267103), (2147483647, -125113), (0, 0)], 3;
    c12_s_t3c_d3_15: [5, 5, 6, 0], [(-219, 2147483647), (-513450, 73941), (1441588947, 1575316794), (0, 0)], 3;
    c12_s_t3c_d4_00: [4, 2, 4, 3], [(2028296305, 581), (-1, 319495862), (626840, 8), (747826408, 71684516)], 4;
    c12_s_t3c_d4_01: [6, 5, 5, 0], [(-323090, -1), (437, -1586564396), (319, -151), (976927, -2097000540)], 4;
    c12_s_t3c_d4_02: [3, 1, 4, 5], [(-3, 112866), (290, 826497230), (574, -6), (-2147483647, 1073741824)], 4;
    c12_s_t3c_d4_03: [3, 2, 4, 1], [(-146, 394), (145, -2147483648), (-1, -862018), (-1073741823, -527)], 4;
    c12_s_t3c_d4_04: [7, 5, 5, 5], [(457870602, -1073302860), (-489751, 6), (1095056828, -2147483647), (997058808, -751200551)], 4;
    c12_s_t3c_d4_05: [5, 5, 5, 2], [(8, -2147483647), (66, -602453), (-561, 5), (2147483647, -518058)], 4;
    c12_s_t3c_d4_06: [3, 4, 7, 2], [(389, 648007315), (260, -613), (-1073741823, 443), (2147483647, -1073741823)], 4;
    c12_s_t3c_d4_07: [0, 0, 4, 4], [(2147483647, 828715498), (1073741824, 2147483647), (-4, 1073741824), (2, 960)], 4;
    c12_s_t3c_d4_08: [0, 4, 3, 5], [(-812, 657649), (-2147483647, -1073741823), (6, -8), (2, 728)], 4;
    c12_s_t3c_d4_09: [4, 5, 0, 2], [(-609, 4), (-212083, 2147483647), (1073741824, -2147483647), (-1073741823, 726359)], 4;
    c12_s_t3c_d4_10: [7, 5, 3, 4], [(972267, -3), (-2147483648, 2), (408, -2147483648), (2147483647, -254598)], 4;
    c12_s_t3c_d4_11: [6, 0, 2, 4], [(1027067284, -1008640), (881659, 1462302452), (-469983, -5), (-545, -188906248)], 4;
}
// symbolic offsets and point on the grid +-8, depth 2 (thorough tier: 3-4 min each)
pub fn c12_t_t3g_25<S: Src>(s: &mut S) {
    t3_body(s, [2, 5, 0, 0], None, 2, 3)
}
pub fn c12_t_t3g_71<S: Src>(s: &mut S) {
    t3_body(s, [7, 1, 0, 0], None, 2, 3)
}
pub fn c12_t_t3g_46<S: Src>(s: &mut S) {
    t3_body(s, [4, 6, 0, 0], None, 2, 3)
}
pub fn c12_t_t3g_33<S: Src>(s: &mut S) {
    t3_body(s, [3, 3, 0, 0], None, 2, 3)
}

harnesses! { k, "sel_c12.rs";
    #[kani::stub(f64::sin, libm_models::sin_sym)]
    #[kani::stub(f64::cos, libm_models::cos_sym)]
    c12_q_t1_identity;
    #[kani::stub(f64::sin, libm_models::sin_table)] #[kani::stub(f64::cos, libm_models::cos_table)] #[kani::unwind(12)] c12_q_t2z_o0;
    #[kani::stub(f64::sin, libm_models::sin_table)] #[kani::stub(f64::cos, libm_models::cos_table)] #[kani::unwind(12)] c12_q_t2z_o1;
    #[kani::stub(f64::sin, libm_models::sin_table)] #[kani::stub(f64::cos, libm_models::cos_table)] #[kani::unwind(12)] c12_q_t2z_o2;
    #[kani::stub(f64::sin, libm_models::sin_table)] #[kani::stub(f64::cos, libm_models::cos_table)] #[kani::unwind(12)] c12_q_t2z_o3;
    #[kani::stub(f64::sin, libm_models::sin_table)] #[kani::stub(f64::cos, libm_models::cos_table)] #[kani::unwind(12)] c12_q_t2z_o4;
    #[kani::stub(f64::sin, libm_models::sin_table)] #[kani::stub(f64::cos, libm_models::cos_table)] #[kani::unwind(12)] c12_q_t2z_o5;
    #[kani::stub(f64::sin, libm_models::sin_table)] #[kani::stub(f64::cos, libm_models::cos_table)] #[kani::unwind(12)] c12_q_t2z_o6;
    #[kani::stub(f64::sin, libm_models::sin_table)] #[kani::stub(f64::cos, libm_models::cos_table)] #[kani::unwind(12)] c12_q_t2z_o7;
    #[kani::stub(f64::sin, libm_models::sin_table)] #[kani::stub(f64::cos, libm_models::cos_table)] #[kani::unwind(12)] c12_q_t2z_o8;
    #[kani::stub(f64::sin, libm_models::sin_table)] #[kani::stub(f64::cos, libm_models::cos_table)] #[kani::unwind(12)] c12_q_t2z_o9;
    #[kani::stub(f64::sin, libm_models::sin_table)] #[kani::stub(f64::cos, libm_models::cos_table)] #[kani::unwind(12)] c12_q_t2g_o0;
    #[kani::stub(f64::sin, libm_models::sin_table)] #[kani::stub(f64::cos, libm_models::cos_table)] #[kani::unwind(12)] c12_q_t2g_o1;
    #[kani::stub(f64::sin, libm_models::sin_table)] #[kani::stub(f64::cos, libm_models::cos_table)] #[kani::unwind(12)] c12_q_t2g_o2;
    #[kani::stub(f64::sin, libm_models::sin_table)] #[kani::stub(f64::cos, libm_models::cos_table)] #[kani::unwind(12)] c12_q_t2g_o3;
    #[kani::stub(f64::sin, libm_models::sin_table)] #[kani::stub(f64::cos, libm_models::cos_table)] #[kani::unwind(12)] c12_q_t2g_o4;
    #[kani::stub(f64::sin, libm_models::sin_table)] #[kani::stub(f64::cos, libm_models::cos_table)] #[kani::unwind(12)] c12_q_t2g_o5;
    #[kani::stub(f64::sin, libm_models::sin_table)] #[kani::stub(f64::cos, libm_models::cos_table)] #[kani::unwind(12)] c12_q_t2g_o6;
    #[kani::stub(f64::sin, libm_models::sin_table)] #[kani::stub(f64::cos, libm_models::cos_table)] #[kani::unwind(12)] c12_q_t2g_o7;
    #[kani::stub(f64::sin, libm_models::sin_table)] #[kani::stub(f64::cos, libm_models::cos_table)] #[kani::unwind(12)] c12_q_t2g_o8;
    #[kani::stub(f64::sin, libm_models::sin_table)] #[kani::stub(f64::cos, libm_models::cos_table)] #[kani::unwind(12)] c12_q_t2g_o9;
    #[kani::stub(f64::sin, libm_models::sin_table)] #[kani::stub(f64::cos, libm_models::cos_table)] #[kani::unwind(12)] c12_t_t2w_o0;
    #[kani::stub(f64::sin, libm_models::sin_table)] #[kani::stub(f64::cos, libm_models::cos_table)] #[kani::unwind(12)] c12_t_t2w_o1;
    #[kani::stub(f64::sin, libm_models::sin_table)] #[kani::stub(f64::cos, libm_models::cos_table)] #[kani::unwind(12)] c12_t_t2w_o2;
    #[kani::stub(f64::sin, libm_models::sin_table)] #[kani::stub(f64::cos, libm_models::cos_table)] #[kani::unwind(12)] c12_t_t2w_o3;
    #[kani::stub(f64::sin, libm_models::sin_table)] #[kani::stub(f64::cos, libm_models::cos_table)] #[kani::unwind(12)] c12_t_t2w_o4;
    #[kani::stub(f64::sin, libm_models::sin_table)] #[kani::stub(f64::cos, libm_models::cos_table)] #[kani::unwind(12)] c12_t_t2w_o5;
    #[kani::stub(f64::sin, libm_models::sin_table)] #[kani::stub(f64::cos, libm_models::cos_table)] #[kani::unwind(12)] c12_t_t2w_o6;
    #[kani::stub(f64::sin, libm_models::sin_table)] #[kani::stub(f64::cos, libm_models::cos_table)] #[kani::unwind(12)] c12_t_t2w_o7;
    #[kani::stub(f64::sin, libm_models::sin_table)] #[kani::stub(f64::cos, libm_models::cos_table)] #[kani::unwind(12)] c12_t_t2w_o8;
    #[kani::stub(f64::sin, libm_models::sin_table)] #[kani::stub(f64::cos, libm_models::cos_table)] #[kani::unwind(12)] c12_t_t2w_o9;
    #[kani::stub(f64::sin, libm_models::sin_table)] #[kani::stub(f64::cos, libm_models::cos_table)] #[kani::unwind(12)] c12_t_t2z_neg;
    #[kani::stub(f64::sin, libm_models::sin_table)] #[kani::stub(f64::cos, libm_models::cos_table)] #[kani::unwind(12)] c12_s_t3c_d2_00;
    #[kani::stub(f64::sin, libm_models::sin_table)] #[kani::stub(f64::cos, libm_models::cos_table)] #[kani::unwind(12)] c12_s_t3c_d2_01;
    #[kani::stub(f64::sin, libm_models::sin_table)] #[kani::stub(f64::cos, libm_models::cos_table)] #[kani::unwind(12)] c12_s_t3c_d2_02;
    #[kani::stub(f64::sin, libm_models::sin_table)] #[kani::stub(f64::cos, libm_models::cos_table)] #[kani::unwind(12)] c12_s_t3c_d2_03;
    #[kani::stub(f64::sin, libm_models::sin_table)] #[kani::stub(f64::cos, libm_models::cos_table)] #[kani::unwind(12)] c12_s_t3c_d2_04;
    #[kani::stub(f64::sin, libm_models::sin_table)] #[kani::stub(f64::cos, libm_models::cos_table)] #[kani::unwind(12)] c12_s_t3c_d2_05;
    #[kani::stub(f64::sin, libm_models::sin_table)] #[kani::stub(f64::cos, libm_models::cos_table)] #[kani::unwind(12)] c12_s_t3c_d2_06;
    #[kani::stub(f64::sin, libm_models::sin_table)] #[kani::stub(f64::cos, libm_models::cos_table)] #[kani::unwind(12)] c12_s_t3c_d2_07;
    #[kani::stub(f64::sin, libm_models::sin_table)] #[kani::stub(f64::cos, libm_models::cos_table)] #[kani::unwind(12)] c12_s_t3c_d2_08;
    #[kani::stub(f64::sin, libm_models::sin_table)] #[kani::stub(f64::cos, libm_models::cos_table)] #[kani::unwind(12)] c12_s_t3c_d2_09;
    #[kani::stub(f64::sin, libm_models::sin_table)] #[kani::stub(f64::cos, libm_models::cos_table)] #[kani::unwind(12)] c12_s_t3c_d2_10;
    #[kani::stub(f64::sin, libm_models::sin_table)] #[kani::stub(f64::cos, libm_models::cos_table)] #[kani::unwind(12)] c12_s_t3c_d2_11;
    #[kani::stub(f64::sin, libm_models::sin_table)] #[kani::stub(f64::cos, libm_models::cos_table)] #[kani::unwind(12)] c12_s_t3c_d2_12;
    #[kani::stub(f64::sin, libm_models::sin_table)] #[kani::stub(f64::cos, libm_models::cos_table)] #[kani::unwind(12)] c12_s_t3c_d2_13;
    #[kani::stub(f64::sin, libm_models::sin_table)] #[kani::stub(f64::cos, libm_models::cos_table)] #[kani::unwind(12)] c12_s_t3c_d2_14;
    #[kani::stub(f64::sin, libm_models::sin_table)] #[kani::stub(f64::cos, libm_models::cos_table)] #[kani::unwind(12)] c12_s_t3c_d2_15;
    #[kani::stub(f64::sin, libm_models::sin_table)] #[kani::stub(f64::cos, libm_models::cos_table)] #[kani::unwind(12)] c12_s_t3c_d2_16;
    #[kani::stub(f64::sin, libm_models::sin_table)] #[kani::stub(f64::cos, libm_models::cos_table)] #[kani::unwind(12)] c12_s_t3c_d2_17;
    #[kani::stub(f64::sin, libm_models::sin_table)] #[kani::stub(f64::cos, libm_models::cos_table)] #[kani::unwind(12)] c12_s_t3c_d2_18;
    #[kani::stub(f64::sin, libm_models::sin_table)] #[kani::stub(f64::cos, libm_models::cos_table)] #[kani::unwind(12)] c12_s_t3c_d2_19;
    #[kani::stub(f64::sin, libm_models::sin_table)] #[kani::stub(f64::cos, libm_models::cos_table)] #[kani::unwind(12)] c12_s_t3c_d2_20;
    #[kani::stub(f64::sin, libm_models::sin_table)] #[kani::stub(f64::cos, libm_models::cos_table)] #[kani::unwind(12)] c12_s_t3c_d2_21;
    #[kani::stub(f64::sin, libm_models::sin_table)] #[kani::stub(f64::cos, libm_models::cos_table)] #[kani::unwind(12)] c12_s_t3c_d2_22;
    #[kani::stub(f64::sin, libm_models::sin_table)] #[kani::stub(f64::cos, libm_models::cos_table)] #[kani::unwind(12)] c12_s_t3c_d2_23;
    #[kani::stub(f64::sin, libm_models::sin_table)] #[kani::stub(f64::cos, libm_models::cos_table)] #[kani::unwind(12)] c12_s_t3c_d3_00;
    #[kani::stub(f64::sin, libm_models::sin_table)] #[kani::stub(f64::cos, libm_models::cos_table)] #[kani::unwind(12)] c12_s_t3c_d3_01;
    #[kani::stub(f64::sin, libm_models::sin_table)] #[kani::stub(f64::cos, libm_models::cos_table)] #[kani::unwind(12)] c12_s_t3c_d3_02;
    #[kani::stub(f64::sin, libm_models::sin_table)] #[kani::stub(f64::cos, libm_models::cos_table)] #[kani::unwind(12)] c12_s_t3c_d3_03;
    #[kani::stub(f64::sin, libm_models::sin_table)] #[kani::stub(f64::cos, libm_models::cos_table)] #[kani::unwind(12)] c12_s_t3c_d3_04;
    #[kani::stub(f64::sin, libm_models::sin_table)] #[kani::stub(f64::cos, libm_models::cos_table)] #[kani::unwind(12)] c12_s_t3c_d3_05;
    #[kani::stub(f64::sin, libm_models::sin_table)] #[kani::stub(f64::cos, libm_models::cos_table)] #[kani::unwind(12)] c12_s_t3c_d3_06;
    #[kani::stub(f64::sin, libm_models::sin_table)] #[kani::stub(f64::cos, libm_models::cos_table)] #[kani::unwind(12)] c12_s_t3c_d3_07;
    #[kani::stub(f64::sin, libm_models::sin_table)] #[kani::stub(f64::cos, libm_models::cos_table)] #[kani::unwind(12)] c12_s_t3c_d3_08;
    #[kani::stub(f64::sin, libm_models::sin_table)] #[kani::stub(f64::cos, libm_models::cos_table)] #[kani::unwind(12)] c12_s_t3c_d3_09;
    #[kani::stub(f64::sin, libm_models::sin_table)] #[kani::stub(f64::cos, libm_models::cos_table)] #[kani::unwind(12)] c12_s_t3c_d3_10;
    #[kani::stub(f64::sin, libm_models::sin_table)] #[kani::stub(f64::cos, libm_models::cos_table)] #[kani::unwind(12)] c12_s_t3c_d3_11;
    #[kani::stub(f64::sin, libm_models::sin_table)] #[kani::stub(f64::cos, libm_models::cos_table)] #[kani::unwind(12)] c12_s_t3c_d3_12;
    #[kani::stub(f64::sin, libm_models::sin_table)] #[kani::stub(f64::cos, libm_models::cos_table)] #[kani::unwind(12)] c12_s_t3c_d3_13;
    #[kani::stub(f64::sin, libm_models::sin_table)] #[kani::stub(f64::cos, libm_models::cos_table)] #[kani::unwind(12)] c12_s_t3c_d3_14;
    #[kani::stub(f64::sin, libm_models::sin_table)] #[kani::stub(f64::cos, libm_models::cos_table)] #[kani::unwind(12)] c12_s_t3c_d3_15;
    #[kani::stub(f64::sin, libm_models::sin_table)] #[kani::stub(f64::cos, libm_models::cos_table)] #[kani::unwind(12)] c12_s_t3c_d4_00;
    #[kani::stub(f64::sin, libm_models::sin_table)] #[kani::stub(f64::cos, libm_models::cos_table)] #[kani::unwind(12)] c12_s_t3c_d4_01;
    #[kani::stub(f64::sin, libm_models::sin_table)] #[kani::stub(f64::cos, libm_models::cos_table)] #[kani::unwind(12)] c12_s_t3c_d4_02;
    #[kani::stub(f64::sin, libm_models::sin_table)] #[kani::stub(f64::cos, libm_models::cos_table)] #[kani::unwind(12)] c12_s_t3c_d4_03;
    #[kani::stub(f64::sin, libm_models::sin_table)] #[kani::stub(f64::cos, libm_models::cos_table)] #[kani::unwind(12)] c12_s_t3c_d4_04;
    #[kani::stub(f64::sin, libm_models::sin_table)] #[kani::stub(f64::cos, libm_models::cos_table)] #[kani::unwind(12)] c12_s_t3c_d4_05;
    #[kani::stub(f64::sin, libm_models::sin_table)] #[kani::stub(f64::cos, libm_models::cos_table)] #[kani::unwind(12)] c12_s_t3c_d4_06;
    #[kani::stub(f64::sin, libm_models::sin_table)] #[kani::stub(f64::cos, libm_models::cos_table)] #[kani::unwind(12)] c12_s_t3c_d4_07;
    #[kani::stub(f64::sin, libm_models::sin_table)] #[kani::stub(f64::cos, libm_models::cos_table)] #[kani::unwind(12)] c12_s_t3c_d4_08;
    #[kani::stub(f64::sin, libm_models::sin_table)] #[kani::stub(f64::cos, libm_models::cos_table)] #[kani::unwind(12)] c12_s_t3c_d4_09;
    #[kani::stub(f64::sin, libm_models::sin_table)] #[kani::stub(f64::cos, libm_models::cos_table)] #[kani::unwind(12)] c12_s_t3c_d4_10;
    #[kani::stub(f64::sin, libm_models::sin_table)] #[kani::stub(f64::cos, libm_models::cos_table)] #[kani::unwind(12)] c12_s_t3c_d4_11;
    #[kani::stub(f64::sin, libm_models::sin_table)] #[kani::stub(f64::cos, libm_models::cos_table)] #[kani::unwind(12)] c12_t_t3g_25;
    #[kani::stub(f64::sin, libm_models::sin_table)] #[kani::stub(f64::cos, libm_models::cos_table)] #[kani::unwind(12)] c12_t_t3g_71;
    #[kani::stub(f64::sin, libm_models::sin_table)] #[kani::stub(f64::cos, libm_models::cos_table)] #[kani::unwind(12)] c12_t_t3g_46;
    #[kani::stub(f64::sin, libm_models::sin_table)] #[kani::stub(f64::cos, libm_models::cos_table)] #[kani::unwind(12)] c12_t_t3g_33;
}
