// Regenerates the libm contract tables from THIS platform's libm (DESIGN.md §4.1) and
// validates the assumptions the Kani models make. Usage: l21v-tablegen <out-dir>
// Exit status 1 if a modelling assumption does not hold on this platform.
use std::fmt::Write as _;

include!("../../../common/utf8.rs");
include!("../../../common/decimal_model.rs");

const EMIN: i64 = -300;
const EMAX: i64 = 300;

fn pow2(k: i64) -> f64 {
    f64::from_bits(((k + 1023) as u64) << 52)
}

fn main() {
    let out = std::env::args().nth(1).expect("out dir");
    let mut ok = true;
    // powi exact on powers of 2 and 16
    for n in -255i32..=255 {
        if 16f64.powi(n).to_bits() != pow2(4 * n as i64).to_bits() {
            if (4 * n as i64).abs() < 1020 {
                eprintln!("powi(16,{n}) not exact");
                ok = false;
            }
        }
    }
    for n in -1019i32..=1019 {
        if 2f64.powi(n).to_bits() != pow2(n as i64).to_bits() {
            eprintln!("powi(2,{n}) not exact");
            ok = false;
        }
    }
    // log2 zones
    let mut klo = vec![];
    let mut khi = vec![];
    for e in EMIN..=EMAX {
        let base = pow2(e).to_bits();
        if pow2(e).log2() != e as f64 {
            eprintln!("log2(2^{e}) != {e}");
            ok = false;
        }
        // zone above 2^e
        let mut k: u64 = 0;
        for j in 1..4096u64 {
            let l = f64::from_bits(base + j).log2();
            if l == e as f64 {
                if j != k + 1 {
                    eprintln!("log2 not monotone above 2^{e} at j={j}");
                    ok = false;
                }
                k = j;
            } else if !(l > e as f64 && l < (e + 1) as f64) {
                eprintln!("log2 outside (e,e+1) above 2^{e} at j={j}: {l}");
                ok = false;
            }
        }
        klo.push(k);
        // zone below 2^(e+1)
        let top = pow2(e + 1).to_bits();
        let mut k: u64 = 0;
        for j in 1..4096u64 {
            let l = f64::from_bits(top - j).log2();
            if l == (e + 1) as f64 {
                if j != k + 1 {
                    eprintln!("log2 not monotone below 2^{} at j={j}", e + 1);
                    ok = false;
                }
                k = j;
            } else if !(l > e as f64 && l < (e + 1) as f64) {
                eprintln!("log2 outside (e,e+1) below 2^{} at j={j}: {l}", e + 1);
                ok = false;
            }
        }
        khi.push(k);
    }
    // strict interior spot checks: a few thousand mantissas per exponent stay strictly inside
    let mut seed = 0x9e3779b97f4a7c15u64;
    for e in EMIN..=EMAX {
        let base = pow2(e).to_bits();
        for _ in 0..2000 {
            seed ^= seed << 13;
            seed ^= seed >> 7;
            seed ^= seed << 17;
            let frac = seed & ((1u64 << 52) - 1);
            let idx = (e - EMIN) as usize;
            if frac <= klo[idx] || frac >= (1u64 << 52) - khi[idx] {
                continue;
            }
            let l = f64::from_bits(base + frac).log2();
            if !(l > e as f64 && l < (e + 1) as f64) {
                eprintln!("log2 interior violated e={e} frac={frac:#x}");
                ok = false;
            }
        }
    }
    // the UTF-8 model used in place of core::str::from_utf8: exhaustive agreement on all strings of <= 3 bytes
    let mut bad = 0u64;
    for a in 0..=255u8 {
        if utf8_valid(&[a]) != std::str::from_utf8(&[a]).is_ok() {
            bad += 1;
        }
        for b in 0..=255u8 {
            if utf8_valid(&[a, b]) != std::str::from_utf8(&[a, b]).is_ok() {
                bad += 1;
            }
            for c in 0..=255u8 {
                if utf8_valid(&[a, b, c]) != std::str::from_utf8(&[a, b, c]).is_ok() {
                    bad += 1;
                }
                if a >= 0xF0 && c % 16 == 0 {
                    for d in 0..=255u8 {
                        if utf8_valid(&[a, b, c, d]) != std::str::from_utf8(&[a, b, c, d]).is_ok() {
                            bad += 1;
                        }
                    }
                }
            }
        }
    }
    if bad != 0 {
        eprintln!("utf8 model disagrees with core::str::from_utf8 on {bad} strings");
        ok = false;
    }
    // rust_decimal models vs the real crate, inside (and beyond) the C16 harness bound
    {
        let mut bad = 0u64;
        let mut n = 0u64;
        let mut seed = 0x2545F4914F6CDD1Du64;
        let factor = lef21::LefDecimal::from(10_000u32);
        let same = |x: lef21::LefDecimal, y: lef21::LefDecimal| x.mantissa() == y.mantissa() && x.scale() == y.scale() && x.is_sign_negative() == y.is_sign_negative() || (x.mantissa() == 0 && y.mantissa() == 0 && x.scale() == y.scale());
        for scale in 0u32..=8 {
            let mut vals: Vec<i64> = vec![0, 1, -1, 9, 10, -10, 99, 100, 150, -150, 1 << 20, -(1 << 20), (1 << 20) - 1, 999_999, 1_000_000, -1_000_001];
            for _ in 0..250_000 {
                seed ^= seed << 13;
                seed ^= seed >> 7;
                seed ^= seed << 17;
                vals.push(((seed >> 20) as i64 % (1 << 22)) - (1 << 21));
            }
            for m in vals {
                let d = lef21::LefDecimal::new(m, scale);
                let prod = &d * factor;
                n += 3;
                // comparisons: the product against its own integral part, a neighbour and a differently scaled equal
                let others = [prod.trunc(), prod + lef21::LefDecimal::new(1, scale.min(6)), lef21::LefDecimal::from_i128_with_scale(prod.mantissa() * 10, prod.scale() + 1)];
                for o in others {
                    n += 2;
                    if prod.cmp(&o) != cmp_model(&prod, &o) || (prod == o) != eq_model(&prod, &o) {
                        bad += 1;
                        if bad <= 8 {
                            eprintln!("decimal model mismatch: cmp/eq of {prod} and {o}");
                        }
                    }
                }
                for (what, real, model) in [("mul", prod, mul_model(&d, factor)), ("trunc", prod.trunc(), trunc_model(&prod)), ("fract", prod.fract(), fract_model(&prod))] {
                    if !same(real, model) {
                        bad += 1;
                        if bad <= 8 {
                            eprintln!("decimal model mismatch: {what} of {m}e-{scale}: real ({}, {}) model ({}, {})", real.mantissa(), real.scale(), model.mantissa(), model.scale());
                        }
                    }
                }
            }
        }
        if bad != 0 {
            eprintln!("rust_decimal models disagree with the real crate on {bad} of {n} operations");
            ok = false;
        }
    }
    let mut s = String::new();
    writeln!(s, "// generated by l21v-tablegen from the platform libm; do not edit").unwrap();
    writeln!(s, "pub const LOG2_EMIN: i64 = {EMIN};\npub const LOG2_EMAX: i64 = {EMAX};").unwrap();
    writeln!(s, "pub const LOG2_KLO: [u16; {}] = {:?};", klo.len(), klo).unwrap();
    writeln!(s, "pub const LOG2_KHI: [u16; {}] = {:?};", khi.len(), khi).unwrap();
    // sin / cos of right angles (and their negatives, and 360)
    let angles: [f64; 10] = [0., 90., 180., 270., 360., -90., -180., -270., -360., -0.];
    let mut seen: Vec<u64> = vec![];
    let mut rows = vec![];
    for a in angles {
        let r = a.to_radians();
        if seen.contains(&r.to_bits()) {
            continue;
        }
        seen.push(r.to_bits());
        rows.push(format!("({:#x}, {:#x}, {:#x})", r.to_bits(), r.sin().to_bits(), r.cos().to_bits()));
        // the rounding the repository relies on: |sin|,|cos| are within 1e-15 of 0 or ±1
        for v in [r.sin(), r.cos()] {
            let d = (v.abs() - v.abs().round()).abs();
            if d > 1e-15 {
                eprintln!("sin/cos of {a} not within 1e-15 of an integer: {v}");
                ok = false;
            }
        }
    }
    writeln!(s, "pub const SINCOS: [(u64, u64, u64); {}] = [{}];", rows.len(), rows.join(", ")).unwrap();
    std::fs::create_dir_all(&out).unwrap();
    std::fs::write(format!("{out}/libm_tables.rs"), s).unwrap();
    if !ok {
        std::process::exit(1);
    }
    println!("tablegen ok: klo max {}, khi max {}", klo.iter().max().unwrap(), khi.iter().max().unwrap());
}
