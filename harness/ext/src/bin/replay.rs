// Native replay of a counterexample: l21v-replay <harness> <vals.json>
// vals.json: {"vals": [[b0,b1,..], ...]} — the byte vectors Kani's concrete playback printed,
// in draw order. Prints one JSON object describing what the REAL code did.
#[cfg(kani)]
fn main() {}

#[cfg(not(kani))]
use std::panic;

#[cfg(not(kani))]
fn parse_vals(txt: &str) -> Vec<Vec<u8>> {
    // minimal parser for [[..],[..]] after the "vals" key (no serde dependency needed here)
    let start = txt.find("\"vals\"").expect("vals key");
    let rest = &txt[start..];
    let open = rest.find('[').unwrap();
    let mut depth = 0;
    let mut cur: Vec<u8> = vec![];
    let mut num = String::new();
    let mut out = vec![];
    for ch in rest[open..].chars() {
        match ch {
            '[' => {
                depth += 1;
                if depth == 2 {
                    cur = vec![];
                }
            }
            ']' => {
                if depth == 2 {
                    if !num.is_empty() {
                        cur.push(num.parse::<u16>().unwrap() as u8);
                        num.clear();
                    }
                    out.push(cur.clone());
                }
                depth -= 1;
                if depth == 0 {
                    break;
                }
            }
            ',' => {
                if depth == 2 && !num.is_empty() {
                    cur.push(num.parse::<u16>().unwrap() as u8);
                    num.clear();
                }
            }
            c if c.is_ascii_digit() => num.push(c),
            _ => {}
        }
    }
    out
}

#[cfg(not(kani))]
fn esc(s: &str) -> String {
    let mut o = String::new();
    for c in s.chars() {
        match c {
            '"' => o.push_str("\\\""),
            '\\' => o.push_str("\\\\"),
            '\n' => o.push_str("\\n"),
            c if (c as u32) < 0x20 => o.push_str(&format!("\\u{:04x}", c as u32)),
            c => o.push(c),
        }
    }
    o
}

#[cfg(not(kani))]
fn main() {
    let args: Vec<String> = std::env::args().collect();
    let name = &args[1];
    let txt = std::fs::read_to_string(&args[2]).expect("read vals");
    let vals = parse_vals(&txt);
    let loc = std::sync::Arc::new(std::sync::Mutex::new(String::new()));
    let l2 = loc.clone();
    panic::set_hook(Box::new(move |info| {
        *l2.lock().unwrap() = info.location().map(|l| format!("{}:{}", l.file(), l.line())).unwrap_or_default();
    }));
    let (found, rejected, failed, notes, tags, pos, underflow, panicked) = l21v_ext::replay(name, vals);
    let panicked = panicked.map(|m| format!("{} @ {}", m, loc.lock().unwrap()));
    struct S { rejected: Option<String>, failed: Vec<String>, notes: Vec<(String, String)>, tags: Vec<String>, pos: usize, underflow: bool }
    let s = S { rejected, failed, notes, tags, pos, underflow };
    let verdict = if !found {
        "unknown-harness"
    } else if s.rejected.is_some() && panicked.is_none() {
        "rejected"
    } else if panicked.is_some() {
        if s.rejected.is_some() { "rejected" } else { "panic" }
    } else if !s.failed.is_empty() {
        "check-failed"
    } else if s.underflow {
        "underflow"
    } else {
        "pass"
    };
    let notes: Vec<String> = s.notes.iter().map(|(k, v)| format!("\"{}\": \"{}\"", esc(k), esc(v))).collect();
    let tags: Vec<String> = s.tags.iter().map(|t| format!("\"{}\"", esc(t))).collect();
    let failed: Vec<String> = s.failed.iter().map(|t| format!("\"{}\"", esc(t))).collect();
    println!(
        "{{\"harness\": \"{}\", \"verdict\": \"{}\", \"failed\": [{}], \"panic\": {}, \"tags\": [{}], \"notes\": {{{}}}, \"values_used\": {}, \"profile\": \"{}\"}}",
        esc(name),
        verdict,
        failed.join(", "),
        match &panicked { Some(p) => format!("\"{}\"", esc(p)), None => "null".into() },
        tags.join(", "),
        notes.join(", "),
        s.pos,
        if cfg!(debug_assertions) { "dev" } else { "release" }
    );
}
