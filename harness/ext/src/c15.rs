// C15 — the GDSII real codec is exact over the format's range (DESIGN.md §5 C15)
// encodes: gds21::GdsFloat64::encode, gds21::GdsFloat64::decode
// stubs: f64::powi -> powi_model (exact on bases 2/16), f64::log2 -> log2_model (platform table)
#[allow(unused_imports)]
use crate::*;
use gds21::GdsFloat64;

const M52: u64 = (1u64 << 52) - 1;

fn pow2(k: i64) -> f64 {
    f64::from_bits(((k + 1023) as u64) << 52)
}

/// draw a finite double with 16^-64 <= |x| < 16^63
fn in_range<S: Src>(s: &mut S) -> f64 {
    let x = s.f64();
    let ax = if x < 0.0 { -x } else { x };
    vassume!(s, ax >= pow2(-256) && ax < pow2(252));
    x
}

fn tags<S: Src>(s: &mut S, x: f64) {
    let bits = x.to_bits();
    let e = ((bits >> 52) & 0x7ff) as i64 - 1023;
    let frac = bits & M52;
    s.tag("neg", x < 0.0);
    // within 64 ulps below a power of 16
    s.tag("just_below_pow16", (e + 1).rem_euclid(4) == 0 && frac >= (1u64 << 52) - 64);
    s.tag("just_above_pow16", e.rem_euclid(4) == 0 && frac <= 64);
    vnote!(s, "x", "{:e} bits={:#018x} e={} frac={:#x}", x, bits, e, frac);
}

/// F1: decode(encode(x)) == x, encode does not panic
pub fn c15_q_f1_roundtrip<S: Src>(s: &mut S) {
    let x = in_range(s);
    tags(s, x);
    let enc = GdsFloat64::encode(x);
    let dec = GdsFloat64::decode(enc);
    vnote!(s, "enc", "{:#018x} dec={:e}", enc, dec);
    vcover!(s, x < 0.0, "negative input reachable");
    vcover!(s, x.to_bits() & M52 == M52, "all-ones mantissa reachable");
    vcheck!(s, dec == x, "c15.f1 decode(encode(x)) == x");
}

/// F1 at zero
pub fn c15_q_f1_zero<S: Src>(s: &mut S) {
    let neg = s.bool();
    let x = if neg { -0.0 } else { 0.0 };
    let enc = GdsFloat64::encode(x);
    vcheck!(s, enc == 0, "c15.f1 encode(0) == 0");
    vcheck!(s, GdsFloat64::decode(enc) == 0.0, "c15.f1 decode(0) == 0");
    vcover!(s, neg, "negative zero reachable");
}

/// F2: encode(x) is the normalised excess-64 base-16 representation whose exact value is x
pub fn c15_q_f2_exact<S: Src>(s: &mut S) {
    let x = in_range(s);
    tags(s, x);
    let u = GdsFloat64::encode(x);
    vnote!(s, "enc", "{:#018x}", u);
    let bits = x.to_bits();
    let e = ((bits >> 52) & 0x7ff) as i64 - 1023;
    let m53: u64 = (1u64 << 52) | (bits & M52);
    let mant = u & 0x00FF_FFFF_FFFF_FFFF;
    let exp7 = ((u >> 56) & 0x7f) as i64;
    vcheck!(s, (u >> 63 == 1) == (x < 0.0), "c15.f2 sign bit");
    vcheck!(s, mant >= (1u64 << 52), "c15.f2 normalised (top hex digit non-zero)");
    // x = m53 * 2^(e-52);  value(u) = mant * 2^(4*(exp7-78)); equal iff mant == m53 << sh with
    // sh = (e-52) - 4*(exp7-78) in 0..=3
    let sh = (e - 52) - 4 * (exp7 - 78);
    vcheck!(s, sh >= 0 && sh <= 3, "c15.f2 exponent");
    if sh >= 0 && sh <= 3 {
        vcheck!(s, mant == m53 << sh, "c15.f2 mantissa exact");
    }
    vcover!(s, sh == 3, "shift 3 reachable");
}

/// independent reference: correctly rounded (nearest-even) double of a normalised GDS real
fn ref_decode_bits(u: u64) -> u64 {
    let sign = u >> 63;
    let exp7 = ((u >> 56) & 0x7f) as i64;
    let mant = u & 0x00FF_FFFF_FFFF_FFFF;
    let p = 63 - mant.leading_zeros() as i64; // top bit position, 52..=55
    let shift = p - 52;
    let mut q = mant >> shift;
    let mut e = 52 + shift + 4 * (exp7 - 78);
    if shift > 0 {
        let rem = mant & ((1u64 << shift) - 1);
        let half = 1u64 << (shift - 1);
        if rem > half || (rem == half && (q & 1) == 1) {
            q += 1;
        }
        if q == (1u64 << 53) {
            q = 1u64 << 52;
            e += 1;
        }
    }
    (sign << 63) | (((e + 1023) as u64) << 52) | (q & M52)
}

/// F3: decode of every normalised real is the correctly rounded double
pub fn c15_q_f3_decode<S: Src>(s: &mut S) {
    let u = s.u64();
    let mant = u & 0x00FF_FFFF_FFFF_FFFF;
    vassume!(s, mant >= (1u64 << 52));
    vnote!(s, "u", "{:#018x}", u);
    let d = GdsFloat64::decode(u);
    let want = ref_decode_bits(u);
    vnote!(s, "got", "{:#018x} want {:#018x}", d.to_bits(), want);
    vcover!(s, mant & 7 == 4 && mant >> 55 == 1, "tie case reachable");
    vcover!(s, u >> 63 == 1, "negative reachable");
    vcheck!(s, d.to_bits() == want, "c15.f3 decode correctly rounded");
}

/// F4: re-encoding a real with <= 53 significant bits reproduces the same eight bytes
pub fn c15_q_f4_reencode<S: Src>(s: &mut S) {
    let u = s.u64();
    let mant = u & 0x00FF_FFFF_FFFF_FFFF;
    vassume!(s, mant >= (1u64 << 52));
    let p = 63 - mant.leading_zeros() as i64;
    let shift = p - 52;
    vassume!(s, mant & ((1u64 << shift) - 1) == 0);
    vnote!(s, "u", "{:#018x}", u);
    s.tag("exp7_zero", (u >> 56) & 0x7f == 0);
    let d = GdsFloat64::decode(u);
    let u2 = GdsFloat64::encode(d);
    vnote!(s, "reenc", "{:#018x} via {:e}", u2, d);
    vcover!(s, shift == 3, "shift 3 reachable");
    vcheck!(s, u2 == u, "c15.f4 encode(decode(u)) == u");
}

harnesses! { k, "sel_c15.rs";
    #[kani::stub(f64::powi, libm_models::powi_model)]
    #[kani::stub(f64::log2, libm_models::log2_model)]
    c15_q_f1_roundtrip;
    #[kani::stub(f64::powi, libm_models::powi_model)]
    #[kani::stub(f64::log2, libm_models::log2_model)]
    c15_q_f1_zero;
    #[kani::stub(f64::powi, libm_models::powi_model)]
    #[kani::stub(f64::log2, libm_models::log2_model)]
    c15_q_f2_exact;
    #[kani::stub(f64::powi, libm_models::powi_model)]
    #[kani::stub(f64::log2, libm_models::log2_model)]
    c15_q_f3_decode;
    #[kani::stub(f64::powi, libm_models::powi_model)]
    #[kani::stub(f64::log2, libm_models::log2_model)]
    c15_q_f4_reencode;
}
