// C13 — point-in-shape answers agree with exact geometry (DESIGN.md §5 C13)
// encodes: layout21raw::Rect::contains, Polygon::contains, Path::contains, Vec<Point>::bbox, BoundBox::contains, BoundBox::union, Point::bbox
// bound *: polygons with N in {3,4,5} vertices (6 thorough) in [-R,R]^2, R = 2..3 (quick) / up to 6 (thorough), query point in the same box; rectangles over all of i64; Manhattan paths of 2..4 points in [-6,6]^2, width 0..6
#[allow(unused_imports)]
use crate::*;
use layout21raw::{BoundBoxTrait, Path, Point, Polygon, Rect, ShapeTrait};

macro_rules! oracle_mod {
    ($m:ident, $t:ty) => {
        #[allow(dead_code)]
        pub mod $m {
            pub type P = ($t, $t);

            pub fn cross(o: P, a: P, b: P) -> $t {
                (a.0 - o.0) * (b.1 - o.1) - (a.1 - o.1) * (b.0 - o.0)
            }
            pub fn in_box(a: P, b: P, p: P) -> bool {
                p.0 >= a.0.min(b.0) && p.0 <= a.0.max(b.0) && p.1 >= a.1.min(b.1) && p.1 <= a.1.max(b.1)
            }
            /// p lies on the closed segment ab
            pub fn on_seg(a: P, b: P, p: P) -> bool {
                cross(a, b, p) == 0 && in_box(a, b, p)
            }
            pub fn sgn(v: $t) -> $t {
                if v > 0 {
                    1
                } else if v < 0 {
                    -1
                } else {
                    0
                }
            }
            /// closed segments ab and cd share at least one point
            pub fn seg_meet(a: P, b: P, c: P, d: P) -> bool {
                let d1 = sgn(cross(c, d, a));
                let d2 = sgn(cross(c, d, b));
                let d3 = sgn(cross(a, b, c));
                let d4 = sgn(cross(a, b, d));
                if d1 * d2 < 0 && d3 * d4 < 0 {
                    return true;
                }
                on_seg(c, d, a) || on_seg(c, d, b) || on_seg(a, b, c) || on_seg(a, b, d)
            }
            /// simple polygon: no zero-length edge, adjacent edges share only their vertex (no fold-back), non-adjacent edges disjoint.
            /// Collinear consecutive vertices (straight angles) are allowed.
            pub fn is_simple(p: &[P]) -> bool {
                let n = p.len();
                let mut i = 0;
                while i < n {
                    let a = p[i];
                    let b = p[(i + 1) % n];
                    let c = p[(i + 2) % n];
                    if a == b {
                        return false;
                    }
                    // fold-back: b->c runs back over a->b
                    if cross(a, b, c) == 0 && (a.0 - b.0) * (c.0 - b.0) + (a.1 - b.1) * (c.1 - b.1) > 0 {
                        return false;
                    }
                    let mut j = i + 2;
                    while j < n {
                        if !(i == 0 && j == n - 1) {
                            if seg_meet(a, b, p[j], p[(j + 1) % n]) {
                                return false;
                            }
                        }
                        j += 1;
                    }
                    i += 1;
                }
                true
            }
            /// exact closed-region membership: boundary by cross product, interior by the half-open crossing rule with
            /// cross-multiplied comparisons (no division)
            pub fn oracle(p: &[P], q: P) -> bool {
                let n = p.len();
                let mut inside = false;
                let mut i = 0;
                while i < n {
                    let a = p[i];
                    let b = p[(i + 1) % n];
                    if on_seg(a, b, q) {
                        return true;
                    }
                    if (a.1 > q.1) != (b.1 > q.1) {
                        // x of the edge at height q.y is to the right of q.x  <=>  cross-multiplied inequality
                        let lhs = (b.0 - a.0) * (q.1 - a.1) - (q.0 - a.0) * (b.1 - a.1);
                        let right = if b.1 > a.1 { lhs > 0 } else { lhs < 0 };
                        if right {
                            inside = !inside;
                        }
                    }
                    i += 1;
                }
                inside
            }

        }
    };
}
// the oracle runs in 16-bit arithmetic on the small grids (|coordinate| <= 9, all intermediate values < 2^11) and in 64-bit arithmetic
// for the large-coordinate harness; the code under test always computes in isize
oracle_mod!(o32, i16);
oracle_mod!(o64, i64);
use o32::*;

fn small<S: Src>(s: &mut S, r: i16) -> i16 {
    let v = s.i8() as i16;
    vassume!(s, v >= -r && v <= r);
    v
}
fn pt(x: i64, y: i64) -> Point {
    Point::new(x as isize, y as isize)
}
fn pts_n<const N: usize>(p: &[P; N]) -> Vec<Point> {
    let mut v = Vec::with_capacity(N);
    let mut i = 0;
    while i < N {
        v.push(pt(p[i].0 as i64, p[i].1 as i64));
        i += 1;
    }
    v
}

fn poly_body<S: Src, const N: usize>(s: &mut S, r: i16) {
    let mut p = [(0i16, 0i16); N];
    let mut i = 0;
    while i < N {
        p[i] = (small(s, r), small(s, r));
        i += 1;
    }
    let q = (small(s, r), small(s, r));
    // a triangle is simple iff it is non-degenerate
    vassume!(s, if N == 3 { cross(p[0], p[1], p[2]) != 0 } else { is_simple(&p) });
    let want = oracle(&p, q);
    vnote!(s, "in", "poly={:?} q={:?} want={}", p, q, want);
    // input classes (native replay only) for known-finding matching
    #[cfg(not(kani))]
    {
        let mut on_edge = false;
        let mut ray_vertex = false;
        for i in 0..N {
            on_edge |= on_seg(p[i], p[(i + 1) % N], q);
            ray_vertex |= p[i].1 == q.1 && p[i].0 > q.0;
        }
        s.tag("on_boundary", on_edge);
        s.tag("ray_through_vertex", ray_vertex && !on_edge);
        s.tag("outside", !want);
    }
    let poly = Polygon { points: pts_n(&p) };
    let got = poly.contains(&pt(q.0 as i64, q.1 as i64));
    vnote!(s, "got", "{}", got);
    vcover!(s, p[1] == q, "query on a vertex reachable");
    vcover!(s, on_seg(p[0], p[1], q) && p[0] != q && p[1] != q, "query strictly on an edge reachable");
    vcover!(s, !want && p[0].1 == q.1 && p[0].0 > q.0, "outside with ray through a vertex reachable");
    vcover!(s, want && !on_seg(p[0], p[1], q) && !on_seg(p[1], p[2], q) && !on_seg(p[N - 1], p[0], q), "interior reachable");
    vcheck!(s, got == want, "c13.g2 polygon contains == exact closed-region membership");
    core::mem::forget(poly);
}
pub fn c13_q_g2_tri_r3<S: Src>(s: &mut S) {
    poly_body::<S, 3>(s, 3)
}
pub fn c13_q_g2_quad_r1<S: Src>(s: &mut S) {
    poly_body::<S, 4>(s, 1)
}
pub fn c13_t_g2_quad_r2<S: Src>(s: &mut S) {
    poly_body::<S, 4>(s, 2)
}
pub fn c13_t_g2_tri_r4<S: Src>(s: &mut S) {
    poly_body::<S, 3>(s, 4)
}
pub fn c13_t_g2_tri_r6<S: Src>(s: &mut S) {
    poly_body::<S, 3>(s, 6)
}
pub fn c13_x_g2_quad_r3<S: Src>(s: &mut S) {
    poly_body::<S, 4>(s, 3)
}
pub fn c13_x_g2_quad_r4<S: Src>(s: &mut S) {
    poly_body::<S, 4>(s, 4)
}
pub fn c13_x_g2_pent_r2<S: Src>(s: &mut S) {
    poly_body::<S, 5>(s, 2)
}
pub fn c13_x_g2_pent_r3<S: Src>(s: &mut S) {
    poly_body::<S, 5>(s, 3)
}
pub fn c13_x_g2_hex_r2<S: Src>(s: &mut S) {
    poly_body::<S, 6>(s, 2)
}

/// a triangle with one vertex repeated consecutively answers like the triangle
fn repeated_body<S: Src>(s: &mut S, which: u8) {
    let r = 3;
    let p = [(small(s, r), small(s, r)), (small(s, r), small(s, r)), (small(s, r), small(s, r))];
    let q = (small(s, r), small(s, r));
    vassume!(s, cross(p[0], p[1], p[2]) != 0);
    let want = oracle(&p, q);
    let v: [P; 4] = match which {
        0 => [p[0], p[0], p[1], p[2]],
        1 => [p[0], p[1], p[1], p[2]],
        _ => [p[0], p[1], p[2], p[2]],
    };
    vnote!(s, "in", "poly={:?} q={:?} want={}", v, q, want);
    s.tag("outside", !want);
    let poly = Polygon { points: pts_n(&v) };
    let got = poly.contains(&pt(q.0 as i64, q.1 as i64));
    vcover!(s, want && p[0] != q, "inside with a repeated vertex reachable");
    vcheck!(s, got == want, "c13.g2 repeated vertex does not change the answer");
    core::mem::forget(poly);
}

pub fn c13_t_g2_repeat0<S: Src>(s: &mut S) {
    repeated_body(s, 0)
}
pub fn c13_q_g2_repeat1<S: Src>(s: &mut S) {
    repeated_body(s, 1)
}
pub fn c13_t_g2_repeat2<S: Src>(s: &mut S) {
    repeated_body(s, 2)
}

/// larger coordinates: the arithmetic inside contains must not overflow or truncate differently
pub fn c13_x_g2_tri_large<S: Src>(s: &mut S) {
    let lim = 1i64 << 20;
    let mut p = [(0i64, 0i64); 3];
    let mut i = 0;
    while i < 3 {
        let x = s.i32() as i64;
        let y = s.i32() as i64;
        vassume!(s, x >= -lim && x <= lim && y >= -lim && y <= lim);
        p[i] = (x, y);
        i += 1;
    }
    let qx = s.i32() as i64;
    let qy = s.i32() as i64;
    vassume!(s, qx >= -lim && qx <= lim && qy >= -lim && qy <= lim);
    vassume!(s, o64::cross(p[0], p[1], p[2]) != 0);
    let want = o64::oracle(&p, (qx, qy));
    vnote!(s, "in", "poly={:?} q=({},{}) want={}", p, qx, qy, want);
    let poly = Polygon { points: vec![pt(p[0].0, p[0].1), pt(p[1].0, p[1].1), pt(p[2].0, p[2].1)] };
    let got = poly.contains(&pt(qx, qy));
    vcover!(s, want, "inside reachable");
    vcheck!(s, got == want, "c13.g2 polygon contains == exact membership (large coordinates)");
    core::mem::forget(poly);
}

/// G1: rectangles, any corner order, all of i64
pub fn c13_q_g1_rect<S: Src>(s: &mut S) {
    let (x0, y0, x1, y1, qx, qy) = (s.i64(), s.i64(), s.i64(), s.i64(), s.i64(), s.i64());
    vnote!(s, "in", "rect=({},{})-({},{}) q=({},{})", x0, y0, x1, y1, qx, qy);
    let r = Rect { p0: pt(x0, y0), p1: pt(x1, y1) };
    let want = qx >= x0.min(x1) && qx <= x0.max(x1) && qy >= y0.min(y1) && qy <= y0.max(y1);
    let got = r.contains(&pt(qx, qy));
    vcover!(s, want && x0 > x1 && y0 < y1, "inside with swapped corners reachable");
    vcover!(s, want && qx == x1 && qy == y0, "corner reachable");
    vcheck!(s, got == want, "c13.g1 rect contains == closed box");
}

/// bounding box of a point list and BoundBox::contains
pub fn c13_q_bbox<S: Src>(s: &mut S) {
    let n = 5;
    let mut p = [(0i64, 0i64); 5];
    let mut i = 0;
    while i < n {
        p[i] = (s.i32() as i64, s.i32() as i64);
        i += 1;
    }
    let q = (s.i32() as i64, s.i32() as i64);
    vnote!(s, "in", "pts={:?} q={:?}", p, q);
    let v = vec![pt(p[0].0, p[0].1), pt(p[1].0, p[1].1), pt(p[2].0, p[2].1), pt(p[3].0, p[3].1), pt(p[4].0, p[4].1)];
    let bb = v.bbox();
    let (mut xlo, mut xhi, mut ylo, mut yhi) = (p[0].0, p[0].0, p[0].1, p[0].1);
    let mut i = 1;
    while i < n {
        xlo = xlo.min(p[i].0);
        xhi = xhi.max(p[i].0);
        ylo = ylo.min(p[i].1);
        yhi = yhi.max(p[i].1);
        i += 1;
    }
    vcheck!(s, bb.p0.x as i64 == xlo && bb.p0.y as i64 == ylo && bb.p1.x as i64 == xhi && bb.p1.y as i64 == yhi,
        "c13.bbox bounding box is the coordinate-wise min/max");
    let want = q.0 >= xlo && q.0 <= xhi && q.1 >= ylo && q.1 <= yhi;
    vcover!(s, want, "inside bbox reachable");
    vcheck!(s, bb.contains(&pt(q.0, q.1)) == want, "c13.bbox contains == closed box");
    core::mem::forget(v);
}

/// G3: Manhattan paths. must-true: perpendicular distance <= width/2 with the projection on the segment;
/// must-false: Chebyshev distance from every segment > width/2; in between (ends, corners) unconstrained.
fn path_body<S: Src, const N: usize>(s: &mut S) {
    let r = 6;
    let mut p = [(0i16, 0i16); N];
    p[0] = (small(s, r), small(s, r));
    let mut i = 1;
    while i < N {
        // each segment is horizontal or vertical
        let horiz = s.bool();
        let v = small(s, r);
        p[i] = if horiz { (v, p[i - 1].1) } else { (p[i - 1].0, v) };
        // zero-length segments have no direction (neither horizontal nor vertical): outside "Manhattan path"
        vassume!(s, p[i] != p[i - 1]);
        i += 1;
    }
    let w = s.u8() as i16;
    vassume!(s, w <= 6);
    let q = (small(s, 9), small(s, 9));
    vnote!(s, "in", "path={:?} width={} q={:?}", p, w, q);
    let mut must_true = false;
    let mut must_false = true;
    let mut i = 0;
    while i + 1 < N {
        let (a, b) = (p[i], p[i + 1]);
        let (xlo, xhi, ylo, yhi) = (a.0.min(b.0), a.0.max(b.0), a.1.min(b.1), a.1.max(b.1));
        // perpendicular distance with projection on the segment
        if a.0 == b.0 && q.1 >= ylo && q.1 <= yhi && 2 * (q.0 - a.0).abs() <= w {
            must_true = true;
        }
        if a.1 == b.1 && q.0 >= xlo && q.0 <= xhi && 2 * (q.1 - a.1).abs() <= w {
            must_true = true;
        }
        // Chebyshev distance from the segment (an axis-parallel box of zero thickness)
        let dx = if q.0 < xlo { xlo - q.0 } else if q.0 > xhi { q.0 - xhi } else { 0 };
        let dy = if q.1 < ylo { ylo - q.1 } else if q.1 > yhi { q.1 - yhi } else { 0 };
        let cheb = dx.max(dy);
        if 2 * cheb <= w {
            must_false = false;
        }
        i += 1;
    }
    let path = Path { points: pts_n(&p), width: w as usize };
    let got = path.contains(&pt(q.0 as i64, q.1 as i64));
    vnote!(s, "got", "{} must_true={} must_false={}", got, must_true, must_false);
    vcover!(s, must_true && w >= 2, "within half width reachable");
    vcover!(s, must_false, "far point reachable");
    vcheck!(s, !must_true || got, "c13.g3 path contains every point within half the width of a segment");
    vcheck!(s, !must_false || !got, "c13.g3 path excludes every point farther than half the width from all segments");
    core::mem::forget(path);
}
pub fn c13_q_g3_path2<S: Src>(s: &mut S) {
    path_body::<S, 2>(s)
}
pub fn c13_q_g3_path3<S: Src>(s: &mut S) {
    path_body::<S, 3>(s)
}
pub fn c13_t_g3_path4<S: Src>(s: &mut S) {
    path_body::<S, 4>(s)
}

harnesses! { k, "sel_c13.rs";
    #[kani::unwind(5)] c13_q_g2_tri_r3;
    #[kani::unwind(6)] c13_q_g2_quad_r1;
    #[kani::unwind(6)] c13_t_g2_quad_r2;
    #[kani::unwind(5)] c13_t_g2_tri_r4;
    #[kani::unwind(5)] c13_t_g2_tri_r6;
    #[kani::unwind(6)] c13_x_g2_quad_r3;
    #[kani::unwind(6)] c13_x_g2_quad_r4;
    #[kani::unwind(7)] c13_x_g2_pent_r2;
    #[kani::unwind(7)] c13_x_g2_pent_r3;
    #[kani::unwind(8)] c13_x_g2_hex_r2;
    #[kani::unwind(6)] c13_t_g2_repeat0;
    #[kani::unwind(6)] c13_q_g2_repeat1;
    #[kani::unwind(6)] c13_t_g2_repeat2;
    #[kani::unwind(5)] c13_x_g2_tri_large;
    c13_q_g1_rect;
    #[kani::unwind(7)] c13_q_bbox;
    #[kani::unwind(4)] c13_q_g3_path2;
    #[kani::unwind(5)] c13_q_g3_path3;
    #[kani::unwind(6)] c13_t_g3_path4;
}
