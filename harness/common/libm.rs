// libm contract models (DESIGN.md §4.1). Kani only. They replace `f64::{powi,log2,sin,cos}`
// through `#[kani::stub]`; natively the real libm runs. The tables come from
// `$L21V_GEN_DIR/libm_tables.rs`, which `l21v-tablegen` regenerates from THIS platform's libm on
// every run of the driver (never a constant kept in /verif).

#[cfg(kani)]
#[allow(dead_code)]
pub mod libm_models {
    include!(concat!(env!("L21V_GEN_DIR"), "/libm_tables.rs"));

    /// exact model of `powi` for bases 2 and 16 (the real `__powidf2` is exact there; tablegen
    /// re-validates that for every n in [-320, 320] / [-80, 80]). Other bases: outside the claim.
    pub fn powi_model(x: f64, n: i32) -> f64 {
        let k: i64 = if x == 2.0 {
            n as i64
        } else if x == 16.0 {
            4 * (n as i64)
        } else {
            kani::assume(false);
            0
        };
        kani::assume(k > -1020 && k < 1020);
        f64::from_bits(((k + 1023) as u64) << 52)
    }

    /// `log2` on positive normal doubles x = 2^e (1 + frac 2^-52):
    ///  * frac == 0                      -> exactly e                (validated for every e)
    ///  * frac <= KLO[e]                 -> exactly e                (measured zone just above 2^e)
    ///  * frac >= 2^52 - KHI[e]          -> exactly e + 1            (measured zone just below 2^(e+1))
    ///  * otherwise                      -> any double strictly between e and e + 1
    pub fn log2_model(x: f64) -> f64 {
        let bits = x.to_bits();
        let biased = ((bits >> 52) & 0x7ff) as i64;
        kani::assume(bits >> 63 == 0 && biased != 0 && biased != 0x7ff);
        let e: i64 = biased - 1023;
        let frac: u64 = bits & ((1u64 << 52) - 1);
        kani::assume(e >= LOG2_EMIN && e <= LOG2_EMAX);
        let idx = (e - LOG2_EMIN) as usize;
        let (lo, hi) = (e as f64, (e + 1) as f64);
        if frac <= LOG2_KLO[idx] as u64 {
            return lo;
        }
        if frac >= (1u64 << 52) - (LOG2_KHI[idx] as u64) {
            return hi;
        }
        let l: f64 = kani::any();
        kani::assume(l > lo && l < hi);
        l
    }

    /// sin / cos of the radian values of the right angles, keyed on the argument's bit pattern,
    /// with this platform's results (cos(pi/2) is 6.1e-17, not 0).
    pub fn sin_table(x: f64) -> f64 {
        let b = x.to_bits();
        let mut i = 0;
        while i < SINCOS.len() {
            if SINCOS[i].0 == b {
                return f64::from_bits(SINCOS[i].1);
            }
            i += 1;
        }
        kani::assume(false);
        0.0
    }
    pub fn cos_table(x: f64) -> f64 {
        let b = x.to_bits();
        let mut i = 0;
        while i < SINCOS.len() {
            if SINCOS[i].0 == b {
                return f64::from_bits(SINCOS[i].2);
            }
            i += 1;
        }
        kani::assume(false);
        0.0
    }

    /// General-angle mode: one angle is in play per harness; its sine and cosine are two
    /// harness-owned symbolic doubles. No trigonometric identity is assumed.
    pub static mut SYM_SIN: f64 = 0.0;
    pub static mut SYM_COS: f64 = 1.0;
    pub fn sin_sym(_x: f64) -> f64 {
        unsafe { SYM_SIN }
    }
    pub fn cos_sym(_x: f64) -> f64 {
        unsafe { SYM_COS }
    }
}
