// Reference GDSII encoder written from the specification (GDSII Stream Format Manual, rel. 6.0): record numbers,
// data-type codes, big-endian integers, NUL padding of odd-length strings, STRANS flag bits, record order per the
// element BNF. Shares no code with gds21's reader or writer; it only names the public `GdsRecord` / element types
// because those are the values being encoded.
//
// Reals: the caller supplies `f2u`, the 8-byte GDSII real for an f64. Under Kani the codec is replaced by the
// bit-identity (the codec itself is property C15); natively it is the real `GdsFloat64::encode`.

#[allow(dead_code)]
pub mod gds_ref {
    use crate::data::*;

    // data types
    pub const DT_NONE: u8 = 0;
    pub const DT_BITS: u8 = 1;
    pub const DT_I16: u8 = 2;
    pub const DT_I32: u8 = 3;
    pub const DT_R8: u8 = 5;
    pub const DT_STR: u8 = 6;

    /// (record number, data type) per the specification
    pub fn ref_kind(r: &GdsRecord) -> (u8, u8) {
        match r {
            GdsRecord::Header { .. } => (0x00, DT_I16),
            GdsRecord::BgnLib { .. } => (0x01, DT_I16),
            GdsRecord::LibName(_) => (0x02, DT_STR),
            GdsRecord::Units(..) => (0x03, DT_R8),
            GdsRecord::EndLib => (0x04, DT_NONE),
            GdsRecord::BgnStruct { .. } => (0x05, DT_I16),
            GdsRecord::StructName(_) => (0x06, DT_STR),
            GdsRecord::EndStruct => (0x07, DT_NONE),
            GdsRecord::Boundary => (0x08, DT_NONE),
            GdsRecord::Path => (0x09, DT_NONE),
            GdsRecord::StructRef => (0x0A, DT_NONE),
            GdsRecord::ArrayRef => (0x0B, DT_NONE),
            GdsRecord::Text => (0x0C, DT_NONE),
            GdsRecord::Layer(_) => (0x0D, DT_I16),
            GdsRecord::DataType(_) => (0x0E, DT_I16),
            GdsRecord::Width(_) => (0x0F, DT_I32),
            GdsRecord::Xy(_) => (0x10, DT_I32),
            GdsRecord::EndElement => (0x11, DT_NONE),
            GdsRecord::StructRefName(_) => (0x12, DT_STR),
            GdsRecord::ColRow { .. } => (0x13, DT_I16),
            GdsRecord::Node => (0x15, DT_NONE),
            GdsRecord::TextType(_) => (0x16, DT_I16),
            GdsRecord::Presentation(..) => (0x17, DT_BITS),
            GdsRecord::String(_) => (0x19, DT_STR),
            GdsRecord::Strans(..) => (0x1A, DT_BITS),
            GdsRecord::Mag(_) => (0x1B, DT_R8),
            GdsRecord::Angle(_) => (0x1C, DT_R8),
            GdsRecord::RefLibs(_) => (0x1F, DT_STR),
            GdsRecord::Fonts(_) => (0x20, DT_STR),
            GdsRecord::PathType(_) => (0x21, DT_I16),
            GdsRecord::Generations(_) => (0x22, DT_I16),
            GdsRecord::AttrTable(_) => (0x23, DT_STR),
            GdsRecord::ElemFlags(..) => (0x26, DT_BITS),
            GdsRecord::Nodetype(_) => (0x2A, DT_I16),
            GdsRecord::PropAttr(_) => (0x2B, DT_I16),
            GdsRecord::PropValue(_) => (0x2C, DT_STR),
            GdsRecord::Box => (0x2D, DT_NONE),
            GdsRecord::BoxType(_) => (0x2E, DT_I16),
            GdsRecord::Plex(_) => (0x2F, DT_I32),
            GdsRecord::BeginExtn(_) => (0x30, DT_I32),
            GdsRecord::EndExtn(_) => (0x31, DT_I32),
            GdsRecord::TapeNum(_) => (0x32, DT_I16),
            GdsRecord::TapeCode(_) => (0x33, DT_I16),
            GdsRecord::Format(_) => (0x36, DT_I16),
            GdsRecord::Mask(_) => (0x37, DT_STR),
            GdsRecord::EndMasks => (0x38, DT_NONE),
            GdsRecord::LibDirSize(_) => (0x39, DT_I16),
            GdsRecord::SrfName(_) => (0x3A, DT_STR),
            GdsRecord::LibSecur(_) => (0x3B, DT_I16),
        }
    }

    fn p16(o: &mut Vec<u8>, v: i16) {
        o.push((v as u16 >> 8) as u8);
        o.push(v as u16 as u8);
    }
    fn p32(o: &mut Vec<u8>, v: i32) {
        let u = v as u32;
        o.push((u >> 24) as u8);
        o.push((u >> 16) as u8);
        o.push((u >> 8) as u8);
        o.push(u as u8);
    }
    fn p64(o: &mut Vec<u8>, u: u64) {
        let mut i = 0;
        while i < 8 {
            o.push((u >> (56 - 8 * i)) as u8);
            i += 1;
        }
    }
    fn pstr(o: &mut Vec<u8>, s: &str) {
        let b = s.as_bytes();
        let mut i = 0;
        while i < b.len() {
            o.push(b[i]);
            i += 1;
        }
        if b.len() % 2 == 1 {
            o.push(0);
        }
    }

    /// payload bytes of one record
    pub fn ref_payload(r: &GdsRecord, f2u: fn(f64) -> u64) -> Vec<u8> {
        let mut o: Vec<u8> = Vec::with_capacity(32);
        match r {
            GdsRecord::Header { version: d }
            | GdsRecord::Layer(d)
            | GdsRecord::DataType(d)
            | GdsRecord::TextType(d)
            | GdsRecord::PathType(d)
            | GdsRecord::Generations(d)
            | GdsRecord::Nodetype(d)
            | GdsRecord::PropAttr(d)
            | GdsRecord::BoxType(d)
            | GdsRecord::TapeNum(d)
            | GdsRecord::Format(d)
            | GdsRecord::LibDirSize(d)
            | GdsRecord::LibSecur(d) => p16(&mut o, *d),
            GdsRecord::BgnLib { dates } | GdsRecord::BgnStruct { dates } => {
                let mut i = 0;
                while i < 12 {
                    p16(&mut o, dates[i]);
                    i += 1;
                }
            }
            GdsRecord::TapeCode(d) => {
                let mut i = 0;
                while i < 6 {
                    p16(&mut o, d[i]);
                    i += 1;
                }
            }
            GdsRecord::ColRow { cols, rows } => {
                p16(&mut o, *cols);
                p16(&mut o, *rows);
            }
            GdsRecord::Width(d) | GdsRecord::Plex(d) | GdsRecord::BeginExtn(d) | GdsRecord::EndExtn(d) => p32(&mut o, *d),
            GdsRecord::Xy(v) => {
                let mut i = 0;
                while i < v.len() {
                    p32(&mut o, v[i]);
                    i += 1;
                }
            }
            GdsRecord::Units(a, b) => {
                p64(&mut o, f2u(*a));
                p64(&mut o, f2u(*b));
            }
            GdsRecord::Mag(a) | GdsRecord::Angle(a) => p64(&mut o, f2u(*a)),
            GdsRecord::Presentation(a, b) | GdsRecord::Strans(a, b) | GdsRecord::ElemFlags(a, b) => {
                o.push(*a);
                o.push(*b);
            }
            GdsRecord::LibName(s)
            | GdsRecord::StructName(s)
            | GdsRecord::StructRefName(s)
            | GdsRecord::String(s)
            | GdsRecord::RefLibs(s)
            | GdsRecord::Fonts(s)
            | GdsRecord::AttrTable(s)
            | GdsRecord::PropValue(s)
            | GdsRecord::Mask(s)
            | GdsRecord::SrfName(s) => pstr(&mut o, s),
            GdsRecord::EndLib
            | GdsRecord::EndStruct
            | GdsRecord::Boundary
            | GdsRecord::Path
            | GdsRecord::StructRef
            | GdsRecord::ArrayRef
            | GdsRecord::Text
            | GdsRecord::EndElement
            | GdsRecord::Node
            | GdsRecord::Box
            | GdsRecord::EndMasks => {}
        }
        o
    }

    /// header + payload; None if the record does not fit the 16-bit length field
    pub fn ref_bytes(r: &GdsRecord, f2u: fn(f64) -> u64) -> Option<Vec<u8>> {
        let p = ref_payload(r, f2u);
        let total = p.len() + 4;
        if total > 0xFFFF {
            return None;
        }
        let (rt, dt) = ref_kind(r);
        let mut o: Vec<u8> = Vec::with_capacity(total);
        o.push((total >> 8) as u8);
        o.push(total as u8);
        o.push(rt);
        o.push(dt);
        let mut i = 0;
        while i < p.len() {
            o.push(p[i]);
            i += 1;
        }
        Some(o)
    }

    /// A record list that also remembers each record's spec number in a plain array, written at the moment the record
    /// is pushed (when its variant is still a compile-time-known constant for the model checker; a discriminant read
    /// back from the heap is not).
    pub struct RecList {
        pub recs: Vec<GdsRecord>,
        /// number of records, kept as a plain integer for the same reason
        pub n: usize,
        pub kinds: [u8; 64],
        /// payload element count of variable-size records (string bytes / XY values), likewise captured at push time
        pub lens: [u8; 64],
    }
    pub fn var_len(r: &GdsRecord) -> u8 {
        match r {
            GdsRecord::Xy(v) => v.len() as u8,
            GdsRecord::LibName(x)
            | GdsRecord::StructName(x)
            | GdsRecord::StructRefName(x)
            | GdsRecord::String(x)
            | GdsRecord::RefLibs(x)
            | GdsRecord::Fonts(x)
            | GdsRecord::AttrTable(x)
            | GdsRecord::PropValue(x)
            | GdsRecord::Mask(x)
            | GdsRecord::SrfName(x) => x.len() as u8,
            _ => 0,
        }
    }
    impl RecList {
        pub fn new() -> Self {
            RecList { recs: Vec::with_capacity(64), n: 0, kinds: [0xFF; 64], lens: [0; 64] }
        }
        pub fn len(&self) -> usize {
            self.n
        }
        pub fn push(&mut self, r: GdsRecord) {
            let n = self.n;
            self.kinds[n] = ref_kind(&r).0;
            self.lens[n] = var_len(&r);
            self.recs.push(r);
            self.n = n + 1;
        }
        /// drop the first record
        pub fn remove_first(&mut self) {
            let n = self.n;
            self.n = n - 1;
            self.recs.remove(0);
            let mut i = 0;
            while i + 1 < n {
                self.kinds[i] = self.kinds[i + 1];
                self.lens[i] = self.lens[i + 1];
                i += 1;
            }
            self.kinds[n - 1] = 0xFF;
        }
        pub fn insert(&mut self, at: usize, r: GdsRecord) {
            let n = self.n;
            self.n = n + 1;
            let k = ref_kind(&r).0;
            let l = var_len(&r);
            self.recs.insert(at, r);
            let mut i = n;
            while i > at {
                self.kinds[i] = self.kinds[i - 1];
                self.lens[i] = self.lens[i - 1];
                i -= 1;
            }
            self.kinds[at] = k;
            self.lens[at] = l;
        }
    }

    // ---- record order per the element BNF ----------------------------------------------------------------
    fn head(o: &mut RecList, fl: &Option<GdsElemFlags>, px: &Option<GdsPlex>) {
        if let Some(f) = fl {
            o.push(GdsRecord::ElemFlags(f.0, f.1));
        }
        if let Some(p) = px {
            o.push(GdsRecord::Plex(p.0));
        }
    }
    fn tail(o: &mut RecList, props: &Vec<GdsProperty>) {
        let mut i = 0;
        while i < props.len() {
            o.push(GdsRecord::PropAttr(props[i].attr));
            o.push(GdsRecord::PropValue(props[i].value.clone()));
            i += 1;
        }
        o.push(GdsRecord::EndElement);
    }
    fn strans(o: &mut RecList, st: &Option<GdsStrans>) {
        if let Some(s) = st {
            // 16-bit flag word: bit 15 reflection, bit 2 absolute magnification, bit 1 absolute angle
            let w: u16 = (if s.reflected { 0x8000 } else { 0 }) | (if s.abs_mag { 0x0004 } else { 0 }) | (if s.abs_angle { 0x0002 } else { 0 });
            o.push(GdsRecord::Strans((w >> 8) as u8, w as u8));
            if let Some(m) = s.mag {
                o.push(GdsRecord::Mag(m));
            }
            if let Some(a) = s.angle {
                o.push(GdsRecord::Angle(a));
            }
        }
    }
    fn xy_of(pts: &[GdsPoint]) -> GdsRecord {
        let mut v = Vec::with_capacity(2 * pts.len());
        let mut i = 0;
        while i < pts.len() {
            v.push(pts[i].x);
            v.push(pts[i].y);
            i += 1;
        }
        GdsRecord::Xy(v)
    }

    pub fn ref_boundary(o: &mut RecList, b: &GdsBoundary) {
        o.push(GdsRecord::Boundary);
        head(o, &b.elflags, &b.plex);
        o.push(GdsRecord::Layer(b.layer));
        o.push(GdsRecord::DataType(b.datatype));
        o.push(xy_of(&b.xy));
        tail(o, &b.properties);
    }
    pub fn ref_path(o: &mut RecList, p: &GdsPath) {
        o.push(GdsRecord::Path);
        head(o, &p.elflags, &p.plex);
        o.push(GdsRecord::Layer(p.layer));
        o.push(GdsRecord::DataType(p.datatype));
        if let Some(t) = p.path_type {
            o.push(GdsRecord::PathType(t));
        }
        if let Some(w) = p.width {
            o.push(GdsRecord::Width(w));
        }
        if let Some(x) = p.begin_extn {
            o.push(GdsRecord::BeginExtn(x));
        }
        if let Some(x) = p.end_extn {
            o.push(GdsRecord::EndExtn(x));
        }
        o.push(xy_of(&p.xy));
        tail(o, &p.properties);
    }
    pub fn ref_struct_ref(o: &mut RecList, r: &GdsStructRef) {
        o.push(GdsRecord::StructRef);
        head(o, &r.elflags, &r.plex);
        o.push(GdsRecord::StructRefName(r.name.clone()));
        strans(o, &r.strans);
        o.push(GdsRecord::Xy(vec![r.xy.x, r.xy.y]));
        tail(o, &r.properties);
    }
    pub fn ref_array_ref(o: &mut RecList, r: &GdsArrayRef) {
        o.push(GdsRecord::ArrayRef);
        head(o, &r.elflags, &r.plex);
        o.push(GdsRecord::StructRefName(r.name.clone()));
        strans(o, &r.strans);
        o.push(GdsRecord::ColRow { cols: r.cols, rows: r.rows });
        o.push(xy_of(&r.xy));
        tail(o, &r.properties);
    }
    pub fn ref_text(o: &mut RecList, t: &GdsTextElem) {
        o.push(GdsRecord::Text);
        head(o, &t.elflags, &t.plex);
        o.push(GdsRecord::Layer(t.layer));
        o.push(GdsRecord::TextType(t.texttype));
        if let Some(p) = &t.presentation {
            o.push(GdsRecord::Presentation(p.0, p.1));
        }
        if let Some(p) = t.path_type {
            o.push(GdsRecord::PathType(p));
        }
        if let Some(w) = t.width {
            o.push(GdsRecord::Width(w));
        }
        strans(o, &t.strans);
        o.push(GdsRecord::Xy(vec![t.xy.x, t.xy.y]));
        o.push(GdsRecord::String(t.string.clone()));
        tail(o, &t.properties);
    }
    pub fn ref_node(o: &mut RecList, n: &GdsNode) {
        o.push(GdsRecord::Node);
        head(o, &n.elflags, &n.plex);
        o.push(GdsRecord::Layer(n.layer));
        o.push(GdsRecord::Nodetype(n.nodetype));
        o.push(xy_of(&n.xy));
        tail(o, &n.properties);
    }
    pub fn ref_box(o: &mut RecList, b: &GdsBox) {
        o.push(GdsRecord::Box);
        head(o, &b.elflags, &b.plex);
        o.push(GdsRecord::Layer(b.layer));
        o.push(GdsRecord::BoxType(b.boxtype));
        o.push(xy_of(&b.xy));
        tail(o, &b.properties);
    }
    pub fn ref_flatten_elem_into(o: &mut RecList, e: &GdsElement) {
        match e {
            GdsElement::GdsBoundary(x) => ref_boundary(o, x),
            GdsElement::GdsPath(x) => ref_path(o, x),
            GdsElement::GdsStructRef(x) => ref_struct_ref(o, x),
            GdsElement::GdsArrayRef(x) => ref_array_ref(o, x),
            GdsElement::GdsTextElem(x) => ref_text(o, x),
            GdsElement::GdsNode(x) => ref_node(o, x),
            GdsElement::GdsBox(x) => ref_box(o, x),
        }
    }
    pub fn ref_flatten_elem(e: &GdsElement) -> RecList {
        let mut o = RecList::new();
        ref_flatten_elem_into(&mut o, e);
        o
    }

    pub fn ref_dates(d: &GdsDateTimes) -> [i16; 12] {
        [
            d.modified.year, d.modified.month, d.modified.day, d.modified.hour, d.modified.minute, d.modified.second,
            d.accessed.year, d.accessed.month, d.accessed.day, d.accessed.hour, d.accessed.minute, d.accessed.second,
        ]
    }

    pub fn ref_flatten_struct_into(o: &mut RecList, s: &GdsStruct) {
        o.push(GdsRecord::BgnStruct { dates: ref_dates(&s.dates) });
        o.push(GdsRecord::StructName(s.name.clone()));
        let mut i = 0;
        while i < s.elems.len() {
            ref_flatten_elem_into(o, &s.elems[i]);
            i += 1;
        }
        o.push(GdsRecord::EndStruct);
    }

    pub fn ref_flatten_lib(l: &GdsLibrary) -> RecList {
        let mut o = RecList::new();
        o.push(GdsRecord::Header { version: l.version });
        o.push(GdsRecord::BgnLib { dates: ref_dates(&l.dates) });
        o.push(GdsRecord::LibName(l.name.clone()));
        o.push(GdsRecord::Units(l.units.0, l.units.1));
        let mut i = 0;
        while i < l.structs.len() {
            ref_flatten_struct_into(&mut o, &l.structs[i]);
            i += 1;
        }
        o.push(GdsRecord::EndLib);
        o
    }

    fn bytes_eq(a: &str, b: &str, n: usize) -> bool {
        let (x, y) = (a.as_bytes(), b.as_bytes());
        if x.len() != n || y.len() != n {
            return false;
        }
        let mut ok = true;
        let mut i = 0;
        while i < n {
            if x[i] != y[i] {
                ok = false;
            }
            i += 1;
        }
        ok
    }
    /// equality of two records that are both claimed to be of spec number `kind` with `n` payload elements; `kind` and
    /// `n` are constants for the model checker, so every comparison loop has a fixed trip count and the 49-way
    /// variant match of the derived `==` is avoided. Reals by bit pattern.
    pub fn rec_eq_k(kind: u8, n: usize, a: &GdsRecord, b: &GdsRecord) -> bool {
        macro_rules! same {
            ($pat_a:pat, $pat_b:pat => $e:expr) => {
                match (a, b) {
                    ($pat_a, $pat_b) => $e,
                    _ => false,
                }
            };
        }
        match kind {
            0x00 => same!(GdsRecord::Header { version: x }, GdsRecord::Header { version: y } => x == y),
            0x01 => same!(GdsRecord::BgnLib { dates: x }, GdsRecord::BgnLib { dates: y } => x == y),
            0x02 => same!(GdsRecord::LibName(x), GdsRecord::LibName(y) => bytes_eq(x, y, n)),
            0x03 => same!(GdsRecord::Units(x0, x1), GdsRecord::Units(y0, y1) => x0.to_bits() == y0.to_bits() && x1.to_bits() == y1.to_bits()),
            0x04 => same!(GdsRecord::EndLib, GdsRecord::EndLib => true),
            0x05 => same!(GdsRecord::BgnStruct { dates: x }, GdsRecord::BgnStruct { dates: y } => x == y),
            0x06 => same!(GdsRecord::StructName(x), GdsRecord::StructName(y) => bytes_eq(x, y, n)),
            0x07 => same!(GdsRecord::EndStruct, GdsRecord::EndStruct => true),
            0x08 => same!(GdsRecord::Boundary, GdsRecord::Boundary => true),
            0x09 => same!(GdsRecord::Path, GdsRecord::Path => true),
            0x0A => same!(GdsRecord::StructRef, GdsRecord::StructRef => true),
            0x0B => same!(GdsRecord::ArrayRef, GdsRecord::ArrayRef => true),
            0x0C => same!(GdsRecord::Text, GdsRecord::Text => true),
            0x0D => same!(GdsRecord::Layer(x), GdsRecord::Layer(y) => x == y),
            0x0E => same!(GdsRecord::DataType(x), GdsRecord::DataType(y) => x == y),
            0x0F => same!(GdsRecord::Width(x), GdsRecord::Width(y) => x == y),
            0x10 => same!(GdsRecord::Xy(x), GdsRecord::Xy(y) => {
                if x.len() != n || y.len() != n {
                    false
                } else {
                    let mut ok = true;
                    let mut i = 0;
                    while i < n {
                        if x[i] != y[i] {
                            ok = false;
                        }
                        i += 1;
                    }
                    ok
                }
            }),
            0x11 => same!(GdsRecord::EndElement, GdsRecord::EndElement => true),
            0x12 => same!(GdsRecord::StructRefName(x), GdsRecord::StructRefName(y) => bytes_eq(x, y, n)),
            0x13 => same!(GdsRecord::ColRow { cols: c0, rows: r0 }, GdsRecord::ColRow { cols: c1, rows: r1 } => c0 == c1 && r0 == r1),
            0x15 => same!(GdsRecord::Node, GdsRecord::Node => true),
            0x16 => same!(GdsRecord::TextType(x), GdsRecord::TextType(y) => x == y),
            0x17 => same!(GdsRecord::Presentation(x0, x1), GdsRecord::Presentation(y0, y1) => x0 == y0 && x1 == y1),
            0x19 => same!(GdsRecord::String(x), GdsRecord::String(y) => bytes_eq(x, y, n)),
            0x1A => same!(GdsRecord::Strans(x0, x1), GdsRecord::Strans(y0, y1) => x0 == y0 && x1 == y1),
            0x1B => same!(GdsRecord::Mag(x), GdsRecord::Mag(y) => x.to_bits() == y.to_bits()),
            0x1C => same!(GdsRecord::Angle(x), GdsRecord::Angle(y) => x.to_bits() == y.to_bits()),
            0x21 => same!(GdsRecord::PathType(x), GdsRecord::PathType(y) => x == y),
            0x26 => same!(GdsRecord::ElemFlags(x0, x1), GdsRecord::ElemFlags(y0, y1) => x0 == y0 && x1 == y1),
            0x2A => same!(GdsRecord::Nodetype(x), GdsRecord::Nodetype(y) => x == y),
            0x2B => same!(GdsRecord::PropAttr(x), GdsRecord::PropAttr(y) => x == y),
            0x2C => same!(GdsRecord::PropValue(x), GdsRecord::PropValue(y) => bytes_eq(x, y, n)),
            0x2D => same!(GdsRecord::Box, GdsRecord::Box => true),
            0x2E => same!(GdsRecord::BoxType(x), GdsRecord::BoxType(y) => x == y),
            0x2F => same!(GdsRecord::Plex(x), GdsRecord::Plex(y) => x == y),
            0x30 => same!(GdsRecord::BeginExtn(x), GdsRecord::BeginExtn(y) => x == y),
            0x31 => same!(GdsRecord::EndExtn(x), GdsRecord::EndExtn(y) => x == y),
            _ => rec_eq(a, b),
        }
    }
    /// two record lists agree: same number of records, same spec numbers and payload sizes, equal payloads
    pub fn reclist_eq(a: &RecList, b: &RecList) -> bool {
        if a.n != b.n {
            return false;
        }
        let mut ok = true;
        let mut i = 0;
        while i < a.n {
            if a.kinds[i] != b.kinds[i] || a.lens[i] != b.lens[i] {
                ok = false;
            } else if !rec_eq_k(a.kinds[i], a.lens[i] as usize, &a.recs[i], &b.recs[i]) {
                ok = false;
            }
            i += 1;
        }
        ok
    }

    /// field-wise record equality; reals by bit pattern
    pub fn rec_eq(a: &GdsRecord, b: &GdsRecord) -> bool {
        match (a, b) {
            (GdsRecord::Units(a0, a1), GdsRecord::Units(b0, b1)) => a0.to_bits() == b0.to_bits() && a1.to_bits() == b1.to_bits(),
            (GdsRecord::Mag(x), GdsRecord::Mag(y)) | (GdsRecord::Angle(x), GdsRecord::Angle(y)) => x.to_bits() == y.to_bits(),
            _ => a == b,
        }
    }
}
