// Symbolic builders for GDSII records / elements (shape concrete per harness instance, payload symbolic).
// Included after src.rs in the gds21 harness modules.

include!(concat!(env!("L21V_HARNESS_DIR"), "/../common/utf8.rs"));

/// Kani model of `core::str::from_utf8` (the real one is word-at-a-time with alignment tricks and does not finish
/// under CBMC): Ok iff well-formed. The error value is opaque to the code under test (it is boxed and propagated).
#[cfg(kani)]
#[allow(dead_code)]
pub fn from_utf8_model(v: &[u8]) -> Result<&str, core::str::Utf8Error> {
    if utf8_valid(v) {
        Ok(unsafe { core::str::from_utf8_unchecked(v) })
    } else {
        Err(unsafe { core::mem::transmute::<[u8; core::mem::size_of::<core::str::Utf8Error>()], core::str::Utf8Error>([0u8; core::mem::size_of::<core::str::Utf8Error>()]) })
    }
}

/// error messages are not part of any property: `format!` on error paths returns an empty string under Kani
#[cfg(kani)]
#[allow(dead_code)]
pub fn fmt_stub(_a: core::fmt::Arguments<'_>) -> String {
    String::new()
}

/// bit-identity stand-ins for the real codec (Kani only; the codec itself is property C15)
#[cfg(kani)]
#[allow(dead_code)]
pub fn enc_bits(v: f64) -> u64 {
    v.to_bits()
}
#[cfg(kani)]
#[allow(dead_code)]
pub fn dec_bits(v: u64) -> f64 {
    f64::from_bits(v)
}
/// what the harness expects the 8 bytes of a real to be
#[allow(dead_code)]
pub fn f2u(v: f64) -> u64 {
    #[cfg(kani)]
    {
        v.to_bits()
    }
    #[cfg(not(kani))]
    {
        crate::data::GdsFloat64::encode(v)
    }
}

/// a symbolic string of exactly `n` bytes of well-formed UTF-8 (so 2-, 3- and 4-byte characters and NUL occur)
#[allow(dead_code)]
pub fn sym_string<S: Src>(s: &mut S, n: usize) -> String {
    let mut v: Vec<u8> = Vec::with_capacity(n);
    let mut i = 0;
    while i < n {
        v.push(s.u8());
        i += 1;
    }
    let ok = utf8_valid(&v);
    s.assume_(ok);
    // (no early return under Kani: merging a second path would make the string's length symbolic)
    #[cfg(not(kani))]
    if !ok {
        return String::new();
    }
    unsafe { String::from_utf8_unchecked(v) }
}

/// a finite real inside the GDSII range, or zero (so that the real codec round-trips it natively, C15)
#[allow(dead_code)]
pub fn sym_real<S: Src>(s: &mut S) -> f64 {
    let x = s.f64();
    let ax = if x < 0.0 { -x } else { x };
    let lo = f64::from_bits(((1023 - 256) as u64) << 52);
    let hi = f64::from_bits(((1023 + 252) as u64) << 52);
    s.assume_(x.to_bits() == 0 || (ax >= lo && ax < hi));
    x
}

#[allow(dead_code)]
pub fn sym_dates<S: Src>(s: &mut S) -> [i16; 12] {
    [s.i16(), s.i16(), s.i16(), s.i16(), s.i16(), s.i16(), s.i16(), s.i16(), s.i16(), s.i16(), s.i16(), s.i16()]
}

#[allow(dead_code)]
pub fn sym_xy<S: Src>(s: &mut S, n: usize) -> Vec<i32> {
    let mut v: Vec<i32> = Vec::with_capacity(n);
    let mut i = 0;
    while i < n {
        v.push(s.i32());
        i += 1;
    }
    v
}

/// record of the given spec record number with symbolic payload; `n` = string bytes / number of XY values
#[allow(dead_code)]
pub fn sym_record<S: Src>(s: &mut S, kind: u8, n: usize) -> GdsRecord {
    match kind {
        0x00 => GdsRecord::Header { version: s.i16() },
        0x01 => GdsRecord::BgnLib { dates: sym_dates(s) },
        0x02 => GdsRecord::LibName(sym_string(s, n)),
        0x03 => GdsRecord::Units(sym_real(s), sym_real(s)),
        0x04 => GdsRecord::EndLib,
        0x05 => GdsRecord::BgnStruct { dates: sym_dates(s) },
        0x06 => GdsRecord::StructName(sym_string(s, n)),
        0x07 => GdsRecord::EndStruct,
        0x08 => GdsRecord::Boundary,
        0x09 => GdsRecord::Path,
        0x0A => GdsRecord::StructRef,
        0x0B => GdsRecord::ArrayRef,
        0x0C => GdsRecord::Text,
        0x0D => GdsRecord::Layer(s.i16()),
        0x0E => GdsRecord::DataType(s.i16()),
        0x0F => GdsRecord::Width(s.i32()),
        0x10 => GdsRecord::Xy(sym_xy(s, n)),
        0x11 => GdsRecord::EndElement,
        0x12 => GdsRecord::StructRefName(sym_string(s, n)),
        0x13 => GdsRecord::ColRow { cols: s.i16(), rows: s.i16() },
        0x15 => GdsRecord::Node,
        0x16 => GdsRecord::TextType(s.i16()),
        0x17 => GdsRecord::Presentation(s.u8(), s.u8()),
        0x19 => GdsRecord::String(sym_string(s, n)),
        0x1A => GdsRecord::Strans(s.u8(), s.u8()),
        0x1B => GdsRecord::Mag(sym_real(s)),
        0x1C => GdsRecord::Angle(sym_real(s)),
        0x1F => GdsRecord::RefLibs(sym_string(s, n)),
        0x20 => GdsRecord::Fonts(sym_string(s, n)),
        0x21 => GdsRecord::PathType(s.i16()),
        0x22 => GdsRecord::Generations(s.i16()),
        0x23 => GdsRecord::AttrTable(sym_string(s, n)),
        0x26 => GdsRecord::ElemFlags(s.u8(), s.u8()),
        0x2A => GdsRecord::Nodetype(s.i16()),
        0x2B => GdsRecord::PropAttr(s.i16()),
        0x2C => GdsRecord::PropValue(sym_string(s, n)),
        0x2D => GdsRecord::Box,
        0x2E => GdsRecord::BoxType(s.i16()),
        0x2F => GdsRecord::Plex(s.i32()),
        0x30 => GdsRecord::BeginExtn(s.i32()),
        0x31 => GdsRecord::EndExtn(s.i32()),
        0x32 => GdsRecord::TapeNum(s.i16()),
        0x33 => GdsRecord::TapeCode([s.i16(), s.i16(), s.i16(), s.i16(), s.i16(), s.i16()]),
        0x36 => GdsRecord::Format(s.i16()),
        0x37 => GdsRecord::Mask(sym_string(s, n)),
        0x38 => GdsRecord::EndMasks,
        0x39 => GdsRecord::LibDirSize(s.i16()),
        0x3A => GdsRecord::SrfName(sym_string(s, n)),
        _ => GdsRecord::LibSecur(s.i16()),
    }
}

#[allow(dead_code)]
pub fn sym_props<S: Src>(s: &mut S, np: usize, slen: usize) -> Vec<GdsProperty> {
    let mut v = Vec::with_capacity(np);
    let mut i = 0;
    while i < np {
        v.push(GdsProperty { attr: s.i16(), value: sym_string(s, slen) });
        i += 1;
    }
    v
}
#[allow(dead_code)]
pub fn sym_points<S: Src>(s: &mut S, n: usize) -> Vec<GdsPoint> {
    let mut v = Vec::with_capacity(n);
    let mut i = 0;
    while i < n {
        v.push(GdsPoint { x: s.i32(), y: s.i32() });
        i += 1;
    }
    v
}
#[allow(dead_code)]
pub fn sym_strans<S: Src>(s: &mut S, mask: u32) -> GdsStrans {
    GdsStrans {
        reflected: s.bool(),
        abs_mag: s.bool(),
        abs_angle: s.bool(),
        mag: if mask & M_MAG != 0 { Some(sym_real(s)) } else { None },
        angle: if mask & M_ANGLE != 0 { Some(sym_real(s)) } else { None },
    }
}

// optional-field mask bits (concrete per harness instance)
pub const M_ELFLAGS: u32 = 1;
pub const M_PLEX: u32 = 2;
pub const M_STRANS: u32 = 4;
pub const M_MAG: u32 = 8;
pub const M_ANGLE: u32 = 16;
pub const M_PATHTYPE: u32 = 32;
pub const M_WIDTH: u32 = 64;
pub const M_BGNEXTN: u32 = 128;
pub const M_ENDEXTN: u32 = 256;
pub const M_PRESENTATION: u32 = 512;
pub const M_PROP: u32 = 1024;
pub const M_ALL: u32 = 2047;

/// One impl per element struct: the harnesses work on the STRUCT (a plain local whose Option / Vec shapes stay
/// constants for the model checker), never through the `GdsElement` enum (values read back through an enum payload
/// are not constant-propagated by CBMC, which makes every loop over them run to the unwinding bound).
pub trait L21Elem: Sized {
    const KIND: u8;
    /// optional fields selected by `mask`, strings of `slen` bytes, `npts` points where the kind allows a free count
    fn sym<S: Src>(s: &mut S, mask: u32, slen: usize, npts: usize) -> Self;
    /// reference record list (spec BNF order)
    fn ref_into(&self, o: &mut gds_ref::RecList);
    fn wrap(self) -> GdsElement;
    /// field-for-field equality of `self` (the original, of known shape) and `g` (e.g. parsed back), with every loop
    /// bounded by the original's constant shape: strings of `slen` bytes, `npts` points, `np` properties
    fn same(&self, g: &Self, slen: usize, npts: usize, np: usize) -> bool;
    /// pin a small-domain field to a concrete value (so that code whose record SHAPE depends on it stays concrete for
    /// the model checker); `which` 255 = leave everything symbolic. Only path-like elements have such a field.
    fn pin(&mut self, _which: u8) {}
}
fn str_same(a: &String, b: &String, n: usize) -> bool {
    let (x, y) = (a.as_bytes(), b.as_bytes());
    if x.len() != n || y.len() != n {
        return false;
    }
    let mut ok = true;
    let mut i = 0;
    while i < n {
        if x[i] != y[i] {
            ok = false;
        }
        i += 1;
    }
    ok
}
fn pts_same(a: &[GdsPoint], b: &[GdsPoint], n: usize) -> bool {
    if a.len() != n || b.len() != n {
        return false;
    }
    let mut ok = true;
    let mut i = 0;
    while i < n {
        if a[i].x != b[i].x || a[i].y != b[i].y {
            ok = false;
        }
        i += 1;
    }
    ok
}
fn props_same(a: &Vec<GdsProperty>, b: &Vec<GdsProperty>, np: usize, slen: usize) -> bool {
    if a.len() != np || b.len() != np {
        return false;
    }
    let mut ok = true;
    let mut i = 0;
    while i < np {
        if a[i].attr != b[i].attr || !str_same(&a[i].value, &b[i].value, slen) {
            ok = false;
        }
        i += 1;
    }
    ok
}
fn flags_same(a: &Option<GdsElemFlags>, b: &Option<GdsElemFlags>) -> bool {
    match (a, b) {
        (None, None) => true,
        (Some(x), Some(y)) => x.0 == y.0 && x.1 == y.1,
        _ => false,
    }
}
fn plex_same(a: &Option<GdsPlex>, b: &Option<GdsPlex>) -> bool {
    match (a, b) {
        (None, None) => true,
        (Some(x), Some(y)) => x.0 == y.0,
        _ => false,
    }
}
fn sym_head<S: Src>(s: &mut S, mask: u32) -> (Option<GdsElemFlags>, Option<GdsPlex>) {
    (
        if mask & M_ELFLAGS != 0 { Some(GdsElemFlags(s.u8(), s.u8())) } else { None },
        if mask & M_PLEX != 0 { Some(GdsPlex(s.i32())) } else { None },
    )
}
fn np_of(mask: u32) -> usize {
    if mask & M_PROP != 0 {
        1
    } else {
        0
    }
}
impl L21Elem for GdsBoundary {
    const KIND: u8 = 0;
    fn sym<S: Src>(s: &mut S, mask: u32, slen: usize, npts: usize) -> Self {
        let (elflags, plex) = sym_head(s, mask);
        GdsBoundary { layer: s.i16(), datatype: s.i16(), xy: sym_points(s, npts), elflags, plex, properties: sym_props(s, np_of(mask), slen) }
    }
    fn ref_into(&self, o: &mut gds_ref::RecList) {
        gds_ref::ref_boundary(o, self)
    }
    fn wrap(self) -> GdsElement {
        GdsElement::GdsBoundary(self)
    }
    fn same(&self, g: &Self, slen: usize, npts: usize, np: usize) -> bool {
        self.layer == g.layer && self.datatype == g.datatype && pts_same(&self.xy, &g.xy, npts) && flags_same(&self.elflags, &g.elflags) && plex_same(&self.plex, &g.plex) && props_same(&self.properties, &g.properties, np, slen)
    }
}
impl L21Elem for GdsPath {
    const KIND: u8 = 1;
    fn sym<S: Src>(s: &mut S, mask: u32, slen: usize, npts: usize) -> Self {
        let (elflags, plex) = sym_head(s, mask);
        GdsPath {
            layer: s.i16(),
            datatype: s.i16(),
            xy: sym_points(s, npts),
            width: if mask & M_WIDTH != 0 { Some(s.i32()) } else { None },
            path_type: if mask & M_PATHTYPE != 0 { Some(s.i16()) } else { None },
            begin_extn: if mask & M_BGNEXTN != 0 { Some(s.i32()) } else { None },
            end_extn: if mask & M_ENDEXTN != 0 { Some(s.i32()) } else { None },
            elflags,
            plex,
            properties: sym_props(s, np_of(mask), slen),
        }
    }
    fn ref_into(&self, o: &mut gds_ref::RecList) {
        gds_ref::ref_path(o, self)
    }
    fn wrap(self) -> GdsElement {
        GdsElement::GdsPath(self)
    }
    fn pin(&mut self, which: u8) {
        if which != 255 && self.path_type.is_some() {
            self.path_type = Some(which as i16);
        }
    }
    fn same(&self, g: &Self, slen: usize, npts: usize, np: usize) -> bool {
        self.layer == g.layer
            && self.datatype == g.datatype
            && pts_same(&self.xy, &g.xy, npts)
            && self.width == g.width
            && self.path_type == g.path_type
            && self.begin_extn == g.begin_extn
            && self.end_extn == g.end_extn
            && flags_same(&self.elflags, &g.elflags)
            && plex_same(&self.plex, &g.plex)
            && props_same(&self.properties, &g.properties, np, slen)
    }
}
impl L21Elem for GdsStructRef {
    const KIND: u8 = 2;
    fn sym<S: Src>(s: &mut S, mask: u32, slen: usize, _npts: usize) -> Self {
        let (elflags, plex) = sym_head(s, mask);
        GdsStructRef {
            name: sym_string(s, slen),
            xy: GdsPoint { x: s.i32(), y: s.i32() },
            strans: if mask & M_STRANS != 0 { Some(sym_strans(s, mask)) } else { None },
            elflags,
            plex,
            properties: sym_props(s, np_of(mask), slen),
        }
    }
    fn ref_into(&self, o: &mut gds_ref::RecList) {
        gds_ref::ref_struct_ref(o, self)
    }
    fn wrap(self) -> GdsElement {
        GdsElement::GdsStructRef(self)
    }
    fn same(&self, g: &Self, slen: usize, _npts: usize, np: usize) -> bool {
        str_same(&self.name, &g.name, slen) && self.xy.x == g.xy.x && self.xy.y == g.xy.y && strans_eq(&self.strans, &g.strans) && flags_same(&self.elflags, &g.elflags) && plex_same(&self.plex, &g.plex) && props_same(&self.properties, &g.properties, np, slen)
    }
}
impl L21Elem for GdsArrayRef {
    const KIND: u8 = 3;
    fn sym<S: Src>(s: &mut S, mask: u32, slen: usize, _npts: usize) -> Self {
        let (elflags, plex) = sym_head(s, mask);
        GdsArrayRef {
            name: sym_string(s, slen),
            xy: [GdsPoint { x: s.i32(), y: s.i32() }, GdsPoint { x: s.i32(), y: s.i32() }, GdsPoint { x: s.i32(), y: s.i32() }],
            cols: s.i16(),
            rows: s.i16(),
            strans: if mask & M_STRANS != 0 { Some(sym_strans(s, mask)) } else { None },
            elflags,
            plex,
            properties: sym_props(s, np_of(mask), slen),
        }
    }
    fn ref_into(&self, o: &mut gds_ref::RecList) {
        gds_ref::ref_array_ref(o, self)
    }
    fn wrap(self) -> GdsElement {
        GdsElement::GdsArrayRef(self)
    }
    fn same(&self, g: &Self, slen: usize, _npts: usize, np: usize) -> bool {
        str_same(&self.name, &g.name, slen)
            && pts_same(&self.xy, &g.xy, 3)
            && self.cols == g.cols
            && self.rows == g.rows
            && strans_eq(&self.strans, &g.strans)
            && flags_same(&self.elflags, &g.elflags)
            && plex_same(&self.plex, &g.plex)
            && props_same(&self.properties, &g.properties, np, slen)
    }
}
impl L21Elem for GdsTextElem {
    const KIND: u8 = 4;
    fn sym<S: Src>(s: &mut S, mask: u32, slen: usize, _npts: usize) -> Self {
        let (elflags, plex) = sym_head(s, mask);
        GdsTextElem {
            string: sym_string(s, slen),
            layer: s.i16(),
            texttype: s.i16(),
            xy: GdsPoint { x: s.i32(), y: s.i32() },
            presentation: if mask & M_PRESENTATION != 0 { Some(GdsPresentation(s.u8(), s.u8())) } else { None },
            path_type: if mask & M_PATHTYPE != 0 { Some(s.i16()) } else { None },
            width: if mask & M_WIDTH != 0 { Some(s.i32()) } else { None },
            strans: if mask & M_STRANS != 0 { Some(sym_strans(s, mask)) } else { None },
            elflags,
            plex,
            properties: sym_props(s, np_of(mask), slen),
        }
    }
    fn ref_into(&self, o: &mut gds_ref::RecList) {
        gds_ref::ref_text(o, self)
    }
    fn wrap(self) -> GdsElement {
        GdsElement::GdsTextElem(self)
    }
    fn pin(&mut self, which: u8) {
        if which != 255 && self.path_type.is_some() {
            self.path_type = Some(which as i16);
        }
    }
    fn same(&self, g: &Self, slen: usize, _npts: usize, np: usize) -> bool {
        let pres = match (&self.presentation, &g.presentation) {
            (None, None) => true,
            (Some(x), Some(y)) => x.0 == y.0 && x.1 == y.1,
            _ => false,
        };
        str_same(&self.string, &g.string, slen)
            && self.layer == g.layer
            && self.texttype == g.texttype
            && self.xy.x == g.xy.x
            && self.xy.y == g.xy.y
            && pres
            && self.path_type == g.path_type
            && self.width == g.width
            && strans_eq(&self.strans, &g.strans)
            && flags_same(&self.elflags, &g.elflags)
            && plex_same(&self.plex, &g.plex)
            && props_same(&self.properties, &g.properties, np, slen)
    }
}
impl L21Elem for GdsNode {
    const KIND: u8 = 5;
    fn sym<S: Src>(s: &mut S, mask: u32, slen: usize, npts: usize) -> Self {
        let (elflags, plex) = sym_head(s, mask);
        GdsNode { layer: s.i16(), nodetype: s.i16(), xy: sym_points(s, npts), elflags, plex, properties: sym_props(s, np_of(mask), slen) }
    }
    fn ref_into(&self, o: &mut gds_ref::RecList) {
        gds_ref::ref_node(o, self)
    }
    fn wrap(self) -> GdsElement {
        GdsElement::GdsNode(self)
    }
    fn same(&self, g: &Self, slen: usize, npts: usize, np: usize) -> bool {
        self.layer == g.layer && self.nodetype == g.nodetype && pts_same(&self.xy, &g.xy, npts) && flags_same(&self.elflags, &g.elflags) && plex_same(&self.plex, &g.plex) && props_same(&self.properties, &g.properties, np, slen)
    }
}
impl L21Elem for GdsBox {
    const KIND: u8 = 6;
    fn sym<S: Src>(s: &mut S, mask: u32, slen: usize, _npts: usize) -> Self {
        let (elflags, plex) = sym_head(s, mask);
        GdsBox {
            layer: s.i16(),
            boxtype: s.i16(),
            xy: [
                GdsPoint { x: s.i32(), y: s.i32() },
                GdsPoint { x: s.i32(), y: s.i32() },
                GdsPoint { x: s.i32(), y: s.i32() },
                GdsPoint { x: s.i32(), y: s.i32() },
                GdsPoint { x: s.i32(), y: s.i32() },
            ],
            elflags,
            plex,
            properties: sym_props(s, np_of(mask), slen),
        }
    }
    fn ref_into(&self, o: &mut gds_ref::RecList) {
        gds_ref::ref_box(o, self)
    }
    fn wrap(self) -> GdsElement {
        GdsElement::GdsBox(self)
    }
    fn same(&self, g: &Self, slen: usize, _npts: usize, np: usize) -> bool {
        self.layer == g.layer && self.boxtype == g.boxtype && pts_same(&self.xy, &g.xy, 5) && flags_same(&self.elflags, &g.elflags) && plex_same(&self.plex, &g.plex) && props_same(&self.properties, &g.properties, np, slen)
    }
}
/// element of kind 0..7 (boundary, path, sref, aref, text, node, box), wrapped in the enum (library-level harnesses)
#[allow(dead_code)]
pub fn sym_elem<S: Src>(s: &mut S, kind: u8, mask: u32, slen: usize, npts: usize) -> GdsElement {
    match kind {
        0 => GdsBoundary::sym(s, mask, slen, npts).wrap(),
        1 => GdsPath::sym(s, mask, slen, npts).wrap(),
        2 => GdsStructRef::sym(s, mask, slen, npts).wrap(),
        3 => GdsArrayRef::sym(s, mask, slen, npts).wrap(),
        4 => GdsTextElem::sym(s, mask, slen, npts).wrap(),
        5 => GdsNode::sym(s, mask, slen, npts).wrap(),
        _ => GdsBox::sym(s, mask, slen, npts).wrap(),
    }
}

/// element equality with reals compared by bit pattern
#[allow(dead_code)]
pub fn strans_eq(a: &Option<GdsStrans>, b: &Option<GdsStrans>) -> bool {
    match (a, b) {
        (None, None) => true,
        (Some(x), Some(y)) => {
            x.reflected == y.reflected
                && x.abs_mag == y.abs_mag
                && x.abs_angle == y.abs_angle
                && x.mag.map(|v| v.to_bits()) == y.mag.map(|v| v.to_bits())
                && x.angle.map(|v| v.to_bits()) == y.angle.map(|v| v.to_bits())
        }
        _ => false,
    }
}
#[allow(dead_code)]
pub fn elem_eq(a: &GdsElement, b: &GdsElement) -> bool {
    match (a, b) {
        (GdsElement::GdsStructRef(x), GdsElement::GdsStructRef(y)) => {
            x.name == y.name && x.xy == y.xy && strans_eq(&x.strans, &y.strans) && x.elflags == y.elflags && x.plex == y.plex && x.properties == y.properties
        }
        (GdsElement::GdsArrayRef(x), GdsElement::GdsArrayRef(y)) => {
            x.name == y.name
                && x.xy == y.xy
                && x.cols == y.cols
                && x.rows == y.rows
                && strans_eq(&x.strans, &y.strans)
                && x.elflags == y.elflags
                && x.plex == y.plex
                && x.properties == y.properties
        }
        (GdsElement::GdsTextElem(x), GdsElement::GdsTextElem(y)) => {
            x.string == y.string
                && x.layer == y.layer
                && x.texttype == y.texttype
                && x.xy == y.xy
                && x.presentation == y.presentation
                && x.path_type == y.path_type
                && x.width == y.width
                && strans_eq(&x.strans, &y.strans)
                && x.elflags == y.elflags
                && x.plex == y.plex
                && x.properties == y.properties
        }
        _ => a == b,
    }
}

#[allow(dead_code)]
pub fn sym_datetimes<S: Src>(s: &mut S) -> GdsDateTimes {
    let d = sym_dates(s);
    GdsDateTimes {
        modified: GdsDateTime { year: d[0], month: d[1], day: d[2], hour: d[3], minute: d[4], second: d[5] },
        accessed: GdsDateTime { year: d[6], month: d[7], day: d[8], hour: d[9], minute: d[10], second: d[11] },
    }
}
/// library with `ns` structs of `ne` elements each (kinds rotate from k0), every optional field absent/present per mask
#[allow(dead_code)]
pub fn sym_lib<S: Src>(s: &mut S, ns: usize, ne: usize, k0: u8, mask: u32, slen: usize) -> GdsLibrary {
    let mut structs = Vec::with_capacity(ns);
    let mut i = 0;
    while i < ns {
        let mut elems = Vec::with_capacity(ne);
        let mut j = 0;
        while j < ne {
            elems.push(sym_elem(s, (k0 + (i * ne + j) as u8) % 7, mask, slen, 2));
            j += 1;
        }
        structs.push(GdsStruct { name: sym_string(s, slen), dates: sym_datetimes(s), elems });
        i += 1;
    }
    GdsLibrary {
        name: sym_string(s, slen),
        version: s.i16(),
        dates: sym_datetimes(s),
        units: GdsUnits(sym_real(s), sym_real(s)),
        structs,
        libdirsize: Unsupported,
        srfname: Unsupported,
        libsecur: Unsupported,
        reflibs: Unsupported,
        fonts: Unsupported,
        attrtable: Unsupported,
        generations: Unsupported,
        format_type: Unsupported,
    }
}
