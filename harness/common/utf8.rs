// Byte-at-a-time UTF-8 validity DFA: the model that replaces core::str::from_utf8 under Kani.
// l21v-tablegen validates it against the real function on every run (all strings of <= 3 bytes, and all 4-byte
// strings with a lead byte >= 0xE0 in the thorough setting).
/// well-formed UTF-8 (RFC 3629: no overlongs, no surrogates, <= U+10FFFF), byte-at-a-time
#[allow(dead_code)]
pub fn utf8_valid(b: &[u8]) -> bool {
    // a DFA with one step per byte, so that the loop's trip count is the (concrete) length
    let mut need = 0u8; // continuation bytes still expected
    let (mut lo, mut hi) = (0x80u8, 0xBFu8); // allowed range of the next continuation byte
    let mut ok = true;
    let mut i = 0;
    while i < b.len() {
        let c = b[i];
        if need == 0 {
            if c < 0x80 {
            } else if c >= 0xC2 && c <= 0xDF {
                need = 1;
            } else if c == 0xE0 {
                need = 2;
                lo = 0xA0;
            } else if (c >= 0xE1 && c <= 0xEC) || c == 0xEE || c == 0xEF {
                need = 2;
            } else if c == 0xED {
                need = 2;
                hi = 0x9F;
            } else if c == 0xF0 {
                need = 3;
                lo = 0x90;
            } else if c >= 0xF1 && c <= 0xF3 {
                need = 3;
            } else if c == 0xF4 {
                need = 3;
                hi = 0x8F;
            } else {
                ok = false;
            }
        } else {
            if c < lo || c > hi {
                ok = false;
            }
            need -= 1;
            lo = 0x80;
            hi = 0xBF;
        }
        i += 1;
    }
    ok && need == 0
}

