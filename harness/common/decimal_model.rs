// Exact models of the three rust_decimal operations the LEF importer's coordinate kernels use, on (mantissa, scale).
// Valid where no overflow / rescaling occurs in the real crate: |mantissa| < 2^63, total scale <= 28 — the harness
// bound (|mantissa| <= 2^20, scale <= 6, factor 10^4) is far inside. l21v-tablegen compares them with the real crate.
/// inside the harness bound every mantissa fits 64 bits; 64-bit division by a constant is far cheaper for the SAT
/// back end than 128-bit. Outside it (native validation runs beyond the bound) the 128-bit path is used.
#[allow(dead_code)]
fn fits64(m: i128) -> bool {
    #[cfg(kani)]
    {
        kani::assume(m >= i64::MIN as i128 && m <= i64::MAX as i128);
        true
    }
    #[cfg(not(kani))]
    {
        m >= i64::MIN as i128 && m <= i64::MAX as i128
    }
}
#[allow(dead_code)]
fn p10_64(n: u32) -> i64 {
    let mut p = 1i64;
    let mut i = 0;
    while i < n {
        p *= 10;
        i += 1;
    }
    p
}
#[allow(dead_code)]
fn p10(n: u32) -> i128 {
    let mut p = 1i128;
    let mut i = 0;
    while i < n {
        p *= 10;
        i += 1;
    }
    p
}
/// `&a * b`: mantissas multiply, scales add
#[allow(dead_code)]
pub fn mul_model<'a>(a: &'a lef21::LefDecimal, b: lef21::LefDecimal) -> lef21::LefDecimal
where
    'a: 'a,
{
    // a zero operand gives the canonical zero (scale 0) in the real crate
    if a.mantissa() == 0 || b.mantissa() == 0 {
        return lef21::LefDecimal::from_i128_with_scale(0, 0);
    }
    lef21::LefDecimal::from_i128_with_scale(a.mantissa() * b.mantissa(), a.scale() + b.scale())
}
/// integral part, scale 0, truncated toward zero
#[allow(dead_code)]
pub fn trunc_model(a: &lef21::LefDecimal) -> lef21::LefDecimal {
    let m = a.mantissa();
    if a.scale() <= 18 && fits64(m) {
        return lef21::LefDecimal::from_i128_with_scale(((m as i64) / p10_64(a.scale())) as i128, 0);
    }
    lef21::LefDecimal::from_i128_with_scale(m / p10(a.scale()), 0)
}
/// fractional part at the same scale
#[allow(dead_code)]
pub fn fract_model(a: &lef21::LefDecimal) -> lef21::LefDecimal {
    let m = a.mantissa();
    if a.scale() <= 18 && fits64(m) {
        return lef21::LefDecimal::from_i128_with_scale(((m as i64) % p10_64(a.scale())) as i128, a.scale());
    }
    lef21::LefDecimal::from_i128_with_scale(m % p10(a.scale()), a.scale())
}
/// total order of two decimals by cross-scaling the mantissas (valid while both scaled mantissas fit i128: scales <= 18
/// and |mantissa| < 2^63)
#[allow(dead_code)]
pub fn cmp_model(a: &lef21::LefDecimal, b: &lef21::LefDecimal) -> core::cmp::Ordering {
    let x = a.mantissa() * p10(b.scale());
    let y = b.mantissa() * p10(a.scale());
    if x < y {
        core::cmp::Ordering::Less
    } else if x > y {
        core::cmp::Ordering::Greater
    } else {
        core::cmp::Ordering::Equal
    }
}
#[allow(dead_code)]
pub fn eq_model(a: &lef21::LefDecimal, b: &lef21::LefDecimal) -> bool {
    a.mantissa() * p10(b.scale()) == b.mantissa() * p10(a.scale())
}
