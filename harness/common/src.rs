// Shared by every harness file (ext crate and in-crate modules) via `include!`.
//
// A harness body is ordinary Rust, generic over a value source `S: Src`:
//   * under Kani, `KaniSrc` draws `kani::any()` values, `vassume!` is `kani::assume`,
//     `vcheck!` is `assert!`, `vcover!` is `kani::cover!`;
//   * natively (replay of a counterexample), `VecSrc` hands back the recorded byte vectors in
//     the order Kani drew them, `vassume!` marks the replay as rejected, `vcheck!` records the
//     first failing check, and panics of the code under test are caught by the caller.
// All symbolic inputs of a harness are drawn FIRST, before any stubbed function can draw its
// own nondeterministic values, so the first k recorded values are exactly the inputs.

#[allow(dead_code)]
pub trait Src {
    fn u8(&mut self) -> u8;
    fn u16(&mut self) -> u16;
    fn u32(&mut self) -> u32;
    fn u64(&mut self) -> u64;
    fn bool(&mut self) -> bool {
        self.u8() & 1 == 1
    }
    fn i8(&mut self) -> i8 {
        self.u8() as i8
    }
    fn i16(&mut self) -> i16 {
        self.u16() as i16
    }
    fn i32(&mut self) -> i32 {
        self.u32() as i32
    }
    fn i64(&mut self) -> i64 {
        self.u64() as i64
    }
    fn f64(&mut self) -> f64 {
        f64::from_bits(self.u64())
    }
    /// integer in [lo, hi] (inclusive), drawn as an i32
    fn range(&mut self, lo: i32, hi: i32) -> i32 {
        let v = self.i32();
        self.assume_(v >= lo && v <= hi);
        v
    }
    fn assume_(&mut self, c: bool);
    fn check_(&mut self, c: bool, id: &'static str);
    /// native only: remember a human-readable input / observation
    fn note(&mut self, _k: &'static str, _v: &dyn Fn() -> String) {}
    /// native only: input-class predicate used to match known findings
    fn tag(&mut self, _name: &'static str, _c: bool) {}
}

#[cfg(kani)]
pub struct KaniSrc;
#[cfg(kani)]
impl Src for KaniSrc {
    fn u8(&mut self) -> u8 {
        kani::any()
    }
    fn u16(&mut self) -> u16 {
        kani::any()
    }
    fn u32(&mut self) -> u32 {
        kani::any()
    }
    fn u64(&mut self) -> u64 {
        kani::any()
    }
    fn assume_(&mut self, c: bool) {
        kani::assume(c)
    }
    fn check_(&mut self, c: bool, _id: &'static str) {
        assert!(c)
    }
}

#[cfg(not(kani))]
#[allow(dead_code)]
pub struct VecSrc {
    pub vals: Vec<Vec<u8>>,
    pub pos: usize,
    pub rejected: Option<String>,
    pub failed: Vec<String>,
    pub notes: Vec<(String, String)>,
    pub tags: Vec<String>,
    pub underflow: bool,
}
#[cfg(not(kani))]
#[allow(dead_code)]
impl VecSrc {
    pub fn new(vals: Vec<Vec<u8>>) -> Self {
        VecSrc { vals, pos: 0, rejected: None, failed: vec![], notes: vec![], tags: vec![], underflow: false }
    }
    fn take(&mut self, n: usize) -> u64 {
        let mut out = 0u64;
        if self.pos < self.vals.len() {
            let v = &self.vals[self.pos];
            for (i, b) in v.iter().enumerate().take(n.min(8)) {
                out |= (*b as u64) << (8 * i);
            }
        } else {
            self.underflow = true;
        }
        self.pos += 1;
        out
    }
}
#[cfg(not(kani))]
impl Src for VecSrc {
    fn u8(&mut self) -> u8 {
        self.take(1) as u8
    }
    fn u16(&mut self) -> u16 {
        self.take(2) as u16
    }
    fn u32(&mut self) -> u32 {
        self.take(4) as u32
    }
    fn u64(&mut self) -> u64 {
        self.take(8)
    }
    fn assume_(&mut self, c: bool) {
        if !c && self.rejected.is_none() {
            self.rejected = Some(format!("assumption #{} after {} values", self.notes.len(), self.pos));
        }
    }
    fn check_(&mut self, c: bool, id: &'static str) {
        if !c && self.rejected.is_none() {
            self.failed.push(id.to_string());
        }
    }
    fn note(&mut self, k: &'static str, v: &dyn Fn() -> String) {
        self.notes.push((k.to_string(), v()));
    }
    fn tag(&mut self, name: &'static str, c: bool) {
        if c {
            self.tags.push(name.to_string());
        }
    }
}

/// `vcheck!(s, cond, "id")`: the property assertion. The id is a string literal so that Kani's
/// report and the native replayer name the same check.
#[allow(unused_macros)]
macro_rules! vcheck {
    ($s:expr, $c:expr, $id:literal) => {{
        #[cfg(kani)]
        {
            let _ = &$s;
            let c_: bool = $c;
            // the negation as a cover goal: Kani's concrete playback reliably prints values for covers, which is
            // how the driver extracts the counterexample (UNSATISFIABLE here is the good outcome)
            kani::cover!(!c_, $id);
            assert!(c_, $id);
        }
        #[cfg(not(kani))]
        {
            let c_: bool = $c;
            $s.check_(c_, $id);
        }
    }};
}
#[allow(unused_macros)]
macro_rules! vassume {
    ($s:expr, $c:expr) => {{
        let c_: bool = $c;
        $s.assume_(c_);
    }};
}
/// vacuity / reachability witness
#[allow(unused_macros)]
macro_rules! vcover {
    ($s:expr, $c:expr, $id:literal) => {{
        #[cfg(kani)]
        {
            let _ = &$s;
            kani::cover!($c, $id);
        }
        #[cfg(not(kani))]
        {
            let _ = &$s;
            let _ = $c;
        }
    }};
}
#[allow(unused_macros)]
macro_rules! vnote {
    ($s:expr, $k:literal, $($arg:tt)*) => {{
        #[cfg(not(kani))]
        {
            $s.note($k, &|| format!($($arg)*));
        }
        #[cfg(kani)]
        {
            let _ = &$s;
        }
    }};
}

/// Declares the harness list of one file: `harnesses! { k, "sel_<file>.rs"; #[attrs] name; ... }`.
/// `name` is the generic body `fn name<S: Src>(s: &mut S)`.
///  * natively the list becomes the replay dispatch table;
///  * under Kani the `#[kani::proof]` wrappers are NOT expanded from the list (Kani compiles every proof harness it sees,
///    about a second each, and some files list a thousand instances): the driver writes the wrappers of the harnesses
///    selected for this run, with the attributes given here, to `$L21V_GEN_DIR/sel_<file>.rs`, which is included instead.
#[allow(unused_macros)]
macro_rules! harnesses {
    ($modname:ident, $sel:literal; $( $(#[$m:meta])* $name:ident ;)*) => {
        #[cfg(kani)]
        pub mod $modname {
            #[allow(unused_imports)]
            use super::*;
            include!(concat!(env!("L21V_GEN_DIR"), "/", $sel));
        }
        #[cfg(not(kani))]
        pub mod $modname {
            #[allow(unused_imports)]
            use super::*;
            pub fn dispatch(name: &str, s: &mut VecSrc) -> bool {
                match name {
                    $( stringify!($name) => { super::$name(s); true } )*
                    _ => false,
                }
            }
            pub const NAMES: &[&str] = &[$(stringify!($name)),*];
        }
    };
}

/// Plain-data result of a native replay, identical type in every crate that includes this file:
/// (found, rejected, failed checks, notes, tags, values used, underflow, panic message)
#[cfg(not(kani))]
#[allow(dead_code)]
pub type ReplayOut = (bool, Option<String>, Vec<String>, Vec<(String, String)>, Vec<String>, usize, bool, Option<String>);

#[cfg(not(kani))]
#[allow(dead_code)]
pub fn run_native(name: &str, vals: Vec<Vec<u8>>, dispatch: fn(&str, &mut VecSrc) -> bool) -> ReplayOut {
    let mut s = VecSrc::new(vals);
    let r = std::panic::catch_unwind(std::panic::AssertUnwindSafe(|| dispatch(name, &mut s)));
    let (found, panicked) = match r {
        Ok(f) => (f, None),
        Err(e) => {
            let msg = if let Some(m) = e.downcast_ref::<&str>() {
                m.to_string()
            } else if let Some(m) = e.downcast_ref::<String>() {
                m.clone()
            } else {
                "panic".to_string()
            };
            (true, Some(msg))
        }
    };
    (found, s.rejected, s.failed, s.notes, s.tags, s.pos, s.underflow, panicked)
}
