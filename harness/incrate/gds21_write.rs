// gds21::write::l21v — harnesses that need the writer's private items (write_record_*, trait Encode)
// encodes: gds21::write::GdsWriter::write_record, write_record_header, write_record_content, Encode::encode_lib, encode_struct, encode_element, encode_boundary, encode_path, encode_struct_ref, encode_array_ref, encode_text_elem, encode_node, encode_box, encode_strans, encode_datetimes, GdsPoint::flatten, GdsPoint::flatten_vec
// stubs: GdsFloat64::encode -> bit identity (the codec is property C15)
// bound *: strings <= 3 bytes of well-formed UTF-8 (any code points incl. NUL), XY <= 10 values, <= 1 property per element, <= 2 structs x <= 2 elements; record-length limit exercised with concrete 65 KiB payloads
#[allow(unused_imports)]
use super::*;
#[allow(unused_imports)]
use crate::data::*;

include!(concat!(env!("L21V_HARNESS_DIR"), "/../common/src.rs"));
include!(concat!(env!("L21V_HARNESS_DIR"), "/../common/gds_ref.rs"));
include!(concat!(env!("L21V_HARNESS_DIR"), "/../common/gds_sym.rs"));

// ---- forwarding wrappers (also used by gds21::read::l21v) ------------------------------------------------
/// part: 0 = header only, 1 = content only, 2 = whole record
pub(crate) fn w_bytes(rec: &GdsRecord, part: u8) -> (bool, Vec<u8>) {
    let mut out: Vec<u8> = Vec::new();
    let ok = {
        let mut w = GdsWriter::new(&mut out);
        let r = match part {
            0 => w.write_record_header(rec),
            1 => w.write_record_content(rec),
            _ => w.write_record(rec),
        };
        let ok = r.is_ok();
        core::mem::forget(r);
        core::mem::forget(w);
        ok
    };
    (ok, out)
}
/// An `Encode` destination that keeps the records AND their spec numbers (see gds_ref::RecList)
pub(crate) struct Sink(pub gds_ref::RecList);
impl Encode for Sink {
    fn encode_record(&mut self, record: GdsRecord) -> GdsResult<()> {
        self.0.push(record);
        Ok(())
    }
    fn encode_records(&mut self, records: &[GdsRecord]) -> GdsResult<()> {
        let mut i = 0;
        while i < records.len() {
            self.0.push(records[i].clone());
            i += 1;
        }
        Ok(())
    }
}
/// (records, spec numbers) produced by the real Encode::encode_element / encode_struct / encode_lib
pub(crate) fn flatten_elem(e: &GdsElement) -> gds_ref::RecList {
    let mut l = Sink(gds_ref::RecList::new());
    let r = l.encode_element(e);
    core::mem::forget(r);
    l.0
}
pub(crate) fn flatten_struct(e: &GdsStruct) -> gds_ref::RecList {
    let mut l = Sink(gds_ref::RecList::new());
    let r = l.encode_struct(e);
    core::mem::forget(r);
    l.0
}
pub(crate) fn flatten_lib(e: &GdsLibrary) -> gds_ref::RecList {
    let mut l = Sink(gds_ref::RecList::new());
    let r = l.encode_lib(e);
    core::mem::forget(r);
    l.0
}
/// the crate's own list collector, kept in use so that it is exercised too
pub(crate) fn flatten_elem_reclist(e: &GdsElement) -> Vec<GdsRecord> {
    let mut l = GdsRecordList::default();
    let r = l.encode_element(e);
    core::mem::forget(r);
    l.records
}

// ---- C02-B1: bytes of one record == reference bytes ---------------------------------------------------
fn b1_body<S: Src>(s: &mut S, kind: u8, n: usize) {
    let rec = sym_record(s, kind, n);
    vnote!(s, "rec", "{:?}", rec);
    let (ok, out) = w_bytes(&rec, 2);
    let mut want = gds_ref::ref_bytes(&rec, f2u);
    // a string that ends in NUL has no GDSII encoding (indistinguishable from padding): the writer must refuse it
    let ends_nul = match &rec {
        GdsRecord::LibName(x)
        | GdsRecord::StructName(x)
        | GdsRecord::StructRefName(x)
        | GdsRecord::String(x)
        | GdsRecord::RefLibs(x)
        | GdsRecord::Fonts(x)
        | GdsRecord::AttrTable(x)
        | GdsRecord::PropValue(x)
        | GdsRecord::Mask(x)
        | GdsRecord::SrfName(x) => x.as_bytes().len() > 0 && x.as_bytes()[x.as_bytes().len() - 1] == 0,
        _ => false,
    };
    s.tag("string_ends_in_nul", ends_nul);
    if ends_nul {
        want = None;
    }
    vnote!(s, "bytes", "{:?} want {:?}", out, want);
    match &want {
        Some(w) => {
            vcheck!(s, ok, "c02.b1 writing a record that fits succeeds");
            vcheck!(s, out.len() == w.len(), "c02.b1 record byte count");
            if out.len() == w.len() {
                let mut same = true;
                let mut i = 0;
                while i < w.len() {
                    if out[i] != w[i] {
                        same = false;
                    }
                    i += 1;
                }
                vcheck!(s, same, "c02.b1 record bytes equal the reference encoding");
            }
            // well-formedness, stated independently of the reference: even, >= 4, equal to the bytes present
            let l = if out.len() >= 2 { ((out[0] as usize) << 8) | out[1] as usize } else { 0 };
            vcheck!(s, out.len() >= 4 && out.len() % 2 == 0 && l == out.len(), "c02.b1 length field even, >= 4, equals bytes present");
        }
        None => {
            vcheck!(s, !ok, "c02.b1 unrepresentable record (oversize, or string ending in NUL) is refused");
        }
    }
    vcover!(s, ok, "write succeeds reachable");
    core::mem::forget(rec);
    core::mem::forget(out);
    core::mem::forget(want);
}

/// record-length limit: concrete payload sizes around 65531 bytes (nothing is unwound: `vec![0; n]`)
pub fn c02_q_b1_len_limit<S: Src>(s: &mut S) {
    let pick = s.u8();
    vassume!(s, pick < 6);
    // XY of 16382 / 16383 values: 65528 / 65532 payload bytes; strings of 65530 / 65531 / 65532 bytes
    let (rec, fits) = match pick {
        0 => (GdsRecord::Xy(vec![0i32; 16382]), true),
        1 => (GdsRecord::Xy(vec![0i32; 16383]), false),
        2 => (GdsRecord::Xy(vec![0i32; 16384]), false),
        3 => (GdsRecord::LibName(unsafe { String::from_utf8_unchecked(vec![b'a'; 65530]) }), true),
        4 => (GdsRecord::LibName(unsafe { String::from_utf8_unchecked(vec![b'a'; 65531]) }), false),
        _ => (GdsRecord::LibName(unsafe { String::from_utf8_unchecked(vec![b'a'; 65532]) }), false),
    };
    vnote!(s, "pick", "{} fits={}", pick, fits);
    let (ok, out) = w_bytes(&rec, 0);
    vcheck!(s, ok == fits, "c02.b1 header write succeeds iff payload + 4 fits in 16 bits");
    if ok {
        let l = ((out[0] as usize) << 8) | out[1] as usize;
        let want = match pick {
            0 => 65528 + 4,
            _ => 65530 + 4,
        };
        vcheck!(s, out.len() == 4 && l == want, "c02.b1 big-endian length at the limit");
    }
    vcover!(s, ok, "fits reachable");
    vcover!(s, !ok, "refused reachable");
    core::mem::forget(rec);
    core::mem::forget(out);
}

// ---- C02-B2: record list of an element / struct / library == reference flattening -----------------------
/// the table kept by a RecList agrees with the records in it (so comparing via the table is comparing the records)
fn table_ok(l: &gds_ref::RecList) -> bool {
    if l.recs.len() != l.n {
        return false;
    }
    let mut ok = true;
    let mut i = 0;
    while i < l.n {
        if gds_ref::ref_kind(&l.recs[i]).0 != l.kinds[i] || gds_ref::var_len(&l.recs[i]) != l.lens[i] {
            ok = false;
        }
        i += 1;
    }
    ok
}
/// the writer's own encoder for one element struct
pub(crate) trait Enc: L21Elem {
    fn enc(&self, sink: &mut Sink) -> GdsResult<()>;
}
impl Enc for GdsBoundary {
    fn enc(&self, sink: &mut Sink) -> GdsResult<()> {
        sink.encode_boundary(self)
    }
}
impl Enc for GdsPath {
    fn enc(&self, sink: &mut Sink) -> GdsResult<()> {
        sink.encode_path(self)
    }
}
impl Enc for GdsStructRef {
    fn enc(&self, sink: &mut Sink) -> GdsResult<()> {
        sink.encode_struct_ref(self)
    }
}
impl Enc for GdsArrayRef {
    fn enc(&self, sink: &mut Sink) -> GdsResult<()> {
        sink.encode_array_ref(self)
    }
}
impl Enc for GdsTextElem {
    fn enc(&self, sink: &mut Sink) -> GdsResult<()> {
        sink.encode_text_elem(self)
    }
}
impl Enc for GdsNode {
    fn enc(&self, sink: &mut Sink) -> GdsResult<()> {
        sink.encode_node(self)
    }
}
impl Enc for GdsBox {
    fn enc(&self, sink: &mut Sink) -> GdsResult<()> {
        sink.encode_box(self)
    }
}
/// record list the real writer produces for one element struct
pub(crate) fn flatten_one<E: Enc>(e: &E) -> gds_ref::RecList {
    let mut l = Sink(gds_ref::RecList::new());
    let r = e.enc(&mut l);
    core::mem::forget(r);
    l.0
}
fn b2_body<S: Src, E: Enc + core::fmt::Debug>(s: &mut S, mask: u32, slen: usize, npts: usize) {
    b2_body_pin::<S, E>(s, mask, slen, npts, 255)
}
fn b2_body_pin<S: Src, E: Enc + core::fmt::Debug>(s: &mut S, mask: u32, slen: usize, npts: usize, pin: u8) {
    let mut e = E::sym(s, mask, slen, npts);
    e.pin(pin);
    vnote!(s, "elem", "{:?}", e);
    let got = flatten_one(&e);
    let mut want = gds_ref::RecList::new();
    e.ref_into(&mut want);
    vnote!(s, "got", "{:?} want {:?}", got.recs, want.recs);
    vcheck!(s, got.n == want.n, "c02.b2 number of records of an element");
    vcheck!(s, gds_ref::reclist_eq(&got, &want), "c02.b2 element records in BNF order with the element's content");
    vcover!(s, got.n >= 4, "element flattened reachable");
    core::mem::forget(e);
    core::mem::forget(got);
    core::mem::forget(want);
}
/// the crate's own GdsRecordList collector delivers the same list as the Sink used above (one small instance)
pub fn c02_q_b2_reclist<S: Src>(s: &mut S) {
    let e = sym_elem(s, 0, 0, 1, 2);
    let a = flatten_elem_reclist(&e);
    let b = flatten_elem(&e);
    let mut ok = a.len() == b.n;
    let mut i = 0;
    while ok && i < b.n {
        if !gds_ref::rec_eq_k(b.kinds[i], b.lens[i] as usize, &a[i], &b.recs[i]) {
            ok = false;
        }
        i += 1;
    }
    vcheck!(s, ok, "c02.b2 GdsRecordList collects the same records");
    vcheck!(s, table_ok(&b), "c02.b2 harness: record table matches the records");
    vcover!(s, b.n == 5, "boundary has five records reachable");
    core::mem::forget(e);
    core::mem::forget(a);
    core::mem::forget(b);
}

fn b2_lib_body<S: Src>(s: &mut S, ns: usize, ne: usize, k0: u8, mask: u32) {
    let lib = sym_lib(s, ns, ne, k0, mask, 1);
    vnote!(s, "lib", "{:?}", lib);
    let got = flatten_lib(&lib);
    let want = gds_ref::ref_flatten_lib(&lib);
    vnote!(s, "got", "{:?} want {:?}", got.recs, want.recs);
    vcheck!(s, got.n == want.n, "c02.b2 number of records of a library");
    vcheck!(s, gds_ref::reclist_eq(&got, &want), "c02.b2 library records: HEADER BGNLIB LIBNAME UNITS {BGNSTR STRNAME elements ENDSTR}* ENDLIB");
    vcheck!(s, got.n >= 5 && got.kinds[got.n - 1] == 0x04, "c02.b2 stream ends with ENDLIB");
    vcheck!(s, table_ok(&got), "c02.b2 harness: record table matches the records");
    vcover!(s, got.n >= 5, "library flatten reachable");
    core::mem::forget(lib);
    core::mem::forget(got);
    core::mem::forget(want);
}

// BEGIN GENERATED (bin/l21v/gen_gds.py)
pub fn c02_s_b1_k00_n0<S: Src>(s: &mut S) {
    b1_body(s, 0x00, 0)
}
pub fn c02_s_b1_k01_n0<S: Src>(s: &mut S) {
    b1_body(s, 0x01, 0)
}
pub fn c02_s_b1_k02_n0<S: Src>(s: &mut S) {
    b1_body(s, 0x02, 0)
}
pub fn c02_q_b1_k02_n1<S: Src>(s: &mut S) {
    b1_body(s, 0x02, 1)
}
pub fn c02_s_b1_k02_n2<S: Src>(s: &mut S) {
    b1_body(s, 0x02, 2)
}
pub fn c02_s_b1_k02_n3<S: Src>(s: &mut S) {
    b1_body(s, 0x02, 3)
}
pub fn c02_q_b1_k03_n0<S: Src>(s: &mut S) {
    b1_body(s, 0x03, 0)
}
pub fn c02_s_b1_k04_n0<S: Src>(s: &mut S) {
    b1_body(s, 0x04, 0)
}
pub fn c02_s_b1_k05_n0<S: Src>(s: &mut S) {
    b1_body(s, 0x05, 0)
}
pub fn c02_s_b1_k06_n0<S: Src>(s: &mut S) {
    b1_body(s, 0x06, 0)
}
pub fn c02_s_b1_k06_n1<S: Src>(s: &mut S) {
    b1_body(s, 0x06, 1)
}
pub fn c02_s_b1_k06_n2<S: Src>(s: &mut S) {
    b1_body(s, 0x06, 2)
}
pub fn c02_s_b1_k06_n3<S: Src>(s: &mut S) {
    b1_body(s, 0x06, 3)
}
pub fn c02_s_b1_k07_n0<S: Src>(s: &mut S) {
    b1_body(s, 0x07, 0)
}
pub fn c02_s_b1_k08_n0<S: Src>(s: &mut S) {
    b1_body(s, 0x08, 0)
}
pub fn c02_s_b1_k09_n0<S: Src>(s: &mut S) {
    b1_body(s, 0x09, 0)
}
pub fn c02_s_b1_k0a_n0<S: Src>(s: &mut S) {
    b1_body(s, 0x0a, 0)
}
pub fn c02_s_b1_k0b_n0<S: Src>(s: &mut S) {
    b1_body(s, 0x0b, 0)
}
pub fn c02_s_b1_k0c_n0<S: Src>(s: &mut S) {
    b1_body(s, 0x0c, 0)
}
pub fn c02_s_b1_k0d_n0<S: Src>(s: &mut S) {
    b1_body(s, 0x0d, 0)
}
pub fn c02_s_b1_k0e_n0<S: Src>(s: &mut S) {
    b1_body(s, 0x0e, 0)
}
pub fn c02_s_b1_k0f_n0<S: Src>(s: &mut S) {
    b1_body(s, 0x0f, 0)
}
pub fn c02_s_b1_k10_n0<S: Src>(s: &mut S) {
    b1_body(s, 0x10, 0)
}
pub fn c02_q_b1_k10_n2<S: Src>(s: &mut S) {
    b1_body(s, 0x10, 2)
}
pub fn c02_s_b1_k10_n5<S: Src>(s: &mut S) {
    b1_body(s, 0x10, 5)
}
pub fn c02_s_b1_k11_n0<S: Src>(s: &mut S) {
    b1_body(s, 0x11, 0)
}
pub fn c02_s_b1_k12_n0<S: Src>(s: &mut S) {
    b1_body(s, 0x12, 0)
}
pub fn c02_s_b1_k12_n1<S: Src>(s: &mut S) {
    b1_body(s, 0x12, 1)
}
pub fn c02_s_b1_k12_n2<S: Src>(s: &mut S) {
    b1_body(s, 0x12, 2)
}
pub fn c02_s_b1_k12_n3<S: Src>(s: &mut S) {
    b1_body(s, 0x12, 3)
}
pub fn c02_s_b1_k13_n0<S: Src>(s: &mut S) {
    b1_body(s, 0x13, 0)
}
pub fn c02_s_b1_k15_n0<S: Src>(s: &mut S) {
    b1_body(s, 0x15, 0)
}
pub fn c02_s_b1_k16_n0<S: Src>(s: &mut S) {
    b1_body(s, 0x16, 0)
}
pub fn c02_s_b1_k17_n0<S: Src>(s: &mut S) {
    b1_body(s, 0x17, 0)
}
pub fn c02_s_b1_k19_n0<S: Src>(s: &mut S) {
    b1_body(s, 0x19, 0)
}
pub fn c02_s_b1_k19_n1<S: Src>(s: &mut S) {
    b1_body(s, 0x19, 1)
}
pub fn c02_s_b1_k19_n2<S: Src>(s: &mut S) {
    b1_body(s, 0x19, 2)
}
pub fn c02_s_b1_k19_n3<S: Src>(s: &mut S) {
    b1_body(s, 0x19, 3)
}
pub fn c02_q_b1_k1a_n0<S: Src>(s: &mut S) {
    b1_body(s, 0x1a, 0)
}
pub fn c02_s_b1_k1b_n0<S: Src>(s: &mut S) {
    b1_body(s, 0x1b, 0)
}
pub fn c02_s_b1_k1c_n0<S: Src>(s: &mut S) {
    b1_body(s, 0x1c, 0)
}
pub fn c02_s_b1_k1f_n0<S: Src>(s: &mut S) {
    b1_body(s, 0x1f, 0)
}
pub fn c02_s_b1_k1f_n1<S: Src>(s: &mut S) {
    b1_body(s, 0x1f, 1)
}
pub fn c02_s_b1_k1f_n2<S: Src>(s: &mut S) {
    b1_body(s, 0x1f, 2)
}
pub fn c02_s_b1_k1f_n3<S: Src>(s: &mut S) {
    b1_body(s, 0x1f, 3)
}
pub fn c02_s_b1_k20_n0<S: Src>(s: &mut S) {
    b1_body(s, 0x20, 0)
}
pub fn c02_s_b1_k20_n1<S: Src>(s: &mut S) {
    b1_body(s, 0x20, 1)
}
pub fn c02_s_b1_k20_n2<S: Src>(s: &mut S) {
    b1_body(s, 0x20, 2)
}
pub fn c02_s_b1_k20_n3<S: Src>(s: &mut S) {
    b1_body(s, 0x20, 3)
}
pub fn c02_s_b1_k21_n0<S: Src>(s: &mut S) {
    b1_body(s, 0x21, 0)
}
pub fn c02_s_b1_k22_n0<S: Src>(s: &mut S) {
    b1_body(s, 0x22, 0)
}
pub fn c02_s_b1_k23_n0<S: Src>(s: &mut S) {
    b1_body(s, 0x23, 0)
}
pub fn c02_s_b1_k23_n1<S: Src>(s: &mut S) {
    b1_body(s, 0x23, 1)
}
pub fn c02_s_b1_k23_n2<S: Src>(s: &mut S) {
    b1_body(s, 0x23, 2)
}
pub fn c02_s_b1_k23_n3<S: Src>(s: &mut S) {
    b1_body(s, 0x23, 3)
}
pub fn c02_s_b1_k26_n0<S: Src>(s: &mut S) {
    b1_body(s, 0x26, 0)
}
pub fn c02_s_b1_k2a_n0<S: Src>(s: &mut S) {
    b1_body(s, 0x2a, 0)
}
pub fn c02_s_b1_k2b_n0<S: Src>(s: &mut S) {
    b1_body(s, 0x2b, 0)
}
pub fn c02_s_b1_k2c_n0<S: Src>(s: &mut S) {
    b1_body(s, 0x2c, 0)
}
pub fn c02_s_b1_k2c_n1<S: Src>(s: &mut S) {
    b1_body(s, 0x2c, 1)
}
pub fn c02_s_b1_k2c_n2<S: Src>(s: &mut S) {
    b1_body(s, 0x2c, 2)
}
pub fn c02_s_b1_k2c_n3<S: Src>(s: &mut S) {
    b1_body(s, 0x2c, 3)
}
pub fn c02_s_b1_k2d_n0<S: Src>(s: &mut S) {
    b1_body(s, 0x2d, 0)
}
pub fn c02_s_b1_k2e_n0<S: Src>(s: &mut S) {
    b1_body(s, 0x2e, 0)
}
pub fn c02_s_b1_k2f_n0<S: Src>(s: &mut S) {
    b1_body(s, 0x2f, 0)
}
pub fn c02_s_b1_k30_n0<S: Src>(s: &mut S) {
    b1_body(s, 0x30, 0)
}
pub fn c02_s_b1_k31_n0<S: Src>(s: &mut S) {
    b1_body(s, 0x31, 0)
}
pub fn c02_s_b1_k32_n0<S: Src>(s: &mut S) {
    b1_body(s, 0x32, 0)
}
pub fn c02_s_b1_k33_n0<S: Src>(s: &mut S) {
    b1_body(s, 0x33, 0)
}
pub fn c02_s_b1_k36_n0<S: Src>(s: &mut S) {
    b1_body(s, 0x36, 0)
}
pub fn c02_s_b1_k37_n0<S: Src>(s: &mut S) {
    b1_body(s, 0x37, 0)
}
pub fn c02_s_b1_k37_n1<S: Src>(s: &mut S) {
    b1_body(s, 0x37, 1)
}
pub fn c02_s_b1_k37_n2<S: Src>(s: &mut S) {
    b1_body(s, 0x37, 2)
}
pub fn c02_s_b1_k37_n3<S: Src>(s: &mut S) {
    b1_body(s, 0x37, 3)
}
pub fn c02_s_b1_k38_n0<S: Src>(s: &mut S) {
    b1_body(s, 0x38, 0)
}
pub fn c02_s_b1_k39_n0<S: Src>(s: &mut S) {
    b1_body(s, 0x39, 0)
}
pub fn c02_s_b1_k3a_n0<S: Src>(s: &mut S) {
    b1_body(s, 0x3a, 0)
}
pub fn c02_s_b1_k3a_n1<S: Src>(s: &mut S) {
    b1_body(s, 0x3a, 1)
}
pub fn c02_s_b1_k3a_n2<S: Src>(s: &mut S) {
    b1_body(s, 0x3a, 2)
}
pub fn c02_s_b1_k3a_n3<S: Src>(s: &mut S) {
    b1_body(s, 0x3a, 3)
}
pub fn c02_s_b1_k3b_n0<S: Src>(s: &mut S) {
    b1_body(s, 0x3b, 0)
}
pub fn c02_s_b2_e0_m0<S: Src>(s: &mut S) {
    b2_body::<S, GdsBoundary>(s, 0, 1, 2)
}
pub fn c02_s_b2_e0_m1<S: Src>(s: &mut S) {
    b2_body::<S, GdsBoundary>(s, 1, 1, 2)
}
pub fn c02_s_b2_e0_m2<S: Src>(s: &mut S) {
    b2_body::<S, GdsBoundary>(s, 2, 1, 2)
}
pub fn c02_s_b2_e0_m3<S: Src>(s: &mut S) {
    b2_body::<S, GdsBoundary>(s, 3, 1, 2)
}
pub fn c02_s_b2_e0_m1024<S: Src>(s: &mut S) {
    b2_body::<S, GdsBoundary>(s, 1024, 1, 2)
}
pub fn c02_s_b2_e0_m1025<S: Src>(s: &mut S) {
    b2_body::<S, GdsBoundary>(s, 1025, 1, 2)
}
pub fn c02_s_b2_e0_m1026<S: Src>(s: &mut S) {
    b2_body::<S, GdsBoundary>(s, 1026, 1, 2)
}
pub fn c02_s_b2_e0_m1027<S: Src>(s: &mut S) {
    b2_body::<S, GdsBoundary>(s, 1027, 1, 2)
}
pub fn c02_s_b2_e1_m0<S: Src>(s: &mut S) {
    b2_body::<S, GdsPath>(s, 0, 1, 2)
}
pub fn c02_s_b2_e1_m1<S: Src>(s: &mut S) {
    b2_body::<S, GdsPath>(s, 1, 1, 2)
}
pub fn c02_s_b2_e1_m2<S: Src>(s: &mut S) {
    b2_body::<S, GdsPath>(s, 2, 1, 2)
}
pub fn c02_s_b2_e1_m32<S: Src>(s: &mut S) {
    b2_body::<S, GdsPath>(s, 32, 1, 2)
}
pub fn c02_s_b2_e1_m64<S: Src>(s: &mut S) {
    b2_body::<S, GdsPath>(s, 64, 1, 2)
}
pub fn c02_s_b2_e1_m128<S: Src>(s: &mut S) {
    b2_body::<S, GdsPath>(s, 128, 1, 2)
}
pub fn c02_s_b2_e1_m256<S: Src>(s: &mut S) {
    b2_body::<S, GdsPath>(s, 256, 1, 2)
}
pub fn c02_s_b2_e1_m483<S: Src>(s: &mut S) {
    b2_body::<S, GdsPath>(s, 483, 1, 2)
}
pub fn c02_s_b2_e1_m1024<S: Src>(s: &mut S) {
    b2_body::<S, GdsPath>(s, 1024, 1, 2)
}
pub fn c02_s_b2_e1_m1251<S: Src>(s: &mut S) {
    b2_body::<S, GdsPath>(s, 1251, 1, 2)
}
pub fn c02_s_b2_e1_m1379<S: Src>(s: &mut S) {
    b2_body::<S, GdsPath>(s, 1379, 1, 2)
}
pub fn c02_s_b2_e1_m1443<S: Src>(s: &mut S) {
    b2_body::<S, GdsPath>(s, 1443, 1, 2)
}
pub fn c02_s_b2_e1_m1475<S: Src>(s: &mut S) {
    b2_body::<S, GdsPath>(s, 1475, 1, 2)
}
pub fn c02_s_b2_e1_m1505<S: Src>(s: &mut S) {
    b2_body::<S, GdsPath>(s, 1505, 1, 2)
}
pub fn c02_s_b2_e1_m1506<S: Src>(s: &mut S) {
    b2_body::<S, GdsPath>(s, 1506, 1, 2)
}
pub fn c02_q_b2_e1_m1507<S: Src>(s: &mut S) {
    b2_body::<S, GdsPath>(s, 1507, 1, 2)
}
pub fn c02_s_b2_e2_m0<S: Src>(s: &mut S) {
    b2_body::<S, GdsStructRef>(s, 0, 1, 2)
}
pub fn c02_s_b2_e2_m1<S: Src>(s: &mut S) {
    b2_body::<S, GdsStructRef>(s, 1, 1, 2)
}
pub fn c02_s_b2_e2_m2<S: Src>(s: &mut S) {
    b2_body::<S, GdsStructRef>(s, 2, 1, 2)
}
pub fn c02_s_b2_e2_m4<S: Src>(s: &mut S) {
    b2_body::<S, GdsStructRef>(s, 4, 1, 2)
}
pub fn c02_s_b2_e2_m12<S: Src>(s: &mut S) {
    b2_body::<S, GdsStructRef>(s, 12, 1, 2)
}
pub fn c02_s_b2_e2_m20<S: Src>(s: &mut S) {
    b2_body::<S, GdsStructRef>(s, 20, 1, 2)
}
pub fn c02_s_b2_e2_m31<S: Src>(s: &mut S) {
    b2_body::<S, GdsStructRef>(s, 31, 1, 2)
}
pub fn c02_s_b2_e2_m1024<S: Src>(s: &mut S) {
    b2_body::<S, GdsStructRef>(s, 1024, 1, 2)
}
pub fn c02_s_b2_e2_m1027<S: Src>(s: &mut S) {
    b2_body::<S, GdsStructRef>(s, 1027, 1, 2)
}
pub fn c02_s_b2_e2_m1039<S: Src>(s: &mut S) {
    b2_body::<S, GdsStructRef>(s, 1039, 1, 2)
}
pub fn c02_s_b2_e2_m1047<S: Src>(s: &mut S) {
    b2_body::<S, GdsStructRef>(s, 1047, 1, 2)
}
pub fn c02_s_b2_e2_m1053<S: Src>(s: &mut S) {
    b2_body::<S, GdsStructRef>(s, 1053, 1, 2)
}
pub fn c02_s_b2_e2_m1054<S: Src>(s: &mut S) {
    b2_body::<S, GdsStructRef>(s, 1054, 1, 2)
}
pub fn c02_s_b2_e2_m1055<S: Src>(s: &mut S) {
    b2_body::<S, GdsStructRef>(s, 1055, 1, 2)
}
pub fn c02_s_b2_e3_m0<S: Src>(s: &mut S) {
    b2_body::<S, GdsArrayRef>(s, 0, 1, 2)
}
pub fn c02_s_b2_e3_m1<S: Src>(s: &mut S) {
    b2_body::<S, GdsArrayRef>(s, 1, 1, 2)
}
pub fn c02_s_b2_e3_m2<S: Src>(s: &mut S) {
    b2_body::<S, GdsArrayRef>(s, 2, 1, 2)
}
pub fn c02_s_b2_e3_m4<S: Src>(s: &mut S) {
    b2_body::<S, GdsArrayRef>(s, 4, 1, 2)
}
pub fn c02_s_b2_e3_m12<S: Src>(s: &mut S) {
    b2_body::<S, GdsArrayRef>(s, 12, 1, 2)
}
pub fn c02_s_b2_e3_m20<S: Src>(s: &mut S) {
    b2_body::<S, GdsArrayRef>(s, 20, 1, 2)
}
pub fn c02_s_b2_e3_m31<S: Src>(s: &mut S) {
    b2_body::<S, GdsArrayRef>(s, 31, 1, 2)
}
pub fn c02_s_b2_e3_m1024<S: Src>(s: &mut S) {
    b2_body::<S, GdsArrayRef>(s, 1024, 1, 2)
}
pub fn c02_s_b2_e3_m1027<S: Src>(s: &mut S) {
    b2_body::<S, GdsArrayRef>(s, 1027, 1, 2)
}
pub fn c02_s_b2_e3_m1039<S: Src>(s: &mut S) {
    b2_body::<S, GdsArrayRef>(s, 1039, 1, 2)
}
pub fn c02_s_b2_e3_m1047<S: Src>(s: &mut S) {
    b2_body::<S, GdsArrayRef>(s, 1047, 1, 2)
}
pub fn c02_s_b2_e3_m1053<S: Src>(s: &mut S) {
    b2_body::<S, GdsArrayRef>(s, 1053, 1, 2)
}
pub fn c02_s_b2_e3_m1054<S: Src>(s: &mut S) {
    b2_body::<S, GdsArrayRef>(s, 1054, 1, 2)
}
pub fn c02_s_b2_e3_m1055<S: Src>(s: &mut S) {
    b2_body::<S, GdsArrayRef>(s, 1055, 1, 2)
}
pub fn c02_s_b2_e4_m0<S: Src>(s: &mut S) {
    b2_body::<S, GdsTextElem>(s, 0, 1, 2)
}
pub fn c02_s_b2_e4_m1<S: Src>(s: &mut S) {
    b2_body::<S, GdsTextElem>(s, 1, 1, 2)
}
pub fn c02_s_b2_e4_m2<S: Src>(s: &mut S) {
    b2_body::<S, GdsTextElem>(s, 2, 1, 2)
}
pub fn c02_s_b2_e4_m4<S: Src>(s: &mut S) {
    b2_body::<S, GdsTextElem>(s, 4, 1, 2)
}
pub fn c02_s_b2_e4_m12<S: Src>(s: &mut S) {
    b2_body::<S, GdsTextElem>(s, 12, 1, 2)
}
pub fn c02_s_b2_e4_m20<S: Src>(s: &mut S) {
    b2_body::<S, GdsTextElem>(s, 20, 1, 2)
}
pub fn c02_s_b2_e4_m32<S: Src>(s: &mut S) {
    b2_body::<S, GdsTextElem>(s, 32, 1, 2)
}
pub fn c02_s_b2_e4_m64<S: Src>(s: &mut S) {
    b2_body::<S, GdsTextElem>(s, 64, 1, 2)
}
pub fn c02_s_b2_e4_m512<S: Src>(s: &mut S) {
    b2_body::<S, GdsTextElem>(s, 512, 1, 2)
}
pub fn c02_s_b2_e4_m639<S: Src>(s: &mut S) {
    b2_body::<S, GdsTextElem>(s, 639, 1, 2)
}
pub fn c02_s_b2_e4_m1024<S: Src>(s: &mut S) {
    b2_body::<S, GdsTextElem>(s, 1024, 1, 2)
}
pub fn c02_s_b2_e4_m1151<S: Src>(s: &mut S) {
    b2_body::<S, GdsTextElem>(s, 1151, 1, 2)
}
pub fn c02_s_b2_e4_m1599<S: Src>(s: &mut S) {
    b2_body::<S, GdsTextElem>(s, 1599, 1, 2)
}
pub fn c02_s_b2_e4_m1631<S: Src>(s: &mut S) {
    b2_body::<S, GdsTextElem>(s, 1631, 1, 2)
}
pub fn c02_s_b2_e4_m1635<S: Src>(s: &mut S) {
    b2_body::<S, GdsTextElem>(s, 1635, 1, 2)
}
pub fn c02_s_b2_e4_m1647<S: Src>(s: &mut S) {
    b2_body::<S, GdsTextElem>(s, 1647, 1, 2)
}
pub fn c02_s_b2_e4_m1655<S: Src>(s: &mut S) {
    b2_body::<S, GdsTextElem>(s, 1655, 1, 2)
}
pub fn c02_s_b2_e4_m1661<S: Src>(s: &mut S) {
    b2_body::<S, GdsTextElem>(s, 1661, 1, 2)
}
pub fn c02_s_b2_e4_m1662<S: Src>(s: &mut S) {
    b2_body::<S, GdsTextElem>(s, 1662, 1, 2)
}
pub fn c02_q_b2_e4_m1663<S: Src>(s: &mut S) {
    b2_body::<S, GdsTextElem>(s, 1663, 1, 2)
}
pub fn c02_s_b2_e5_m0<S: Src>(s: &mut S) {
    b2_body::<S, GdsNode>(s, 0, 1, 2)
}
pub fn c02_s_b2_e5_m1<S: Src>(s: &mut S) {
    b2_body::<S, GdsNode>(s, 1, 1, 2)
}
pub fn c02_s_b2_e5_m2<S: Src>(s: &mut S) {
    b2_body::<S, GdsNode>(s, 2, 1, 2)
}
pub fn c02_s_b2_e5_m3<S: Src>(s: &mut S) {
    b2_body::<S, GdsNode>(s, 3, 1, 2)
}
pub fn c02_s_b2_e5_m1024<S: Src>(s: &mut S) {
    b2_body::<S, GdsNode>(s, 1024, 1, 2)
}
pub fn c02_s_b2_e5_m1025<S: Src>(s: &mut S) {
    b2_body::<S, GdsNode>(s, 1025, 1, 2)
}
pub fn c02_s_b2_e5_m1026<S: Src>(s: &mut S) {
    b2_body::<S, GdsNode>(s, 1026, 1, 2)
}
pub fn c02_s_b2_e5_m1027<S: Src>(s: &mut S) {
    b2_body::<S, GdsNode>(s, 1027, 1, 2)
}
pub fn c02_s_b2_e6_m0<S: Src>(s: &mut S) {
    b2_body::<S, GdsBox>(s, 0, 1, 2)
}
pub fn c02_s_b2_e6_m1<S: Src>(s: &mut S) {
    b2_body::<S, GdsBox>(s, 1, 1, 2)
}
pub fn c02_s_b2_e6_m2<S: Src>(s: &mut S) {
    b2_body::<S, GdsBox>(s, 2, 1, 2)
}
pub fn c02_s_b2_e6_m3<S: Src>(s: &mut S) {
    b2_body::<S, GdsBox>(s, 3, 1, 2)
}
pub fn c02_s_b2_e6_m1024<S: Src>(s: &mut S) {
    b2_body::<S, GdsBox>(s, 1024, 1, 2)
}
pub fn c02_s_b2_e6_m1025<S: Src>(s: &mut S) {
    b2_body::<S, GdsBox>(s, 1025, 1, 2)
}
pub fn c02_s_b2_e6_m1026<S: Src>(s: &mut S) {
    b2_body::<S, GdsBox>(s, 1026, 1, 2)
}
pub fn c02_s_b2_e6_m1027<S: Src>(s: &mut S) {
    b2_body::<S, GdsBox>(s, 1027, 1, 2)
}
pub fn c02_s_b2_e1_m1507_pt0<S: Src>(s: &mut S) {
    b2_body_pin::<S, GdsPath>(s, 1507, 1, 2, 0)
}
pub fn c02_s_b2_e1_m1507_pt1<S: Src>(s: &mut S) {
    b2_body_pin::<S, GdsPath>(s, 1507, 1, 2, 1)
}
pub fn c02_q_b2_e1_m1507_pt2<S: Src>(s: &mut S) {
    b2_body_pin::<S, GdsPath>(s, 1507, 1, 2, 2)
}
pub fn c02_s_b2_e1_m1507_pt4<S: Src>(s: &mut S) {
    b2_body_pin::<S, GdsPath>(s, 1507, 1, 2, 4)
}
pub fn c02_s_b2_e4_m1663_pt0<S: Src>(s: &mut S) {
    b2_body_pin::<S, GdsTextElem>(s, 1663, 1, 2, 0)
}
pub fn c02_s_b2_e4_m1663_pt1<S: Src>(s: &mut S) {
    b2_body_pin::<S, GdsTextElem>(s, 1663, 1, 2, 1)
}
pub fn c02_s_b2_e4_m1663_pt2<S: Src>(s: &mut S) {
    b2_body_pin::<S, GdsTextElem>(s, 1663, 1, 2, 2)
}
pub fn c02_s_b2_e4_m1663_pt4<S: Src>(s: &mut S) {
    b2_body_pin::<S, GdsTextElem>(s, 1663, 1, 2, 4)
}
pub fn c02_x_b2_lib_1x1_k3_m2047<S: Src>(s: &mut S) {
    b2_lib_body(s, 1, 1, 3, 2047)
}
pub fn c02_x_b2_lib_2x2_k0_m2047<S: Src>(s: &mut S) {
    b2_lib_body(s, 2, 2, 0, 2047)
}
pub fn c02_x_b2_lib_2x2_k3_m0<S: Src>(s: &mut S) {
    b2_lib_body(s, 2, 2, 3, 0)
}
pub fn c02_x_b2_lib_1x2_k5_m1031<S: Src>(s: &mut S) {
    b2_lib_body(s, 1, 2, 5, 1031)
}
pub fn c02_q_b2_lib_0x0_k0_m0<S: Src>(s: &mut S) {
    b2_lib_body(s, 0, 0, 0, 0)
}

#[cfg(not(kani))]
pub fn replay(name: &str, vals: Vec<Vec<u8>>) -> ReplayOut {
    run_native(name, vals, k::dispatch)
}

harnesses! { k, "sel_gds21_write.rs";
    #[kani::stub(std::str::from_utf8, from_utf8_model)] #[kani::stub(crate::data::GdsFloat64::encode, enc_bits)] #[kani::stub(crate::data::GdsFloat64::decode, dec_bits)] #[kani::stub(alloc::fmt::format, fmt_stub)] #[kani::unwind(4)] c02_q_b1_len_limit;
    #[kani::stub(std::str::from_utf8, from_utf8_model)] #[kani::stub(crate::data::GdsFloat64::encode, enc_bits)] #[kani::stub(crate::data::GdsFloat64::decode, dec_bits)] #[kani::stub(alloc::fmt::format, fmt_stub)] #[kani::unwind(8)] c02_q_b2_reclist;
    #[kani::stub(std::str::from_utf8, from_utf8_model)] #[kani::stub(crate::data::GdsFloat64::encode, enc_bits)] #[kani::stub(crate::data::GdsFloat64::decode, dec_bits)] #[kani::stub(alloc::fmt::format, fmt_stub)] #[kani::unwind(14)] c02_s_b1_k00_n0;
    #[kani::stub(std::str::from_utf8, from_utf8_model)] #[kani::stub(crate::data::GdsFloat64::encode, enc_bits)] #[kani::stub(crate::data::GdsFloat64::decode, dec_bits)] #[kani::stub(alloc::fmt::format, fmt_stub)] #[kani::unwind(30)] c02_s_b1_k01_n0;
    #[kani::stub(std::str::from_utf8, from_utf8_model)] #[kani::stub(crate::data::GdsFloat64::encode, enc_bits)] #[kani::stub(crate::data::GdsFloat64::decode, dec_bits)] #[kani::stub(alloc::fmt::format, fmt_stub)] #[kani::unwind(6)] c02_s_b1_k02_n0;
    #[kani::stub(std::str::from_utf8, from_utf8_model)] #[kani::stub(crate::data::GdsFloat64::encode, enc_bits)] #[kani::stub(crate::data::GdsFloat64::decode, dec_bits)] #[kani::stub(alloc::fmt::format, fmt_stub)] #[kani::unwind(8)] c02_q_b1_k02_n1;
    #[kani::stub(std::str::from_utf8, from_utf8_model)] #[kani::stub(crate::data::GdsFloat64::encode, enc_bits)] #[kani::stub(crate::data::GdsFloat64::decode, dec_bits)] #[kani::stub(alloc::fmt::format, fmt_stub)] #[kani::unwind(8)] c02_s_b1_k02_n2;
    #[kani::stub(std::str::from_utf8, from_utf8_model)] #[kani::stub(crate::data::GdsFloat64::encode, enc_bits)] #[kani::stub(crate::data::GdsFloat64::decode, dec_bits)] #[kani::stub(alloc::fmt::format, fmt_stub)] #[kani::unwind(10)] c02_s_b1_k02_n3;
    #[kani::stub(std::str::from_utf8, from_utf8_model)] #[kani::stub(crate::data::GdsFloat64::encode, enc_bits)] #[kani::stub(crate::data::GdsFloat64::decode, dec_bits)] #[kani::stub(alloc::fmt::format, fmt_stub)] #[kani::unwind(22)] c02_q_b1_k03_n0;
    #[kani::stub(std::str::from_utf8, from_utf8_model)] #[kani::stub(crate::data::GdsFloat64::encode, enc_bits)] #[kani::stub(crate::data::GdsFloat64::decode, dec_bits)] #[kani::stub(alloc::fmt::format, fmt_stub)] #[kani::unwind(14)] c02_s_b1_k04_n0;
    #[kani::stub(std::str::from_utf8, from_utf8_model)] #[kani::stub(crate::data::GdsFloat64::encode, enc_bits)] #[kani::stub(crate::data::GdsFloat64::decode, dec_bits)] #[kani::stub(alloc::fmt::format, fmt_stub)] #[kani::unwind(30)] c02_s_b1_k05_n0;
    #[kani::stub(std::str::from_utf8, from_utf8_model)] #[kani::stub(crate::data::GdsFloat64::encode, enc_bits)] #[kani::stub(crate::data::GdsFloat64::decode, dec_bits)] #[kani::stub(alloc::fmt::format, fmt_stub)] #[kani::unwind(6)] c02_s_b1_k06_n0;
    #[kani::stub(std::str::from_utf8, from_utf8_model)] #[kani::stub(crate::data::GdsFloat64::encode, enc_bits)] #[kani::stub(crate::data::GdsFloat64::decode, dec_bits)] #[kani::stub(alloc::fmt::format, fmt_stub)] #[kani::unwind(8)] c02_s_b1_k06_n1;
    #[kani::stub(std::str::from_utf8, from_utf8_model)] #[kani::stub(crate::data::GdsFloat64::encode, enc_bits)] #[kani::stub(crate::data::GdsFloat64::decode, dec_bits)] #[kani::stub(alloc::fmt::format, fmt_stub)] #[kani::unwind(8)] c02_s_b1_k06_n2;
    #[kani::stub(std::str::from_utf8, from_utf8_model)] #[kani::stub(crate::data::GdsFloat64::encode, enc_bits)] #[kani::stub(crate::data::GdsFloat64::decode, dec_bits)] #[kani::stub(alloc::fmt::format, fmt_stub)] #[kani::unwind(10)] c02_s_b1_k06_n3;
    #[kani::stub(std::str::from_utf8, from_utf8_model)] #[kani::stub(crate::data::GdsFloat64::encode, enc_bits)] #[kani::stub(crate::data::GdsFloat64::decode, dec_bits)] #[kani::stub(alloc::fmt::format, fmt_stub)] #[kani::unwind(14)] c02_s_b1_k07_n0;
    #[kani::stub(std::str::from_utf8, from_utf8_model)] #[kani::stub(crate::data::GdsFloat64::encode, enc_bits)] #[kani::stub(crate::data::GdsFloat64::decode, dec_bits)] #[kani::stub(alloc::fmt::format, fmt_stub)] #[kani::unwind(14)] c02_s_b1_k08_n0;
    #[kani::stub(std::str::from_utf8, from_utf8_model)] #[kani::stub(crate::data::GdsFloat64::encode, enc_bits)] #[kani::stub(crate::data::GdsFloat64::decode, dec_bits)] #[kani::stub(alloc::fmt::format, fmt_stub)] #[kani::unwind(14)] c02_s_b1_k09_n0;
    #[kani::stub(std::str::from_utf8, from_utf8_model)] #[kani::stub(crate::data::GdsFloat64::encode, enc_bits)] #[kani::stub(crate::data::GdsFloat64::decode, dec_bits)] #[kani::stub(alloc::fmt::format, fmt_stub)] #[kani::unwind(14)] c02_s_b1_k0a_n0;
    #[kani::stub(std::str::from_utf8, from_utf8_model)] #[kani::stub(crate::data::GdsFloat64::encode, enc_bits)] #[kani::stub(crate::data::GdsFloat64::decode, dec_bits)] #[kani::stub(alloc::fmt::format, fmt_stub)] #[kani::unwind(14)] c02_s_b1_k0b_n0;
    #[kani::stub(std::str::from_utf8, from_utf8_model)] #[kani::stub(crate::data::GdsFloat64::encode, enc_bits)] #[kani::stub(crate::data::GdsFloat64::decode, dec_bits)] #[kani::stub(alloc::fmt::format, fmt_stub)] #[kani::unwind(14)] c02_s_b1_k0c_n0;
    #[kani::stub(std::str::from_utf8, from_utf8_model)] #[kani::stub(crate::data::GdsFloat64::encode, enc_bits)] #[kani::stub(crate::data::GdsFloat64::decode, dec_bits)] #[kani::stub(alloc::fmt::format, fmt_stub)] #[kani::unwind(14)] c02_s_b1_k0d_n0;
    #[kani::stub(std::str::from_utf8, from_utf8_model)] #[kani::stub(crate::data::GdsFloat64::encode, enc_bits)] #[kani::stub(crate::data::GdsFloat64::decode, dec_bits)] #[kani::stub(alloc::fmt::format, fmt_stub)] #[kani::unwind(14)] c02_s_b1_k0e_n0;
    #[kani::stub(std::str::from_utf8, from_utf8_model)] #[kani::stub(crate::data::GdsFloat64::encode, enc_bits)] #[kani::stub(crate::data::GdsFloat64::decode, dec_bits)] #[kani::stub(alloc::fmt::format, fmt_stub)] #[kani::unwind(14)] c02_s_b1_k0f_n0;
    #[kani::stub(std::str::from_utf8, from_utf8_model)] #[kani::stub(crate::data::GdsFloat64::encode, enc_bits)] #[kani::stub(crate::data::GdsFloat64::decode, dec_bits)] #[kani::stub(alloc::fmt::format, fmt_stub)] #[kani::unwind(6)] c02_s_b1_k10_n0;
    #[kani::stub(std::str::from_utf8, from_utf8_model)] #[kani::stub(crate::data::GdsFloat64::encode, enc_bits)] #[kani::stub(crate::data::GdsFloat64::decode, dec_bits)] #[kani::stub(alloc::fmt::format, fmt_stub)] #[kani::unwind(14)] c02_q_b1_k10_n2;
    #[kani::stub(std::str::from_utf8, from_utf8_model)] #[kani::stub(crate::data::GdsFloat64::encode, enc_bits)] #[kani::stub(crate::data::GdsFloat64::decode, dec_bits)] #[kani::stub(alloc::fmt::format, fmt_stub)] #[kani::unwind(26)] c02_s_b1_k10_n5;
    #[kani::stub(std::str::from_utf8, from_utf8_model)] #[kani::stub(crate::data::GdsFloat64::encode, enc_bits)] #[kani::stub(crate::data::GdsFloat64::decode, dec_bits)] #[kani::stub(alloc::fmt::format, fmt_stub)] #[kani::unwind(14)] c02_s_b1_k11_n0;
    #[kani::stub(std::str::from_utf8, from_utf8_model)] #[kani::stub(crate::data::GdsFloat64::encode, enc_bits)] #[kani::stub(crate::data::GdsFloat64::decode, dec_bits)] #[kani::stub(alloc::fmt::format, fmt_stub)] #[kani::unwind(6)] c02_s_b1_k12_n0;
    #[kani::stub(std::str::from_utf8, from_utf8_model)] #[kani::stub(crate::data::GdsFloat64::encode, enc_bits)] #[kani::stub(crate::data::GdsFloat64::decode, dec_bits)] #[kani::stub(alloc::fmt::format, fmt_stub)] #[kani::unwind(8)] c02_s_b1_k12_n1;
    #[kani::stub(std::str::from_utf8, from_utf8_model)] #[kani::stub(crate::data::GdsFloat64::encode, enc_bits)] #[kani::stub(crate::data::GdsFloat64::decode, dec_bits)] #[kani::stub(alloc::fmt::format, fmt_stub)] #[kani::unwind(8)] c02_s_b1_k12_n2;
    #[kani::stub(std::str::from_utf8, from_utf8_model)] #[kani::stub(crate::data::GdsFloat64::encode, enc_bits)] #[kani::stub(crate::data::GdsFloat64::decode, dec_bits)] #[kani::stub(alloc::fmt::format, fmt_stub)] #[kani::unwind(10)] c02_s_b1_k12_n3;
    #[kani::stub(std::str::from_utf8, from_utf8_model)] #[kani::stub(crate::data::GdsFloat64::encode, enc_bits)] #[kani::stub(crate::data::GdsFloat64::decode, dec_bits)] #[kani::stub(alloc::fmt::format, fmt_stub)] #[kani::unwind(14)] c02_s_b1_k13_n0;
    #[kani::stub(std::str::from_utf8, from_utf8_model)] #[kani::stub(crate::data::GdsFloat64::encode, enc_bits)] #[kani::stub(crate::data::GdsFloat64::decode, dec_bits)] #[kani::stub(alloc::fmt::format, fmt_stub)] #[kani::unwind(14)] c02_s_b1_k15_n0;
    #[kani::stub(std::str::from_utf8, from_utf8_model)] #[kani::stub(crate::data::GdsFloat64::encode, enc_bits)] #[kani::stub(crate::data::GdsFloat64::decode, dec_bits)] #[kani::stub(alloc::fmt::format, fmt_stub)] #[kani::unwind(14)] c02_s_b1_k16_n0;
    #[kani::stub(std::str::from_utf8, from_utf8_model)] #[kani::stub(crate::data::GdsFloat64::encode, enc_bits)] #[kani::stub(crate::data::GdsFloat64::decode, dec_bits)] #[kani::stub(alloc::fmt::format, fmt_stub)] #[kani::unwind(14)] c02_s_b1_k17_n0;
    #[kani::stub(std::str::from_utf8, from_utf8_model)] #[kani::stub(crate::data::GdsFloat64::encode, enc_bits)] #[kani::stub(crate::data::GdsFloat64::decode, dec_bits)] #[kani::stub(alloc::fmt::format, fmt_stub)] #[kani::unwind(6)] c02_s_b1_k19_n0;
    #[kani::stub(std::str::from_utf8, from_utf8_model)] #[kani::stub(crate::data::GdsFloat64::encode, enc_bits)] #[kani::stub(crate::data::GdsFloat64::decode, dec_bits)] #[kani::stub(alloc::fmt::format, fmt_stub)] #[kani::unwind(8)] c02_s_b1_k19_n1;
    #[kani::stub(std::str::from_utf8, from_utf8_model)] #[kani::stub(crate::data::GdsFloat64::encode, enc_bits)] #[kani::stub(crate::data::GdsFloat64::decode, dec_bits)] #[kani::stub(alloc::fmt::format, fmt_stub)] #[kani::unwind(8)] c02_s_b1_k19_n2;
    #[kani::stub(std::str::from_utf8, from_utf8_model)] #[kani::stub(crate::data::GdsFloat64::encode, enc_bits)] #[kani::stub(crate::data::GdsFloat64::decode, dec_bits)] #[kani::stub(alloc::fmt::format, fmt_stub)] #[kani::unwind(10)] c02_s_b1_k19_n3;
    #[kani::stub(std::str::from_utf8, from_utf8_model)] #[kani::stub(crate::data::GdsFloat64::encode, enc_bits)] #[kani::stub(crate::data::GdsFloat64::decode, dec_bits)] #[kani::stub(alloc::fmt::format, fmt_stub)] #[kani::unwind(14)] c02_q_b1_k1a_n0;
    #[kani::stub(std::str::from_utf8, from_utf8_model)] #[kani::stub(crate::data::GdsFloat64::encode, enc_bits)] #[kani::stub(crate::data::GdsFloat64::decode, dec_bits)] #[kani::stub(alloc::fmt::format, fmt_stub)] #[kani::unwind(14)] c02_s_b1_k1b_n0;
    #[kani::stub(std::str::from_utf8, from_utf8_model)] #[kani::stub(crate::data::GdsFloat64::encode, enc_bits)] #[kani::stub(crate::data::GdsFloat64::decode, dec_bits)] #[kani::stub(alloc::fmt::format, fmt_stub)] #[kani::unwind(14)] c02_s_b1_k1c_n0;
    #[kani::stub(std::str::from_utf8, from_utf8_model)] #[kani::stub(crate::data::GdsFloat64::encode, enc_bits)] #[kani::stub(crate::data::GdsFloat64::decode, dec_bits)] #[kani::stub(alloc::fmt::format, fmt_stub)] #[kani::unwind(6)] c02_s_b1_k1f_n0;
    #[kani::stub(std::str::from_utf8, from_utf8_model)] #[kani::stub(crate::data::GdsFloat64::encode, enc_bits)] #[kani::stub(crate::data::GdsFloat64::decode, dec_bits)] #[kani::stub(alloc::fmt::format, fmt_stub)] #[kani::unwind(8)] c02_s_b1_k1f_n1;
    #[kani::stub(std::str::from_utf8, from_utf8_model)] #[kani::stub(crate::data::GdsFloat64::encode, enc_bits)] #[kani::stub(crate::data::GdsFloat64::decode, dec_bits)] #[kani::stub(alloc::fmt::format, fmt_stub)] #[kani::unwind(8)] c02_s_b1_k1f_n2;
    #[kani::stub(std::str::from_utf8, from_utf8_model)] #[kani::stub(crate::data::GdsFloat64::encode, enc_bits)] #[kani::stub(crate::data::GdsFloat64::decode, dec_bits)] #[kani::stub(alloc::fmt::format, fmt_stub)] #[kani::unwind(10)] c02_s_b1_k1f_n3;
    #[kani::stub(std::str::from_utf8, from_utf8_model)] #[kani::stub(crate::data::GdsFloat64::encode, enc_bits)] #[kani::stub(crate::data::GdsFloat64::decode, dec_bits)] #[kani::stub(alloc::fmt::format, fmt_stub)] #[kani::unwind(6)] c02_s_b1_k20_n0;
    #[kani::stub(std::str::from_utf8, from_utf8_model)] #[kani::stub(crate::data::GdsFloat64::encode, enc_bits)] #[kani::stub(crate::data::GdsFloat64::decode, dec_bits)] #[kani::stub(alloc::fmt::format, fmt_stub)] #[kani::unwind(8)] c02_s_b1_k20_n1;
    #[kani::stub(std::str::from_utf8, from_utf8_model)] #[kani::stub(crate::data::GdsFloat64::encode, enc_bits)] #[kani::stub(crate::data::GdsFloat64::decode, dec_bits)] #[kani::stub(alloc::fmt::format, fmt_stub)] #[kani::unwind(8)] c02_s_b1_k20_n2;
    #[kani::stub(std::str::from_utf8, from_utf8_model)] #[kani::stub(crate::data::GdsFloat64::encode, enc_bits)] #[kani::stub(crate::data::GdsFloat64::decode, dec_bits)] #[kani::stub(alloc::fmt::format, fmt_stub)] #[kani::unwind(10)] c02_s_b1_k20_n3;
    #[kani::stub(std::str::from_utf8, from_utf8_model)] #[kani::stub(crate::data::GdsFloat64::encode, enc_bits)] #[kani::stub(crate::data::GdsFloat64::decode, dec_bits)] #[kani::stub(alloc::fmt::format, fmt_stub)] #[kani::unwind(14)] c02_s_b1_k21_n0;
    #[kani::stub(std::str::from_utf8, from_utf8_model)] #[kani::stub(crate::data::GdsFloat64::encode, enc_bits)] #[kani::stub(crate::data::GdsFloat64::decode, dec_bits)] #[kani::stub(alloc::fmt::format, fmt_stub)] #[kani::unwind(14)] c02_s_b1_k22_n0;
    #[kani::stub(std::str::from_utf8, from_utf8_model)] #[kani::stub(crate::data::GdsFloat64::encode, enc_bits)] #[kani::stub(crate::data::GdsFloat64::decode, dec_bits)] #[kani::stub(alloc::fmt::format, fmt_stub)] #[kani::unwind(6)] c02_s_b1_k23_n0;
    #[kani::stub(std::str::from_utf8, from_utf8_model)] #[kani::stub(crate::data::GdsFloat64::encode, enc_bits)] #[kani::stub(crate::data::GdsFloat64::decode, dec_bits)] #[kani::stub(alloc::fmt::format, fmt_stub)] #[kani::unwind(8)] c02_s_b1_k23_n1;
    #[kani::stub(std::str::from_utf8, from_utf8_model)] #[kani::stub(crate::data::GdsFloat64::encode, enc_bits)] #[kani::stub(crate::data::GdsFloat64::decode, dec_bits)] #[kani::stub(alloc::fmt::format, fmt_stub)] #[kani::unwind(8)] c02_s_b1_k23_n2;
    #[kani::stub(std::str::from_utf8, from_utf8_model)] #[kani::stub(crate::data::GdsFloat64::encode, enc_bits)] #[kani::stub(crate::data::GdsFloat64::decode, dec_bits)] #[kani::stub(alloc::fmt::format, fmt_stub)] #[kani::unwind(10)] c02_s_b1_k23_n3;
    #[kani::stub(std::str::from_utf8, from_utf8_model)] #[kani::stub(crate::data::GdsFloat64::encode, enc_bits)] #[kani::stub(crate::data::GdsFloat64::decode, dec_bits)] #[kani::stub(alloc::fmt::format, fmt_stub)] #[kani::unwind(14)] c02_s_b1_k26_n0;
    #[kani::stub(std::str::from_utf8, from_utf8_model)] #[kani::stub(crate::data::GdsFloat64::encode, enc_bits)] #[kani::stub(crate::data::GdsFloat64::decode, dec_bits)] #[kani::stub(alloc::fmt::format, fmt_stub)] #[kani::unwind(14)] c02_s_b1_k2a_n0;
    #[kani::stub(std::str::from_utf8, from_utf8_model)] #[kani::stub(crate::data::GdsFloat64::encode, enc_bits)] #[kani::stub(crate::data::GdsFloat64::decode, dec_bits)] #[kani::stub(alloc::fmt::format, fmt_stub)] #[kani::unwind(14)] c02_s_b1_k2b_n0;
    #[kani::stub(std::str::from_utf8, from_utf8_model)] #[kani::stub(crate::data::GdsFloat64::encode, enc_bits)] #[kani::stub(crate::data::GdsFloat64::decode, dec_bits)] #[kani::stub(alloc::fmt::format, fmt_stub)] #[kani::unwind(6)] c02_s_b1_k2c_n0;
    #[kani::stub(std::str::from_utf8, from_utf8_model)] #[kani::stub(crate::data::GdsFloat64::encode, enc_bits)] #[kani::stub(crate::data::GdsFloat64::decode, dec_bits)] #[kani::stub(alloc::fmt::format, fmt_stub)] #[kani::unwind(8)] c02_s_b1_k2c_n1;
    #[kani::stub(std::str::from_utf8, from_utf8_model)] #[kani::stub(crate::data::GdsFloat64::encode, enc_bits)] #[kani::stub(crate::data::GdsFloat64::decode, dec_bits)] #[kani::stub(alloc::fmt::format, fmt_stub)] #[kani::unwind(8)] c02_s_b1_k2c_n2;
    #[kani::stub(std::str::from_utf8, from_utf8_model)] #[kani::stub(crate::data::GdsFloat64::encode, enc_bits)] #[kani::stub(crate::data::GdsFloat64::decode, dec_bits)] #[kani::stub(alloc::fmt::format, fmt_stub)] #[kani::unwind(10)] c02_s_b1_k2c_n3;
    #[kani::stub(std::str::from_utf8, from_utf8_model)] #[kani::stub(crate::data::GdsFloat64::encode, enc_bits)] #[kani::stub(crate::data::GdsFloat64::decode, dec_bits)] #[kani::stub(alloc::fmt::format, fmt_stub)] #[kani::unwind(14)] c02_s_b1_k2d_n0;
    #[kani::stub(std::str::from_utf8, from_utf8_model)] #[kani::stub(crate::data::GdsFloat64::encode, enc_bits)] #[kani::stub(crate::data::GdsFloat64::decode, dec_bits)] #[kani::stub(alloc::fmt::format, fmt_stub)] #[kani::unwind(14)] c02_s_b1_k2e_n0;
    #[kani::stub(std::str::from_utf8, from_utf8_model)] #[kani::stub(crate::data::GdsFloat64::encode, enc_bits)] #[kani::stub(crate::data::GdsFloat64::decode, dec_bits)] #[kani::stub(alloc::fmt::format, fmt_stub)] #[kani::unwind(14)] c02_s_b1_k2f_n0;
    #[kani::stub(std::str::from_utf8, from_utf8_model)] #[kani::stub(crate::data::GdsFloat64::encode, enc_bits)] #[kani::stub(crate::data::GdsFloat64::decode, dec_bits)] #[kani::stub(alloc::fmt::format, fmt_stub)] #[kani::unwind(14)] c02_s_b1_k30_n0;
    #[kani::stub(std::str::from_utf8, from_utf8_model)] #[kani::stub(crate::data::GdsFloat64::encode, enc_bits)] #[kani::stub(crate::data::GdsFloat64::decode, dec_bits)] #[kani::stub(alloc::fmt::format, fmt_stub)] #[kani::unwind(14)] c02_s_b1_k31_n0;
    #[kani::stub(std::str::from_utf8, from_utf8_model)] #[kani::stub(crate::data::GdsFloat64::encode, enc_bits)] #[kani::stub(crate::data::GdsFloat64::decode, dec_bits)] #[kani::stub(alloc::fmt::format, fmt_stub)] #[kani::unwind(14)] c02_s_b1_k32_n0;
    #[kani::stub(std::str::from_utf8, from_utf8_model)] #[kani::stub(crate::data::GdsFloat64::encode, enc_bits)] #[kani::stub(crate::data::GdsFloat64::decode, dec_bits)] #[kani::stub(alloc::fmt::format, fmt_stub)] #[kani::unwind(18)] c02_s_b1_k33_n0;
    #[kani::stub(std::str::from_utf8, from_utf8_model)] #[kani::stub(crate::data::GdsFloat64::encode, enc_bits)] #[kani::stub(crate::data::GdsFloat64::decode, dec_bits)] #[kani::stub(alloc::fmt::format, fmt_stub)] #[kani::unwind(14)] c02_s_b1_k36_n0;
    #[kani::stub(std::str::from_utf8, from_utf8_model)] #[kani::stub(crate::data::GdsFloat64::encode, enc_bits)] #[kani::stub(crate::data::GdsFloat64::decode, dec_bits)] #[kani::stub(alloc::fmt::format, fmt_stub)] #[kani::unwind(6)] c02_s_b1_k37_n0;
    #[kani::stub(std::str::from_utf8, from_utf8_model)] #[kani::stub(crate::data::GdsFloat64::encode, enc_bits)] #[kani::stub(crate::data::GdsFloat64::decode, dec_bits)] #[kani::stub(alloc::fmt::format, fmt_stub)] #[kani::unwind(8)] c02_s_b1_k37_n1;
    #[kani::stub(std::str::from_utf8, from_utf8_model)] #[kani::stub(crate::data::GdsFloat64::encode, enc_bits)] #[kani::stub(crate::data::GdsFloat64::decode, dec_bits)] #[kani::stub(alloc::fmt::format, fmt_stub)] #[kani::unwind(8)] c02_s_b1_k37_n2;
    #[kani::stub(std::str::from_utf8, from_utf8_model)] #[kani::stub(crate::data::GdsFloat64::encode, enc_bits)] #[kani::stub(crate::data::GdsFloat64::decode, dec_bits)] #[kani::stub(alloc::fmt::format, fmt_stub)] #[kani::unwind(10)] c02_s_b1_k37_n3;
    #[kani::stub(std::str::from_utf8, from_utf8_model)] #[kani::stub(crate::data::GdsFloat64::encode, enc_bits)] #[kani::stub(crate::data::GdsFloat64::decode, dec_bits)] #[kani::stub(alloc::fmt::format, fmt_stub)] #[kani::unwind(14)] c02_s_b1_k38_n0;
    #[kani::stub(std::str::from_utf8, from_utf8_model)] #[kani::stub(crate::data::GdsFloat64::encode, enc_bits)] #[kani::stub(crate::data::GdsFloat64::decode, dec_bits)] #[kani::stub(alloc::fmt::format, fmt_stub)] #[kani::unwind(14)] c02_s_b1_k39_n0;
    #[kani::stub(std::str::from_utf8, from_utf8_model)] #[kani::stub(crate::data::GdsFloat64::encode, enc_bits)] #[kani::stub(crate::data::GdsFloat64::decode, dec_bits)] #[kani::stub(alloc::fmt::format, fmt_stub)] #[kani::unwind(6)] c02_s_b1_k3a_n0;
    #[kani::stub(std::str::from_utf8, from_utf8_model)] #[kani::stub(crate::data::GdsFloat64::encode, enc_bits)] #[kani::stub(crate::data::GdsFloat64::decode, dec_bits)] #[kani::stub(alloc::fmt::format, fmt_stub)] #[kani::unwind(8)] c02_s_b1_k3a_n1;
    #[kani::stub(std::str::from_utf8, from_utf8_model)] #[kani::stub(crate::data::GdsFloat64::encode, enc_bits)] #[kani::stub(crate::data::GdsFloat64::decode, dec_bits)] #[kani::stub(alloc::fmt::format, fmt_stub)] #[kani::unwind(8)] c02_s_b1_k3a_n2;
    #[kani::stub(std::str::from_utf8, from_utf8_model)] #[kani::stub(crate::data::GdsFloat64::encode, enc_bits)] #[kani::stub(crate::data::GdsFloat64::decode, dec_bits)] #[kani::stub(alloc::fmt::format, fmt_stub)] #[kani::unwind(10)] c02_s_b1_k3a_n3;
    #[kani::stub(std::str::from_utf8, from_utf8_model)] #[kani::stub(crate::data::GdsFloat64::encode, enc_bits)] #[kani::stub(crate::data::GdsFloat64::decode, dec_bits)] #[kani::stub(alloc::fmt::format, fmt_stub)] #[kani::unwind(14)] c02_s_b1_k3b_n0;
    #[kani::stub(std::str::from_utf8, from_utf8_model)] #[kani::stub(crate::data::GdsFloat64::encode, enc_bits)] #[kani::stub(crate::data::GdsFloat64::decode, dec_bits)] #[kani::stub(alloc::fmt::format, fmt_stub)] #[kani::unwind(22)] c02_s_b2_e0_m0;
    #[kani::stub(std::str::from_utf8, from_utf8_model)] #[kani::stub(crate::data::GdsFloat64::encode, enc_bits)] #[kani::stub(crate::data::GdsFloat64::decode, dec_bits)] #[kani::stub(alloc::fmt::format, fmt_stub)] #[kani::unwind(22)] c02_s_b2_e0_m1;
    #[kani::stub(std::str::from_utf8, from_utf8_model)] #[kani::stub(crate::data::GdsFloat64::encode, enc_bits)] #[kani::stub(crate::data::GdsFloat64::decode, dec_bits)] #[kani::stub(alloc::fmt::format, fmt_stub)] #[kani::unwind(22)] c02_s_b2_e0_m2;
    #[kani::stub(std::str::from_utf8, from_utf8_model)] #[kani::stub(crate::data::GdsFloat64::encode, enc_bits)] #[kani::stub(crate::data::GdsFloat64::decode, dec_bits)] #[kani::stub(alloc::fmt::format, fmt_stub)] #[kani::unwind(22)] c02_s_b2_e0_m3;
    #[kani::stub(std::str::from_utf8, from_utf8_model)] #[kani::stub(crate::data::GdsFloat64::encode, enc_bits)] #[kani::stub(crate::data::GdsFloat64::decode, dec_bits)] #[kani::stub(alloc::fmt::format, fmt_stub)] #[kani::unwind(22)] c02_s_b2_e0_m1024;
    #[kani::stub(std::str::from_utf8, from_utf8_model)] #[kani::stub(crate::data::GdsFloat64::encode, enc_bits)] #[kani::stub(crate::data::GdsFloat64::decode, dec_bits)] #[kani::stub(alloc::fmt::format, fmt_stub)] #[kani::unwind(22)] c02_s_b2_e0_m1025;
    #[kani::stub(std::str::from_utf8, from_utf8_model)] #[kani::stub(crate::data::GdsFloat64::encode, enc_bits)] #[kani::stub(crate::data::GdsFloat64::decode, dec_bits)] #[kani::stub(alloc::fmt::format, fmt_stub)] #[kani::unwind(22)] c02_s_b2_e0_m1026;
    #[kani::stub(std::str::from_utf8, from_utf8_model)] #[kani::stub(crate::data::GdsFloat64::encode, enc_bits)] #[kani::stub(crate::data::GdsFloat64::decode, dec_bits)] #[kani::stub(alloc::fmt::format, fmt_stub)] #[kani::unwind(22)] c02_s_b2_e0_m1027;
    #[kani::stub(std::str::from_utf8, from_utf8_model)] #[kani::stub(crate::data::GdsFloat64::encode, enc_bits)] #[kani::stub(crate::data::GdsFloat64::decode, dec_bits)] #[kani::stub(alloc::fmt::format, fmt_stub)] #[kani::unwind(22)] c02_s_b2_e1_m0;
    #[kani::stub(std::str::from_utf8, from_utf8_model)] #[kani::stub(crate::data::GdsFloat64::encode, enc_bits)] #[kani::stub(crate::data::GdsFloat64::decode, dec_bits)] #[kani::stub(alloc::fmt::format, fmt_stub)] #[kani::unwind(22)] c02_s_b2_e1_m1;
    #[kani::stub(std::str::from_utf8, from_utf8_model)] #[kani::stub(crate::data::GdsFloat64::encode, enc_bits)] #[kani::stub(crate::data::GdsFloat64::decode, dec_bits)] #[kani::stub(alloc::fmt::format, fmt_stub)] #[kani::unwind(22)] c02_s_b2_e1_m2;
    #[kani::stub(std::str::from_utf8, from_utf8_model)] #[kani::stub(crate::data::GdsFloat64::encode, enc_bits)] #[kani::stub(crate::data::GdsFloat64::decode, dec_bits)] #[kani::stub(alloc::fmt::format, fmt_stub)] #[kani::unwind(22)] c02_s_b2_e1_m32;
    #[kani::stub(std::str::from_utf8, from_utf8_model)] #[kani::stub(crate::data::GdsFloat64::encode, enc_bits)] #[kani::stub(crate::data::GdsFloat64::decode, dec_bits)] #[kani::stub(alloc::fmt::format, fmt_stub)] #[kani::unwind(22)] c02_s_b2_e1_m64;
    #[kani::stub(std::str::from_utf8, from_utf8_model)] #[kani::stub(crate::data::GdsFloat64::encode, enc_bits)] #[kani::stub(crate::data::GdsFloat64::decode, dec_bits)] #[kani::stub(alloc::fmt::format, fmt_stub)] #[kani::unwind(22)] c02_s_b2_e1_m128;
    #[kani::stub(std::str::from_utf8, from_utf8_model)] #[kani::stub(crate::data::GdsFloat64::encode, enc_bits)] #[kani::stub(crate::data::GdsFloat64::decode, dec_bits)] #[kani::stub(alloc::fmt::format, fmt_stub)] #[kani::unwind(22)] c02_s_b2_e1_m256;
    #[kani::stub(std::str::from_utf8, from_utf8_model)] #[kani::stub(crate::data::GdsFloat64::encode, enc_bits)] #[kani::stub(crate::data::GdsFloat64::decode, dec_bits)] #[kani::stub(alloc::fmt::format, fmt_stub)] #[kani::unwind(22)] c02_s_b2_e1_m483;
    #[kani::stub(std::str::from_utf8, from_utf8_model)] #[kani::stub(crate::data::GdsFloat64::encode, enc_bits)] #[kani::stub(crate::data::GdsFloat64::decode, dec_bits)] #[kani::stub(alloc::fmt::format, fmt_stub)] #[kani::unwind(22)] c02_s_b2_e1_m1024;
    #[kani::stub(std::str::from_utf8, from_utf8_model)] #[kani::stub(crate::data::GdsFloat64::encode, enc_bits)] #[kani::stub(crate::data::GdsFloat64::decode, dec_bits)] #[kani::stub(alloc::fmt::format, fmt_stub)] #[kani::unwind(22)] c02_s_b2_e1_m1251;
    #[kani::stub(std::str::from_utf8, from_utf8_model)] #[kani::stub(crate::data::GdsFloat64::encode, enc_bits)] #[kani::stub(crate::data::GdsFloat64::decode, dec_bits)] #[kani::stub(alloc::fmt::format, fmt_stub)] #[kani::unwind(22)] c02_s_b2_e1_m1379;
    #[kani::stub(std::str::from_utf8, from_utf8_model)] #[kani::stub(crate::data::GdsFloat64::encode, enc_bits)] #[kani::stub(crate::data::GdsFloat64::decode, dec_bits)] #[kani::stub(alloc::fmt::format, fmt_stub)] #[kani::unwind(22)] c02_s_b2_e1_m1443;
    #[kani::stub(std::str::from_utf8, from_utf8_model)] #[kani::stub(crate::data::GdsFloat64::encode, enc_bits)] #[kani::stub(crate::data::GdsFloat64::decode, dec_bits)] #[kani::stub(alloc::fmt::format, fmt_stub)] #[kani::unwind(22)] c02_s_b2_e1_m1475;
    #[kani::stub(std::str::from_utf8, from_utf8_model)] #[kani::stub(crate::data::GdsFloat64::encode, enc_bits)] #[kani::stub(crate::data::GdsFloat64::decode, dec_bits)] #[kani::stub(alloc::fmt::format, fmt_stub)] #[kani::unwind(22)] c02_s_b2_e1_m1505;
    #[kani::stub(std::str::from_utf8, from_utf8_model)] #[kani::stub(crate::data::GdsFloat64::encode, enc_bits)] #[kani::stub(crate::data::GdsFloat64::decode, dec_bits)] #[kani::stub(alloc::fmt::format, fmt_stub)] #[kani::unwind(22)] c02_s_b2_e1_m1506;
    #[kani::stub(std::str::from_utf8, from_utf8_model)] #[kani::stub(crate::data::GdsFloat64::encode, enc_bits)] #[kani::stub(crate::data::GdsFloat64::decode, dec_bits)] #[kani::stub(alloc::fmt::format, fmt_stub)] #[kani::unwind(22)] c02_q_b2_e1_m1507;
    #[kani::stub(std::str::from_utf8, from_utf8_model)] #[kani::stub(crate::data::GdsFloat64::encode, enc_bits)] #[kani::stub(crate::data::GdsFloat64::decode, dec_bits)] #[kani::stub(alloc::fmt::format, fmt_stub)] #[kani::unwind(22)] c02_s_b2_e2_m0;
    #[kani::stub(std::str::from_utf8, from_utf8_model)] #[kani::stub(crate::data::GdsFloat64::encode, enc_bits)] #[kani::stub(crate::data::GdsFloat64::decode, dec_bits)] #[kani::stub(alloc::fmt::format, fmt_stub)] #[kani::unwind(22)] c02_s_b2_e2_m1;
    #[kani::stub(std::str::from_utf8, from_utf8_model)] #[kani::stub(crate::data::GdsFloat64::encode, enc_bits)] #[kani::stub(crate::data::GdsFloat64::decode, dec_bits)] #[kani::stub(alloc::fmt::format, fmt_stub)] #[kani::unwind(22)] c02_s_b2_e2_m2;
    #[kani::stub(std::str::from_utf8, from_utf8_model)] #[kani::stub(crate::data::GdsFloat64::encode, enc_bits)] #[kani::stub(crate::data::GdsFloat64::decode, dec_bits)] #[kani::stub(alloc::fmt::format, fmt_stub)] #[kani::unwind(22)] c02_s_b2_e2_m4;
    #[kani::stub(std::str::from_utf8, from_utf8_model)] #[kani::stub(crate::data::GdsFloat64::encode, enc_bits)] #[kani::stub(crate::data::GdsFloat64::decode, dec_bits)] #[kani::stub(alloc::fmt::format, fmt_stub)] #[kani::unwind(22)] c02_s_b2_e2_m12;
    #[kani::stub(std::str::from_utf8, from_utf8_model)] #[kani::stub(crate::data::GdsFloat64::encode, enc_bits)] #[kani::stub(crate::data::GdsFloat64::decode, dec_bits)] #[kani::stub(alloc::fmt::format, fmt_stub)] #[kani::unwind(22)] c02_s_b2_e2_m20;
    #[kani::stub(std::str::from_utf8, from_utf8_model)] #[kani::stub(crate::data::GdsFloat64::encode, enc_bits)] #[kani::stub(crate::data::GdsFloat64::decode, dec_bits)] #[kani::stub(alloc::fmt::format, fmt_stub)] #[kani::unwind(22)] c02_s_b2_e2_m31;
    #[kani::stub(std::str::from_utf8, from_utf8_model)] #[kani::stub(crate::data::GdsFloat64::encode, enc_bits)] #[kani::stub(crate::data::GdsFloat64::decode, dec_bits)] #[kani::stub(alloc::fmt::format, fmt_stub)] #[kani::unwind(22)] c02_s_b2_e2_m1024;
    #[kani::stub(std::str::from_utf8, from_utf8_model)] #[kani::stub(crate::data::GdsFloat64::encode, enc_bits)] #[kani::stub(crate::data::GdsFloat64::decode, dec_bits)] #[kani::stub(alloc::fmt::format, fmt_stub)] #[kani::unwind(22)] c02_s_b2_e2_m1027;
    #[kani::stub(std::str::from_utf8, from_utf8_model)] #[kani::stub(crate::data::GdsFloat64::encode, enc_bits)] #[kani::stub(crate::data::GdsFloat64::decode, dec_bits)] #[kani::stub(alloc::fmt::format, fmt_stub)] #[kani::unwind(22)] c02_s_b2_e2_m1039;
    #[kani::stub(std::str::from_utf8, from_utf8_model)] #[kani::stub(crate::data::GdsFloat64::encode, enc_bits)] #[kani::stub(crate::data::GdsFloat64::decode, dec_bits)] #[kani::stub(alloc::fmt::format, fmt_stub)] #[kani::unwind(22)] c02_s_b2_e2_m1047;
    #[kani::stub(std::str::from_utf8, from_utf8_model)] #[kani::stub(crate::data::GdsFloat64::encode, enc_bits)] #[kani::stub(crate::data::GdsFloat64::decode, dec_bits)] #[kani::stub(alloc::fmt::format, fmt_stub)] #[kani::unwind(22)] c02_s_b2_e2_m1053;
    #[kani::stub(std::str::from_utf8, from_utf8_model)] #[kani::stub(crate::data::GdsFloat64::encode, enc_bits)] #[kani::stub(crate::data::GdsFloat64::decode, dec_bits)] #[kani::stub(alloc::fmt::format, fmt_stub)] #[kani::unwind(22)] c02_s_b2_e2_m1054;
    #[kani::stub(std::str::from_utf8, from_utf8_model)] #[kani::stub(crate::data::GdsFloat64::encode, enc_bits)] #[kani::stub(crate::data::GdsFloat64::decode, dec_bits)] #[kani::stub(alloc::fmt::format, fmt_stub)] #[kani::unwind(22)] c02_s_b2_e2_m1055;
    #[kani::stub(std::str::from_utf8, from_utf8_model)] #[kani::stub(crate::data::GdsFloat64::encode, enc_bits)] #[kani::stub(crate::data::GdsFloat64::decode, dec_bits)] #[kani::stub(alloc::fmt::format, fmt_stub)] #[kani::unwind(22)] c02_s_b2_e3_m0;
    #[kani::stub(std::str::from_utf8, from_utf8_model)] #[kani::stub(crate::data::GdsFloat64::encode, enc_bits)] #[kani::stub(crate::data::GdsFloat64::decode, dec_bits)] #[kani::stub(alloc::fmt::format, fmt_stub)] #[kani::unwind(22)] c02_s_b2_e3_m1;
    #[kani::stub(std::str::from_utf8, from_utf8_model)] #[kani::stub(crate::data::GdsFloat64::encode, enc_bits)] #[kani::stub(crate::data::GdsFloat64::decode, dec_bits)] #[kani::stub(alloc::fmt::format, fmt_stub)] #[kani::unwind(22)] c02_s_b2_e3_m2;
    #[kani::stub(std::str::from_utf8, from_utf8_model)] #[kani::stub(crate::data::GdsFloat64::encode, enc_bits)] #[kani::stub(crate::data::GdsFloat64::decode, dec_bits)] #[kani::stub(alloc::fmt::format, fmt_stub)] #[kani::unwind(22)] c02_s_b2_e3_m4;
    #[kani::stub(std::str::from_utf8, from_utf8_model)] #[kani::stub(crate::data::GdsFloat64::encode, enc_bits)] #[kani::stub(crate::data::GdsFloat64::decode, dec_bits)] #[kani::stub(alloc::fmt::format, fmt_stub)] #[kani::unwind(22)] c02_s_b2_e3_m12;
    #[kani::stub(std::str::from_utf8, from_utf8_model)] #[kani::stub(crate::data::GdsFloat64::encode, enc_bits)] #[kani::stub(crate::data::GdsFloat64::decode, dec_bits)] #[kani::stub(alloc::fmt::format, fmt_stub)] #[kani::unwind(22)] c02_s_b2_e3_m20;
    #[kani::stub(std::str::from_utf8, from_utf8_model)] #[kani::stub(crate::data::GdsFloat64::encode, enc_bits)] #[kani::stub(crate::data::GdsFloat64::decode, dec_bits)] #[kani::stub(alloc::fmt::format, fmt_stub)] #[kani::unwind(22)] c02_s_b2_e3_m31;
    #[kani::stub(std::str::from_utf8, from_utf8_model)] #[kani::stub(crate::data::GdsFloat64::encode, enc_bits)] #[kani::stub(crate::data::GdsFloat64::decode, dec_bits)] #[kani::stub(alloc::fmt::format, fmt_stub)] #[kani::unwind(22)] c02_s_b2_e3_m1024;
    #[kani::stub(std::str::from_utf8, from_utf8_model)] #[kani::stub(crate::data::GdsFloat64::encode, enc_bits)] #[kani::stub(crate::data::GdsFloat64::decode, dec_bits)] #[kani::stub(alloc::fmt::format, fmt_stub)] #[kani::unwind(22)] c02_s_b2_e3_m1027;
    #[kani::stub(std::str::from_utf8, from_utf8_model)] #[kani::stub(crate::data::GdsFloat64::encode, enc_bits)] #[kani::stub(crate::data::GdsFloat64::decode, dec_bits)] #[kani::stub(alloc::fmt::format, fmt_stub)] #[kani::unwind(22)] c02_s_b2_e3_m1039;
    #[kani::stub(std::str::from_utf8, from_utf8_model)] #[kani::stub(crate::data::GdsFloat64::encode, enc_bits)] #[kani::stub(crate::data::GdsFloat64::decode, dec_bits)] #[kani::stub(alloc::fmt::format, fmt_stub)] #[kani::unwind(22)] c02_s_b2_e3_m1047;
    #[kani::stub(std::str::from_utf8, from_utf8_model)] #[kani::stub(crate::data::GdsFloat64::encode, enc_bits)] #[kani::stub(crate::data::GdsFloat64::decode, dec_bits)] #[kani::stub(alloc::fmt::format, fmt_stub)] #[kani::unwind(22)] c02_s_b2_e3_m1053;
    #[kani::stub(std::str::from_utf8, from_utf8_model)] #[kani::stub(crate::data::GdsFloat64::encode, enc_bits)] #[kani::stub(crate::data::GdsFloat64::decode, dec_bits)] #[kani::stub(alloc::fmt::format, fmt_stub)] #[kani::unwind(22)] c02_s_b2_e3_m1054;
    #[kani::stub(std::str::from_utf8, from_utf8_model)] #[kani::stub(crate::data::GdsFloat64::encode, enc_bits)] #[kani::stub(crate::data::GdsFloat64::decode, dec_bits)] #[kani::stub(alloc::fmt::format, fmt_stub)] #[kani::unwind(22)] c02_s_b2_e3_m1055;
    #[kani::stub(std::str::from_utf8, from_utf8_model)] #[kani::stub(crate::data::GdsFloat64::encode, enc_bits)] #[kani::stub(crate::data::GdsFloat64::decode, dec_bits)] #[kani::stub(alloc::fmt::format, fmt_stub)] #[kani::unwind(22)] c02_s_b2_e4_m0;
    #[kani::stub(std::str::from_utf8, from_utf8_model)] #[kani::stub(crate::data::GdsFloat64::encode, enc_bits)] #[kani::stub(crate::data::GdsFloat64::decode, dec_bits)] #[kani::stub(alloc::fmt::format, fmt_stub)] #[kani::unwind(22)] c02_s_b2_e4_m1;
    #[kani::stub(std::str::from_utf8, from_utf8_model)] #[kani::stub(crate::data::GdsFloat64::encode, enc_bits)] #[kani::stub(crate::data::GdsFloat64::decode, dec_bits)] #[kani::stub(alloc::fmt::format, fmt_stub)] #[kani::unwind(22)] c02_s_b2_e4_m2;
    #[kani::stub(std::str::from_utf8, from_utf8_model)] #[kani::stub(crate::data::GdsFloat64::encode, enc_bits)] #[kani::stub(crate::data::GdsFloat64::decode, dec_bits)] #[kani::stub(alloc::fmt::format, fmt_stub)] #[kani::unwind(22)] c02_s_b2_e4_m4;
    #[kani::stub(std::str::from_utf8, from_utf8_model)] #[kani::stub(crate::data::GdsFloat64::encode, enc_bits)] #[kani::stub(crate::data::GdsFloat64::decode, dec_bits)] #[kani::stub(alloc::fmt::format, fmt_stub)] #[kani::unwind(22)] c02_s_b2_e4_m12;
    #[kani::stub(std::str::from_utf8, from_utf8_model)] #[kani::stub(crate::data::GdsFloat64::encode, enc_bits)] #[kani::stub(crate::data::GdsFloat64::decode, dec_bits)] #[kani::stub(alloc::fmt::format, fmt_stub)] #[kani::unwind(22)] c02_s_b2_e4_m20;
    #[kani::stub(std::str::from_utf8, from_utf8_model)] #[kani::stub(crate::data::GdsFloat64::encode, enc_bits)] #[kani::stub(crate::data::GdsFloat64::decode, dec_bits)] #[kani::stub(alloc::fmt::format, fmt_stub)] #[kani::unwind(22)] c02_s_b2_e4_m32;
    #[kani::stub(std::str::from_utf8, from_utf8_model)] #[kani::stub(crate::data::GdsFloat64::encode, enc_bits)] #[kani::stub(crate::data::GdsFloat64::decode, dec_bits)] #[kani::stub(alloc::fmt::format, fmt_stub)] #[kani::unwind(22)] c02_s_b2_e4_m64;
    #[kani::stub(std::str::from_utf8, from_utf8_model)] #[kani::stub(crate::data::GdsFloat64::encode, enc_bits)] #[kani::stub(crate::data::GdsFloat64::decode, dec_bits)] #[kani::stub(alloc::fmt::format, fmt_stub)] #[kani::unwind(22)] c02_s_b2_e4_m512;
    #[kani::stub(std::str::from_utf8, from_utf8_model)] #[kani::stub(crate::data::GdsFloat64::encode, enc_bits)] #[kani::stub(crate::data::GdsFloat64::decode, dec_bits)] #[kani::stub(alloc::fmt::format, fmt_stub)] #[kani::unwind(22)] c02_s_b2_e4_m639;
    #[kani::stub(std::str::from_utf8, from_utf8_model)] #[kani::stub(crate::data::GdsFloat64::encode, enc_bits)] #[kani::stub(crate::data::GdsFloat64::decode, dec_bits)] #[kani::stub(alloc::fmt::format, fmt_stub)] #[kani::unwind(22)] c02_s_b2_e4_m1024;
    #[kani::stub(std::str::from_utf8, from_utf8_model)] #[kani::stub(crate::data::GdsFloat64::encode, enc_bits)] #[kani::stub(crate::data::GdsFloat64::decode, dec_bits)] #[kani::stub(alloc::fmt::format, fmt_stub)] #[kani::unwind(22)] c02_s_b2_e4_m1151;
    #[kani::stub(std::str::from_utf8, from_utf8_model)] #[kani::stub(crate::data::GdsFloat64::encode, enc_bits)] #[kani::stub(crate::data::GdsFloat64::decode, dec_bits)] #[kani::stub(alloc::fmt::format, fmt_stub)] #[kani::unwind(22)] c02_s_b2_e4_m1599;
    #[kani::stub(std::str::from_utf8, from_utf8_model)] #[kani::stub(crate::data::GdsFloat64::encode, enc_bits)] #[kani::stub(crate::data::GdsFloat64::decode, dec_bits)] #[kani::stub(alloc::fmt::format, fmt_stub)] #[kani::unwind(22)] c02_s_b2_e4_m1631;
    #[kani::stub(std::str::from_utf8, from_utf8_model)] #[kani::stub(crate::data::GdsFloat64::encode, enc_bits)] #[kani::stub(crate::data::GdsFloat64::decode, dec_bits)] #[kani::stub(alloc::fmt::format, fmt_stub)] #[kani::unwind(22)] c02_s_b2_e4_m1635;
    #[kani::stub(std::str::from_utf8, from_utf8_model)] #[kani::stub(crate::data::GdsFloat64::encode, enc_bits)] #[kani::stub(crate::data::GdsFloat64::decode, dec_bits)] #[kani::stub(alloc::fmt::format, fmt_stub)] #[kani::unwind(22)] c02_s_b2_e4_m1647;
    #[kani::stub(std::str::from_utf8, from_utf8_model)] #[kani::stub(crate::data::GdsFloat64::encode, enc_bits)] #[kani::stub(crate::data::GdsFloat64::decode, dec_bits)] #[kani::stub(alloc::fmt::format, fmt_stub)] #[kani::unwind(22)] c02_s_b2_e4_m1655;
    #[kani::stub(std::str::from_utf8, from_utf8_model)] #[kani::stub(crate::data::GdsFloat64::encode, enc_bits)] #[kani::stub(crate::data::GdsFloat64::decode, dec_bits)] #[kani::stub(alloc::fmt::format, fmt_stub)] #[kani::unwind(22)] c02_s_b2_e4_m1661;
    #[kani::stub(std::str::from_utf8, from_utf8_model)] #[kani::stub(crate::data::GdsFloat64::encode, enc_bits)] #[kani::stub(crate::data::GdsFloat64::decode, dec_bits)] #[kani::stub(alloc::fmt::format, fmt_stub)] #[kani::unwind(22)] c02_s_b2_e4_m1662;
    #[kani::stub(std::str::from_utf8, from_utf8_model)] #[kani::stub(crate::data::GdsFloat64::encode, enc_bits)] #[kani::stub(crate::data::GdsFloat64::decode, dec_bits)] #[kani::stub(alloc::fmt::format, fmt_stub)] #[kani::unwind(22)] c02_q_b2_e4_m1663;
    #[kani::stub(std::str::from_utf8, from_utf8_model)] #[kani::stub(crate::data::GdsFloat64::encode, enc_bits)] #[kani::stub(crate::data::GdsFloat64::decode, dec_bits)] #[kani::stub(alloc::fmt::format, fmt_stub)] #[kani::unwind(22)] c02_s_b2_e5_m0;
    #[kani::stub(std::str::from_utf8, from_utf8_model)] #[kani::stub(crate::data::GdsFloat64::encode, enc_bits)] #[kani::stub(crate::data::GdsFloat64::decode, dec_bits)] #[kani::stub(alloc::fmt::format, fmt_stub)] #[kani::unwind(22)] c02_s_b2_e5_m1;
    #[kani::stub(std::str::from_utf8, from_utf8_model)] #[kani::stub(crate::data::GdsFloat64::encode, enc_bits)] #[kani::stub(crate::data::GdsFloat64::decode, dec_bits)] #[kani::stub(alloc::fmt::format, fmt_stub)] #[kani::unwind(22)] c02_s_b2_e5_m2;
    #[kani::stub(std::str::from_utf8, from_utf8_model)] #[kani::stub(crate::data::GdsFloat64::encode, enc_bits)] #[kani::stub(crate::data::GdsFloat64::decode, dec_bits)] #[kani::stub(alloc::fmt::format, fmt_stub)] #[kani::unwind(22)] c02_s_b2_e5_m3;
    #[kani::stub(std::str::from_utf8, from_utf8_model)] #[kani::stub(crate::data::GdsFloat64::encode, enc_bits)] #[kani::stub(crate::data::GdsFloat64::decode, dec_bits)] #[kani::stub(alloc::fmt::format, fmt_stub)] #[kani::unwind(22)] c02_s_b2_e5_m1024;
    #[kani::stub(std::str::from_utf8, from_utf8_model)] #[kani::stub(crate::data::GdsFloat64::encode, enc_bits)] #[kani::stub(crate::data::GdsFloat64::decode, dec_bits)] #[kani::stub(alloc::fmt::format, fmt_stub)] #[kani::unwind(22)] c02_s_b2_e5_m1025;
    #[kani::stub(std::str::from_utf8, from_utf8_model)] #[kani::stub(crate::data::GdsFloat64::encode, enc_bits)] #[kani::stub(crate::data::GdsFloat64::decode, dec_bits)] #[kani::stub(alloc::fmt::format, fmt_stub)] #[kani::unwind(22)] c02_s_b2_e5_m1026;
    #[kani::stub(std::str::from_utf8, from_utf8_model)] #[kani::stub(crate::data::GdsFloat64::encode, enc_bits)] #[kani::stub(crate::data::GdsFloat64::decode, dec_bits)] #[kani::stub(alloc::fmt::format, fmt_stub)] #[kani::unwind(22)] c02_s_b2_e5_m1027;
    #[kani::stub(std::str::from_utf8, from_utf8_model)] #[kani::stub(crate::data::GdsFloat64::encode, enc_bits)] #[kani::stub(crate::data::GdsFloat64::decode, dec_bits)] #[kani::stub(alloc::fmt::format, fmt_stub)] #[kani::unwind(22)] c02_s_b2_e6_m0;
    #[kani::stub(std::str::from_utf8, from_utf8_model)] #[kani::stub(crate::data::GdsFloat64::encode, enc_bits)] #[kani::stub(crate::data::GdsFloat64::decode, dec_bits)] #[kani::stub(alloc::fmt::format, fmt_stub)] #[kani::unwind(22)] c02_s_b2_e6_m1;
    #[kani::stub(std::str::from_utf8, from_utf8_model)] #[kani::stub(crate::data::GdsFloat64::encode, enc_bits)] #[kani::stub(crate::data::GdsFloat64::decode, dec_bits)] #[kani::stub(alloc::fmt::format, fmt_stub)] #[kani::unwind(22)] c02_s_b2_e6_m2;
    #[kani::stub(std::str::from_utf8, from_utf8_model)] #[kani::stub(crate::data::GdsFloat64::encode, enc_bits)] #[kani::stub(crate::data::GdsFloat64::decode, dec_bits)] #[kani::stub(alloc::fmt::format, fmt_stub)] #[kani::unwind(22)] c02_s_b2_e6_m3;
    #[kani::stub(std::str::from_utf8, from_utf8_model)] #[kani::stub(crate::data::GdsFloat64::encode, enc_bits)] #[kani::stub(crate::data::GdsFloat64::decode, dec_bits)] #[kani::stub(alloc::fmt::format, fmt_stub)] #[kani::unwind(22)] c02_s_b2_e6_m1024;
    #[kani::stub(std::str::from_utf8, from_utf8_model)] #[kani::stub(crate::data::GdsFloat64::encode, enc_bits)] #[kani::stub(crate::data::GdsFloat64::decode, dec_bits)] #[kani::stub(alloc::fmt::format, fmt_stub)] #[kani::unwind(22)] c02_s_b2_e6_m1025;
    #[kani::stub(std::str::from_utf8, from_utf8_model)] #[kani::stub(crate::data::GdsFloat64::encode, enc_bits)] #[kani::stub(crate::data::GdsFloat64::decode, dec_bits)] #[kani::stub(alloc::fmt::format, fmt_stub)] #[kani::unwind(22)] c02_s_b2_e6_m1026;
    #[kani::stub(std::str::from_utf8, from_utf8_model)] #[kani::stub(crate::data::GdsFloat64::encode, enc_bits)] #[kani::stub(crate::data::GdsFloat64::decode, dec_bits)] #[kani::stub(alloc::fmt::format, fmt_stub)] #[kani::unwind(22)] c02_s_b2_e6_m1027;
    #[kani::stub(std::str::from_utf8, from_utf8_model)] #[kani::stub(crate::data::GdsFloat64::encode, enc_bits)] #[kani::stub(crate::data::GdsFloat64::decode, dec_bits)] #[kani::stub(alloc::fmt::format, fmt_stub)] #[kani::unwind(22)] c02_s_b2_e1_m1507_pt0;
    #[kani::stub(std::str::from_utf8, from_utf8_model)] #[kani::stub(crate::data::GdsFloat64::encode, enc_bits)] #[kani::stub(crate::data::GdsFloat64::decode, dec_bits)] #[kani::stub(alloc::fmt::format, fmt_stub)] #[kani::unwind(22)] c02_s_b2_e1_m1507_pt1;
    #[kani::stub(std::str::from_utf8, from_utf8_model)] #[kani::stub(crate::data::GdsFloat64::encode, enc_bits)] #[kani::stub(crate::data::GdsFloat64::decode, dec_bits)] #[kani::stub(alloc::fmt::format, fmt_stub)] #[kani::unwind(22)] c02_q_b2_e1_m1507_pt2;
    #[kani::stub(std::str::from_utf8, from_utf8_model)] #[kani::stub(crate::data::GdsFloat64::encode, enc_bits)] #[kani::stub(crate::data::GdsFloat64::decode, dec_bits)] #[kani::stub(alloc::fmt::format, fmt_stub)] #[kani::unwind(22)] c02_s_b2_e1_m1507_pt4;
    #[kani::stub(std::str::from_utf8, from_utf8_model)] #[kani::stub(crate::data::GdsFloat64::encode, enc_bits)] #[kani::stub(crate::data::GdsFloat64::decode, dec_bits)] #[kani::stub(alloc::fmt::format, fmt_stub)] #[kani::unwind(22)] c02_s_b2_e4_m1663_pt0;
    #[kani::stub(std::str::from_utf8, from_utf8_model)] #[kani::stub(crate::data::GdsFloat64::encode, enc_bits)] #[kani::stub(crate::data::GdsFloat64::decode, dec_bits)] #[kani::stub(alloc::fmt::format, fmt_stub)] #[kani::unwind(22)] c02_s_b2_e4_m1663_pt1;
    #[kani::stub(std::str::from_utf8, from_utf8_model)] #[kani::stub(crate::data::GdsFloat64::encode, enc_bits)] #[kani::stub(crate::data::GdsFloat64::decode, dec_bits)] #[kani::stub(alloc::fmt::format, fmt_stub)] #[kani::unwind(22)] c02_s_b2_e4_m1663_pt2;
    #[kani::stub(std::str::from_utf8, from_utf8_model)] #[kani::stub(crate::data::GdsFloat64::encode, enc_bits)] #[kani::stub(crate::data::GdsFloat64::decode, dec_bits)] #[kani::stub(alloc::fmt::format, fmt_stub)] #[kani::unwind(22)] c02_s_b2_e4_m1663_pt4;
    #[kani::stub(std::str::from_utf8, from_utf8_model)] #[kani::stub(crate::data::GdsFloat64::encode, enc_bits)] #[kani::stub(crate::data::GdsFloat64::decode, dec_bits)] #[kani::stub(alloc::fmt::format, fmt_stub)] #[kani::unwind(60)] c02_x_b2_lib_1x1_k3_m2047;
    #[kani::stub(std::str::from_utf8, from_utf8_model)] #[kani::stub(crate::data::GdsFloat64::encode, enc_bits)] #[kani::stub(crate::data::GdsFloat64::decode, dec_bits)] #[kani::stub(alloc::fmt::format, fmt_stub)] #[kani::unwind(60)] c02_x_b2_lib_2x2_k0_m2047;
    #[kani::stub(std::str::from_utf8, from_utf8_model)] #[kani::stub(crate::data::GdsFloat64::encode, enc_bits)] #[kani::stub(crate::data::GdsFloat64::decode, dec_bits)] #[kani::stub(alloc::fmt::format, fmt_stub)] #[kani::unwind(60)] c02_x_b2_lib_2x2_k3_m0;
    #[kani::stub(std::str::from_utf8, from_utf8_model)] #[kani::stub(crate::data::GdsFloat64::encode, enc_bits)] #[kani::stub(crate::data::GdsFloat64::decode, dec_bits)] #[kani::stub(alloc::fmt::format, fmt_stub)] #[kani::unwind(60)] c02_x_b2_lib_1x2_k5_m1031;
    #[kani::stub(std::str::from_utf8, from_utf8_model)] #[kani::stub(crate::data::GdsFloat64::encode, enc_bits)] #[kani::stub(crate::data::GdsFloat64::decode, dec_bits)] #[kani::stub(alloc::fmt::format, fmt_stub)] #[kani::unwind(60)] c02_q_b2_lib_0x0_k0_m0;
}
// END GENERATED
