// gds21::read::l21v — harnesses that need the reader's private items (read_record_*, GdsParser fields, parse_*)
// encodes: gds21::read::GdsReader::read_record_header, read_record_content, read_record, read_str, read_bytes, read_i16, read_i32, read_f64, GdsParser::next, peek, parse_lib, parse_struct, parse_boundary, parse_path, parse_text_elem, parse_node, parse_box, parse_struct_ref, parse_array_ref, parse_strans, parse_property, parse_datetimes, GdsPoint::parse, GdsPoint::parse_vec, (writer side via gds21::write::l21v)
// stubs: core::str::from_utf8 -> byte-at-a-time UTF-8 DFA; GdsFloat64::{encode,decode} -> bit identity (C15 checks the codec); GdsParser::next -> hands out the harness's record list (its own ten lines are checked in c01_q_l2n_next); alloc::fmt::format -> empty string on error paths
// bound *: strings <= 3 bytes (record level) / <= 1 byte (tree level), XY <= 10 values, <= 1 property, <= 2 structs x <= 2 elements, record payload <= 24 bytes for arbitrary-byte harnesses
#[allow(unused_imports)]
use super::*;
#[allow(unused_imports)]
use crate::data::*;
#[allow(unused_imports)]
use crate::write::l21v::{flatten_lib, w_bytes};

include!(concat!(env!("L21V_HARNESS_DIR"), "/../common/src.rs"));
include!(concat!(env!("L21V_HARNESS_DIR"), "/../common/gds_ref.rs"));
include!(concat!(env!("L21V_HARNESS_DIR"), "/../common/gds_sym.rs"));

type Rd<'a> = GdsReader<Cursor<&'a [u8]>>;

// ---- record level ---------------------------------------------------------------------------------------
fn dtype_of(code: u8) -> Option<GdsDataType> {
    FromPrimitive::from_u8(code)
}
fn rtype_of(code: u8) -> Option<GdsRecordType> {
    FromPrimitive::from_u8(code)
}

/// bytes -> (header fields as read by the real reader)
fn hdr_of(bytes: &[u8]) -> Option<(u8, u8, u16)> {
    let mut rdr: Rd = GdsReader::from_bytes(bytes);
    let h = rdr.read_record_header();
    let out = match &h {
        Ok(h) => Some((h.rtype as u8, h.dtype as u8, h.len)),
        Err(_) => None,
    };
    core::mem::forget(h);
    core::mem::forget(rdr);
    out
}

/// the bytes of a string-valued record's string
fn rec_str(r: &GdsRecord) -> Option<&[u8]> {
    match r {
        GdsRecord::LibName(x)
        | GdsRecord::StructName(x)
        | GdsRecord::StructRefName(x)
        | GdsRecord::String(x)
        | GdsRecord::RefLibs(x)
        | GdsRecord::Fonts(x)
        | GdsRecord::AttrTable(x)
        | GdsRecord::PropValue(x)
        | GdsRecord::Mask(x)
        | GdsRecord::SrfName(x) => Some(x.as_bytes()),
        _ => None,
    }
}

/// L1 / R1: bytes of ONE record (from the real writer or from the reference encoder) are read back to that record.
/// The header is read by the real `read_record_header`, checked against the expected triple, and the content is then
/// read with the (now known) concrete header so that the reader's 50-arm match stays concrete.
fn record_rt_body<S: Src>(s: &mut S, kind: u8, n: usize, from_writer: bool, extra_nul: bool) {
    let rec = sym_record(s, kind, n);
    vnote!(s, "rec", "{:?}", rec);
    let ends_nul = rec_str(&rec).map_or(false, |b| b.len() > 0 && b[b.len() - 1] == 0);
    s.tag("string_ends_in_nul", ends_nul);
    if !from_writer {
        // a string that ends in NUL has no GDSII encoding (indistinguishable from padding): outside the grammar
        vassume!(s, !ends_nul);
    }
    let mut bytes: Vec<u8> = if from_writer {
        let (ok, out) = w_bytes(&rec, 2);
        vcheck!(s, ok == !ends_nul, "c01.l1 writing a small record succeeds unless a string ends in NUL");
        if !ok {
            // "either fails with an error or ..." — nothing more to check for this record
            core::mem::forget(rec);
            core::mem::forget(out);
            return;
        }
        out
    } else {
        match gds_ref::ref_bytes(&rec, f2u) {
            Some(b) => b,
            None => Vec::new(),
        }
    };
    if extra_nul {
        // an even-length string may also be followed by a NUL pair? No: the spec pads ODD lengths only. What the
        // reference encoder may legally do is nothing more; this flag instead appends tape padding AFTER the record.
        bytes.push(0);
        bytes.push(0);
    }
    vnote!(s, "bytes", "{:?}", bytes);
    let (rt, dt) = gds_ref::ref_kind(&rec);
    let plen = gds_ref::ref_payload(&rec, f2u).len();
    let h = if bytes.len() >= 4 { hdr_of(&bytes[0..4]) } else { None };
    vcheck!(s, h == Some((rt, dt, plen as u16)), "c01.l1 header reads back as (record type, data type, payload length)");
    if h == Some((rt, dt, plen as u16)) {
        let hdr = GdsRecordHeader { rtype: rtype_of(rt).unwrap(), dtype: dtype_of(dt).unwrap(), len: plen as u16 };
        let mut rdr: Rd = GdsReader::from_bytes(&bytes[4..]);
        let r = rdr.read_record_content(&hdr);
        let consumed = rdr.pos();
        vnote!(s, "read", "{:?} consumed {}", r, consumed);
        match &r {
            Ok(got) => {
                vcheck!(s, gds_ref::rec_eq(got, &rec), "c01.l1 record content reads back equal");
                vcheck!(s, consumed == plen as u64, "c01.l1 reader consumes exactly the record's bytes");
            }
            Err(_) => {
                vcheck!(s, false, "c01.l1 record content is readable");
            }
        }
        vcover!(s, r.is_ok(), "record read back reachable");
        core::mem::forget(r);
        core::mem::forget(rdr);
    }
    core::mem::forget(rec);
    core::mem::forget(bytes);
}

/// C03-R1 extra: an even-length string may or may not carry a trailing NUL; an odd-length one is padded with exactly
/// one. The reader strips at most one trailing NUL.
fn str_padding_body<S: Src>(s: &mut S, kind: u8, n: usize) {
    // n content bytes without NUL, then `pad` NUL bytes so that the payload is even
    let st = sym_string(s, n);
    let no_nul = {
        let b = st.as_bytes();
        let mut ok = true;
        let mut i = 0;
        while i < b.len() {
            if b[i] == 0 {
                ok = false;
            }
            i += 1;
        }
        ok
    };
    vassume!(s, no_nul);
    vnote!(s, "str", "{:?}", st);
    let pad = n % 2; // odd -> one NUL; even -> none
    let plen = n + pad;
    let mut payload: Vec<u8> = Vec::with_capacity(plen);
    let mut i = 0;
    while i < n {
        payload.push(st.as_bytes()[i]);
        i += 1;
    }
    if pad == 1 {
        payload.push(0);
    }
    let hdr = GdsRecordHeader { rtype: rtype_of(kind).unwrap(), dtype: GdsDataType::Str, len: plen as u16 };
    let mut rdr: Rd = GdsReader::from_bytes(&payload);
    let r = rdr.read_record_content(&hdr);
    let got: Option<&String> = match &r {
        Ok(GdsRecord::LibName(x)) | Ok(GdsRecord::StructName(x)) | Ok(GdsRecord::StructRefName(x)) | Ok(GdsRecord::String(x)) | Ok(GdsRecord::PropValue(x)) => Some(x),
        _ => None,
    };
    vnote!(s, "got", "{:?}", got);
    vcheck!(s, got == Some(&st), "c03.r1 string record yields exactly its characters (padding NUL stripped)");
    vcover!(s, got.is_some(), "string read reachable");
    core::mem::forget(r);
    core::mem::forget(rdr);
    core::mem::forget(st);
    core::mem::forget(payload);
}

// ---- C10 H-level: arbitrary header bytes ---------------------------------------------------------------
pub fn c10_q_h_header<S: Src>(s: &mut S) {
    let b = [s.u8(), s.u8(), s.u8(), s.u8()];
    let n = s.u8() as usize;
    vassume!(s, n <= 4);
    vnote!(s, "bytes", "{:?} avail {}", b, n);
    let mut rdr: Rd = GdsReader::from_bytes(&b[..n]);
    let h = rdr.read_record_header();
    if let Ok(h) = &h {
        let total = ((b[0] as u16) << 8) | b[1] as u16;
        vcheck!(s, n == 4, "c10.h a header needs four bytes");
        vcheck!(s, total >= 4 && total % 2 == 0 && h.len == total - 4, "c10.h accepted length is even, >= 4, payload = length - 4");
        vcheck!(s, h.rtype as u8 == b[2] && h.rtype.valid(), "c10.h accepted record type is the byte read and a valid type");
        vcheck!(s, h.dtype as u8 == b[3] && b[3] <= 6, "c10.h accepted data type is the byte read");
    }
    vcover!(s, h.is_ok(), "header accepted reachable");
    vcover!(s, h.is_err() && n == 4, "header rejected reachable");
    core::mem::forget(h);
    core::mem::forget(rdr);
}

/// C10 R-level: one record type (concrete per instance), ANY data type, payload length from a small set, arbitrary
/// payload bytes, source possibly truncated: no panic; Ok => exactly `len` bytes consumed.
fn rlevel_body<S: Src>(s: &mut S, rt: u8, len: u16, can_accept: bool) {
    let dt = s.u8();
    vassume!(s, dt <= 6);
    let mut buf = [0u8; 24];
    let mut i = 0;
    while i < 24 {
        buf[i] = s.u8();
        i += 1;
    }
    let avail = s.u8() as usize;
    vassume!(s, avail <= 24);
    vnote!(s, "in", "rtype {:#x} dtype {} len {} avail {} bytes {:?}", rt, dt, len, avail, &buf[..avail]);
    s.tag("zero_length_string", len == 0 && dt == 6);
    let hdr = GdsRecordHeader { rtype: rtype_of(rt).unwrap(), dtype: dtype_of(dt).unwrap(), len };
    let mut rdr: Rd = GdsReader::from_bytes(&buf[..avail]);
    let r = rdr.read_record_content(&hdr);
    let pos = rdr.pos();
    if r.is_ok() {
        vcheck!(s, pos == len as u64, "c10.r an accepted record consumed exactly its payload");
        vcheck!(s, avail >= len as usize, "c10.r a truncated payload is never accepted");
    }
    // (record type, payload length) pairs that no data type makes acceptable have only the rejection witness
    vcover!(s, r.is_ok() == can_accept, "expected outcome class reachable");
    vcover!(s, r.is_err(), "record rejected reachable");
    if !can_accept {
        vcheck!(s, r.is_err(), "c10.r a record type with an impossible payload length is rejected");
    }
    core::mem::forget(r);
    core::mem::forget(rdr);
}

// ---- tree level: the parser over a record list --------------------------------------------------------------
#[cfg(kani)]
static mut RECS: Vec<GdsRecord> = Vec::new();
/// spec record numbers of RECS, kept in a static scalar array so that they stay CONSTANTS for CBMC (values read back
/// from heap objects are not constant-propagated, which would make every `match record` in the parser explore all arms)
#[cfg(kani)]
static mut KINDS: [u8; 64] = [0xFF; 64];
#[cfg(kani)]
static mut LENS: [u8; 64] = [0; 64];
#[cfg(kani)]
static mut NREC: usize = 0;
#[cfg(kani)]
static mut POS: usize = 0;

/// rebuild `r` with a variant that is concrete for the model checker: `kind` is a constant, the payload comes from `r`
#[cfg(kani)]
fn concretize(kind: u8, len: usize, r: &GdsRecord) -> GdsRecord {
    // strings and coordinate lists are rebuilt element by element so that their LENGTH is a constant too
    let st = |x: &String| -> String {
        let mut v: Vec<u8> = Vec::with_capacity(len);
        let mut i = 0;
        while i < len {
            v.push(x.as_bytes()[i]);
            i += 1;
        }
        unsafe { String::from_utf8_unchecked(v) }
    };
    macro_rules! pick {
        ($pat:pat => $e:expr) => {
            match r {
                $pat => $e,
                _ => {
                    // the record at this position is not of the kind recorded when it was pushed. That this cannot
                    // happen is ASSERTED by every harness before the parser runs (`kinds_consistent`); pruning the
                    // path here is what keeps the rebuilt record's variant a constant.
                    kani::assume(false);
                    GdsRecord::EndLib
                }
            }
        };
    }
    match kind {
        0x00 => pick!(GdsRecord::Header { version } => GdsRecord::Header { version: *version }),
        0x01 => pick!(GdsRecord::BgnLib { dates } => GdsRecord::BgnLib { dates: *dates }),
        0x02 => pick!(GdsRecord::LibName(x) => GdsRecord::LibName(st(x))),
        0x03 => pick!(GdsRecord::Units(a, b) => GdsRecord::Units(*a, *b)),
        0x04 => GdsRecord::EndLib,
        0x05 => pick!(GdsRecord::BgnStruct { dates } => GdsRecord::BgnStruct { dates: *dates }),
        0x06 => pick!(GdsRecord::StructName(x) => GdsRecord::StructName(st(x))),
        0x07 => GdsRecord::EndStruct,
        0x08 => GdsRecord::Boundary,
        0x09 => GdsRecord::Path,
        0x0A => GdsRecord::StructRef,
        0x0B => GdsRecord::ArrayRef,
        0x0C => GdsRecord::Text,
        0x0D => pick!(GdsRecord::Layer(x) => GdsRecord::Layer(*x)),
        0x0E => pick!(GdsRecord::DataType(x) => GdsRecord::DataType(*x)),
        0x0F => pick!(GdsRecord::Width(x) => GdsRecord::Width(*x)),
        0x10 => pick!(GdsRecord::Xy(x) => {
            let mut v: Vec<i32> = Vec::with_capacity(len);
            let mut i = 0;
            while i < len {
                v.push(x[i]);
                i += 1;
            }
            GdsRecord::Xy(v)
        }),
        0x11 => GdsRecord::EndElement,
        0x12 => pick!(GdsRecord::StructRefName(x) => GdsRecord::StructRefName(st(x))),
        0x13 => pick!(GdsRecord::ColRow { cols, rows } => GdsRecord::ColRow { cols: *cols, rows: *rows }),
        0x15 => GdsRecord::Node,
        0x16 => pick!(GdsRecord::TextType(x) => GdsRecord::TextType(*x)),
        0x17 => pick!(GdsRecord::Presentation(a, b) => GdsRecord::Presentation(*a, *b)),
        0x19 => pick!(GdsRecord::String(x) => GdsRecord::String(st(x))),
        0x1A => pick!(GdsRecord::Strans(a, b) => GdsRecord::Strans(*a, *b)),
        0x1B => pick!(GdsRecord::Mag(x) => GdsRecord::Mag(*x)),
        0x1C => pick!(GdsRecord::Angle(x) => GdsRecord::Angle(*x)),
        0x1F => pick!(GdsRecord::RefLibs(x) => GdsRecord::RefLibs(st(x))),
        0x20 => pick!(GdsRecord::Fonts(x) => GdsRecord::Fonts(st(x))),
        0x21 => pick!(GdsRecord::PathType(x) => GdsRecord::PathType(*x)),
        0x22 => pick!(GdsRecord::Generations(x) => GdsRecord::Generations(*x)),
        0x23 => pick!(GdsRecord::AttrTable(x) => GdsRecord::AttrTable(st(x))),
        0x26 => pick!(GdsRecord::ElemFlags(a, b) => GdsRecord::ElemFlags(*a, *b)),
        0x2A => pick!(GdsRecord::Nodetype(x) => GdsRecord::Nodetype(*x)),
        0x2B => pick!(GdsRecord::PropAttr(x) => GdsRecord::PropAttr(*x)),
        0x2C => pick!(GdsRecord::PropValue(x) => GdsRecord::PropValue(st(x))),
        0x2D => GdsRecord::Box,
        0x2E => pick!(GdsRecord::BoxType(x) => GdsRecord::BoxType(*x)),
        0x2F => pick!(GdsRecord::Plex(x) => GdsRecord::Plex(*x)),
        0x30 => pick!(GdsRecord::BeginExtn(x) => GdsRecord::BeginExtn(*x)),
        0x31 => pick!(GdsRecord::EndExtn(x) => GdsRecord::EndExtn(*x)),
        0x32 => pick!(GdsRecord::TapeNum(x) => GdsRecord::TapeNum(*x)),
        0x33 => pick!(GdsRecord::TapeCode(x) => GdsRecord::TapeCode(*x)),
        0x36 => pick!(GdsRecord::Format(x) => GdsRecord::Format(*x)),
        0x37 => pick!(GdsRecord::Mask(x) => GdsRecord::Mask(st(x))),
        0x38 => GdsRecord::EndMasks,
        0x39 => pick!(GdsRecord::LibDirSize(x) => GdsRecord::LibDirSize(*x)),
        0x3A => pick!(GdsRecord::SrfName(x) => GdsRecord::SrfName(st(x))),
        0x3B => pick!(GdsRecord::LibSecur(x) => GdsRecord::LibSecur(*x)),
        _ => {
            // symbolic-kind list (C10 P-level): hand the record over as it is
            r.clone()
        }
    }
}
#[cfg(kani)]
unsafe fn rec_at(p: usize) -> GdsRecord {
    concretize(KINDS[p], LENS[p] as usize, &RECS[p])
}

/// Stand-in for `GdsParser::next` under Kani: returns record number POS of the harness's list and loads the
/// look-ahead with the one after it; errors once the source has no further record for the look-ahead (exactly what the
/// real `next` does at end of input). `c01_q_l2n_next` checks that the real `next` provides this over a record source.
#[cfg(kani)]
pub fn stub_next<R: std::io::Read + std::io::Seek>(this: &mut GdsParser<R>) -> GdsResult<GdsRecord> {
    unsafe {
        if KINDS[POS] == 0x04 || (KINDS[POS] == 0xFE && this.nxt == GdsRecord::EndLib) {
            // ENDLIB is in the look-ahead: keep returning it forever
            return Ok(GdsRecord::EndLib);
        }
        let p = POS;
        if p + 1 >= NREC {
            return Err(GdsError::Str(String::new()));
        }
        POS += 1;
        this.numread += 1;
        this.nxt = rec_at(p + 1);
        Ok(rec_at(p))
    }
}

/// the spec-number table of a list agrees with the records actually in it
fn kinds_consistent(l: &gds_ref::RecList) -> bool {
    if l.recs.len() != l.n {
        return false;
    }
    let mut ok = true;
    let mut i = 0;
    while i < l.n {
        if gds_ref::ref_kind(&l.recs[i]).0 != l.kinds[i] || gds_ref::var_len(&l.recs[i]) != l.lens[i] {
            ok = false;
        }
        i += 1;
    }
    ok
}

/// build a parser whose record stream is `records` (the first one sits in the look-ahead, as after `new`).
/// `concrete_kinds` = the list was built with concrete variants (everything except the C10 P-level harnesses).
#[cfg(kani)]
fn mk_parser_k(list: gds_ref::RecList, concrete_kinds: bool) -> GdsParser<Cursor<&'static [u8]>> {
    static EMPTY: [u8; 0] = [];
    unsafe {
        POS = 0;
        NREC = list.n;
        KINDS = if concrete_kinds { list.kinds } else { [0xFE; 64] };
        LENS = list.lens;
        RECS = list.recs;
        let first = rec_at(0);
        GdsParser { rdr: GdsReader::new(Cursor::new(&EMPTY[..])), nxt: first, numread: 1, ctx: Vec::with_capacity(16) }
    }
}
#[cfg(kani)]
fn mk_parser(list: gds_ref::RecList) -> GdsParser<Cursor<&'static [u8]>> {
    mk_parser_k(list, true)
}
/// natively: the records become bytes (reference encoder) and the REAL reader/look-ahead run
#[cfg(not(kani))]
fn mk_parser(list: gds_ref::RecList) -> GdsParser<Cursor<&'static [u8]>> {
    let mut bytes: Vec<u8> = Vec::new();
    for r in list.recs.iter() {
        bytes.extend(gds_ref::ref_bytes(r, f2u).unwrap_or_default());
    }
    let leaked: &'static [u8] = Box::leak(bytes.into_boxed_slice());
    match GdsParser::from_bytes(leaked) {
        Ok(p) => p,
        Err(e) => panic!("l21v: cannot start the parser on the harness's own stream: {:?}", e),
    }
}

fn parse_elem_of_kind<R: std::io::Read + std::io::Seek>(p: &mut GdsParser<R>, kind: u8) -> GdsResult<GdsElement> {
    Ok(match kind {
        0 => p.parse_boundary()?.into(),
        1 => p.parse_path()?.into(),
        2 => p.parse_struct_ref()?.into(),
        3 => p.parse_array_ref()?.into(),
        4 => p.parse_text_elem()?.into(),
        5 => p.parse_node()?.into(),
        _ => p.parse_box()?.into(),
    })
}
/// the reader's own parser for one element struct
trait Par: L21Elem {
    fn par(p: &mut GdsParser<Cursor<&'static [u8]>>) -> GdsResult<Self>;
    /// record list the REAL writer produces for this element (re-wrapped: RecList is defined once per harness module)
    fn wflat(&self) -> gds_ref::RecList;
}
macro_rules! wflat_impl {
    () => {
        fn wflat(&self) -> gds_ref::RecList {
            let l = crate::write::l21v::flatten_one(self);
            gds_ref::RecList { recs: l.recs, n: l.n, kinds: l.kinds, lens: l.lens }
        }
    };
}
impl Par for GdsBoundary {
    fn par(p: &mut GdsParser<Cursor<&'static [u8]>>) -> GdsResult<Self> {
        p.parse_boundary()
    }
    wflat_impl!();
}
impl Par for GdsPath {
    fn par(p: &mut GdsParser<Cursor<&'static [u8]>>) -> GdsResult<Self> {
        p.parse_path()
    }
    wflat_impl!();
}
impl Par for GdsStructRef {
    fn par(p: &mut GdsParser<Cursor<&'static [u8]>>) -> GdsResult<Self> {
        p.parse_struct_ref()
    }
    wflat_impl!();
}
impl Par for GdsArrayRef {
    fn par(p: &mut GdsParser<Cursor<&'static [u8]>>) -> GdsResult<Self> {
        p.parse_array_ref()
    }
    wflat_impl!();
}
impl Par for GdsTextElem {
    fn par(p: &mut GdsParser<Cursor<&'static [u8]>>) -> GdsResult<Self> {
        p.parse_text_elem()
    }
    wflat_impl!();
}
impl Par for GdsNode {
    fn par(p: &mut GdsParser<Cursor<&'static [u8]>>) -> GdsResult<Self> {
        p.parse_node()
    }
    wflat_impl!();
}
impl Par for GdsBox {
    fn par(p: &mut GdsParser<Cursor<&'static [u8]>>) -> GdsResult<Self> {
        p.parse_box()
    }
    wflat_impl!();
}

/// L2a / R2: one element, flattened by the real writer (or by the reference), parsed back by the real parse_<kind>
fn elem_rt_body<S: Src, E: Par + core::fmt::Debug>(s: &mut S, mask: u32, slen: usize, npts: usize, from_writer: bool) {
    elem_rt_body_pin::<S, E>(s, mask, slen, npts, from_writer, 255)
}
fn elem_rt_body_pin<S: Src, E: Par + core::fmt::Debug>(s: &mut S, mask: u32, slen: usize, npts: usize, from_writer: bool, pin: u8) {
    let mut e = E::sym(s, mask, slen, npts);
    e.pin(pin);
    vnote!(s, "elem", "{:?}", e);
    let mut want_l = gds_ref::RecList::new();
    e.ref_into(&mut want_l);
    // the writer's Sink and the reference both deliver (records, spec numbers, lengths); the RecList type is defined
    // once per harness module, so the writer's is taken apart and re-wrapped
    let mut recs = if from_writer {
        e.wflat()
    } else {
        let mut l = gds_ref::RecList::new();
        e.ref_into(&mut l);
        l
    };
    let k = recs.len() - 1; // records after the element-start record
    recs.remove_first(); // parse_<kind> runs after the element-start record has been consumed
    recs.push(GdsRecord::EndStruct); // what follows in the stream
    vcheck!(s, kinds_consistent(&recs), "c01.l2 harness: record-kind table matches the records");
    let mut p = mk_parser(recs);
    let got = E::par(&mut p);
    vnote!(s, "got", "{:?} numread {}", got, p.numread);
    match &got {
        Ok(g) => {
            // equality through the (injective) reference flattening: every comparison loop is then bounded by the
            // ORIGINAL element's constant shape instead of by lengths read back from the heap
            let np = if mask & M_PROP != 0 { 1 } else { 0 };
            vcheck!(s, e.same(g, slen, npts, np), "c01.l2 element parses back equal, field for field");
            vcheck!(s, p.numread == k + 1, "c01.l2 parser consumed exactly the element's records");
        }
        Err(_) => {
            vcheck!(s, false, "c01.l2 element record list is accepted");
        }
    }
    vcover!(s, got.is_ok(), "element parsed reachable");
    core::mem::forget(want_l);
    core::mem::forget(got);
    core::mem::forget(p);
    core::mem::forget(e);
}

fn lib_eq(a: &GdsLibrary, b: &GdsLibrary) -> bool {
    if !(a.name == b.name && a.version == b.version && a.dates == b.dates && a.structs.len() == b.structs.len()) {
        return false;
    }
    if a.units.0.to_bits() != b.units.0.to_bits() || a.units.1.to_bits() != b.units.1.to_bits() {
        return false;
    }
    let mut ok = true;
    let mut i = 0;
    while i < a.structs.len() {
        let (x, y) = (&a.structs[i], &b.structs[i]);
        if !(x.name == y.name && x.dates == y.dates && x.elems.len() == y.elems.len()) {
            ok = false;
        } else {
            let mut j = 0;
            while j < x.elems.len() {
                if !elem_eq(&x.elems[j], &y.elems[j]) {
                    ok = false;
                }
                j += 1;
            }
        }
        i += 1;
    }
    ok
}

/// L2b: whole library, flattened by the real writer (or the reference), parsed by the real parse_lib / parse_struct
fn lib_rt_body<S: Src>(s: &mut S, ns: usize, ne: usize, k0: u8, mask: u32, from_writer: bool, junk_after: bool) {
    let lib = sym_lib(s, ns, ne, k0, mask, 1);
    vnote!(s, "lib", "{:?}", lib);
    let mut recs = if from_writer {
        let l = flatten_lib(&lib);
        gds_ref::RecList { recs: l.recs, n: l.n, kinds: l.kinds, lens: l.lens }
    } else {
        gds_ref::ref_flatten_lib(&lib)
    };
    let n = recs.len();
    if junk_after {
        // records after ENDLIB (tape padding at record granularity) must never be requested
        recs.push(GdsRecord::Boundary);
    }
    vcheck!(s, kinds_consistent(&recs), "c01.l2 harness: record-kind table matches the records");
    let mut p = mk_parser(recs);
    let got = p.parse_lib();
    vnote!(s, "got", "{:?} numread {}", got, p.numread);
    match &got {
        Ok(g) => {
            let hdr_ok = {
                let (a, b) = (lib.name.as_bytes(), g.name.as_bytes());
                a.len() == 1 && b.len() == 1 && a[0] == b[0] && lib.version == g.version && lib.dates == g.dates && lib.units.0.to_bits() == g.units.0.to_bits() && lib.units.1.to_bits() == g.units.1.to_bits()
            };
            vcheck!(s, hdr_ok, "c01.l2 library name, version, dates and units parse back equal");
            vcheck!(s, g.structs.len() == ns, "c01.l2 library keeps its structs");
            if ns > 0 {
                vcheck!(s, lib_eq(g, &lib), "c01.l2 library parses back equal, field for field");
            }
            vcheck!(s, p.numread <= n + 1, "c01.l2 nothing after ENDLIB is consumed");
        }
        Err(_) => {
            vcheck!(s, false, "c01.l2 library record list is accepted");
        }
    }
    vcover!(s, got.is_ok(), "library parsed reachable");
    core::mem::forget(got);
    core::mem::forget(p);
    core::mem::forget(lib);
}

/// C03: a library-level record documented as unsupported, at its BNF position => Err, never a library
fn unsupported_body<S: Src>(s: &mut S, kind: u8) {
    let lib = sym_lib(s, 0, 0, 0, 0, 1);
    let extra = sym_record(s, kind, 1);
    vnote!(s, "extra", "{:?}", extra);
    let mut recs = gds_ref::ref_flatten_lib(&lib);
    // BNF: HEADER BGNLIB [LIBDIRSIZE] [SRFNAME] [LIBSECUR] LIBNAME [REFLIBS] [FONTS] [ATTRTABLE] [GENERATIONS] [FORMAT] UNITS
    let at = match kind {
        0x39 | 0x3A | 0x3B => 2,
        _ => 3,
    };
    recs.insert(at, extra);
    vcheck!(s, kinds_consistent(&recs), "c03.r2 harness: record-kind table matches the records");
    let mut p = mk_parser(recs);
    let got = p.parse_lib();
    let is_unsupported = match &got {
        Err(GdsError::Unsupported(_, _)) => true,
        _ => false,
    };
    vcheck!(s, got.is_err(), "c03.r2 unsupported library-level record is reported as an error, not misread");
    vcheck!(s, is_unsupported, "c03.r2 the error says Unsupported");
    vcover!(s, got.is_err(), "error reachable");
    core::mem::forget(got);
    core::mem::forget(p);
    core::mem::forget(lib);
}

// ---- L2n: the look-ahead iterator itself, over a stubbed record source ---------------------------------
#[cfg(kani)]
static mut SRC: Vec<GdsRecord> = Vec::new();
#[cfg(kani)]
static mut SRC_POS: usize = 0;
#[cfg(kani)]
pub fn stub_read_record<R: std::io::Read + std::io::Seek>(_this: &mut GdsReader<R>) -> GdsResult<GdsRecord> {
    unsafe {
        let p = SRC_POS;
        SRC_POS += 1;
        if p < SRC.len() {
            Ok(SRC[p].clone())
        } else {
            Err(GdsError::Str(String::new()))
        }
    }
}
/// `next` returns the source's records in order, `peek` shows the one `next` returns, `numread` counts them; once
/// ENDLIB is in the look-ahead the source is never asked again and `next` keeps returning ENDLIB.
fn l2n_body<S: Src>(s: &mut S, early_endlib: bool) {
    // records of concrete kinds (symbolic payload), ENDLIB, then a junk record that must never be requested
    let v = s.i16();
    let list = if early_endlib {
        vec![GdsRecord::Layer(v), GdsRecord::EndLib, GdsRecord::Boundary, GdsRecord::EndLib, GdsRecord::Path]
    } else {
        vec![GdsRecord::Layer(v), GdsRecord::Boundary, GdsRecord::EndElement, GdsRecord::EndLib, GdsRecord::Path]
    };
    let kinds: [u8; 5] = if early_endlib { [0x0D, 0x04, 0x08, 0x04, 0x09] } else { [0x0D, 0x08, 0x11, 0x04, 0x09] };
    vnote!(s, "list", "{:?}", list);
    #[cfg(kani)]
    let mut p: GdsParser<Cursor<&'static [u8]>> = {
        static EMPTY: [u8; 0] = [];
        unsafe {
            SRC = list.clone();
            SRC_POS = 0;
        }
        match GdsParser::new(GdsReader::new(Cursor::new(&EMPTY[..]))) {
            Ok(p) => p,
            Err(_) => {
                vcheck!(s, false, "c01.l2n parser starts on a non-empty source");
                return;
            }
        }
    };
    #[cfg(not(kani))]
    let mut p = {
        let mut l = gds_ref::RecList::new();
        for r in list.iter() {
            l.push(r.clone());
        }
        mk_parser(l)
    };
    let mut i = 0;
    let mut seen_endlib = false;
    while i < 5 {
        // what `next` must return: the i-th record, or ENDLIB forever once it has been seen
        let want_kind = if seen_endlib { 0x04 } else { kinds[i] };
        let peek_ok = gds_ref::rec_eq_k(want_kind, 0, p.peek(), if seen_endlib { &GdsRecord::EndLib } else { &list[i] });
        vcheck!(s, peek_ok, "c01.l2n peek shows the record next will return");
        let r = p.next();
        match &r {
            Ok(rec) => {
                if seen_endlib {
                    vcheck!(s, gds_ref::rec_eq_k(0x04, 0, rec, &GdsRecord::EndLib), "c01.l2n after ENDLIB next keeps returning ENDLIB");
                } else {
                    vcheck!(s, gds_ref::rec_eq_k(kinds[i], 0, rec, &list[i]), "c01.l2n next returns the source's records in order");
                    vcheck!(s, kinds[i] == 0x04 || p.numread == i + 2, "c01.l2n numread counts records loaded");
                }
                if !seen_endlib && kinds[i] == 0x04 {
                    seen_endlib = true;
                }
            }
            Err(_) => {
                vcheck!(s, false, "c01.l2n next does not fail while records remain or after ENDLIB");
            }
        }
        core::mem::forget(r);
        i += 1;
    }
    #[cfg(kani)]
    {
        // the junk record after ENDLIB was never requested from the source
        let asked = unsafe { SRC_POS };
        vcheck!(s, asked <= if early_endlib { 2 } else { 4 }, "c01.l2n source is never read past ENDLIB");
    }
    vcover!(s, seen_endlib, "ENDLIB reached reachable");
    core::mem::forget(p);
}
pub fn c01_q_l2n_next<S: Src>(s: &mut S) {
    l2n_body(s, false)
}
pub fn c01_t_l2n_next_early<S: Src>(s: &mut S) {
    l2n_body(s, true)
}

// ---- C10 P-level: parsers on enumerated record-kind sequences with symbolic payloads ------------------------------
/// which: 0..=6 element parsers, 7 parse_struct, 8 parse_lib. The record KINDS of the stream are concrete per harness
/// instance (enumerated / sampled by the generator: valid prefixes, wrong records, wrong arities, truncations), the
/// payloads symbolic. No panic; every step consumes a record or stops; parse_lib never returns Ok without ENDLIB.
fn plevel_body<S: Src>(s: &mut S, which: u8, kinds: &[u8], ns: &[usize]) {
    let nrec = kinds.len();
    let mut recs = gds_ref::RecList::new();
    let mut has_endlib = false;
    let mut i = 0;
    while i < nrec {
        recs.push(sym_record(s, kinds[i], ns[i]));
        if kinds[i] == 0x04 {
            has_endlib = true;
        }
        i += 1;
    }
    vnote!(s, "recs", "{:?}", recs.recs);
    vcheck!(s, kinds_consistent(&recs), "c10.p harness: record-kind table matches the records");
    let mut p = mk_parser(recs);
    let ok = match which {
        7 => {
            let r = p.parse_struct(&[0i16; 12]);
            let ok = r.is_ok();
            core::mem::forget(r);
            ok
        }
        8 => {
            let r = p.parse_lib();
            let ok = r.is_ok();
            if ok {
                vcheck!(s, has_endlib, "c10.p a stream without ENDLIB is never accepted as a library");
            }
            core::mem::forget(r);
            ok
        }
        k => {
            let r = parse_elem_of_kind(&mut p, k);
            let ok = r.is_ok();
            core::mem::forget(r);
            ok
        }
    };
    vcheck!(s, p.numread <= nrec + 1, "c10.p every step consumes a record or stops");
    vcover!(s, ok || !ok, "parser returned reachable");
    core::mem::forget(p);
}

// native replay dispatch for this module
#[cfg(not(kani))]
pub fn replay(name: &str, vals: Vec<Vec<u8>>) -> ReplayOut {
    run_native(name, vals, k::dispatch)
}

// BEGIN GENERATED (bin/l21v/gen_gds.py)
pub fn c01_s_l1_k00_n0<S: Src>(s: &mut S) {
    record_rt_body(s, 0x00, 0, true, false)
}
pub fn c03_s_r1_k00_n0<S: Src>(s: &mut S) {
    record_rt_body(s, 0x00, 0, false, true)
}
pub fn c01_s_l1_k01_n0<S: Src>(s: &mut S) {
    record_rt_body(s, 0x01, 0, true, false)
}
pub fn c03_s_r1_k01_n0<S: Src>(s: &mut S) {
    record_rt_body(s, 0x01, 0, false, false)
}
pub fn c01_q_l1_k02_n0<S: Src>(s: &mut S) {
    record_rt_body(s, 0x02, 0, true, false)
}
pub fn c03_s_r1_k02_n0<S: Src>(s: &mut S) {
    record_rt_body(s, 0x02, 0, false, true)
}
pub fn c01_q_l1_k02_n1<S: Src>(s: &mut S) {
    record_rt_body(s, 0x02, 1, true, false)
}
pub fn c03_s_r1_k02_n1<S: Src>(s: &mut S) {
    record_rt_body(s, 0x02, 1, false, false)
}
pub fn c01_s_l1_k02_n2<S: Src>(s: &mut S) {
    record_rt_body(s, 0x02, 2, true, false)
}
pub fn c03_s_r1_k02_n2<S: Src>(s: &mut S) {
    record_rt_body(s, 0x02, 2, false, true)
}
pub fn c01_s_l1_k02_n3<S: Src>(s: &mut S) {
    record_rt_body(s, 0x02, 3, true, false)
}
pub fn c03_s_r1_k02_n3<S: Src>(s: &mut S) {
    record_rt_body(s, 0x02, 3, false, false)
}
pub fn c01_q_l1_k03_n0<S: Src>(s: &mut S) {
    record_rt_body(s, 0x03, 0, true, false)
}
pub fn c03_s_r1_k03_n0<S: Src>(s: &mut S) {
    record_rt_body(s, 0x03, 0, false, false)
}
pub fn c01_s_l1_k04_n0<S: Src>(s: &mut S) {
    record_rt_body(s, 0x04, 0, true, false)
}
pub fn c03_s_r1_k04_n0<S: Src>(s: &mut S) {
    record_rt_body(s, 0x04, 0, false, true)
}
pub fn c01_s_l1_k05_n0<S: Src>(s: &mut S) {
    record_rt_body(s, 0x05, 0, true, false)
}
pub fn c03_s_r1_k05_n0<S: Src>(s: &mut S) {
    record_rt_body(s, 0x05, 0, false, false)
}
pub fn c01_s_l1_k06_n0<S: Src>(s: &mut S) {
    record_rt_body(s, 0x06, 0, true, false)
}
pub fn c03_q_r1_k06_n0<S: Src>(s: &mut S) {
    record_rt_body(s, 0x06, 0, false, true)
}
pub fn c01_s_l1_k06_n1<S: Src>(s: &mut S) {
    record_rt_body(s, 0x06, 1, true, false)
}
pub fn c03_s_r1_k06_n1<S: Src>(s: &mut S) {
    record_rt_body(s, 0x06, 1, false, false)
}
pub fn c01_s_l1_k06_n2<S: Src>(s: &mut S) {
    record_rt_body(s, 0x06, 2, true, false)
}
pub fn c03_s_r1_k06_n2<S: Src>(s: &mut S) {
    record_rt_body(s, 0x06, 2, false, true)
}
pub fn c01_s_l1_k06_n3<S: Src>(s: &mut S) {
    record_rt_body(s, 0x06, 3, true, false)
}
pub fn c03_s_r1_k06_n3<S: Src>(s: &mut S) {
    record_rt_body(s, 0x06, 3, false, false)
}
pub fn c01_s_l1_k07_n0<S: Src>(s: &mut S) {
    record_rt_body(s, 0x07, 0, true, false)
}
pub fn c03_s_r1_k07_n0<S: Src>(s: &mut S) {
    record_rt_body(s, 0x07, 0, false, false)
}
pub fn c01_s_l1_k08_n0<S: Src>(s: &mut S) {
    record_rt_body(s, 0x08, 0, true, false)
}
pub fn c03_s_r1_k08_n0<S: Src>(s: &mut S) {
    record_rt_body(s, 0x08, 0, false, true)
}
pub fn c01_s_l1_k09_n0<S: Src>(s: &mut S) {
    record_rt_body(s, 0x09, 0, true, false)
}
pub fn c03_s_r1_k09_n0<S: Src>(s: &mut S) {
    record_rt_body(s, 0x09, 0, false, false)
}
pub fn c01_s_l1_k0a_n0<S: Src>(s: &mut S) {
    record_rt_body(s, 0x0a, 0, true, false)
}
pub fn c03_s_r1_k0a_n0<S: Src>(s: &mut S) {
    record_rt_body(s, 0x0a, 0, false, true)
}
pub fn c01_s_l1_k0b_n0<S: Src>(s: &mut S) {
    record_rt_body(s, 0x0b, 0, true, false)
}
pub fn c03_s_r1_k0b_n0<S: Src>(s: &mut S) {
    record_rt_body(s, 0x0b, 0, false, false)
}
pub fn c01_s_l1_k0c_n0<S: Src>(s: &mut S) {
    record_rt_body(s, 0x0c, 0, true, false)
}
pub fn c03_s_r1_k0c_n0<S: Src>(s: &mut S) {
    record_rt_body(s, 0x0c, 0, false, true)
}
pub fn c01_s_l1_k0d_n0<S: Src>(s: &mut S) {
    record_rt_body(s, 0x0d, 0, true, false)
}
pub fn c03_s_r1_k0d_n0<S: Src>(s: &mut S) {
    record_rt_body(s, 0x0d, 0, false, false)
}
pub fn c01_s_l1_k0e_n0<S: Src>(s: &mut S) {
    record_rt_body(s, 0x0e, 0, true, false)
}
pub fn c03_s_r1_k0e_n0<S: Src>(s: &mut S) {
    record_rt_body(s, 0x0e, 0, false, true)
}
pub fn c01_s_l1_k0f_n0<S: Src>(s: &mut S) {
    record_rt_body(s, 0x0f, 0, true, false)
}
pub fn c03_s_r1_k0f_n0<S: Src>(s: &mut S) {
    record_rt_body(s, 0x0f, 0, false, false)
}
pub fn c01_s_l1_k10_n0<S: Src>(s: &mut S) {
    record_rt_body(s, 0x10, 0, true, false)
}
pub fn c03_s_r1_k10_n0<S: Src>(s: &mut S) {
    record_rt_body(s, 0x10, 0, false, true)
}
pub fn c01_q_l1_k10_n2<S: Src>(s: &mut S) {
    record_rt_body(s, 0x10, 2, true, false)
}
pub fn c03_s_r1_k10_n2<S: Src>(s: &mut S) {
    record_rt_body(s, 0x10, 2, false, true)
}
pub fn c01_s_l1_k10_n5<S: Src>(s: &mut S) {
    record_rt_body(s, 0x10, 5, true, false)
}
pub fn c03_q_r1_k10_n5<S: Src>(s: &mut S) {
    record_rt_body(s, 0x10, 5, false, false)
}
pub fn c01_s_l1_k11_n0<S: Src>(s: &mut S) {
    record_rt_body(s, 0x11, 0, true, false)
}
pub fn c03_s_r1_k11_n0<S: Src>(s: &mut S) {
    record_rt_body(s, 0x11, 0, false, false)
}
pub fn c01_s_l1_k12_n0<S: Src>(s: &mut S) {
    record_rt_body(s, 0x12, 0, true, false)
}
pub fn c03_s_r1_k12_n0<S: Src>(s: &mut S) {
    record_rt_body(s, 0x12, 0, false, true)
}
pub fn c01_s_l1_k12_n1<S: Src>(s: &mut S) {
    record_rt_body(s, 0x12, 1, true, false)
}
pub fn c03_s_r1_k12_n1<S: Src>(s: &mut S) {
    record_rt_body(s, 0x12, 1, false, false)
}
pub fn c01_s_l1_k12_n2<S: Src>(s: &mut S) {
    record_rt_body(s, 0x12, 2, true, false)
}
pub fn c03_s_r1_k12_n2<S: Src>(s: &mut S) {
    record_rt_body(s, 0x12, 2, false, true)
}
pub fn c01_s_l1_k12_n3<S: Src>(s: &mut S) {
    record_rt_body(s, 0x12, 3, true, false)
}
pub fn c03_s_r1_k12_n3<S: Src>(s: &mut S) {
    record_rt_body(s, 0x12, 3, false, false)
}
pub fn c01_s_l1_k13_n0<S: Src>(s: &mut S) {
    record_rt_body(s, 0x13, 0, true, false)
}
pub fn c03_s_r1_k13_n0<S: Src>(s: &mut S) {
    record_rt_body(s, 0x13, 0, false, false)
}
pub fn c01_s_l1_k15_n0<S: Src>(s: &mut S) {
    record_rt_body(s, 0x15, 0, true, false)
}
pub fn c03_s_r1_k15_n0<S: Src>(s: &mut S) {
    record_rt_body(s, 0x15, 0, false, false)
}
pub fn c01_s_l1_k16_n0<S: Src>(s: &mut S) {
    record_rt_body(s, 0x16, 0, true, false)
}
pub fn c03_s_r1_k16_n0<S: Src>(s: &mut S) {
    record_rt_body(s, 0x16, 0, false, true)
}
pub fn c01_s_l1_k17_n0<S: Src>(s: &mut S) {
    record_rt_body(s, 0x17, 0, true, false)
}
pub fn c03_s_r1_k17_n0<S: Src>(s: &mut S) {
    record_rt_body(s, 0x17, 0, false, false)
}
pub fn c01_s_l1_k19_n0<S: Src>(s: &mut S) {
    record_rt_body(s, 0x19, 0, true, false)
}
pub fn c03_s_r1_k19_n0<S: Src>(s: &mut S) {
    record_rt_body(s, 0x19, 0, false, false)
}
pub fn c01_s_l1_k19_n1<S: Src>(s: &mut S) {
    record_rt_body(s, 0x19, 1, true, false)
}
pub fn c03_s_r1_k19_n1<S: Src>(s: &mut S) {
    record_rt_body(s, 0x19, 1, false, true)
}
pub fn c01_q_l1_k19_n2<S: Src>(s: &mut S) {
    record_rt_body(s, 0x19, 2, true, false)
}
pub fn c03_s_r1_k19_n2<S: Src>(s: &mut S) {
    record_rt_body(s, 0x19, 2, false, false)
}
pub fn c01_s_l1_k19_n3<S: Src>(s: &mut S) {
    record_rt_body(s, 0x19, 3, true, false)
}
pub fn c03_s_r1_k19_n3<S: Src>(s: &mut S) {
    record_rt_body(s, 0x19, 3, false, true)
}
pub fn c01_s_l1_k1a_n0<S: Src>(s: &mut S) {
    record_rt_body(s, 0x1a, 0, true, false)
}
pub fn c03_s_r1_k1a_n0<S: Src>(s: &mut S) {
    record_rt_body(s, 0x1a, 0, false, true)
}
pub fn c01_s_l1_k1b_n0<S: Src>(s: &mut S) {
    record_rt_body(s, 0x1b, 0, true, false)
}
pub fn c03_s_r1_k1b_n0<S: Src>(s: &mut S) {
    record_rt_body(s, 0x1b, 0, false, false)
}
pub fn c01_s_l1_k1c_n0<S: Src>(s: &mut S) {
    record_rt_body(s, 0x1c, 0, true, false)
}
pub fn c03_s_r1_k1c_n0<S: Src>(s: &mut S) {
    record_rt_body(s, 0x1c, 0, false, true)
}
pub fn c01_s_l1_k1f_n0<S: Src>(s: &mut S) {
    record_rt_body(s, 0x1f, 0, true, false)
}
pub fn c03_s_r1_k1f_n0<S: Src>(s: &mut S) {
    record_rt_body(s, 0x1f, 0, false, false)
}
pub fn c01_s_l1_k1f_n1<S: Src>(s: &mut S) {
    record_rt_body(s, 0x1f, 1, true, false)
}
pub fn c03_s_r1_k1f_n1<S: Src>(s: &mut S) {
    record_rt_body(s, 0x1f, 1, false, true)
}
pub fn c01_s_l1_k1f_n2<S: Src>(s: &mut S) {
    record_rt_body(s, 0x1f, 2, true, false)
}
pub fn c03_s_r1_k1f_n2<S: Src>(s: &mut S) {
    record_rt_body(s, 0x1f, 2, false, false)
}
pub fn c01_s_l1_k1f_n3<S: Src>(s: &mut S) {
    record_rt_body(s, 0x1f, 3, true, false)
}
pub fn c03_s_r1_k1f_n3<S: Src>(s: &mut S) {
    record_rt_body(s, 0x1f, 3, false, true)
}
pub fn c01_s_l1_k20_n0<S: Src>(s: &mut S) {
    record_rt_body(s, 0x20, 0, true, false)
}
pub fn c03_s_r1_k20_n0<S: Src>(s: &mut S) {
    record_rt_body(s, 0x20, 0, false, true)
}
pub fn c01_s_l1_k20_n1<S: Src>(s: &mut S) {
    record_rt_body(s, 0x20, 1, true, false)
}
pub fn c03_s_r1_k20_n1<S: Src>(s: &mut S) {
    record_rt_body(s, 0x20, 1, false, false)
}
pub fn c01_s_l1_k20_n2<S: Src>(s: &mut S) {
    record_rt_body(s, 0x20, 2, true, false)
}
pub fn c03_s_r1_k20_n2<S: Src>(s: &mut S) {
    record_rt_body(s, 0x20, 2, false, true)
}
pub fn c01_s_l1_k20_n3<S: Src>(s: &mut S) {
    record_rt_body(s, 0x20, 3, true, false)
}
pub fn c03_s_r1_k20_n3<S: Src>(s: &mut S) {
    record_rt_body(s, 0x20, 3, false, false)
}
pub fn c01_s_l1_k21_n0<S: Src>(s: &mut S) {
    record_rt_body(s, 0x21, 0, true, false)
}
pub fn c03_s_r1_k21_n0<S: Src>(s: &mut S) {
    record_rt_body(s, 0x21, 0, false, false)
}
pub fn c01_s_l1_k22_n0<S: Src>(s: &mut S) {
    record_rt_body(s, 0x22, 0, true, false)
}
pub fn c03_s_r1_k22_n0<S: Src>(s: &mut S) {
    record_rt_body(s, 0x22, 0, false, true)
}
pub fn c01_s_l1_k23_n0<S: Src>(s: &mut S) {
    record_rt_body(s, 0x23, 0, true, false)
}
pub fn c03_s_r1_k23_n0<S: Src>(s: &mut S) {
    record_rt_body(s, 0x23, 0, false, false)
}
pub fn c01_s_l1_k23_n1<S: Src>(s: &mut S) {
    record_rt_body(s, 0x23, 1, true, false)
}
pub fn c03_s_r1_k23_n1<S: Src>(s: &mut S) {
    record_rt_body(s, 0x23, 1, false, true)
}
pub fn c01_s_l1_k23_n2<S: Src>(s: &mut S) {
    record_rt_body(s, 0x23, 2, true, false)
}
pub fn c03_s_r1_k23_n2<S: Src>(s: &mut S) {
    record_rt_body(s, 0x23, 2, false, false)
}
pub fn c01_s_l1_k23_n3<S: Src>(s: &mut S) {
    record_rt_body(s, 0x23, 3, true, false)
}
pub fn c03_s_r1_k23_n3<S: Src>(s: &mut S) {
    record_rt_body(s, 0x23, 3, false, true)
}
pub fn c01_s_l1_k26_n0<S: Src>(s: &mut S) {
    record_rt_body(s, 0x26, 0, true, false)
}
pub fn c03_s_r1_k26_n0<S: Src>(s: &mut S) {
    record_rt_body(s, 0x26, 0, false, true)
}
pub fn c01_s_l1_k2a_n0<S: Src>(s: &mut S) {
    record_rt_body(s, 0x2a, 0, true, false)
}
pub fn c03_s_r1_k2a_n0<S: Src>(s: &mut S) {
    record_rt_body(s, 0x2a, 0, false, true)
}
pub fn c01_s_l1_k2b_n0<S: Src>(s: &mut S) {
    record_rt_body(s, 0x2b, 0, true, false)
}
pub fn c03_s_r1_k2b_n0<S: Src>(s: &mut S) {
    record_rt_body(s, 0x2b, 0, false, false)
}
pub fn c01_s_l1_k2c_n0<S: Src>(s: &mut S) {
    record_rt_body(s, 0x2c, 0, true, false)
}
pub fn c03_s_r1_k2c_n0<S: Src>(s: &mut S) {
    record_rt_body(s, 0x2c, 0, false, true)
}
pub fn c01_s_l1_k2c_n1<S: Src>(s: &mut S) {
    record_rt_body(s, 0x2c, 1, true, false)
}
pub fn c03_s_r1_k2c_n1<S: Src>(s: &mut S) {
    record_rt_body(s, 0x2c, 1, false, false)
}
pub fn c01_s_l1_k2c_n2<S: Src>(s: &mut S) {
    record_rt_body(s, 0x2c, 2, true, false)
}
pub fn c03_s_r1_k2c_n2<S: Src>(s: &mut S) {
    record_rt_body(s, 0x2c, 2, false, true)
}
pub fn c01_s_l1_k2c_n3<S: Src>(s: &mut S) {
    record_rt_body(s, 0x2c, 3, true, false)
}
pub fn c03_q_r1_k2c_n3<S: Src>(s: &mut S) {
    record_rt_body(s, 0x2c, 3, false, false)
}
pub fn c01_s_l1_k2d_n0<S: Src>(s: &mut S) {
    record_rt_body(s, 0x2d, 0, true, false)
}
pub fn c03_s_r1_k2d_n0<S: Src>(s: &mut S) {
    record_rt_body(s, 0x2d, 0, false, false)
}
pub fn c01_s_l1_k2e_n0<S: Src>(s: &mut S) {
    record_rt_body(s, 0x2e, 0, true, false)
}
pub fn c03_s_r1_k2e_n0<S: Src>(s: &mut S) {
    record_rt_body(s, 0x2e, 0, false, true)
}
pub fn c01_s_l1_k2f_n0<S: Src>(s: &mut S) {
    record_rt_body(s, 0x2f, 0, true, false)
}
pub fn c03_s_r1_k2f_n0<S: Src>(s: &mut S) {
    record_rt_body(s, 0x2f, 0, false, false)
}
pub fn c01_s_l1_k30_n0<S: Src>(s: &mut S) {
    record_rt_body(s, 0x30, 0, true, false)
}
pub fn c03_s_r1_k30_n0<S: Src>(s: &mut S) {
    record_rt_body(s, 0x30, 0, false, true)
}
pub fn c01_s_l1_k31_n0<S: Src>(s: &mut S) {
    record_rt_body(s, 0x31, 0, true, false)
}
pub fn c03_s_r1_k31_n0<S: Src>(s: &mut S) {
    record_rt_body(s, 0x31, 0, false, false)
}
pub fn c01_s_l1_k32_n0<S: Src>(s: &mut S) {
    record_rt_body(s, 0x32, 0, true, false)
}
pub fn c03_s_r1_k32_n0<S: Src>(s: &mut S) {
    record_rt_body(s, 0x32, 0, false, true)
}
pub fn c01_s_l1_k33_n0<S: Src>(s: &mut S) {
    record_rt_body(s, 0x33, 0, true, false)
}
pub fn c03_s_r1_k33_n0<S: Src>(s: &mut S) {
    record_rt_body(s, 0x33, 0, false, false)
}
pub fn c01_s_l1_k36_n0<S: Src>(s: &mut S) {
    record_rt_body(s, 0x36, 0, true, false)
}
pub fn c03_s_r1_k36_n0<S: Src>(s: &mut S) {
    record_rt_body(s, 0x36, 0, false, true)
}
pub fn c01_s_l1_k37_n0<S: Src>(s: &mut S) {
    record_rt_body(s, 0x37, 0, true, false)
}
pub fn c03_s_r1_k37_n0<S: Src>(s: &mut S) {
    record_rt_body(s, 0x37, 0, false, false)
}
pub fn c01_s_l1_k37_n1<S: Src>(s: &mut S) {
    record_rt_body(s, 0x37, 1, true, false)
}
pub fn c03_s_r1_k37_n1<S: Src>(s: &mut S) {
    record_rt_body(s, 0x37, 1, false, true)
}
pub fn c01_s_l1_k37_n2<S: Src>(s: &mut S) {
    record_rt_body(s, 0x37, 2, true, false)
}
pub fn c03_s_r1_k37_n2<S: Src>(s: &mut S) {
    record_rt_body(s, 0x37, 2, false, false)
}
pub fn c01_s_l1_k37_n3<S: Src>(s: &mut S) {
    record_rt_body(s, 0x37, 3, true, false)
}
pub fn c03_s_r1_k37_n3<S: Src>(s: &mut S) {
    record_rt_body(s, 0x37, 3, false, true)
}
pub fn c01_s_l1_k38_n0<S: Src>(s: &mut S) {
    record_rt_body(s, 0x38, 0, true, false)
}
pub fn c03_s_r1_k38_n0<S: Src>(s: &mut S) {
    record_rt_body(s, 0x38, 0, false, true)
}
pub fn c01_s_l1_k39_n0<S: Src>(s: &mut S) {
    record_rt_body(s, 0x39, 0, true, false)
}
pub fn c03_s_r1_k39_n0<S: Src>(s: &mut S) {
    record_rt_body(s, 0x39, 0, false, false)
}
pub fn c01_s_l1_k3a_n0<S: Src>(s: &mut S) {
    record_rt_body(s, 0x3a, 0, true, false)
}
pub fn c03_s_r1_k3a_n0<S: Src>(s: &mut S) {
    record_rt_body(s, 0x3a, 0, false, true)
}
pub fn c01_s_l1_k3a_n1<S: Src>(s: &mut S) {
    record_rt_body(s, 0x3a, 1, true, false)
}
pub fn c03_s_r1_k3a_n1<S: Src>(s: &mut S) {
    record_rt_body(s, 0x3a, 1, false, false)
}
pub fn c01_s_l1_k3a_n2<S: Src>(s: &mut S) {
    record_rt_body(s, 0x3a, 2, true, false)
}
pub fn c03_s_r1_k3a_n2<S: Src>(s: &mut S) {
    record_rt_body(s, 0x3a, 2, false, true)
}
pub fn c01_s_l1_k3a_n3<S: Src>(s: &mut S) {
    record_rt_body(s, 0x3a, 3, true, false)
}
pub fn c03_s_r1_k3a_n3<S: Src>(s: &mut S) {
    record_rt_body(s, 0x3a, 3, false, false)
}
pub fn c01_s_l1_k3b_n0<S: Src>(s: &mut S) {
    record_rt_body(s, 0x3b, 0, true, false)
}
pub fn c03_s_r1_k3b_n0<S: Src>(s: &mut S) {
    record_rt_body(s, 0x3b, 0, false, false)
}
pub fn c03_s_r1pad_k02_n0<S: Src>(s: &mut S) {
    str_padding_body(s, 0x02, 0)
}
pub fn c03_s_r1pad_k02_n1<S: Src>(s: &mut S) {
    str_padding_body(s, 0x02, 1)
}
pub fn c03_s_r1pad_k02_n2<S: Src>(s: &mut S) {
    str_padding_body(s, 0x02, 2)
}
pub fn c03_s_r1pad_k02_n3<S: Src>(s: &mut S) {
    str_padding_body(s, 0x02, 3)
}
pub fn c03_s_r1pad_k06_n0<S: Src>(s: &mut S) {
    str_padding_body(s, 0x06, 0)
}
pub fn c03_s_r1pad_k06_n1<S: Src>(s: &mut S) {
    str_padding_body(s, 0x06, 1)
}
pub fn c03_q_r1pad_k06_n2<S: Src>(s: &mut S) {
    str_padding_body(s, 0x06, 2)
}
pub fn c03_s_r1pad_k06_n3<S: Src>(s: &mut S) {
    str_padding_body(s, 0x06, 3)
}
pub fn c03_s_r1pad_k12_n0<S: Src>(s: &mut S) {
    str_padding_body(s, 0x12, 0)
}
pub fn c03_s_r1pad_k12_n1<S: Src>(s: &mut S) {
    str_padding_body(s, 0x12, 1)
}
pub fn c03_s_r1pad_k12_n2<S: Src>(s: &mut S) {
    str_padding_body(s, 0x12, 2)
}
pub fn c03_s_r1pad_k12_n3<S: Src>(s: &mut S) {
    str_padding_body(s, 0x12, 3)
}
pub fn c03_q_r1pad_k19_n0<S: Src>(s: &mut S) {
    str_padding_body(s, 0x19, 0)
}
pub fn c03_s_r1pad_k19_n1<S: Src>(s: &mut S) {
    str_padding_body(s, 0x19, 1)
}
pub fn c03_s_r1pad_k19_n2<S: Src>(s: &mut S) {
    str_padding_body(s, 0x19, 2)
}
pub fn c03_s_r1pad_k19_n3<S: Src>(s: &mut S) {
    str_padding_body(s, 0x19, 3)
}
pub fn c03_s_r1pad_k2c_n0<S: Src>(s: &mut S) {
    str_padding_body(s, 0x2c, 0)
}
pub fn c03_s_r1pad_k2c_n1<S: Src>(s: &mut S) {
    str_padding_body(s, 0x2c, 1)
}
pub fn c03_s_r1pad_k2c_n2<S: Src>(s: &mut S) {
    str_padding_body(s, 0x2c, 2)
}
pub fn c03_s_r1pad_k2c_n3<S: Src>(s: &mut S) {
    str_padding_body(s, 0x2c, 3)
}
pub fn c10_s_r_k00_l0<S: Src>(s: &mut S) {
    rlevel_body(s, 0x00, 0, false)
}
pub fn c10_s_r_k00_l2<S: Src>(s: &mut S) {
    rlevel_body(s, 0x00, 2, true)
}
pub fn c10_s_r_k00_l4<S: Src>(s: &mut S) {
    rlevel_body(s, 0x00, 4, false)
}
pub fn c10_s_r_k00_l8<S: Src>(s: &mut S) {
    rlevel_body(s, 0x00, 8, false)
}
pub fn c10_s_r_k00_l24<S: Src>(s: &mut S) {
    rlevel_body(s, 0x00, 24, false)
}
pub fn c10_s_r_k01_l0<S: Src>(s: &mut S) {
    rlevel_body(s, 0x01, 0, false)
}
pub fn c10_s_r_k01_l2<S: Src>(s: &mut S) {
    rlevel_body(s, 0x01, 2, false)
}
pub fn c10_s_r_k01_l4<S: Src>(s: &mut S) {
    rlevel_body(s, 0x01, 4, false)
}
pub fn c10_s_r_k01_l8<S: Src>(s: &mut S) {
    rlevel_body(s, 0x01, 8, false)
}
pub fn c10_q_r_k01_l24<S: Src>(s: &mut S) {
    rlevel_body(s, 0x01, 24, true)
}
pub fn c10_q_r_k02_l0<S: Src>(s: &mut S) {
    rlevel_body(s, 0x02, 0, true)
}
pub fn c10_s_r_k02_l2<S: Src>(s: &mut S) {
    rlevel_body(s, 0x02, 2, true)
}
pub fn c10_s_r_k02_l4<S: Src>(s: &mut S) {
    rlevel_body(s, 0x02, 4, true)
}
pub fn c10_s_r_k02_l6<S: Src>(s: &mut S) {
    rlevel_body(s, 0x02, 6, true)
}
pub fn c10_s_r_k02_l8<S: Src>(s: &mut S) {
    rlevel_body(s, 0x02, 8, true)
}
pub fn c10_s_r_k02_l12<S: Src>(s: &mut S) {
    rlevel_body(s, 0x02, 12, true)
}
pub fn c10_s_r_k02_l16<S: Src>(s: &mut S) {
    rlevel_body(s, 0x02, 16, true)
}
pub fn c10_s_r_k02_l24<S: Src>(s: &mut S) {
    rlevel_body(s, 0x02, 24, true)
}
pub fn c10_s_r_k03_l0<S: Src>(s: &mut S) {
    rlevel_body(s, 0x03, 0, false)
}
pub fn c10_s_r_k03_l2<S: Src>(s: &mut S) {
    rlevel_body(s, 0x03, 2, false)
}
pub fn c10_s_r_k03_l4<S: Src>(s: &mut S) {
    rlevel_body(s, 0x03, 4, false)
}
pub fn c10_s_r_k03_l8<S: Src>(s: &mut S) {
    rlevel_body(s, 0x03, 8, false)
}
pub fn c10_s_r_k03_l24<S: Src>(s: &mut S) {
    rlevel_body(s, 0x03, 24, false)
}
pub fn c10_s_r_k04_l0<S: Src>(s: &mut S) {
    rlevel_body(s, 0x04, 0, true)
}
pub fn c10_s_r_k04_l2<S: Src>(s: &mut S) {
    rlevel_body(s, 0x04, 2, false)
}
pub fn c10_s_r_k04_l4<S: Src>(s: &mut S) {
    rlevel_body(s, 0x04, 4, false)
}
pub fn c10_s_r_k04_l8<S: Src>(s: &mut S) {
    rlevel_body(s, 0x04, 8, false)
}
pub fn c10_s_r_k04_l24<S: Src>(s: &mut S) {
    rlevel_body(s, 0x04, 24, false)
}
pub fn c10_s_r_k05_l0<S: Src>(s: &mut S) {
    rlevel_body(s, 0x05, 0, false)
}
pub fn c10_s_r_k05_l2<S: Src>(s: &mut S) {
    rlevel_body(s, 0x05, 2, false)
}
pub fn c10_s_r_k05_l4<S: Src>(s: &mut S) {
    rlevel_body(s, 0x05, 4, false)
}
pub fn c10_s_r_k05_l8<S: Src>(s: &mut S) {
    rlevel_body(s, 0x05, 8, false)
}
pub fn c10_s_r_k05_l24<S: Src>(s: &mut S) {
    rlevel_body(s, 0x05, 24, true)
}
pub fn c10_s_r_k06_l0<S: Src>(s: &mut S) {
    rlevel_body(s, 0x06, 0, true)
}
pub fn c10_s_r_k06_l2<S: Src>(s: &mut S) {
    rlevel_body(s, 0x06, 2, true)
}
pub fn c10_s_r_k06_l4<S: Src>(s: &mut S) {
    rlevel_body(s, 0x06, 4, true)
}
pub fn c10_s_r_k06_l6<S: Src>(s: &mut S) {
    rlevel_body(s, 0x06, 6, true)
}
pub fn c10_s_r_k06_l8<S: Src>(s: &mut S) {
    rlevel_body(s, 0x06, 8, true)
}
pub fn c10_s_r_k06_l12<S: Src>(s: &mut S) {
    rlevel_body(s, 0x06, 12, true)
}
pub fn c10_s_r_k06_l16<S: Src>(s: &mut S) {
    rlevel_body(s, 0x06, 16, true)
}
pub fn c10_s_r_k06_l24<S: Src>(s: &mut S) {
    rlevel_body(s, 0x06, 24, true)
}
pub fn c10_s_r_k07_l0<S: Src>(s: &mut S) {
    rlevel_body(s, 0x07, 0, true)
}
pub fn c10_s_r_k07_l2<S: Src>(s: &mut S) {
    rlevel_body(s, 0x07, 2, false)
}
pub fn c10_s_r_k07_l4<S: Src>(s: &mut S) {
    rlevel_body(s, 0x07, 4, false)
}
pub fn c10_s_r_k07_l8<S: Src>(s: &mut S) {
    rlevel_body(s, 0x07, 8, false)
}
pub fn c10_s_r_k07_l24<S: Src>(s: &mut S) {
    rlevel_body(s, 0x07, 24, false)
}
pub fn c10_s_r_k08_l0<S: Src>(s: &mut S) {
    rlevel_body(s, 0x08, 0, true)
}
pub fn c10_s_r_k08_l2<S: Src>(s: &mut S) {
    rlevel_body(s, 0x08, 2, false)
}
pub fn c10_s_r_k08_l4<S: Src>(s: &mut S) {
    rlevel_body(s, 0x08, 4, false)
}
pub fn c10_s_r_k08_l8<S: Src>(s: &mut S) {
    rlevel_body(s, 0x08, 8, false)
}
pub fn c10_s_r_k08_l24<S: Src>(s: &mut S) {
    rlevel_body(s, 0x08, 24, false)
}
pub fn c10_s_r_k09_l0<S: Src>(s: &mut S) {
    rlevel_body(s, 0x09, 0, true)
}
pub fn c10_s_r_k09_l2<S: Src>(s: &mut S) {
    rlevel_body(s, 0x09, 2, false)
}
pub fn c10_s_r_k09_l4<S: Src>(s: &mut S) {
    rlevel_body(s, 0x09, 4, false)
}
pub fn c10_s_r_k09_l8<S: Src>(s: &mut S) {
    rlevel_body(s, 0x09, 8, false)
}
pub fn c10_s_r_k09_l24<S: Src>(s: &mut S) {
    rlevel_body(s, 0x09, 24, false)
}
pub fn c10_s_r_k0a_l0<S: Src>(s: &mut S) {
    rlevel_body(s, 0x0a, 0, true)
}
pub fn c10_s_r_k0a_l2<S: Src>(s: &mut S) {
    rlevel_body(s, 0x0a, 2, false)
}
pub fn c10_s_r_k0a_l4<S: Src>(s: &mut S) {
    rlevel_body(s, 0x0a, 4, false)
}
pub fn c10_s_r_k0a_l8<S: Src>(s: &mut S) {
    rlevel_body(s, 0x0a, 8, false)
}
pub fn c10_s_r_k0a_l24<S: Src>(s: &mut S) {
    rlevel_body(s, 0x0a, 24, false)
}
pub fn c10_s_r_k0b_l0<S: Src>(s: &mut S) {
    rlevel_body(s, 0x0b, 0, true)
}
pub fn c10_s_r_k0b_l2<S: Src>(s: &mut S) {
    rlevel_body(s, 0x0b, 2, false)
}
pub fn c10_s_r_k0b_l4<S: Src>(s: &mut S) {
    rlevel_body(s, 0x0b, 4, false)
}
pub fn c10_s_r_k0b_l8<S: Src>(s: &mut S) {
    rlevel_body(s, 0x0b, 8, false)
}
pub fn c10_s_r_k0b_l24<S: Src>(s: &mut S) {
    rlevel_body(s, 0x0b, 24, false)
}
pub fn c10_s_r_k0c_l0<S: Src>(s: &mut S) {
    rlevel_body(s, 0x0c, 0, true)
}
pub fn c10_s_r_k0c_l2<S: Src>(s: &mut S) {
    rlevel_body(s, 0x0c, 2, false)
}
pub fn c10_s_r_k0c_l4<S: Src>(s: &mut S) {
    rlevel_body(s, 0x0c, 4, false)
}
pub fn c10_s_r_k0c_l8<S: Src>(s: &mut S) {
    rlevel_body(s, 0x0c, 8, false)
}
pub fn c10_s_r_k0c_l24<S: Src>(s: &mut S) {
    rlevel_body(s, 0x0c, 24, false)
}
pub fn c10_s_r_k0d_l0<S: Src>(s: &mut S) {
    rlevel_body(s, 0x0d, 0, false)
}
pub fn c10_s_r_k0d_l2<S: Src>(s: &mut S) {
    rlevel_body(s, 0x0d, 2, true)
}
pub fn c10_s_r_k0d_l4<S: Src>(s: &mut S) {
    rlevel_body(s, 0x0d, 4, false)
}
pub fn c10_s_r_k0d_l8<S: Src>(s: &mut S) {
    rlevel_body(s, 0x0d, 8, false)
}
pub fn c10_s_r_k0d_l24<S: Src>(s: &mut S) {
    rlevel_body(s, 0x0d, 24, false)
}
pub fn c10_s_r_k0e_l0<S: Src>(s: &mut S) {
    rlevel_body(s, 0x0e, 0, false)
}
pub fn c10_s_r_k0e_l2<S: Src>(s: &mut S) {
    rlevel_body(s, 0x0e, 2, true)
}
pub fn c10_s_r_k0e_l4<S: Src>(s: &mut S) {
    rlevel_body(s, 0x0e, 4, false)
}
pub fn c10_s_r_k0e_l8<S: Src>(s: &mut S) {
    rlevel_body(s, 0x0e, 8, false)
}
pub fn c10_s_r_k0e_l24<S: Src>(s: &mut S) {
    rlevel_body(s, 0x0e, 24, false)
}
pub fn c10_s_r_k0f_l0<S: Src>(s: &mut S) {
    rlevel_body(s, 0x0f, 0, false)
}
pub fn c10_s_r_k0f_l2<S: Src>(s: &mut S) {
    rlevel_body(s, 0x0f, 2, false)
}
pub fn c10_s_r_k0f_l4<S: Src>(s: &mut S) {
    rlevel_body(s, 0x0f, 4, true)
}
pub fn c10_s_r_k0f_l8<S: Src>(s: &mut S) {
    rlevel_body(s, 0x0f, 8, false)
}
pub fn c10_s_r_k0f_l24<S: Src>(s: &mut S) {
    rlevel_body(s, 0x0f, 24, false)
}
pub fn c10_s_r_k10_l0<S: Src>(s: &mut S) {
    rlevel_body(s, 0x10, 0, true)
}
pub fn c10_s_r_k10_l2<S: Src>(s: &mut S) {
    rlevel_body(s, 0x10, 2, true)
}
pub fn c10_s_r_k10_l4<S: Src>(s: &mut S) {
    rlevel_body(s, 0x10, 4, true)
}
pub fn c10_q_r_k10_l6<S: Src>(s: &mut S) {
    rlevel_body(s, 0x10, 6, true)
}
pub fn c10_s_r_k10_l8<S: Src>(s: &mut S) {
    rlevel_body(s, 0x10, 8, true)
}
pub fn c10_s_r_k10_l12<S: Src>(s: &mut S) {
    rlevel_body(s, 0x10, 12, true)
}
pub fn c10_s_r_k10_l16<S: Src>(s: &mut S) {
    rlevel_body(s, 0x10, 16, true)
}
pub fn c10_s_r_k10_l24<S: Src>(s: &mut S) {
    rlevel_body(s, 0x10, 24, true)
}
pub fn c10_s_r_k11_l0<S: Src>(s: &mut S) {
    rlevel_body(s, 0x11, 0, true)
}
pub fn c10_s_r_k11_l2<S: Src>(s: &mut S) {
    rlevel_body(s, 0x11, 2, false)
}
pub fn c10_s_r_k11_l4<S: Src>(s: &mut S) {
    rlevel_body(s, 0x11, 4, false)
}
pub fn c10_s_r_k11_l8<S: Src>(s: &mut S) {
    rlevel_body(s, 0x11, 8, false)
}
pub fn c10_s_r_k11_l24<S: Src>(s: &mut S) {
    rlevel_body(s, 0x11, 24, false)
}
pub fn c10_s_r_k12_l0<S: Src>(s: &mut S) {
    rlevel_body(s, 0x12, 0, true)
}
pub fn c10_s_r_k12_l2<S: Src>(s: &mut S) {
    rlevel_body(s, 0x12, 2, true)
}
pub fn c10_s_r_k12_l4<S: Src>(s: &mut S) {
    rlevel_body(s, 0x12, 4, true)
}
pub fn c10_s_r_k12_l6<S: Src>(s: &mut S) {
    rlevel_body(s, 0x12, 6, true)
}
pub fn c10_s_r_k12_l8<S: Src>(s: &mut S) {
    rlevel_body(s, 0x12, 8, true)
}
pub fn c10_s_r_k12_l12<S: Src>(s: &mut S) {
    rlevel_body(s, 0x12, 12, true)
}
pub fn c10_s_r_k12_l16<S: Src>(s: &mut S) {
    rlevel_body(s, 0x12, 16, true)
}
pub fn c10_s_r_k12_l24<S: Src>(s: &mut S) {
    rlevel_body(s, 0x12, 24, true)
}
pub fn c10_s_r_k13_l0<S: Src>(s: &mut S) {
    rlevel_body(s, 0x13, 0, false)
}
pub fn c10_s_r_k13_l2<S: Src>(s: &mut S) {
    rlevel_body(s, 0x13, 2, false)
}
pub fn c10_s_r_k13_l4<S: Src>(s: &mut S) {
    rlevel_body(s, 0x13, 4, true)
}
pub fn c10_s_r_k13_l8<S: Src>(s: &mut S) {
    rlevel_body(s, 0x13, 8, false)
}
pub fn c10_s_r_k13_l24<S: Src>(s: &mut S) {
    rlevel_body(s, 0x13, 24, false)
}
pub fn c10_s_r_k15_l0<S: Src>(s: &mut S) {
    rlevel_body(s, 0x15, 0, true)
}
pub fn c10_s_r_k15_l2<S: Src>(s: &mut S) {
    rlevel_body(s, 0x15, 2, false)
}
pub fn c10_s_r_k15_l4<S: Src>(s: &mut S) {
    rlevel_body(s, 0x15, 4, false)
}
pub fn c10_s_r_k15_l8<S: Src>(s: &mut S) {
    rlevel_body(s, 0x15, 8, false)
}
pub fn c10_s_r_k15_l24<S: Src>(s: &mut S) {
    rlevel_body(s, 0x15, 24, false)
}
pub fn c10_s_r_k16_l0<S: Src>(s: &mut S) {
    rlevel_body(s, 0x16, 0, false)
}
pub fn c10_s_r_k16_l2<S: Src>(s: &mut S) {
    rlevel_body(s, 0x16, 2, true)
}
pub fn c10_s_r_k16_l4<S: Src>(s: &mut S) {
    rlevel_body(s, 0x16, 4, false)
}
pub fn c10_s_r_k16_l8<S: Src>(s: &mut S) {
    rlevel_body(s, 0x16, 8, false)
}
pub fn c10_s_r_k16_l24<S: Src>(s: &mut S) {
    rlevel_body(s, 0x16, 24, false)
}
pub fn c10_s_r_k17_l0<S: Src>(s: &mut S) {
    rlevel_body(s, 0x17, 0, false)
}
pub fn c10_s_r_k17_l2<S: Src>(s: &mut S) {
    rlevel_body(s, 0x17, 2, true)
}
pub fn c10_s_r_k17_l4<S: Src>(s: &mut S) {
    rlevel_body(s, 0x17, 4, false)
}
pub fn c10_s_r_k17_l8<S: Src>(s: &mut S) {
    rlevel_body(s, 0x17, 8, false)
}
pub fn c10_s_r_k17_l24<S: Src>(s: &mut S) {
    rlevel_body(s, 0x17, 24, false)
}
pub fn c10_s_r_k19_l0<S: Src>(s: &mut S) {
    rlevel_body(s, 0x19, 0, true)
}
pub fn c10_s_r_k19_l2<S: Src>(s: &mut S) {
    rlevel_body(s, 0x19, 2, true)
}
pub fn c10_s_r_k19_l4<S: Src>(s: &mut S) {
    rlevel_body(s, 0x19, 4, true)
}
pub fn c10_s_r_k19_l6<S: Src>(s: &mut S) {
    rlevel_body(s, 0x19, 6, true)
}
pub fn c10_s_r_k19_l8<S: Src>(s: &mut S) {
    rlevel_body(s, 0x19, 8, true)
}
pub fn c10_s_r_k19_l12<S: Src>(s: &mut S) {
    rlevel_body(s, 0x19, 12, true)
}
pub fn c10_s_r_k19_l16<S: Src>(s: &mut S) {
    rlevel_body(s, 0x19, 16, true)
}
pub fn c10_s_r_k19_l24<S: Src>(s: &mut S) {
    rlevel_body(s, 0x19, 24, true)
}
pub fn c10_s_r_k1a_l0<S: Src>(s: &mut S) {
    rlevel_body(s, 0x1a, 0, false)
}
pub fn c10_s_r_k1a_l2<S: Src>(s: &mut S) {
    rlevel_body(s, 0x1a, 2, true)
}
pub fn c10_s_r_k1a_l4<S: Src>(s: &mut S) {
    rlevel_body(s, 0x1a, 4, false)
}
pub fn c10_s_r_k1a_l8<S: Src>(s: &mut S) {
    rlevel_body(s, 0x1a, 8, false)
}
pub fn c10_s_r_k1a_l24<S: Src>(s: &mut S) {
    rlevel_body(s, 0x1a, 24, false)
}
pub fn c10_s_r_k1b_l0<S: Src>(s: &mut S) {
    rlevel_body(s, 0x1b, 0, false)
}
pub fn c10_s_r_k1b_l2<S: Src>(s: &mut S) {
    rlevel_body(s, 0x1b, 2, false)
}
pub fn c10_s_r_k1b_l4<S: Src>(s: &mut S) {
    rlevel_body(s, 0x1b, 4, false)
}
pub fn c10_s_r_k1b_l8<S: Src>(s: &mut S) {
    rlevel_body(s, 0x1b, 8, true)
}
pub fn c10_s_r_k1b_l24<S: Src>(s: &mut S) {
    rlevel_body(s, 0x1b, 24, false)
}
pub fn c10_s_r_k1c_l0<S: Src>(s: &mut S) {
    rlevel_body(s, 0x1c, 0, false)
}
pub fn c10_s_r_k1c_l2<S: Src>(s: &mut S) {
    rlevel_body(s, 0x1c, 2, false)
}
pub fn c10_s_r_k1c_l4<S: Src>(s: &mut S) {
    rlevel_body(s, 0x1c, 4, false)
}
pub fn c10_s_r_k1c_l8<S: Src>(s: &mut S) {
    rlevel_body(s, 0x1c, 8, true)
}
pub fn c10_s_r_k1c_l24<S: Src>(s: &mut S) {
    rlevel_body(s, 0x1c, 24, false)
}
pub fn c10_s_r_k1f_l0<S: Src>(s: &mut S) {
    rlevel_body(s, 0x1f, 0, true)
}
pub fn c10_s_r_k1f_l2<S: Src>(s: &mut S) {
    rlevel_body(s, 0x1f, 2, true)
}
pub fn c10_s_r_k1f_l4<S: Src>(s: &mut S) {
    rlevel_body(s, 0x1f, 4, true)
}
pub fn c10_s_r_k1f_l6<S: Src>(s: &mut S) {
    rlevel_body(s, 0x1f, 6, true)
}
pub fn c10_s_r_k1f_l8<S: Src>(s: &mut S) {
    rlevel_body(s, 0x1f, 8, true)
}
pub fn c10_s_r_k1f_l12<S: Src>(s: &mut S) {
    rlevel_body(s, 0x1f, 12, true)
}
pub fn c10_s_r_k1f_l16<S: Src>(s: &mut S) {
    rlevel_body(s, 0x1f, 16, true)
}
pub fn c10_s_r_k1f_l24<S: Src>(s: &mut S) {
    rlevel_body(s, 0x1f, 24, true)
}
pub fn c10_s_r_k20_l0<S: Src>(s: &mut S) {
    rlevel_body(s, 0x20, 0, true)
}
pub fn c10_s_r_k20_l2<S: Src>(s: &mut S) {
    rlevel_body(s, 0x20, 2, true)
}
pub fn c10_s_r_k20_l4<S: Src>(s: &mut S) {
    rlevel_body(s, 0x20, 4, true)
}
pub fn c10_s_r_k20_l6<S: Src>(s: &mut S) {
    rlevel_body(s, 0x20, 6, true)
}
pub fn c10_s_r_k20_l8<S: Src>(s: &mut S) {
    rlevel_body(s, 0x20, 8, true)
}
pub fn c10_s_r_k20_l12<S: Src>(s: &mut S) {
    rlevel_body(s, 0x20, 12, true)
}
pub fn c10_s_r_k20_l16<S: Src>(s: &mut S) {
    rlevel_body(s, 0x20, 16, true)
}
pub fn c10_s_r_k20_l24<S: Src>(s: &mut S) {
    rlevel_body(s, 0x20, 24, true)
}
pub fn c10_s_r_k21_l0<S: Src>(s: &mut S) {
    rlevel_body(s, 0x21, 0, false)
}
pub fn c10_s_r_k21_l2<S: Src>(s: &mut S) {
    rlevel_body(s, 0x21, 2, true)
}
pub fn c10_s_r_k21_l4<S: Src>(s: &mut S) {
    rlevel_body(s, 0x21, 4, false)
}
pub fn c10_s_r_k21_l8<S: Src>(s: &mut S) {
    rlevel_body(s, 0x21, 8, false)
}
pub fn c10_s_r_k21_l24<S: Src>(s: &mut S) {
    rlevel_body(s, 0x21, 24, false)
}
pub fn c10_s_r_k22_l0<S: Src>(s: &mut S) {
    rlevel_body(s, 0x22, 0, false)
}
pub fn c10_s_r_k22_l2<S: Src>(s: &mut S) {
    rlevel_body(s, 0x22, 2, true)
}
pub fn c10_s_r_k22_l4<S: Src>(s: &mut S) {
    rlevel_body(s, 0x22, 4, false)
}
pub fn c10_s_r_k22_l8<S: Src>(s: &mut S) {
    rlevel_body(s, 0x22, 8, false)
}
pub fn c10_s_r_k22_l24<S: Src>(s: &mut S) {
    rlevel_body(s, 0x22, 24, false)
}
pub fn c10_s_r_k23_l0<S: Src>(s: &mut S) {
    rlevel_body(s, 0x23, 0, true)
}
pub fn c10_s_r_k23_l2<S: Src>(s: &mut S) {
    rlevel_body(s, 0x23, 2, true)
}
pub fn c10_s_r_k23_l4<S: Src>(s: &mut S) {
    rlevel_body(s, 0x23, 4, true)
}
pub fn c10_s_r_k23_l6<S: Src>(s: &mut S) {
    rlevel_body(s, 0x23, 6, true)
}
pub fn c10_s_r_k23_l8<S: Src>(s: &mut S) {
    rlevel_body(s, 0x23, 8, true)
}
pub fn c10_s_r_k23_l12<S: Src>(s: &mut S) {
    rlevel_body(s, 0x23, 12, true)
}
pub fn c10_s_r_k23_l16<S: Src>(s: &mut S) {
    rlevel_body(s, 0x23, 16, true)
}
pub fn c10_s_r_k23_l24<S: Src>(s: &mut S) {
    rlevel_body(s, 0x23, 24, true)
}
pub fn c10_s_r_k26_l0<S: Src>(s: &mut S) {
    rlevel_body(s, 0x26, 0, false)
}
pub fn c10_s_r_k26_l2<S: Src>(s: &mut S) {
    rlevel_body(s, 0x26, 2, true)
}
pub fn c10_s_r_k26_l4<S: Src>(s: &mut S) {
    rlevel_body(s, 0x26, 4, false)
}
pub fn c10_s_r_k26_l8<S: Src>(s: &mut S) {
    rlevel_body(s, 0x26, 8, false)
}
pub fn c10_s_r_k26_l24<S: Src>(s: &mut S) {
    rlevel_body(s, 0x26, 24, false)
}
pub fn c10_s_r_k2a_l0<S: Src>(s: &mut S) {
    rlevel_body(s, 0x2a, 0, false)
}
pub fn c10_s_r_k2a_l2<S: Src>(s: &mut S) {
    rlevel_body(s, 0x2a, 2, true)
}
pub fn c10_s_r_k2a_l4<S: Src>(s: &mut S) {
    rlevel_body(s, 0x2a, 4, false)
}
pub fn c10_s_r_k2a_l8<S: Src>(s: &mut S) {
    rlevel_body(s, 0x2a, 8, false)
}
pub fn c10_s_r_k2a_l24<S: Src>(s: &mut S) {
    rlevel_body(s, 0x2a, 24, false)
}
pub fn c10_s_r_k2b_l0<S: Src>(s: &mut S) {
    rlevel_body(s, 0x2b, 0, false)
}
pub fn c10_s_r_k2b_l2<S: Src>(s: &mut S) {
    rlevel_body(s, 0x2b, 2, true)
}
pub fn c10_s_r_k2b_l4<S: Src>(s: &mut S) {
    rlevel_body(s, 0x2b, 4, false)
}
pub fn c10_s_r_k2b_l8<S: Src>(s: &mut S) {
    rlevel_body(s, 0x2b, 8, false)
}
pub fn c10_s_r_k2b_l24<S: Src>(s: &mut S) {
    rlevel_body(s, 0x2b, 24, false)
}
pub fn c10_s_r_k2c_l0<S: Src>(s: &mut S) {
    rlevel_body(s, 0x2c, 0, true)
}
pub fn c10_q_r_k2c_l2<S: Src>(s: &mut S) {
    rlevel_body(s, 0x2c, 2, true)
}
pub fn c10_s_r_k2c_l4<S: Src>(s: &mut S) {
    rlevel_body(s, 0x2c, 4, true)
}
pub fn c10_s_r_k2c_l6<S: Src>(s: &mut S) {
    rlevel_body(s, 0x2c, 6, true)
}
pub fn c10_s_r_k2c_l8<S: Src>(s: &mut S) {
    rlevel_body(s, 0x2c, 8, true)
}
pub fn c10_s_r_k2c_l12<S: Src>(s: &mut S) {
    rlevel_body(s, 0x2c, 12, true)
}
pub fn c10_s_r_k2c_l16<S: Src>(s: &mut S) {
    rlevel_body(s, 0x2c, 16, true)
}
pub fn c10_s_r_k2c_l24<S: Src>(s: &mut S) {
    rlevel_body(s, 0x2c, 24, true)
}
pub fn c10_s_r_k2d_l0<S: Src>(s: &mut S) {
    rlevel_body(s, 0x2d, 0, true)
}
pub fn c10_s_r_k2d_l2<S: Src>(s: &mut S) {
    rlevel_body(s, 0x2d, 2, false)
}
pub fn c10_s_r_k2d_l4<S: Src>(s: &mut S) {
    rlevel_body(s, 0x2d, 4, false)
}
pub fn c10_s_r_k2d_l8<S: Src>(s: &mut S) {
    rlevel_body(s, 0x2d, 8, false)
}
pub fn c10_s_r_k2d_l24<S: Src>(s: &mut S) {
    rlevel_body(s, 0x2d, 24, false)
}
pub fn c10_s_r_k2e_l0<S: Src>(s: &mut S) {
    rlevel_body(s, 0x2e, 0, false)
}
pub fn c10_s_r_k2e_l2<S: Src>(s: &mut S) {
    rlevel_body(s, 0x2e, 2, true)
}
pub fn c10_s_r_k2e_l4<S: Src>(s: &mut S) {
    rlevel_body(s, 0x2e, 4, false)
}
pub fn c10_s_r_k2e_l8<S: Src>(s: &mut S) {
    rlevel_body(s, 0x2e, 8, false)
}
pub fn c10_s_r_k2e_l24<S: Src>(s: &mut S) {
    rlevel_body(s, 0x2e, 24, false)
}
pub fn c10_s_r_k2f_l0<S: Src>(s: &mut S) {
    rlevel_body(s, 0x2f, 0, false)
}
pub fn c10_s_r_k2f_l2<S: Src>(s: &mut S) {
    rlevel_body(s, 0x2f, 2, false)
}
pub fn c10_s_r_k2f_l4<S: Src>(s: &mut S) {
    rlevel_body(s, 0x2f, 4, true)
}
pub fn c10_s_r_k2f_l8<S: Src>(s: &mut S) {
    rlevel_body(s, 0x2f, 8, false)
}
pub fn c10_s_r_k2f_l24<S: Src>(s: &mut S) {
    rlevel_body(s, 0x2f, 24, false)
}
pub fn c10_s_r_k30_l0<S: Src>(s: &mut S) {
    rlevel_body(s, 0x30, 0, false)
}
pub fn c10_s_r_k30_l2<S: Src>(s: &mut S) {
    rlevel_body(s, 0x30, 2, false)
}
pub fn c10_s_r_k30_l4<S: Src>(s: &mut S) {
    rlevel_body(s, 0x30, 4, true)
}
pub fn c10_s_r_k30_l8<S: Src>(s: &mut S) {
    rlevel_body(s, 0x30, 8, false)
}
pub fn c10_s_r_k30_l24<S: Src>(s: &mut S) {
    rlevel_body(s, 0x30, 24, false)
}
pub fn c10_s_r_k31_l0<S: Src>(s: &mut S) {
    rlevel_body(s, 0x31, 0, false)
}
pub fn c10_s_r_k31_l2<S: Src>(s: &mut S) {
    rlevel_body(s, 0x31, 2, false)
}
pub fn c10_s_r_k31_l4<S: Src>(s: &mut S) {
    rlevel_body(s, 0x31, 4, true)
}
pub fn c10_s_r_k31_l8<S: Src>(s: &mut S) {
    rlevel_body(s, 0x31, 8, false)
}
pub fn c10_s_r_k31_l24<S: Src>(s: &mut S) {
    rlevel_body(s, 0x31, 24, false)
}
pub fn c10_s_r_k32_l0<S: Src>(s: &mut S) {
    rlevel_body(s, 0x32, 0, false)
}
pub fn c10_s_r_k32_l2<S: Src>(s: &mut S) {
    rlevel_body(s, 0x32, 2, true)
}
pub fn c10_s_r_k32_l4<S: Src>(s: &mut S) {
    rlevel_body(s, 0x32, 4, false)
}
pub fn c10_s_r_k32_l8<S: Src>(s: &mut S) {
    rlevel_body(s, 0x32, 8, false)
}
pub fn c10_s_r_k32_l24<S: Src>(s: &mut S) {
    rlevel_body(s, 0x32, 24, false)
}
pub fn c10_s_r_k33_l0<S: Src>(s: &mut S) {
    rlevel_body(s, 0x33, 0, false)
}
pub fn c10_s_r_k33_l2<S: Src>(s: &mut S) {
    rlevel_body(s, 0x33, 2, false)
}
pub fn c10_s_r_k33_l4<S: Src>(s: &mut S) {
    rlevel_body(s, 0x33, 4, false)
}
pub fn c10_s_r_k33_l8<S: Src>(s: &mut S) {
    rlevel_body(s, 0x33, 8, false)
}
pub fn c10_s_r_k33_l24<S: Src>(s: &mut S) {
    rlevel_body(s, 0x33, 24, false)
}
pub fn c10_s_r_k36_l0<S: Src>(s: &mut S) {
    rlevel_body(s, 0x36, 0, false)
}
pub fn c10_s_r_k36_l2<S: Src>(s: &mut S) {
    rlevel_body(s, 0x36, 2, true)
}
pub fn c10_s_r_k36_l4<S: Src>(s: &mut S) {
    rlevel_body(s, 0x36, 4, false)
}
pub fn c10_s_r_k36_l8<S: Src>(s: &mut S) {
    rlevel_body(s, 0x36, 8, false)
}
pub fn c10_s_r_k36_l24<S: Src>(s: &mut S) {
    rlevel_body(s, 0x36, 24, false)
}
pub fn c10_s_r_k37_l0<S: Src>(s: &mut S) {
    rlevel_body(s, 0x37, 0, true)
}
pub fn c10_s_r_k37_l2<S: Src>(s: &mut S) {
    rlevel_body(s, 0x37, 2, true)
}
pub fn c10_s_r_k37_l4<S: Src>(s: &mut S) {
    rlevel_body(s, 0x37, 4, true)
}
pub fn c10_s_r_k37_l6<S: Src>(s: &mut S) {
    rlevel_body(s, 0x37, 6, true)
}
pub fn c10_s_r_k37_l8<S: Src>(s: &mut S) {
    rlevel_body(s, 0x37, 8, true)
}
pub fn c10_s_r_k37_l12<S: Src>(s: &mut S) {
    rlevel_body(s, 0x37, 12, true)
}
pub fn c10_s_r_k37_l16<S: Src>(s: &mut S) {
    rlevel_body(s, 0x37, 16, true)
}
pub fn c10_s_r_k37_l24<S: Src>(s: &mut S) {
    rlevel_body(s, 0x37, 24, true)
}
pub fn c10_s_r_k38_l0<S: Src>(s: &mut S) {
    rlevel_body(s, 0x38, 0, true)
}
pub fn c10_s_r_k38_l2<S: Src>(s: &mut S) {
    rlevel_body(s, 0x38, 2, false)
}
pub fn c10_s_r_k38_l4<S: Src>(s: &mut S) {
    rlevel_body(s, 0x38, 4, false)
}
pub fn c10_s_r_k38_l8<S: Src>(s: &mut S) {
    rlevel_body(s, 0x38, 8, false)
}
pub fn c10_s_r_k38_l24<S: Src>(s: &mut S) {
    rlevel_body(s, 0x38, 24, false)
}
pub fn c10_s_r_k39_l0<S: Src>(s: &mut S) {
    rlevel_body(s, 0x39, 0, false)
}
pub fn c10_s_r_k39_l2<S: Src>(s: &mut S) {
    rlevel_body(s, 0x39, 2, true)
}
pub fn c10_s_r_k39_l4<S: Src>(s: &mut S) {
    rlevel_body(s, 0x39, 4, false)
}
pub fn c10_s_r_k39_l8<S: Src>(s: &mut S) {
    rlevel_body(s, 0x39, 8, false)
}
pub fn c10_s_r_k39_l24<S: Src>(s: &mut S) {
    rlevel_body(s, 0x39, 24, false)
}
pub fn c10_s_r_k3a_l0<S: Src>(s: &mut S) {
    rlevel_body(s, 0x3a, 0, true)
}
pub fn c10_s_r_k3a_l2<S: Src>(s: &mut S) {
    rlevel_body(s, 0x3a, 2, true)
}
pub fn c10_s_r_k3a_l4<S: Src>(s: &mut S) {
    rlevel_body(s, 0x3a, 4, true)
}
pub fn c10_s_r_k3a_l6<S: Src>(s: &mut S) {
    rlevel_body(s, 0x3a, 6, true)
}
pub fn c10_s_r_k3a_l8<S: Src>(s: &mut S) {
    rlevel_body(s, 0x3a, 8, true)
}
pub fn c10_s_r_k3a_l12<S: Src>(s: &mut S) {
    rlevel_body(s, 0x3a, 12, true)
}
pub fn c10_s_r_k3a_l16<S: Src>(s: &mut S) {
    rlevel_body(s, 0x3a, 16, true)
}
pub fn c10_s_r_k3a_l24<S: Src>(s: &mut S) {
    rlevel_body(s, 0x3a, 24, true)
}
pub fn c10_s_r_k3b_l0<S: Src>(s: &mut S) {
    rlevel_body(s, 0x3b, 0, false)
}
pub fn c10_s_r_k3b_l2<S: Src>(s: &mut S) {
    rlevel_body(s, 0x3b, 2, true)
}
pub fn c10_s_r_k3b_l4<S: Src>(s: &mut S) {
    rlevel_body(s, 0x3b, 4, false)
}
pub fn c10_s_r_k3b_l8<S: Src>(s: &mut S) {
    rlevel_body(s, 0x3b, 8, false)
}
pub fn c10_s_r_k3b_l24<S: Src>(s: &mut S) {
    rlevel_body(s, 0x3b, 24, false)
}
pub fn c01_s_l2a_e0_m0<S: Src>(s: &mut S) {
    elem_rt_body::<S, GdsBoundary>(s, 0, 1, 2, true)
}
pub fn c03_s_r2_e0_m0<S: Src>(s: &mut S) {
    elem_rt_body::<S, GdsBoundary>(s, 0, 1, 2, false)
}
pub fn c01_s_l2a_e0_m1<S: Src>(s: &mut S) {
    elem_rt_body::<S, GdsBoundary>(s, 1, 1, 2, true)
}
pub fn c03_s_r2_e0_m1<S: Src>(s: &mut S) {
    elem_rt_body::<S, GdsBoundary>(s, 1, 1, 2, false)
}
pub fn c01_s_l2a_e0_m2<S: Src>(s: &mut S) {
    elem_rt_body::<S, GdsBoundary>(s, 2, 1, 2, true)
}
pub fn c03_s_r2_e0_m2<S: Src>(s: &mut S) {
    elem_rt_body::<S, GdsBoundary>(s, 2, 1, 2, false)
}
pub fn c01_q_l2a_e0_m3<S: Src>(s: &mut S) {
    elem_rt_body::<S, GdsBoundary>(s, 3, 1, 2, true)
}
pub fn c03_s_r2_e0_m3<S: Src>(s: &mut S) {
    elem_rt_body::<S, GdsBoundary>(s, 3, 1, 2, false)
}
pub fn c01_s_l2a_e1_m0<S: Src>(s: &mut S) {
    elem_rt_body::<S, GdsPath>(s, 0, 1, 2, true)
}
pub fn c03_s_r2_e1_m0<S: Src>(s: &mut S) {
    elem_rt_body::<S, GdsPath>(s, 0, 1, 2, false)
}
pub fn c01_s_l2a_e1_m1<S: Src>(s: &mut S) {
    elem_rt_body::<S, GdsPath>(s, 1, 1, 2, true)
}
pub fn c03_s_r2_e1_m1<S: Src>(s: &mut S) {
    elem_rt_body::<S, GdsPath>(s, 1, 1, 2, false)
}
pub fn c01_s_l2a_e1_m2<S: Src>(s: &mut S) {
    elem_rt_body::<S, GdsPath>(s, 2, 1, 2, true)
}
pub fn c03_s_r2_e1_m2<S: Src>(s: &mut S) {
    elem_rt_body::<S, GdsPath>(s, 2, 1, 2, false)
}
pub fn c01_s_l2a_e1_m32<S: Src>(s: &mut S) {
    elem_rt_body::<S, GdsPath>(s, 32, 1, 2, true)
}
pub fn c03_s_r2_e1_m32<S: Src>(s: &mut S) {
    elem_rt_body::<S, GdsPath>(s, 32, 1, 2, false)
}
pub fn c01_s_l2a_e1_m64<S: Src>(s: &mut S) {
    elem_rt_body::<S, GdsPath>(s, 64, 1, 2, true)
}
pub fn c03_s_r2_e1_m64<S: Src>(s: &mut S) {
    elem_rt_body::<S, GdsPath>(s, 64, 1, 2, false)
}
pub fn c01_s_l2a_e1_m128<S: Src>(s: &mut S) {
    elem_rt_body::<S, GdsPath>(s, 128, 1, 2, true)
}
pub fn c03_s_r2_e1_m128<S: Src>(s: &mut S) {
    elem_rt_body::<S, GdsPath>(s, 128, 1, 2, false)
}
pub fn c01_s_l2a_e1_m227<S: Src>(s: &mut S) {
    elem_rt_body::<S, GdsPath>(s, 227, 1, 2, true)
}
pub fn c03_s_r2_e1_m227<S: Src>(s: &mut S) {
    elem_rt_body::<S, GdsPath>(s, 227, 1, 2, false)
}
pub fn c01_s_l2a_e1_m256<S: Src>(s: &mut S) {
    elem_rt_body::<S, GdsPath>(s, 256, 1, 2, true)
}
pub fn c03_s_r2_e1_m256<S: Src>(s: &mut S) {
    elem_rt_body::<S, GdsPath>(s, 256, 1, 2, false)
}
pub fn c01_s_l2a_e1_m355<S: Src>(s: &mut S) {
    elem_rt_body::<S, GdsPath>(s, 355, 1, 2, true)
}
pub fn c03_s_r2_e1_m355<S: Src>(s: &mut S) {
    elem_rt_body::<S, GdsPath>(s, 355, 1, 2, false)
}
pub fn c01_s_l2a_e1_m419<S: Src>(s: &mut S) {
    elem_rt_body::<S, GdsPath>(s, 419, 1, 2, true)
}
pub fn c03_s_r2_e1_m419<S: Src>(s: &mut S) {
    elem_rt_body::<S, GdsPath>(s, 419, 1, 2, false)
}
pub fn c01_s_l2a_e1_m451<S: Src>(s: &mut S) {
    elem_rt_body::<S, GdsPath>(s, 451, 1, 2, true)
}
pub fn c03_s_r2_e1_m451<S: Src>(s: &mut S) {
    elem_rt_body::<S, GdsPath>(s, 451, 1, 2, false)
}
pub fn c01_s_l2a_e1_m481<S: Src>(s: &mut S) {
    elem_rt_body::<S, GdsPath>(s, 481, 1, 2, true)
}
pub fn c03_s_r2_e1_m481<S: Src>(s: &mut S) {
    elem_rt_body::<S, GdsPath>(s, 481, 1, 2, false)
}
pub fn c01_s_l2a_e1_m482<S: Src>(s: &mut S) {
    elem_rt_body::<S, GdsPath>(s, 482, 1, 2, true)
}
pub fn c03_s_r2_e1_m482<S: Src>(s: &mut S) {
    elem_rt_body::<S, GdsPath>(s, 482, 1, 2, false)
}
pub fn c01_q_l2a_e1_m483<S: Src>(s: &mut S) {
    elem_rt_body::<S, GdsPath>(s, 483, 1, 2, true)
}
pub fn c03_q_r2_e1_m483<S: Src>(s: &mut S) {
    elem_rt_body::<S, GdsPath>(s, 483, 1, 2, false)
}
pub fn c01_q_l2a_e2_m0<S: Src>(s: &mut S) {
    elem_rt_body::<S, GdsStructRef>(s, 0, 1, 2, true)
}
pub fn c03_s_r2_e2_m0<S: Src>(s: &mut S) {
    elem_rt_body::<S, GdsStructRef>(s, 0, 1, 2, false)
}
pub fn c01_s_l2a_e2_m1<S: Src>(s: &mut S) {
    elem_rt_body::<S, GdsStructRef>(s, 1, 1, 2, true)
}
pub fn c03_s_r2_e2_m1<S: Src>(s: &mut S) {
    elem_rt_body::<S, GdsStructRef>(s, 1, 1, 2, false)
}
pub fn c01_s_l2a_e2_m2<S: Src>(s: &mut S) {
    elem_rt_body::<S, GdsStructRef>(s, 2, 1, 2, true)
}
pub fn c03_s_r2_e2_m2<S: Src>(s: &mut S) {
    elem_rt_body::<S, GdsStructRef>(s, 2, 1, 2, false)
}
pub fn c01_s_l2a_e2_m3<S: Src>(s: &mut S) {
    elem_rt_body::<S, GdsStructRef>(s, 3, 1, 2, true)
}
pub fn c03_s_r2_e2_m3<S: Src>(s: &mut S) {
    elem_rt_body::<S, GdsStructRef>(s, 3, 1, 2, false)
}
pub fn c01_s_l2a_e2_m4<S: Src>(s: &mut S) {
    elem_rt_body::<S, GdsStructRef>(s, 4, 1, 2, true)
}
pub fn c03_s_r2_e2_m4<S: Src>(s: &mut S) {
    elem_rt_body::<S, GdsStructRef>(s, 4, 1, 2, false)
}
pub fn c01_s_l2a_e2_m12<S: Src>(s: &mut S) {
    elem_rt_body::<S, GdsStructRef>(s, 12, 1, 2, true)
}
pub fn c03_s_r2_e2_m12<S: Src>(s: &mut S) {
    elem_rt_body::<S, GdsStructRef>(s, 12, 1, 2, false)
}
pub fn c01_s_l2a_e2_m15<S: Src>(s: &mut S) {
    elem_rt_body::<S, GdsStructRef>(s, 15, 1, 2, true)
}
pub fn c03_s_r2_e2_m15<S: Src>(s: &mut S) {
    elem_rt_body::<S, GdsStructRef>(s, 15, 1, 2, false)
}
pub fn c01_s_l2a_e2_m20<S: Src>(s: &mut S) {
    elem_rt_body::<S, GdsStructRef>(s, 20, 1, 2, true)
}
pub fn c03_s_r2_e2_m20<S: Src>(s: &mut S) {
    elem_rt_body::<S, GdsStructRef>(s, 20, 1, 2, false)
}
pub fn c01_s_l2a_e2_m23<S: Src>(s: &mut S) {
    elem_rt_body::<S, GdsStructRef>(s, 23, 1, 2, true)
}
pub fn c03_s_r2_e2_m23<S: Src>(s: &mut S) {
    elem_rt_body::<S, GdsStructRef>(s, 23, 1, 2, false)
}
pub fn c01_s_l2a_e2_m29<S: Src>(s: &mut S) {
    elem_rt_body::<S, GdsStructRef>(s, 29, 1, 2, true)
}
pub fn c03_s_r2_e2_m29<S: Src>(s: &mut S) {
    elem_rt_body::<S, GdsStructRef>(s, 29, 1, 2, false)
}
pub fn c01_s_l2a_e2_m30<S: Src>(s: &mut S) {
    elem_rt_body::<S, GdsStructRef>(s, 30, 1, 2, true)
}
pub fn c03_s_r2_e2_m30<S: Src>(s: &mut S) {
    elem_rt_body::<S, GdsStructRef>(s, 30, 1, 2, false)
}
pub fn c01_s_l2a_e2_m31<S: Src>(s: &mut S) {
    elem_rt_body::<S, GdsStructRef>(s, 31, 1, 2, true)
}
pub fn c03_s_r2_e2_m31<S: Src>(s: &mut S) {
    elem_rt_body::<S, GdsStructRef>(s, 31, 1, 2, false)
}
pub fn c01_s_l2a_e3_m0<S: Src>(s: &mut S) {
    elem_rt_body::<S, GdsArrayRef>(s, 0, 1, 2, true)
}
pub fn c03_s_r2_e3_m0<S: Src>(s: &mut S) {
    elem_rt_body::<S, GdsArrayRef>(s, 0, 1, 2, false)
}
pub fn c01_s_l2a_e3_m1<S: Src>(s: &mut S) {
    elem_rt_body::<S, GdsArrayRef>(s, 1, 1, 2, true)
}
pub fn c03_s_r2_e3_m1<S: Src>(s: &mut S) {
    elem_rt_body::<S, GdsArrayRef>(s, 1, 1, 2, false)
}
pub fn c01_s_l2a_e3_m2<S: Src>(s: &mut S) {
    elem_rt_body::<S, GdsArrayRef>(s, 2, 1, 2, true)
}
pub fn c03_s_r2_e3_m2<S: Src>(s: &mut S) {
    elem_rt_body::<S, GdsArrayRef>(s, 2, 1, 2, false)
}
pub fn c01_s_l2a_e3_m3<S: Src>(s: &mut S) {
    elem_rt_body::<S, GdsArrayRef>(s, 3, 1, 2, true)
}
pub fn c03_s_r2_e3_m3<S: Src>(s: &mut S) {
    elem_rt_body::<S, GdsArrayRef>(s, 3, 1, 2, false)
}
pub fn c01_s_l2a_e3_m4<S: Src>(s: &mut S) {
    elem_rt_body::<S, GdsArrayRef>(s, 4, 1, 2, true)
}
pub fn c03_s_r2_e3_m4<S: Src>(s: &mut S) {
    elem_rt_body::<S, GdsArrayRef>(s, 4, 1, 2, false)
}
pub fn c01_s_l2a_e3_m12<S: Src>(s: &mut S) {
    elem_rt_body::<S, GdsArrayRef>(s, 12, 1, 2, true)
}
pub fn c03_s_r2_e3_m12<S: Src>(s: &mut S) {
    elem_rt_body::<S, GdsArrayRef>(s, 12, 1, 2, false)
}
pub fn c01_s_l2a_e3_m15<S: Src>(s: &mut S) {
    elem_rt_body::<S, GdsArrayRef>(s, 15, 1, 2, true)
}
pub fn c03_s_r2_e3_m15<S: Src>(s: &mut S) {
    elem_rt_body::<S, GdsArrayRef>(s, 15, 1, 2, false)
}
pub fn c01_s_l2a_e3_m20<S: Src>(s: &mut S) {
    elem_rt_body::<S, GdsArrayRef>(s, 20, 1, 2, true)
}
pub fn c03_s_r2_e3_m20<S: Src>(s: &mut S) {
    elem_rt_body::<S, GdsArrayRef>(s, 20, 1, 2, false)
}
pub fn c01_s_l2a_e3_m23<S: Src>(s: &mut S) {
    elem_rt_body::<S, GdsArrayRef>(s, 23, 1, 2, true)
}
pub fn c03_s_r2_e3_m23<S: Src>(s: &mut S) {
    elem_rt_body::<S, GdsArrayRef>(s, 23, 1, 2, false)
}
pub fn c01_s_l2a_e3_m29<S: Src>(s: &mut S) {
    elem_rt_body::<S, GdsArrayRef>(s, 29, 1, 2, true)
}
pub fn c03_s_r2_e3_m29<S: Src>(s: &mut S) {
    elem_rt_body::<S, GdsArrayRef>(s, 29, 1, 2, false)
}
pub fn c01_s_l2a_e3_m30<S: Src>(s: &mut S) {
    elem_rt_body::<S, GdsArrayRef>(s, 30, 1, 2, true)
}
pub fn c03_s_r2_e3_m30<S: Src>(s: &mut S) {
    elem_rt_body::<S, GdsArrayRef>(s, 30, 1, 2, false)
}
pub fn c01_s_l2a_e3_m31<S: Src>(s: &mut S) {
    elem_rt_body::<S, GdsArrayRef>(s, 31, 1, 2, true)
}
pub fn c03_q_r2_e3_m31<S: Src>(s: &mut S) {
    elem_rt_body::<S, GdsArrayRef>(s, 31, 1, 2, false)
}
pub fn c01_s_l2a_e4_m0<S: Src>(s: &mut S) {
    elem_rt_body::<S, GdsTextElem>(s, 0, 1, 2, true)
}
pub fn c03_s_r2_e4_m0<S: Src>(s: &mut S) {
    elem_rt_body::<S, GdsTextElem>(s, 0, 1, 2, false)
}
pub fn c01_s_l2a_e4_m1<S: Src>(s: &mut S) {
    elem_rt_body::<S, GdsTextElem>(s, 1, 1, 2, true)
}
pub fn c03_s_r2_e4_m1<S: Src>(s: &mut S) {
    elem_rt_body::<S, GdsTextElem>(s, 1, 1, 2, false)
}
pub fn c01_s_l2a_e4_m2<S: Src>(s: &mut S) {
    elem_rt_body::<S, GdsTextElem>(s, 2, 1, 2, true)
}
pub fn c03_s_r2_e4_m2<S: Src>(s: &mut S) {
    elem_rt_body::<S, GdsTextElem>(s, 2, 1, 2, false)
}
pub fn c01_s_l2a_e4_m4<S: Src>(s: &mut S) {
    elem_rt_body::<S, GdsTextElem>(s, 4, 1, 2, true)
}
pub fn c03_s_r2_e4_m4<S: Src>(s: &mut S) {
    elem_rt_body::<S, GdsTextElem>(s, 4, 1, 2, false)
}
pub fn c01_s_l2a_e4_m12<S: Src>(s: &mut S) {
    elem_rt_body::<S, GdsTextElem>(s, 12, 1, 2, true)
}
pub fn c03_s_r2_e4_m12<S: Src>(s: &mut S) {
    elem_rt_body::<S, GdsTextElem>(s, 12, 1, 2, false)
}
pub fn c01_s_l2a_e4_m20<S: Src>(s: &mut S) {
    elem_rt_body::<S, GdsTextElem>(s, 20, 1, 2, true)
}
pub fn c03_s_r2_e4_m20<S: Src>(s: &mut S) {
    elem_rt_body::<S, GdsTextElem>(s, 20, 1, 2, false)
}
pub fn c01_s_l2a_e4_m32<S: Src>(s: &mut S) {
    elem_rt_body::<S, GdsTextElem>(s, 32, 1, 2, true)
}
pub fn c03_s_r2_e4_m32<S: Src>(s: &mut S) {
    elem_rt_body::<S, GdsTextElem>(s, 32, 1, 2, false)
}
pub fn c01_s_l2a_e4_m64<S: Src>(s: &mut S) {
    elem_rt_body::<S, GdsTextElem>(s, 64, 1, 2, true)
}
pub fn c03_s_r2_e4_m64<S: Src>(s: &mut S) {
    elem_rt_body::<S, GdsTextElem>(s, 64, 1, 2, false)
}
pub fn c01_s_l2a_e4_m127<S: Src>(s: &mut S) {
    elem_rt_body::<S, GdsTextElem>(s, 127, 1, 2, true)
}
pub fn c03_s_r2_e4_m127<S: Src>(s: &mut S) {
    elem_rt_body::<S, GdsTextElem>(s, 127, 1, 2, false)
}
pub fn c01_s_l2a_e4_m512<S: Src>(s: &mut S) {
    elem_rt_body::<S, GdsTextElem>(s, 512, 1, 2, true)
}
pub fn c03_s_r2_e4_m512<S: Src>(s: &mut S) {
    elem_rt_body::<S, GdsTextElem>(s, 512, 1, 2, false)
}
pub fn c01_s_l2a_e4_m575<S: Src>(s: &mut S) {
    elem_rt_body::<S, GdsTextElem>(s, 575, 1, 2, true)
}
pub fn c03_s_r2_e4_m575<S: Src>(s: &mut S) {
    elem_rt_body::<S, GdsTextElem>(s, 575, 1, 2, false)
}
pub fn c01_s_l2a_e4_m607<S: Src>(s: &mut S) {
    elem_rt_body::<S, GdsTextElem>(s, 607, 1, 2, true)
}
pub fn c03_s_r2_e4_m607<S: Src>(s: &mut S) {
    elem_rt_body::<S, GdsTextElem>(s, 607, 1, 2, false)
}
pub fn c01_s_l2a_e4_m611<S: Src>(s: &mut S) {
    elem_rt_body::<S, GdsTextElem>(s, 611, 1, 2, true)
}
pub fn c03_s_r2_e4_m611<S: Src>(s: &mut S) {
    elem_rt_body::<S, GdsTextElem>(s, 611, 1, 2, false)
}
pub fn c01_s_l2a_e4_m623<S: Src>(s: &mut S) {
    elem_rt_body::<S, GdsTextElem>(s, 623, 1, 2, true)
}
pub fn c03_s_r2_e4_m623<S: Src>(s: &mut S) {
    elem_rt_body::<S, GdsTextElem>(s, 623, 1, 2, false)
}
pub fn c01_s_l2a_e4_m631<S: Src>(s: &mut S) {
    elem_rt_body::<S, GdsTextElem>(s, 631, 1, 2, true)
}
pub fn c03_s_r2_e4_m631<S: Src>(s: &mut S) {
    elem_rt_body::<S, GdsTextElem>(s, 631, 1, 2, false)
}
pub fn c01_s_l2a_e4_m637<S: Src>(s: &mut S) {
    elem_rt_body::<S, GdsTextElem>(s, 637, 1, 2, true)
}
pub fn c03_s_r2_e4_m637<S: Src>(s: &mut S) {
    elem_rt_body::<S, GdsTextElem>(s, 637, 1, 2, false)
}
pub fn c01_s_l2a_e4_m638<S: Src>(s: &mut S) {
    elem_rt_body::<S, GdsTextElem>(s, 638, 1, 2, true)
}
pub fn c03_s_r2_e4_m638<S: Src>(s: &mut S) {
    elem_rt_body::<S, GdsTextElem>(s, 638, 1, 2, false)
}
pub fn c01_q_l2a_e4_m639<S: Src>(s: &mut S) {
    elem_rt_body::<S, GdsTextElem>(s, 639, 1, 2, true)
}
pub fn c03_s_r2_e4_m639<S: Src>(s: &mut S) {
    elem_rt_body::<S, GdsTextElem>(s, 639, 1, 2, false)
}
pub fn c01_s_l2a_e5_m0<S: Src>(s: &mut S) {
    elem_rt_body::<S, GdsNode>(s, 0, 1, 2, true)
}
pub fn c03_s_r2_e5_m0<S: Src>(s: &mut S) {
    elem_rt_body::<S, GdsNode>(s, 0, 1, 2, false)
}
pub fn c01_s_l2a_e5_m1<S: Src>(s: &mut S) {
    elem_rt_body::<S, GdsNode>(s, 1, 1, 2, true)
}
pub fn c03_s_r2_e5_m1<S: Src>(s: &mut S) {
    elem_rt_body::<S, GdsNode>(s, 1, 1, 2, false)
}
pub fn c01_s_l2a_e5_m2<S: Src>(s: &mut S) {
    elem_rt_body::<S, GdsNode>(s, 2, 1, 2, true)
}
pub fn c03_s_r2_e5_m2<S: Src>(s: &mut S) {
    elem_rt_body::<S, GdsNode>(s, 2, 1, 2, false)
}
pub fn c01_s_l2a_e5_m3<S: Src>(s: &mut S) {
    elem_rt_body::<S, GdsNode>(s, 3, 1, 2, true)
}
pub fn c03_s_r2_e5_m3<S: Src>(s: &mut S) {
    elem_rt_body::<S, GdsNode>(s, 3, 1, 2, false)
}
pub fn c01_s_l2a_e6_m0<S: Src>(s: &mut S) {
    elem_rt_body::<S, GdsBox>(s, 0, 1, 2, true)
}
pub fn c03_s_r2_e6_m0<S: Src>(s: &mut S) {
    elem_rt_body::<S, GdsBox>(s, 0, 1, 2, false)
}
pub fn c01_s_l2a_e6_m1<S: Src>(s: &mut S) {
    elem_rt_body::<S, GdsBox>(s, 1, 1, 2, true)
}
pub fn c03_s_r2_e6_m1<S: Src>(s: &mut S) {
    elem_rt_body::<S, GdsBox>(s, 1, 1, 2, false)
}
pub fn c01_s_l2a_e6_m2<S: Src>(s: &mut S) {
    elem_rt_body::<S, GdsBox>(s, 2, 1, 2, true)
}
pub fn c03_s_r2_e6_m2<S: Src>(s: &mut S) {
    elem_rt_body::<S, GdsBox>(s, 2, 1, 2, false)
}
pub fn c01_s_l2a_e6_m3<S: Src>(s: &mut S) {
    elem_rt_body::<S, GdsBox>(s, 3, 1, 2, true)
}
pub fn c03_s_r2_e6_m3<S: Src>(s: &mut S) {
    elem_rt_body::<S, GdsBox>(s, 3, 1, 2, false)
}
pub fn c01_s_l2a_e1_m483_pt0<S: Src>(s: &mut S) {
    elem_rt_body_pin::<S, GdsPath>(s, 483, 1, 2, true, 0)
}
pub fn c03_s_r2_e1_m483_pt0<S: Src>(s: &mut S) {
    elem_rt_body_pin::<S, GdsPath>(s, 483, 1, 2, false, 0)
}
pub fn c01_s_l2a_e1_m483_pt1<S: Src>(s: &mut S) {
    elem_rt_body_pin::<S, GdsPath>(s, 483, 1, 2, true, 1)
}
pub fn c03_s_r2_e1_m483_pt1<S: Src>(s: &mut S) {
    elem_rt_body_pin::<S, GdsPath>(s, 483, 1, 2, false, 1)
}
pub fn c01_q_l2a_e1_m483_pt2<S: Src>(s: &mut S) {
    elem_rt_body_pin::<S, GdsPath>(s, 483, 1, 2, true, 2)
}
pub fn c03_s_r2_e1_m483_pt2<S: Src>(s: &mut S) {
    elem_rt_body_pin::<S, GdsPath>(s, 483, 1, 2, false, 2)
}
pub fn c01_s_l2a_e1_m483_pt4<S: Src>(s: &mut S) {
    elem_rt_body_pin::<S, GdsPath>(s, 483, 1, 2, true, 4)
}
pub fn c03_s_r2_e1_m483_pt4<S: Src>(s: &mut S) {
    elem_rt_body_pin::<S, GdsPath>(s, 483, 1, 2, false, 4)
}
pub fn c01_s_l2a_e4_m639_pt0<S: Src>(s: &mut S) {
    elem_rt_body_pin::<S, GdsTextElem>(s, 639, 1, 2, true, 0)
}
pub fn c03_q_r2_e4_m639_pt0<S: Src>(s: &mut S) {
    elem_rt_body_pin::<S, GdsTextElem>(s, 639, 1, 2, false, 0)
}
pub fn c01_s_l2a_e4_m639_pt1<S: Src>(s: &mut S) {
    elem_rt_body_pin::<S, GdsTextElem>(s, 639, 1, 2, true, 1)
}
pub fn c03_s_r2_e4_m639_pt1<S: Src>(s: &mut S) {
    elem_rt_body_pin::<S, GdsTextElem>(s, 639, 1, 2, false, 1)
}
pub fn c01_s_l2a_e4_m639_pt2<S: Src>(s: &mut S) {
    elem_rt_body_pin::<S, GdsTextElem>(s, 639, 1, 2, true, 2)
}
pub fn c03_s_r2_e4_m639_pt2<S: Src>(s: &mut S) {
    elem_rt_body_pin::<S, GdsTextElem>(s, 639, 1, 2, false, 2)
}
pub fn c01_s_l2a_e4_m639_pt4<S: Src>(s: &mut S) {
    elem_rt_body_pin::<S, GdsTextElem>(s, 639, 1, 2, true, 4)
}
pub fn c03_s_r2_e4_m639_pt4<S: Src>(s: &mut S) {
    elem_rt_body_pin::<S, GdsTextElem>(s, 639, 1, 2, false, 4)
}
pub fn c01_x_l2p_e0_m1024<S: Src>(s: &mut S) {
    elem_rt_body::<S, GdsBoundary>(s, 1024, 1, 2, true)
}
pub fn c03_x_r2p_e0_m1024<S: Src>(s: &mut S) {
    elem_rt_body::<S, GdsBoundary>(s, 1024, 1, 2, false)
}
pub fn c01_x_l2p_e0_m1027<S: Src>(s: &mut S) {
    elem_rt_body::<S, GdsBoundary>(s, 1027, 1, 2, true)
}
pub fn c03_x_r2p_e0_m1027<S: Src>(s: &mut S) {
    elem_rt_body::<S, GdsBoundary>(s, 1027, 1, 2, false)
}
pub fn c01_x_l2p_e1_m1024<S: Src>(s: &mut S) {
    elem_rt_body::<S, GdsPath>(s, 1024, 1, 2, true)
}
pub fn c03_x_r2p_e1_m1024<S: Src>(s: &mut S) {
    elem_rt_body::<S, GdsPath>(s, 1024, 1, 2, false)
}
pub fn c01_x_l2p_e1_m1507<S: Src>(s: &mut S) {
    elem_rt_body::<S, GdsPath>(s, 1507, 1, 2, true)
}
pub fn c03_x_r2p_e1_m1507<S: Src>(s: &mut S) {
    elem_rt_body::<S, GdsPath>(s, 1507, 1, 2, false)
}
pub fn c01_x_l2p_e2_m1024<S: Src>(s: &mut S) {
    elem_rt_body::<S, GdsStructRef>(s, 1024, 1, 2, true)
}
pub fn c03_x_r2p_e2_m1024<S: Src>(s: &mut S) {
    elem_rt_body::<S, GdsStructRef>(s, 1024, 1, 2, false)
}
pub fn c01_x_l2p_e2_m1055<S: Src>(s: &mut S) {
    elem_rt_body::<S, GdsStructRef>(s, 1055, 1, 2, true)
}
pub fn c03_x_r2p_e2_m1055<S: Src>(s: &mut S) {
    elem_rt_body::<S, GdsStructRef>(s, 1055, 1, 2, false)
}
pub fn c01_x_l2p_e3_m1024<S: Src>(s: &mut S) {
    elem_rt_body::<S, GdsArrayRef>(s, 1024, 1, 2, true)
}
pub fn c03_x_r2p_e3_m1024<S: Src>(s: &mut S) {
    elem_rt_body::<S, GdsArrayRef>(s, 1024, 1, 2, false)
}
pub fn c01_x_l2p_e3_m1055<S: Src>(s: &mut S) {
    elem_rt_body::<S, GdsArrayRef>(s, 1055, 1, 2, true)
}
pub fn c03_x_r2p_e3_m1055<S: Src>(s: &mut S) {
    elem_rt_body::<S, GdsArrayRef>(s, 1055, 1, 2, false)
}
pub fn c01_x_l2p_e4_m1024<S: Src>(s: &mut S) {
    elem_rt_body::<S, GdsTextElem>(s, 1024, 1, 2, true)
}
pub fn c03_x_r2p_e4_m1024<S: Src>(s: &mut S) {
    elem_rt_body::<S, GdsTextElem>(s, 1024, 1, 2, false)
}
pub fn c01_x_l2p_e4_m1663<S: Src>(s: &mut S) {
    elem_rt_body::<S, GdsTextElem>(s, 1663, 1, 2, true)
}
pub fn c03_x_r2p_e4_m1663<S: Src>(s: &mut S) {
    elem_rt_body::<S, GdsTextElem>(s, 1663, 1, 2, false)
}
pub fn c01_x_l2p_e5_m1024<S: Src>(s: &mut S) {
    elem_rt_body::<S, GdsNode>(s, 1024, 1, 2, true)
}
pub fn c03_x_r2p_e5_m1024<S: Src>(s: &mut S) {
    elem_rt_body::<S, GdsNode>(s, 1024, 1, 2, false)
}
pub fn c01_x_l2p_e5_m1027<S: Src>(s: &mut S) {
    elem_rt_body::<S, GdsNode>(s, 1027, 1, 2, true)
}
pub fn c03_x_r2p_e5_m1027<S: Src>(s: &mut S) {
    elem_rt_body::<S, GdsNode>(s, 1027, 1, 2, false)
}
pub fn c01_x_l2p_e6_m1024<S: Src>(s: &mut S) {
    elem_rt_body::<S, GdsBox>(s, 1024, 1, 2, true)
}
pub fn c03_x_r2p_e6_m1024<S: Src>(s: &mut S) {
    elem_rt_body::<S, GdsBox>(s, 1024, 1, 2, false)
}
pub fn c01_x_l2p_e6_m1027<S: Src>(s: &mut S) {
    elem_rt_body::<S, GdsBox>(s, 1027, 1, 2, true)
}
pub fn c03_x_r2p_e6_m1027<S: Src>(s: &mut S) {
    elem_rt_body::<S, GdsBox>(s, 1027, 1, 2, false)
}
pub fn c01_q_l2b_lib_0x0_k0_m0<S: Src>(s: &mut S) {
    lib_rt_body(s, 0, 0, 0, 0, true, false)
}
pub fn c01_x_l2b_lib_1x1_k0_m0<S: Src>(s: &mut S) {
    lib_rt_body(s, 1, 1, 0, 0, true, false)
}
pub fn c01_x_l2b_lib_1x1_k4_m1023<S: Src>(s: &mut S) {
    lib_rt_body(s, 1, 1, 4, 1023, true, false)
}
pub fn c01_x_l2b_lib_2x1_k2_m0<S: Src>(s: &mut S) {
    lib_rt_body(s, 2, 1, 2, 0, true, false)
}
pub fn c01_x_l2b_lib_1x2_k5_m7<S: Src>(s: &mut S) {
    lib_rt_body(s, 1, 2, 5, 7, true, false)
}
pub fn c01_x_l2b_lib_2x2_k0_m0<S: Src>(s: &mut S) {
    lib_rt_body(s, 2, 2, 0, 0, true, false)
}
pub fn c03_q_r2_lib_junk_0x0_k0_m0<S: Src>(s: &mut S) {
    lib_rt_body(s, 0, 0, 0, 0, false, true)
}
pub fn c03_x_r2_lib_junk_1x1_k6_m3<S: Src>(s: &mut S) {
    lib_rt_body(s, 1, 1, 6, 3, false, true)
}
pub fn c03_x_r2_lib_junk_1x1_k3_m1023<S: Src>(s: &mut S) {
    lib_rt_body(s, 1, 1, 3, 1023, false, true)
}
pub fn c03_q_unsup_k39<S: Src>(s: &mut S) {
    unsupported_body(s, 0x39)
}
pub fn c03_s_unsup_k3a<S: Src>(s: &mut S) {
    unsupported_body(s, 0x3a)
}
pub fn c03_s_unsup_k3b<S: Src>(s: &mut S) {
    unsupported_body(s, 0x3b)
}
pub fn c03_s_unsup_k1f<S: Src>(s: &mut S) {
    unsupported_body(s, 0x1f)
}
pub fn c03_q_unsup_k20<S: Src>(s: &mut S) {
    unsupported_body(s, 0x20)
}
pub fn c03_s_unsup_k23<S: Src>(s: &mut S) {
    unsupported_body(s, 0x23)
}
pub fn c03_s_unsup_k22<S: Src>(s: &mut S) {
    unsupported_body(s, 0x22)
}
pub fn c03_s_unsup_k36<S: Src>(s: &mut S) {
    unsupported_body(s, 0x36)
}
pub fn c10_x_p_w0_00<S: Src>(s: &mut S) {
    plevel_body(s, 0, &[0x0d], &[0])
}
pub fn c10_x_p_w0_01<S: Src>(s: &mut S) {
    plevel_body(s, 0, &[0x0e], &[0])
}
pub fn c10_x_p_w0_02<S: Src>(s: &mut S) {
    plevel_body(s, 0, &[0x10], &[2])
}
pub fn c10_x_p_w0_03<S: Src>(s: &mut S) {
    plevel_body(s, 0, &[0x10], &[5])
}
pub fn c10_x_p_w0_04<S: Src>(s: &mut S) {
    plevel_body(s, 0, &[0x10], &[0])
}
pub fn c10_x_p_w0_05<S: Src>(s: &mut S) {
    plevel_body(s, 0, &[0x11], &[0])
}
pub fn c10_x_p_w0_06<S: Src>(s: &mut S) {
    plevel_body(s, 0, &[0x12], &[1])
}
pub fn c10_x_p_w0_07<S: Src>(s: &mut S) {
    plevel_body(s, 0, &[0x13], &[0])
}
pub fn c10_x_p_w0_08<S: Src>(s: &mut S) {
    plevel_body(s, 0, &[0x16], &[0])
}
pub fn c10_x_p_w0_09<S: Src>(s: &mut S) {
    plevel_body(s, 0, &[0x17], &[0])
}
pub fn c10_x_p_w0_10<S: Src>(s: &mut S) {
    plevel_body(s, 0, &[0x19], &[1])
}
pub fn c10_x_p_w0_11<S: Src>(s: &mut S) {
    plevel_body(s, 0, &[0x1a], &[0])
}
pub fn c10_x_p_w0_12<S: Src>(s: &mut S) {
    plevel_body(s, 0, &[0x1b], &[0])
}
pub fn c10_x_p_w0_13<S: Src>(s: &mut S) {
    plevel_body(s, 0, &[0x1c], &[0])
}
pub fn c10_x_p_w0_14<S: Src>(s: &mut S) {
    plevel_body(s, 0, &[0x21], &[0])
}
pub fn c10_x_p_w0_15<S: Src>(s: &mut S) {
    plevel_body(s, 0, &[0x0f], &[0])
}
pub fn c10_x_p_w0_16<S: Src>(s: &mut S) {
    plevel_body(s, 0, &[0x26], &[0])
}
pub fn c10_x_p_w0_17<S: Src>(s: &mut S) {
    plevel_body(s, 0, &[0x2a], &[0])
}
pub fn c10_x_p_w0_18<S: Src>(s: &mut S) {
    plevel_body(s, 0, &[0x2b], &[0])
}
pub fn c10_x_p_w0_19<S: Src>(s: &mut S) {
    plevel_body(s, 0, &[0x2c], &[1])
}
pub fn c10_x_p_w0_20<S: Src>(s: &mut S) {
    plevel_body(s, 0, &[0x2e], &[0])
}
pub fn c10_x_p_w0_21<S: Src>(s: &mut S) {
    plevel_body(s, 0, &[0x2f], &[0])
}
pub fn c10_x_p_w0_22<S: Src>(s: &mut S) {
    plevel_body(s, 0, &[0x30], &[0])
}
pub fn c10_x_p_w0_23<S: Src>(s: &mut S) {
    plevel_body(s, 0, &[0x31], &[0])
}
pub fn c10_x_p_w0_24<S: Src>(s: &mut S) {
    plevel_body(s, 0, &[0x04], &[0])
}
pub fn c10_x_p_w0_25<S: Src>(s: &mut S) {
    plevel_body(s, 0, &[0x07], &[0])
}
pub fn c10_x_p_w0_26<S: Src>(s: &mut S) {
    plevel_body(s, 0, &[0x08], &[0])
}
pub fn c10_x_p_w0_27<S: Src>(s: &mut S) {
    plevel_body(s, 0, &[0x00], &[0])
}
pub fn c10_x_p_w0_28<S: Src>(s: &mut S) {
    plevel_body(s, 0, &[0x02], &[0])
}
pub fn c10_x_p_w0_29<S: Src>(s: &mut S) {
    plevel_body(s, 0, &[0x19, 0x26], &[1, 0])
}
pub fn c10_x_p_w0_30<S: Src>(s: &mut S) {
    plevel_body(s, 0, &[0x2e, 0x00, 0x10, 0x02], &[0, 0, 5, 0])
}
pub fn c10_x_p_w0_31<S: Src>(s: &mut S) {
    plevel_body(s, 0, &[0x02, 0x2c], &[0, 1])
}
pub fn c10_x_p_w0_32<S: Src>(s: &mut S) {
    plevel_body(s, 0, &[0x2a, 0x1c, 0x07, 0x2b], &[0, 0, 0, 0])
}
pub fn c10_x_p_w0_33<S: Src>(s: &mut S) {
    plevel_body(s, 0, &[0x08, 0x31, 0x04, 0x04], &[0, 0, 0, 0])
}
pub fn c10_x_p_w0_34<S: Src>(s: &mut S) {
    plevel_body(s, 0, &[0x04, 0x04, 0x2b], &[0, 0, 0])
}
pub fn c10_x_p_w0_35<S: Src>(s: &mut S) {
    plevel_body(s, 0, &[0x13, 0x0d, 0x2c], &[0, 0, 1])
}
pub fn c10_x_p_w0_36<S: Src>(s: &mut S) {
    plevel_body(s, 0, &[0x10, 0x17], &[5, 0])
}
pub fn c10_x_p_w0_37<S: Src>(s: &mut S) {
    plevel_body(s, 0, &[0x21, 0x0d], &[0, 0])
}
pub fn c10_x_p_w0_38<S: Src>(s: &mut S) {
    plevel_body(s, 0, &[0x2f, 0x19, 0x12], &[0, 1, 1])
}
pub fn c10_x_p_w0_39<S: Src>(s: &mut S) {
    plevel_body(s, 0, &[0x16, 0x1a, 0x1a], &[0, 0, 0])
}
pub fn c10_x_p_w0_40<S: Src>(s: &mut S) {
    plevel_body(s, 0, &[0x31, 0x26, 0x2e], &[0, 0, 0])
}
pub fn c10_x_p_w0_41<S: Src>(s: &mut S) {
    plevel_body(s, 0, &[0x31, 0x19], &[0, 1])
}
pub fn c10_x_p_w0_42<S: Src>(s: &mut S) {
    plevel_body(s, 0, &[0x2a, 0x2a], &[0, 0])
}
pub fn c10_x_p_w0_43<S: Src>(s: &mut S) {
    plevel_body(s, 0, &[0x17, 0x21, 0x10], &[0, 0, 0])
}
pub fn c10_x_p_w0_44<S: Src>(s: &mut S) {
    plevel_body(s, 0, &[0x17, 0x0d, 0x00, 0x30], &[0, 0, 0, 0])
}
pub fn c10_x_p_w0_45<S: Src>(s: &mut S) {
    plevel_body(s, 0, &[0x1a, 0x21, 0x1c], &[0, 0, 0])
}
pub fn c10_x_p_w0_46<S: Src>(s: &mut S) {
    plevel_body(s, 0, &[0x1b, 0x02], &[0, 0])
}
pub fn c10_x_p_w0_47<S: Src>(s: &mut S) {
    plevel_body(s, 0, &[0x2a, 0x0f, 0x00, 0x10], &[0, 0, 0, 5])
}
pub fn c10_x_p_w0_48<S: Src>(s: &mut S) {
    plevel_body(s, 0, &[0x26, 0x07, 0x04], &[0, 0, 0])
}
pub fn c10_x_p_w0_49<S: Src>(s: &mut S) {
    plevel_body(s, 0, &[0x02, 0x0f, 0x1b, 0x26], &[0, 0, 0, 0])
}
pub fn c10_x_p_w0_50<S: Src>(s: &mut S) {
    plevel_body(s, 0, &[0x00, 0x1c, 0x2b], &[0, 0, 0])
}
pub fn c10_x_p_w0_51<S: Src>(s: &mut S) {
    plevel_body(s, 0, &[0x26, 0x26, 0x07], &[0, 0, 0])
}
pub fn c10_x_p_w0_52<S: Src>(s: &mut S) {
    plevel_body(s, 0, &[0x2b, 0x13], &[0, 0])
}
pub fn c10_x_p_w0_53<S: Src>(s: &mut S) {
    plevel_body(s, 0, &[0x08, 0x0e], &[0, 0])
}
pub fn c10_x_p_w0_54<S: Src>(s: &mut S) {
    plevel_body(s, 0, &[0x02, 0x2f, 0x10, 0x30], &[0, 0, 5, 0])
}
pub fn c10_x_p_w0_55<S: Src>(s: &mut S) {
    plevel_body(s, 0, &[0x1c, 0x0f, 0x10, 0x0f], &[0, 0, 0, 0])
}
pub fn c10_x_p_w0_56<S: Src>(s: &mut S) {
    plevel_body(s, 0, &[0x00, 0x02], &[0, 0])
}
pub fn c10_x_p_w0_57<S: Src>(s: &mut S) {
    plevel_body(s, 0, &[0x2e, 0x30], &[0, 0])
}
pub fn c10_x_p_w0_58<S: Src>(s: &mut S) {
    plevel_body(s, 0, &[0x2f, 0x0f, 0x30], &[0, 0, 0])
}
pub fn c10_x_p_w0_59<S: Src>(s: &mut S) {
    plevel_body(s, 0, &[0x16, 0x2a, 0x1b, 0x2f], &[0, 0, 0, 0])
}
pub fn c10_x_p_w0_60<S: Src>(s: &mut S) {
    plevel_body(s, 0, &[0x2a, 0x07, 0x2e], &[0, 0, 0])
}
pub fn c10_x_p_w0_61<S: Src>(s: &mut S) {
    plevel_body(s, 0, &[0x30, 0x0f, 0x07, 0x02], &[0, 0, 0, 0])
}
pub fn c10_x_p_w0_62<S: Src>(s: &mut S) {
    plevel_body(s, 0, &[0x1c, 0x12, 0x17], &[0, 1, 0])
}
pub fn c10_x_p_w0_63<S: Src>(s: &mut S) {
    plevel_body(s, 0, &[0x0d, 0x0e, 0x10], &[0, 0, 0])
}
pub fn c10_x_p_w0_64<S: Src>(s: &mut S) {
    plevel_body(s, 0, &[0x21, 0x07, 0x26, 0x0f], &[0, 0, 0, 0])
}
pub fn c10_x_p_w0_65<S: Src>(s: &mut S) {
    plevel_body(s, 0, &[0x12, 0x16, 0x30], &[1, 0, 0])
}
pub fn c10_x_p_w0_66<S: Src>(s: &mut S) {
    plevel_body(s, 0, &[0x21, 0x26, 0x04], &[0, 0, 0])
}
pub fn c10_x_p_w0_67<S: Src>(s: &mut S) {
    plevel_body(s, 0, &[0x07, 0x1c, 0x2a], &[0, 0, 0])
}
pub fn c10_x_p_w0_68<S: Src>(s: &mut S) {
    plevel_body(s, 0, &[0x08, 0x17], &[0, 0])
}
pub fn c10_x_p_w0_69<S: Src>(s: &mut S) {
    plevel_body(s, 0, &[0x21, 0x07, 0x10], &[0, 0, 5])
}
pub fn c10_x_p_w1_00<S: Src>(s: &mut S) {
    plevel_body(s, 1, &[0x0d], &[0])
}
pub fn c10_x_p_w1_01<S: Src>(s: &mut S) {
    plevel_body(s, 1, &[0x0e], &[0])
}
pub fn c10_x_p_w1_02<S: Src>(s: &mut S) {
    plevel_body(s, 1, &[0x10], &[2])
}
pub fn c10_x_p_w1_03<S: Src>(s: &mut S) {
    plevel_body(s, 1, &[0x10], &[5])
}
pub fn c10_x_p_w1_04<S: Src>(s: &mut S) {
    plevel_body(s, 1, &[0x10], &[0])
}
pub fn c10_x_p_w1_05<S: Src>(s: &mut S) {
    plevel_body(s, 1, &[0x11], &[0])
}
pub fn c10_x_p_w1_06<S: Src>(s: &mut S) {
    plevel_body(s, 1, &[0x12], &[1])
}
pub fn c10_x_p_w1_07<S: Src>(s: &mut S) {
    plevel_body(s, 1, &[0x13], &[0])
}
pub fn c10_x_p_w1_08<S: Src>(s: &mut S) {
    plevel_body(s, 1, &[0x16], &[0])
}
pub fn c10_x_p_w1_09<S: Src>(s: &mut S) {
    plevel_body(s, 1, &[0x17], &[0])
}
pub fn c10_x_p_w1_10<S: Src>(s: &mut S) {
    plevel_body(s, 1, &[0x19], &[1])
}
pub fn c10_x_p_w1_11<S: Src>(s: &mut S) {
    plevel_body(s, 1, &[0x1a], &[0])
}
pub fn c10_x_p_w1_12<S: Src>(s: &mut S) {
    plevel_body(s, 1, &[0x1b], &[0])
}
pub fn c10_x_p_w1_13<S: Src>(s: &mut S) {
    plevel_body(s, 1, &[0x1c], &[0])
}
pub fn c10_x_p_w1_14<S: Src>(s: &mut S) {
    plevel_body(s, 1, &[0x21], &[0])
}
pub fn c10_x_p_w1_15<S: Src>(s: &mut S) {
    plevel_body(s, 1, &[0x0f], &[0])
}
pub fn c10_x_p_w1_16<S: Src>(s: &mut S) {
    plevel_body(s, 1, &[0x26], &[0])
}
pub fn c10_x_p_w1_17<S: Src>(s: &mut S) {
    plevel_body(s, 1, &[0x2a], &[0])
}
pub fn c10_x_p_w1_18<S: Src>(s: &mut S) {
    plevel_body(s, 1, &[0x2b], &[0])
}
pub fn c10_x_p_w1_19<S: Src>(s: &mut S) {
    plevel_body(s, 1, &[0x2c], &[1])
}
pub fn c10_x_p_w1_20<S: Src>(s: &mut S) {
    plevel_body(s, 1, &[0x2e], &[0])
}
pub fn c10_x_p_w1_21<S: Src>(s: &mut S) {
    plevel_body(s, 1, &[0x2f], &[0])
}
pub fn c10_x_p_w1_22<S: Src>(s: &mut S) {
    plevel_body(s, 1, &[0x30], &[0])
}
pub fn c10_x_p_w1_23<S: Src>(s: &mut S) {
    plevel_body(s, 1, &[0x31], &[0])
}
pub fn c10_x_p_w1_24<S: Src>(s: &mut S) {
    plevel_body(s, 1, &[0x04], &[0])
}
pub fn c10_x_p_w1_25<S: Src>(s: &mut S) {
    plevel_body(s, 1, &[0x07], &[0])
}
pub fn c10_x_p_w1_26<S: Src>(s: &mut S) {
    plevel_body(s, 1, &[0x08], &[0])
}
pub fn c10_x_p_w1_27<S: Src>(s: &mut S) {
    plevel_body(s, 1, &[0x00], &[0])
}
pub fn c10_x_p_w1_28<S: Src>(s: &mut S) {
    plevel_body(s, 1, &[0x02], &[0])
}
pub fn c10_x_p_w1_29<S: Src>(s: &mut S) {
    plevel_body(s, 1, &[0x30, 0x30, 0x07], &[0, 0, 0])
}
pub fn c10_x_p_w1_30<S: Src>(s: &mut S) {
    plevel_body(s, 1, &[0x16, 0x21, 0x11, 0x1c], &[0, 0, 0, 0])
}
pub fn c10_x_p_w1_31<S: Src>(s: &mut S) {
    plevel_body(s, 1, &[0x10, 0x2e, 0x16], &[2, 0, 0])
}
pub fn c10_x_p_w1_32<S: Src>(s: &mut S) {
    plevel_body(s, 1, &[0x1a, 0x10, 0x12], &[0, 5, 1])
}
pub fn c10_x_p_w1_33<S: Src>(s: &mut S) {
    plevel_body(s, 1, &[0x10, 0x21, 0x0d], &[0, 0, 0])
}
pub fn c10_x_p_w1_34<S: Src>(s: &mut S) {
    plevel_body(s, 1, &[0x0d, 0x21], &[0, 0])
}
pub fn c10_x_p_w1_35<S: Src>(s: &mut S) {
    plevel_body(s, 1, &[0x2a, 0x08, 0x10, 0x2c], &[0, 0, 2, 1])
}
pub fn c10_x_p_w1_36<S: Src>(s: &mut S) {
    plevel_body(s, 1, &[0x13, 0x10], &[0, 5])
}
pub fn c10_x_p_w1_37<S: Src>(s: &mut S) {
    plevel_body(s, 1, &[0x0e, 0x04, 0x2a, 0x16], &[0, 0, 0, 0])
}
pub fn c10_x_p_w1_38<S: Src>(s: &mut S) {
    plevel_body(s, 1, &[0x10, 0x0d, 0x19], &[0, 0, 1])
}
pub fn c10_x_p_w1_39<S: Src>(s: &mut S) {
    plevel_body(s, 1, &[0x2b, 0x04, 0x00, 0x0f], &[0, 0, 0, 0])
}
pub fn c10_x_p_w1_40<S: Src>(s: &mut S) {
    plevel_body(s, 1, &[0x2a, 0x13], &[0, 0])
}
pub fn c10_x_p_w1_41<S: Src>(s: &mut S) {
    plevel_body(s, 1, &[0x2b, 0x10, 0x2c], &[0, 0, 1])
}
pub fn c10_x_p_w1_42<S: Src>(s: &mut S) {
    plevel_body(s, 1, &[0x17, 0x10, 0x1c, 0x2f], &[0, 2, 0, 0])
}
pub fn c10_x_p_w1_43<S: Src>(s: &mut S) {
    plevel_body(s, 1, &[0x10, 0x07], &[0, 0])
}
pub fn c10_x_p_w1_44<S: Src>(s: &mut S) {
    plevel_body(s, 1, &[0x17, 0x26, 0x1c, 0x1b], &[0, 0, 0, 0])
}
pub fn c10_x_p_w1_45<S: Src>(s: &mut S) {
    plevel_body(s, 1, &[0x26, 0x07], &[0, 0])
}
pub fn c10_x_p_w1_46<S: Src>(s: &mut S) {
    plevel_body(s, 1, &[0x1b, 0x0d], &[0, 0])
}
pub fn c10_x_p_w1_47<S: Src>(s: &mut S) {
    plevel_body(s, 1, &[0x1b, 0x02], &[0, 0])
}
pub fn c10_x_p_w1_48<S: Src>(s: &mut S) {
    plevel_body(s, 1, &[0x0e, 0x08], &[0, 0])
}
pub fn c10_x_p_w1_49<S: Src>(s: &mut S) {
    plevel_body(s, 1, &[0x2e, 0x1a, 0x04], &[0, 0, 0])
}
pub fn c10_x_p_w1_50<S: Src>(s: &mut S) {
    plevel_body(s, 1, &[0x0d, 0x26], &[0, 0])
}
pub fn c10_x_p_w1_51<S: Src>(s: &mut S) {
    plevel_body(s, 1, &[0x19, 0x2f, 0x17], &[1, 0, 0])
}
pub fn c10_x_p_w1_52<S: Src>(s: &mut S) {
    plevel_body(s, 1, &[0x19, 0x10, 0x0f], &[1, 5, 0])
}
pub fn c10_x_p_w1_53<S: Src>(s: &mut S) {
    plevel_body(s, 1, &[0x10, 0x2b], &[0, 0])
}
pub fn c10_x_p_w1_54<S: Src>(s: &mut S) {
    plevel_body(s, 1, &[0x12, 0x1c, 0x2c, 0x19], &[1, 0, 1, 1])
}
pub fn c10_x_p_w1_55<S: Src>(s: &mut S) {
    plevel_body(s, 1, &[0x2c, 0x13, 0x2f], &[1, 0, 0])
}
pub fn c10_x_p_w1_56<S: Src>(s: &mut S) {
    plevel_body(s, 1, &[0x2a, 0x1b], &[0, 0])
}
pub fn c10_x_p_w1_57<S: Src>(s: &mut S) {
    plevel_body(s, 1, &[0x12, 0x2e], &[1, 0])
}
pub fn c10_x_p_w1_58<S: Src>(s: &mut S) {
    plevel_body(s, 1, &[0x0e, 0x2e], &[0, 0])
}
pub fn c10_x_p_w1_59<S: Src>(s: &mut S) {
    plevel_body(s, 1, &[0x08, 0x0e, 0x21, 0x00], &[0, 0, 0, 0])
}
pub fn c10_x_p_w1_60<S: Src>(s: &mut S) {
    plevel_body(s, 1, &[0x0f, 0x30], &[0, 0])
}
pub fn c10_x_p_w1_61<S: Src>(s: &mut S) {
    plevel_body(s, 1, &[0x10, 0x2e], &[0, 0])
}
pub fn c10_x_p_w1_62<S: Src>(s: &mut S) {
    plevel_body(s, 1, &[0x12, 0x07, 0x02, 0x26], &[1, 0, 0, 0])
}
pub fn c10_x_p_w1_63<S: Src>(s: &mut S) {
    plevel_body(s, 1, &[0x11, 0x2f], &[0, 0])
}
pub fn c10_x_p_w1_64<S: Src>(s: &mut S) {
    plevel_body(s, 1, &[0x1b, 0x16], &[0, 0])
}
pub fn c10_x_p_w1_65<S: Src>(s: &mut S) {
    plevel_body(s, 1, &[0x2a, 0x1c, 0x00], &[0, 0, 0])
}
pub fn c10_x_p_w1_66<S: Src>(s: &mut S) {
    plevel_body(s, 1, &[0x1b, 0x17], &[0, 0])
}
pub fn c10_x_p_w1_67<S: Src>(s: &mut S) {
    plevel_body(s, 1, &[0x1a, 0x11], &[0, 0])
}
pub fn c10_x_p_w1_68<S: Src>(s: &mut S) {
    plevel_body(s, 1, &[0x21, 0x0f, 0x04], &[0, 0, 0])
}
pub fn c10_x_p_w1_69<S: Src>(s: &mut S) {
    plevel_body(s, 1, &[0x17, 0x21, 0x11], &[0, 0, 0])
}
pub fn c10_x_p_w2_00<S: Src>(s: &mut S) {
    plevel_body(s, 2, &[0x0d], &[0])
}
pub fn c10_x_p_w2_01<S: Src>(s: &mut S) {
    plevel_body(s, 2, &[0x0e], &[0])
}
pub fn c10_x_p_w2_02<S: Src>(s: &mut S) {
    plevel_body(s, 2, &[0x10], &[2])
}
pub fn c10_x_p_w2_03<S: Src>(s: &mut S) {
    plevel_body(s, 2, &[0x10], &[5])
}
pub fn c10_x_p_w2_04<S: Src>(s: &mut S) {
    plevel_body(s, 2, &[0x10], &[0])
}
pub fn c10_x_p_w2_05<S: Src>(s: &mut S) {
    plevel_body(s, 2, &[0x11], &[0])
}
pub fn c10_x_p_w2_06<S: Src>(s: &mut S) {
    plevel_body(s, 2, &[0x12], &[1])
}
pub fn c10_x_p_w2_07<S: Src>(s: &mut S) {
    plevel_body(s, 2, &[0x13], &[0])
}
pub fn c10_x_p_w2_08<S: Src>(s: &mut S) {
    plevel_body(s, 2, &[0x16], &[0])
}
pub fn c10_x_p_w2_09<S: Src>(s: &mut S) {
    plevel_body(s, 2, &[0x17], &[0])
}
pub fn c10_x_p_w2_10<S: Src>(s: &mut S) {
    plevel_body(s, 2, &[0x19], &[1])
}
pub fn c10_x_p_w2_11<S: Src>(s: &mut S) {
    plevel_body(s, 2, &[0x1a], &[0])
}
pub fn c10_x_p_w2_12<S: Src>(s: &mut S) {
    plevel_body(s, 2, &[0x1b], &[0])
}
pub fn c10_x_p_w2_13<S: Src>(s: &mut S) {
    plevel_body(s, 2, &[0x1c], &[0])
}
pub fn c10_x_p_w2_14<S: Src>(s: &mut S) {
    plevel_body(s, 2, &[0x21], &[0])
}
pub fn c10_x_p_w2_15<S: Src>(s: &mut S) {
    plevel_body(s, 2, &[0x0f], &[0])
}
pub fn c10_x_p_w2_16<S: Src>(s: &mut S) {
    plevel_body(s, 2, &[0x26], &[0])
}
pub fn c10_x_p_w2_17<S: Src>(s: &mut S) {
    plevel_body(s, 2, &[0x2a], &[0])
}
pub fn c10_x_p_w2_18<S: Src>(s: &mut S) {
    plevel_body(s, 2, &[0x2b], &[0])
}
pub fn c10_x_p_w2_19<S: Src>(s: &mut S) {
    plevel_body(s, 2, &[0x2c], &[1])
}
pub fn c10_x_p_w2_20<S: Src>(s: &mut S) {
    plevel_body(s, 2, &[0x2e], &[0])
}
pub fn c10_x_p_w2_21<S: Src>(s: &mut S) {
    plevel_body(s, 2, &[0x2f], &[0])
}
pub fn c10_x_p_w2_22<S: Src>(s: &mut S) {
    plevel_body(s, 2, &[0x30], &[0])
}
pub fn c10_x_p_w2_23<S: Src>(s: &mut S) {
    plevel_body(s, 2, &[0x31], &[0])
}
pub fn c10_x_p_w2_24<S: Src>(s: &mut S) {
    plevel_body(s, 2, &[0x04], &[0])
}
pub fn c10_x_p_w2_25<S: Src>(s: &mut S) {
    plevel_body(s, 2, &[0x07], &[0])
}
pub fn c10_x_p_w2_26<S: Src>(s: &mut S) {
    plevel_body(s, 2, &[0x08], &[0])
}
pub fn c10_x_p_w2_27<S: Src>(s: &mut S) {
    plevel_body(s, 2, &[0x00], &[0])
}
pub fn c10_x_p_w2_28<S: Src>(s: &mut S) {
    plevel_body(s, 2, &[0x02], &[0])
}
pub fn c10_x_p_w2_29<S: Src>(s: &mut S) {
    plevel_body(s, 2, &[0x26, 0x0f, 0x21], &[0, 0, 0])
}
pub fn c10_x_p_w2_30<S: Src>(s: &mut S) {
    plevel_body(s, 2, &[0x26, 0x07], &[0, 0])
}
pub fn c10_x_p_w2_31<S: Src>(s: &mut S) {
    plevel_body(s, 2, &[0x07, 0x16, 0x08, 0x10], &[0, 0, 0, 5])
}
pub fn c10_x_p_w2_32<S: Src>(s: &mut S) {
    plevel_body(s, 2, &[0x13, 0x0d], &[0, 0])
}
pub fn c10_x_p_w2_33<S: Src>(s: &mut S) {
    plevel_body(s, 2, &[0x02, 0x21], &[0, 0])
}
pub fn c10_x_p_w2_34<S: Src>(s: &mut S) {
    plevel_body(s, 2, &[0x1c, 0x2a, 0x07], &[0, 0, 0])
}
pub fn c10_x_p_w2_35<S: Src>(s: &mut S) {
    plevel_body(s, 2, &[0x0d, 0x1a], &[0, 0])
}
pub fn c10_x_p_w2_36<S: Src>(s: &mut S) {
    plevel_body(s, 2, &[0x1a, 0x2a], &[0, 0])
}
pub fn c10_x_p_w2_37<S: Src>(s: &mut S) {
    plevel_body(s, 2, &[0x07, 0x2a, 0x12, 0x10], &[0, 0, 1, 5])
}
pub fn c10_x_p_w2_38<S: Src>(s: &mut S) {
    plevel_body(s, 2, &[0x30, 0x16, 0x2a, 0x04], &[0, 0, 0, 0])
}
pub fn c10_x_p_w2_39<S: Src>(s: &mut S) {
    plevel_body(s, 2, &[0x31, 0x12, 0x2b, 0x17], &[0, 1, 0, 0])
}
pub fn c10_x_p_w2_40<S: Src>(s: &mut S) {
    plevel_body(s, 2, &[0x16, 0x2f, 0x2a, 0x10], &[0, 0, 0, 0])
}
pub fn c10_x_p_w2_41<S: Src>(s: &mut S) {
    plevel_body(s, 2, &[0x07, 0x16], &[0, 0])
}
pub fn c10_x_p_w2_42<S: Src>(s: &mut S) {
    plevel_body(s, 2, &[0x1c, 0x11], &[0, 0])
}
pub fn c10_x_p_w2_43<S: Src>(s: &mut S) {
    plevel_body(s, 2, &[0x2f, 0x0e], &[0, 0])
}
pub fn c10_x_p_w2_44<S: Src>(s: &mut S) {
    plevel_body(s, 2, &[0x31, 0x07, 0x11], &[0, 0, 0])
}
pub fn c10_x_p_w2_45<S: Src>(s: &mut S) {
    plevel_body(s, 2, &[0x26, 0x19], &[0, 1])
}
pub fn c10_x_p_w2_46<S: Src>(s: &mut S) {
    plevel_body(s, 2, &[0x2b, 0x08, 0x10], &[0, 0, 2])
}
pub fn c10_x_p_w2_47<S: Src>(s: &mut S) {
    plevel_body(s, 2, &[0x19, 0x11, 0x16], &[1, 0, 0])
}
pub fn c10_x_p_w2_48<S: Src>(s: &mut S) {
    plevel_body(s, 2, &[0x10, 0x0d, 0x1c], &[2, 0, 0])
}
pub fn c10_x_p_w2_49<S: Src>(s: &mut S) {
    plevel_body(s, 2, &[0x1c, 0x0d, 0x0e], &[0, 0, 0])
}
pub fn c10_x_p_w2_50<S: Src>(s: &mut S) {
    plevel_body(s, 2, &[0x10, 0x10, 0x2f], &[5, 5, 0])
}
pub fn c10_x_p_w2_51<S: Src>(s: &mut S) {
    plevel_body(s, 2, &[0x2b, 0x00, 0x1a, 0x19], &[0, 0, 0, 1])
}
pub fn c10_x_p_w2_52<S: Src>(s: &mut S) {
    plevel_body(s, 2, &[0x2c, 0x2e, 0x2e], &[1, 0, 0])
}
pub fn c10_x_p_w2_53<S: Src>(s: &mut S) {
    plevel_body(s, 2, &[0x0e, 0x1b, 0x19, 0x2c], &[0, 0, 1, 1])
}
pub fn c10_x_p_w2_54<S: Src>(s: &mut S) {
    plevel_body(s, 2, &[0x2c, 0x21], &[1, 0])
}
pub fn c10_x_p_w2_55<S: Src>(s: &mut S) {
    plevel_body(s, 2, &[0x2f, 0x02, 0x10], &[0, 0, 5])
}
pub fn c10_x_p_w2_56<S: Src>(s: &mut S) {
    plevel_body(s, 2, &[0x00, 0x26, 0x2f], &[0, 0, 0])
}
pub fn c10_x_p_w2_57<S: Src>(s: &mut S) {
    plevel_body(s, 2, &[0x1b, 0x17, 0x08], &[0, 0, 0])
}
pub fn c10_x_p_w2_58<S: Src>(s: &mut S) {
    plevel_body(s, 2, &[0x0e, 0x31, 0x30], &[0, 0, 0])
}
pub fn c10_x_p_w2_59<S: Src>(s: &mut S) {
    plevel_body(s, 2, &[0x02, 0x0d, 0x17], &[0, 0, 0])
}
pub fn c10_x_p_w2_60<S: Src>(s: &mut S) {
    plevel_body(s, 2, &[0x17, 0x31, 0x04], &[0, 0, 0])
}
pub fn c10_x_p_w2_61<S: Src>(s: &mut S) {
    plevel_body(s, 2, &[0x17, 0x04], &[0, 0])
}
pub fn c10_x_p_w2_62<S: Src>(s: &mut S) {
    plevel_body(s, 2, &[0x19, 0x2b, 0x02], &[1, 0, 0])
}
pub fn c10_x_p_w2_63<S: Src>(s: &mut S) {
    plevel_body(s, 2, &[0x2a, 0x19], &[0, 1])
}
pub fn c10_x_p_w2_64<S: Src>(s: &mut S) {
    plevel_body(s, 2, &[0x2a, 0x0e], &[0, 0])
}
pub fn c10_x_p_w2_65<S: Src>(s: &mut S) {
    plevel_body(s, 2, &[0x11, 0x2c], &[0, 1])
}
pub fn c10_x_p_w2_66<S: Src>(s: &mut S) {
    plevel_body(s, 2, &[0x10, 0x0e], &[5, 0])
}
pub fn c10_x_p_w2_67<S: Src>(s: &mut S) {
    plevel_body(s, 2, &[0x26, 0x1a], &[0, 0])
}
pub fn c10_x_p_w2_68<S: Src>(s: &mut S) {
    plevel_body(s, 2, &[0x2e, 0x2e, 0x17, 0x0d], &[0, 0, 0, 0])
}
pub fn c10_x_p_w2_69<S: Src>(s: &mut S) {
    plevel_body(s, 2, &[0x2b, 0x10, 0x1a], &[0, 0, 0])
}
pub fn c10_x_p_w3_00<S: Src>(s: &mut S) {
    plevel_body(s, 3, &[0x0d], &[0])
}
pub fn c10_x_p_w3_01<S: Src>(s: &mut S) {
    plevel_body(s, 3, &[0x0e], &[0])
}
pub fn c10_x_p_w3_02<S: Src>(s: &mut S) {
    plevel_body(s, 3, &[0x10], &[2])
}
pub fn c10_x_p_w3_03<S: Src>(s: &mut S) {
    plevel_body(s, 3, &[0x10], &[5])
}
pub fn c10_x_p_w3_04<S: Src>(s: &mut S) {
    plevel_body(s, 3, &[0x10], &[0])
}
pub fn c10_x_p_w3_05<S: Src>(s: &mut S) {
    plevel_body(s, 3, &[0x11], &[0])
}
pub fn c10_x_p_w3_06<S: Src>(s: &mut S) {
    plevel_body(s, 3, &[0x12], &[1])
}
pub fn c10_x_p_w3_07<S: Src>(s: &mut S) {
    plevel_body(s, 3, &[0x13], &[0])
}
pub fn c10_x_p_w3_08<S: Src>(s: &mut S) {
    plevel_body(s, 3, &[0x16], &[0])
}
pub fn c10_x_p_w3_09<S: Src>(s: &mut S) {
    plevel_body(s, 3, &[0x17], &[0])
}
pub fn c10_x_p_w3_10<S: Src>(s: &mut S) {
    plevel_body(s, 3, &[0x19], &[1])
}
pub fn c10_x_p_w3_11<S: Src>(s: &mut S) {
    plevel_body(s, 3, &[0x1a], &[0])
}
pub fn c10_x_p_w3_12<S: Src>(s: &mut S) {
    plevel_body(s, 3, &[0x1b], &[0])
}
pub fn c10_x_p_w3_13<S: Src>(s: &mut S) {
    plevel_body(s, 3, &[0x1c], &[0])
}
pub fn c10_x_p_w3_14<S: Src>(s: &mut S) {
    plevel_body(s, 3, &[0x21], &[0])
}
pub fn c10_x_p_w3_15<S: Src>(s: &mut S) {
    plevel_body(s, 3, &[0x0f], &[0])
}
pub fn c10_x_p_w3_16<S: Src>(s: &mut S) {
    plevel_body(s, 3, &[0x26], &[0])
}
pub fn c10_x_p_w3_17<S: Src>(s: &mut S) {
    plevel_body(s, 3, &[0x2a], &[0])
}
pub fn c10_x_p_w3_18<S: Src>(s: &mut S) {
    plevel_body(s, 3, &[0x2b], &[0])
}
pub fn c10_x_p_w3_19<S: Src>(s: &mut S) {
    plevel_body(s, 3, &[0x2c], &[1])
}
pub fn c10_x_p_w3_20<S: Src>(s: &mut S) {
    plevel_body(s, 3, &[0x2e], &[0])
}
pub fn c10_x_p_w3_21<S: Src>(s: &mut S) {
    plevel_body(s, 3, &[0x2f], &[0])
}
pub fn c10_x_p_w3_22<S: Src>(s: &mut S) {
    plevel_body(s, 3, &[0x30], &[0])
}
pub fn c10_x_p_w3_23<S: Src>(s: &mut S) {
    plevel_body(s, 3, &[0x31], &[0])
}
pub fn c10_x_p_w3_24<S: Src>(s: &mut S) {
    plevel_body(s, 3, &[0x04], &[0])
}
pub fn c10_x_p_w3_25<S: Src>(s: &mut S) {
    plevel_body(s, 3, &[0x07], &[0])
}
pub fn c10_x_p_w3_26<S: Src>(s: &mut S) {
    plevel_body(s, 3, &[0x08], &[0])
}
pub fn c10_x_p_w3_27<S: Src>(s: &mut S) {
    plevel_body(s, 3, &[0x00], &[0])
}
pub fn c10_x_p_w3_28<S: Src>(s: &mut S) {
    plevel_body(s, 3, &[0x02], &[0])
}
pub fn c10_x_p_w3_29<S: Src>(s: &mut S) {
    plevel_body(s, 3, &[0x1b, 0x1b, 0x13], &[0, 0, 0])
}
pub fn c10_x_p_w3_30<S: Src>(s: &mut S) {
    plevel_body(s, 3, &[0x2f, 0x13, 0x04], &[0, 0, 0])
}
pub fn c10_x_p_w3_31<S: Src>(s: &mut S) {
    plevel_body(s, 3, &[0x11, 0x2a], &[0, 0])
}
pub fn c10_x_p_w3_32<S: Src>(s: &mut S) {
    plevel_body(s, 3, &[0x2f, 0x30], &[0, 0])
}
pub fn c10_x_p_w3_33<S: Src>(s: &mut S) {
    plevel_body(s, 3, &[0x2f, 0x2a, 0x1b, 0x02], &[0, 0, 0, 0])
}
pub fn c10_x_p_w3_34<S: Src>(s: &mut S) {
    plevel_body(s, 3, &[0x07, 0x10, 0x13], &[0, 0, 0])
}
pub fn c10_x_p_w3_35<S: Src>(s: &mut S) {
    plevel_body(s, 3, &[0x0d, 0x16], &[0, 0])
}
pub fn c10_x_p_w3_36<S: Src>(s: &mut S) {
    plevel_body(s, 3, &[0x0f, 0x1c, 0x16, 0x19], &[0, 0, 0, 1])
}
pub fn c10_x_p_w3_37<S: Src>(s: &mut S) {
    plevel_body(s, 3, &[0x2e, 0x2b], &[0, 0])
}
pub fn c10_x_p_w3_38<S: Src>(s: &mut S) {
    plevel_body(s, 3, &[0x08, 0x11], &[0, 0])
}
pub fn c10_x_p_w3_39<S: Src>(s: &mut S) {
    plevel_body(s, 3, &[0x0e, 0x2e, 0x00, 0x08], &[0, 0, 0, 0])
}
pub fn c10_x_p_w3_40<S: Src>(s: &mut S) {
    plevel_body(s, 3, &[0x08, 0x16, 0x19, 0x2e], &[0, 0, 1, 0])
}
pub fn c10_x_p_w3_41<S: Src>(s: &mut S) {
    plevel_body(s, 3, &[0x04, 0x31, 0x19, 0x0e], &[0, 0, 1, 0])
}
pub fn c10_x_p_w3_42<S: Src>(s: &mut S) {
    plevel_body(s, 3, &[0x2e, 0x13], &[0, 0])
}
pub fn c10_x_p_w3_43<S: Src>(s: &mut S) {
    plevel_body(s, 3, &[0x0e, 0x13, 0x2f], &[0, 0, 0])
}
pub fn c10_x_p_w3_44<S: Src>(s: &mut S) {
    plevel_body(s, 3, &[0x00, 0x10, 0x31, 0x02], &[0, 0, 0, 0])
}
pub fn c10_x_p_w3_45<S: Src>(s: &mut S) {
    plevel_body(s, 3, &[0x30, 0x1a, 0x07], &[0, 0, 0])
}
pub fn c10_x_p_w3_46<S: Src>(s: &mut S) {
    plevel_body(s, 3, &[0x2a, 0x08], &[0, 0])
}
pub fn c10_x_p_w3_47<S: Src>(s: &mut S) {
    plevel_body(s, 3, &[0x19, 0x00, 0x12], &[1, 0, 1])
}
pub fn c10_x_p_w3_48<S: Src>(s: &mut S) {
    plevel_body(s, 3, &[0x1a, 0x21, 0x2e], &[0, 0, 0])
}
pub fn c10_x_p_w3_49<S: Src>(s: &mut S) {
    plevel_body(s, 3, &[0x2a, 0x07, 0x0f], &[0, 0, 0])
}
pub fn c10_x_p_w3_50<S: Src>(s: &mut S) {
    plevel_body(s, 3, &[0x17, 0x12, 0x11, 0x2e], &[0, 1, 0, 0])
}
pub fn c10_x_p_w3_51<S: Src>(s: &mut S) {
    plevel_body(s, 3, &[0x10, 0x0f, 0x02], &[0, 0, 0])
}
pub fn c10_x_p_w3_52<S: Src>(s: &mut S) {
    plevel_body(s, 3, &[0x1a, 0x08], &[0, 0])
}
pub fn c10_x_p_w3_53<S: Src>(s: &mut S) {
    plevel_body(s, 3, &[0x30, 0x1c, 0x07, 0x0e], &[0, 0, 0, 0])
}
pub fn c10_x_p_w3_54<S: Src>(s: &mut S) {
    plevel_body(s, 3, &[0x10, 0x17], &[2, 0])
}
pub fn c10_x_p_w3_55<S: Src>(s: &mut S) {
    plevel_body(s, 3, &[0x2a, 0x31, 0x16], &[0, 0, 0])
}
pub fn c10_x_p_w3_56<S: Src>(s: &mut S) {
    plevel_body(s, 3, &[0x30, 0x31], &[0, 0])
}
pub fn c10_x_p_w3_57<S: Src>(s: &mut S) {
    plevel_body(s, 3, &[0x02, 0x0d], &[0, 0])
}
pub fn c10_x_p_w3_58<S: Src>(s: &mut S) {
    plevel_body(s, 3, &[0x12, 0x00, 0x00, 0x30], &[1, 0, 0, 0])
}
pub fn c10_x_p_w3_59<S: Src>(s: &mut S) {
    plevel_body(s, 3, &[0x17, 0x2b, 0x0e, 0x1b], &[0, 0, 0, 0])
}
pub fn c10_x_p_w3_60<S: Src>(s: &mut S) {
    plevel_body(s, 3, &[0x2a, 0x26, 0x07], &[0, 0, 0])
}
pub fn c10_x_p_w3_61<S: Src>(s: &mut S) {
    plevel_body(s, 3, &[0x26, 0x10], &[0, 5])
}
pub fn c10_x_p_w3_62<S: Src>(s: &mut S) {
    plevel_body(s, 3, &[0x10, 0x31], &[0, 0])
}
pub fn c10_x_p_w3_63<S: Src>(s: &mut S) {
    plevel_body(s, 3, &[0x19, 0x2a, 0x16], &[1, 0, 0])
}
pub fn c10_x_p_w3_64<S: Src>(s: &mut S) {
    plevel_body(s, 3, &[0x0e, 0x31, 0x2b], &[0, 0, 0])
}
pub fn c10_x_p_w3_65<S: Src>(s: &mut S) {
    plevel_body(s, 3, &[0x11, 0x02], &[0, 0])
}
pub fn c10_x_p_w3_66<S: Src>(s: &mut S) {
    plevel_body(s, 3, &[0x17, 0x2a, 0x17], &[0, 0, 0])
}
pub fn c10_x_p_w3_67<S: Src>(s: &mut S) {
    plevel_body(s, 3, &[0x10, 0x1b, 0x12], &[0, 0, 1])
}
pub fn c10_x_p_w3_68<S: Src>(s: &mut S) {
    plevel_body(s, 3, &[0x00, 0x2c], &[0, 1])
}
pub fn c10_x_p_w3_69<S: Src>(s: &mut S) {
    plevel_body(s, 3, &[0x1c, 0x1a, 0x07], &[0, 0, 0])
}
pub fn c10_x_p_w4_00<S: Src>(s: &mut S) {
    plevel_body(s, 4, &[0x0d], &[0])
}
pub fn c10_x_p_w4_01<S: Src>(s: &mut S) {
    plevel_body(s, 4, &[0x0e], &[0])
}
pub fn c10_x_p_w4_02<S: Src>(s: &mut S) {
    plevel_body(s, 4, &[0x10], &[2])
}
pub fn c10_x_p_w4_03<S: Src>(s: &mut S) {
    plevel_body(s, 4, &[0x10], &[5])
}
pub fn c10_x_p_w4_04<S: Src>(s: &mut S) {
    plevel_body(s, 4, &[0x10], &[0])
}
pub fn c10_x_p_w4_05<S: Src>(s: &mut S) {
    plevel_body(s, 4, &[0x11], &[0])
}
pub fn c10_x_p_w4_06<S: Src>(s: &mut S) {
    plevel_body(s, 4, &[0x12], &[1])
}
pub fn c10_x_p_w4_07<S: Src>(s: &mut S) {
    plevel_body(s, 4, &[0x13], &[0])
}
pub fn c10_x_p_w4_08<S: Src>(s: &mut S) {
    plevel_body(s, 4, &[0x16], &[0])
}
pub fn c10_x_p_w4_09<S: Src>(s: &mut S) {
    plevel_body(s, 4, &[0x17], &[0])
}
pub fn c10_x_p_w4_10<S: Src>(s: &mut S) {
    plevel_body(s, 4, &[0x19], &[1])
}
pub fn c10_x_p_w4_11<S: Src>(s: &mut S) {
    plevel_body(s, 4, &[0x1a], &[0])
}
pub fn c10_x_p_w4_12<S: Src>(s: &mut S) {
    plevel_body(s, 4, &[0x1b], &[0])
}
pub fn c10_x_p_w4_13<S: Src>(s: &mut S) {
    plevel_body(s, 4, &[0x1c], &[0])
}
pub fn c10_x_p_w4_14<S: Src>(s: &mut S) {
    plevel_body(s, 4, &[0x21], &[0])
}
pub fn c10_x_p_w4_15<S: Src>(s: &mut S) {
    plevel_body(s, 4, &[0x0f], &[0])
}
pub fn c10_x_p_w4_16<S: Src>(s: &mut S) {
    plevel_body(s, 4, &[0x26], &[0])
}
pub fn c10_x_p_w4_17<S: Src>(s: &mut S) {
    plevel_body(s, 4, &[0x2a], &[0])
}
pub fn c10_x_p_w4_18<S: Src>(s: &mut S) {
    plevel_body(s, 4, &[0x2b], &[0])
}
pub fn c10_x_p_w4_19<S: Src>(s: &mut S) {
    plevel_body(s, 4, &[0x2c], &[1])
}
pub fn c10_x_p_w4_20<S: Src>(s: &mut S) {
    plevel_body(s, 4, &[0x2e], &[0])
}
pub fn c10_x_p_w4_21<S: Src>(s: &mut S) {
    plevel_body(s, 4, &[0x2f], &[0])
}
pub fn c10_x_p_w4_22<S: Src>(s: &mut S) {
    plevel_body(s, 4, &[0x30], &[0])
}
pub fn c10_x_p_w4_23<S: Src>(s: &mut S) {
    plevel_body(s, 4, &[0x31], &[0])
}
pub fn c10_x_p_w4_24<S: Src>(s: &mut S) {
    plevel_body(s, 4, &[0x04], &[0])
}
pub fn c10_x_p_w4_25<S: Src>(s: &mut S) {
    plevel_body(s, 4, &[0x07], &[0])
}
pub fn c10_x_p_w4_26<S: Src>(s: &mut S) {
    plevel_body(s, 4, &[0x08], &[0])
}
pub fn c10_x_p_w4_27<S: Src>(s: &mut S) {
    plevel_body(s, 4, &[0x00], &[0])
}
pub fn c10_x_p_w4_28<S: Src>(s: &mut S) {
    plevel_body(s, 4, &[0x02], &[0])
}
pub fn c10_x_p_w4_29<S: Src>(s: &mut S) {
    plevel_body(s, 4, &[0x11, 0x31, 0x26, 0x0d], &[0, 0, 0, 0])
}
pub fn c10_x_p_w4_30<S: Src>(s: &mut S) {
    plevel_body(s, 4, &[0x19, 0x2a], &[1, 0])
}
pub fn c10_x_p_w4_31<S: Src>(s: &mut S) {
    plevel_body(s, 4, &[0x11, 0x0d], &[0, 0])
}
pub fn c10_x_p_w4_32<S: Src>(s: &mut S) {
    plevel_body(s, 4, &[0x26, 0x2f], &[0, 0])
}
pub fn c10_x_p_w4_33<S: Src>(s: &mut S) {
    plevel_body(s, 4, &[0x08, 0x1a], &[0, 0])
}
pub fn c10_x_p_w4_34<S: Src>(s: &mut S) {
    plevel_body(s, 4, &[0x1a, 0x17], &[0, 0])
}
pub fn c10_x_p_w4_35<S: Src>(s: &mut S) {
    plevel_body(s, 4, &[0x2a, 0x10], &[0, 0])
}
pub fn c10_x_p_w4_36<S: Src>(s: &mut S) {
    plevel_body(s, 4, &[0x2c, 0x13, 0x10, 0x10], &[1, 0, 0, 5])
}
pub fn c10_x_p_w4_37<S: Src>(s: &mut S) {
    plevel_body(s, 4, &[0x0f, 0x10, 0x00], &[0, 5, 0])
}
pub fn c10_x_p_w4_38<S: Src>(s: &mut S) {
    plevel_body(s, 4, &[0x1b, 0x16], &[0, 0])
}
pub fn c10_x_p_w4_39<S: Src>(s: &mut S) {
    plevel_body(s, 4, &[0x17, 0x2e, 0x10, 0x1a], &[0, 0, 5, 0])
}
pub fn c10_x_p_w4_40<S: Src>(s: &mut S) {
    plevel_body(s, 4, &[0x0f, 0x10, 0x2a], &[0, 5, 0])
}
pub fn c10_x_p_w4_41<S: Src>(s: &mut S) {
    plevel_body(s, 4, &[0x13, 0x08, 0x1a, 0x2f], &[0, 0, 0, 0])
}
pub fn c10_x_p_w4_42<S: Src>(s: &mut S) {
    plevel_body(s, 4, &[0x2b, 0x1a, 0x10], &[0, 0, 2])
}
pub fn c10_x_p_w4_43<S: Src>(s: &mut S) {
    plevel_body(s, 4, &[0x04, 0x10], &[0, 2])
}
pub fn c10_x_p_w4_44<S: Src>(s: &mut S) {
    plevel_body(s, 4, &[0x04, 0x17, 0x16], &[0, 0, 0])
}
pub fn c10_x_p_w4_45<S: Src>(s: &mut S) {
    plevel_body(s, 4, &[0x11, 0x19], &[0, 1])
}
pub fn c10_x_p_w4_46<S: Src>(s: &mut S) {
    plevel_body(s, 4, &[0x26, 0x2a, 0x19], &[0, 0, 1])
}
pub fn c10_x_p_w4_47<S: Src>(s: &mut S) {
    plevel_body(s, 4, &[0x02, 0x31, 0x2f], &[0, 0, 0])
}
pub fn c10_x_p_w4_48<S: Src>(s: &mut S) {
    plevel_body(s, 4, &[0x1b, 0x19, 0x11], &[0, 1, 0])
}
pub fn c10_x_p_w4_49<S: Src>(s: &mut S) {
    plevel_body(s, 4, &[0x07, 0x21], &[0, 0])
}
pub fn c10_x_p_w4_50<S: Src>(s: &mut S) {
    plevel_body(s, 4, &[0x00, 0x30], &[0, 0])
}
pub fn c10_x_p_w4_51<S: Src>(s: &mut S) {
    plevel_body(s, 4, &[0x04, 0x07, 0x1a], &[0, 0, 0])
}
pub fn c10_x_p_w4_52<S: Src>(s: &mut S) {
    plevel_body(s, 4, &[0x08, 0x07, 0x2b], &[0, 0, 0])
}
pub fn c10_x_p_w4_53<S: Src>(s: &mut S) {
    plevel_body(s, 4, &[0x12, 0x10, 0x21], &[1, 0, 0])
}
pub fn c10_x_p_w4_54<S: Src>(s: &mut S) {
    plevel_body(s, 4, &[0x2f, 0x31, 0x10, 0x1c], &[0, 0, 0, 0])
}
pub fn c10_x_p_w4_55<S: Src>(s: &mut S) {
    plevel_body(s, 4, &[0x19, 0x08, 0x10], &[1, 0, 5])
}
pub fn c10_x_p_w4_56<S: Src>(s: &mut S) {
    plevel_body(s, 4, &[0x16, 0x08, 0x00], &[0, 0, 0])
}
pub fn c10_x_p_w4_57<S: Src>(s: &mut S) {
    plevel_body(s, 4, &[0x16, 0x10, 0x2a], &[0, 0, 0])
}
pub fn c10_x_p_w4_58<S: Src>(s: &mut S) {
    plevel_body(s, 4, &[0x13, 0x19, 0x10], &[0, 1, 0])
}
pub fn c10_x_p_w4_59<S: Src>(s: &mut S) {
    plevel_body(s, 4, &[0x04, 0x10, 0x16, 0x17], &[0, 5, 0, 0])
}
pub fn c10_x_p_w4_60<S: Src>(s: &mut S) {
    plevel_body(s, 4, &[0x21, 0x2e, 0x1b, 0x1b], &[0, 0, 0, 0])
}
pub fn c10_x_p_w4_61<S: Src>(s: &mut S) {
    plevel_body(s, 4, &[0x2a, 0x30], &[0, 0])
}
pub fn c10_x_p_w4_62<S: Src>(s: &mut S) {
    plevel_body(s, 4, &[0x2f, 0x1c, 0x19], &[0, 0, 1])
}
pub fn c10_x_p_w4_63<S: Src>(s: &mut S) {
    plevel_body(s, 4, &[0x2f, 0x04], &[0, 0])
}
pub fn c10_x_p_w4_64<S: Src>(s: &mut S) {
    plevel_body(s, 4, &[0x2f, 0x00, 0x2e], &[0, 0, 0])
}
pub fn c10_x_p_w4_65<S: Src>(s: &mut S) {
    plevel_body(s, 4, &[0x26, 0x12, 0x1c, 0x1a], &[0, 1, 0, 0])
}
pub fn c10_x_p_w4_66<S: Src>(s: &mut S) {
    plevel_body(s, 4, &[0x0e, 0x1b, 0x31], &[0, 0, 0])
}
pub fn c10_x_p_w4_67<S: Src>(s: &mut S) {
    plevel_body(s, 4, &[0x0d, 0x16], &[0, 0])
}
pub fn c10_x_p_w4_68<S: Src>(s: &mut S) {
    plevel_body(s, 4, &[0x30, 0x16, 0x10, 0x19], &[0, 0, 0, 1])
}
pub fn c10_x_p_w4_69<S: Src>(s: &mut S) {
    plevel_body(s, 4, &[0x2e, 0x2c, 0x1c, 0x08], &[0, 1, 0, 0])
}
pub fn c10_x_p_w5_00<S: Src>(s: &mut S) {
    plevel_body(s, 5, &[0x0d], &[0])
}
pub fn c10_x_p_w5_01<S: Src>(s: &mut S) {
    plevel_body(s, 5, &[0x0e], &[0])
}
pub fn c10_x_p_w5_02<S: Src>(s: &mut S) {
    plevel_body(s, 5, &[0x10], &[2])
}
pub fn c10_x_p_w5_03<S: Src>(s: &mut S) {
    plevel_body(s, 5, &[0x10], &[5])
}
pub fn c10_x_p_w5_04<S: Src>(s: &mut S) {
    plevel_body(s, 5, &[0x10], &[0])
}
pub fn c10_x_p_w5_05<S: Src>(s: &mut S) {
    plevel_body(s, 5, &[0x11], &[0])
}
pub fn c10_x_p_w5_06<S: Src>(s: &mut S) {
    plevel_body(s, 5, &[0x12], &[1])
}
pub fn c10_x_p_w5_07<S: Src>(s: &mut S) {
    plevel_body(s, 5, &[0x13], &[0])
}
pub fn c10_x_p_w5_08<S: Src>(s: &mut S) {
    plevel_body(s, 5, &[0x16], &[0])
}
pub fn c10_x_p_w5_09<S: Src>(s: &mut S) {
    plevel_body(s, 5, &[0x17], &[0])
}
pub fn c10_x_p_w5_10<S: Src>(s: &mut S) {
    plevel_body(s, 5, &[0x19], &[1])
}
pub fn c10_x_p_w5_11<S: Src>(s: &mut S) {
    plevel_body(s, 5, &[0x1a], &[0])
}
pub fn c10_x_p_w5_12<S: Src>(s: &mut S) {
    plevel_body(s, 5, &[0x1b], &[0])
}
pub fn c10_x_p_w5_13<S: Src>(s: &mut S) {
    plevel_body(s, 5, &[0x1c], &[0])
}
pub fn c10_x_p_w5_14<S: Src>(s: &mut S) {
    plevel_body(s, 5, &[0x21], &[0])
}
pub fn c10_x_p_w5_15<S: Src>(s: &mut S) {
    plevel_body(s, 5, &[0x0f], &[0])
}
pub fn c10_x_p_w5_16<S: Src>(s: &mut S) {
    plevel_body(s, 5, &[0x26], &[0])
}
pub fn c10_x_p_w5_17<S: Src>(s: &mut S) {
    plevel_body(s, 5, &[0x2a], &[0])
}
pub fn c10_x_p_w5_18<S: Src>(s: &mut S) {
    plevel_body(s, 5, &[0x2b], &[0])
}
pub fn c10_x_p_w5_19<S: Src>(s: &mut S) {
    plevel_body(s, 5, &[0x2c], &[1])
}
pub fn c10_x_p_w5_20<S: Src>(s: &mut S) {
    plevel_body(s, 5, &[0x2e], &[0])
}
pub fn c10_x_p_w5_21<S: Src>(s: &mut S) {
    plevel_body(s, 5, &[0x2f], &[0])
}
pub fn c10_x_p_w5_22<S: Src>(s: &mut S) {
    plevel_body(s, 5, &[0x30], &[0])
}
pub fn c10_x_p_w5_23<S: Src>(s: &mut S) {
    plevel_body(s, 5, &[0x31], &[0])
}
pub fn c10_x_p_w5_24<S: Src>(s: &mut S) {
    plevel_body(s, 5, &[0x04], &[0])
}
pub fn c10_x_p_w5_25<S: Src>(s: &mut S) {
    plevel_body(s, 5, &[0x07], &[0])
}
pub fn c10_x_p_w5_26<S: Src>(s: &mut S) {
    plevel_body(s, 5, &[0x08], &[0])
}
pub fn c10_x_p_w5_27<S: Src>(s: &mut S) {
    plevel_body(s, 5, &[0x00], &[0])
}
pub fn c10_x_p_w5_28<S: Src>(s: &mut S) {
    plevel_body(s, 5, &[0x02], &[0])
}
pub fn c10_x_p_w5_29<S: Src>(s: &mut S) {
    plevel_body(s, 5, &[0x00, 0x02, 0x0f], &[0, 0, 0])
}
pub fn c10_x_p_w5_30<S: Src>(s: &mut S) {
    plevel_body(s, 5, &[0x0d, 0x0e, 0x04], &[0, 0, 0])
}
pub fn c10_x_p_w5_31<S: Src>(s: &mut S) {
    plevel_body(s, 5, &[0x2e, 0x10], &[0, 5])
}
pub fn c10_x_p_w5_32<S: Src>(s: &mut S) {
    plevel_body(s, 5, &[0x19, 0x0d, 0x04], &[1, 0, 0])
}
pub fn c10_x_p_w5_33<S: Src>(s: &mut S) {
    plevel_body(s, 5, &[0x07, 0x21], &[0, 0])
}
pub fn c10_x_p_w5_34<S: Src>(s: &mut S) {
    plevel_body(s, 5, &[0x16, 0x2c, 0x2e, 0x1a], &[0, 1, 0, 0])
}
pub fn c10_x_p_w5_35<S: Src>(s: &mut S) {
    plevel_body(s, 5, &[0x2a, 0x30], &[0, 0])
}
pub fn c10_x_p_w5_36<S: Src>(s: &mut S) {
    plevel_body(s, 5, &[0x2a, 0x04], &[0, 0])
}
pub fn c10_x_p_w5_37<S: Src>(s: &mut S) {
    plevel_body(s, 5, &[0x10, 0x10], &[5, 0])
}
pub fn c10_x_p_w5_38<S: Src>(s: &mut S) {
    plevel_body(s, 5, &[0x13, 0x21, 0x12], &[0, 0, 1])
}
pub fn c10_x_p_w5_39<S: Src>(s: &mut S) {
    plevel_body(s, 5, &[0x2f, 0x11, 0x30, 0x17], &[0, 0, 0, 0])
}
pub fn c10_x_p_w5_40<S: Src>(s: &mut S) {
    plevel_body(s, 5, &[0x2b, 0x1c], &[0, 0])
}
pub fn c10_x_p_w5_41<S: Src>(s: &mut S) {
    plevel_body(s, 5, &[0x2f, 0x2b, 0x2a, 0x10], &[0, 0, 0, 0])
}
pub fn c10_x_p_w5_42<S: Src>(s: &mut S) {
    plevel_body(s, 5, &[0x0d, 0x16], &[0, 0])
}
pub fn c10_x_p_w5_43<S: Src>(s: &mut S) {
    plevel_body(s, 5, &[0x0e, 0x11, 0x2a], &[0, 0, 0])
}
pub fn c10_x_p_w5_44<S: Src>(s: &mut S) {
    plevel_body(s, 5, &[0x13, 0x0f, 0x2f, 0x2f], &[0, 0, 0, 0])
}
pub fn c10_x_p_w5_45<S: Src>(s: &mut S) {
    plevel_body(s, 5, &[0x19, 0x1a, 0x19], &[1, 0, 1])
}
pub fn c10_x_p_w5_46<S: Src>(s: &mut S) {
    plevel_body(s, 5, &[0x0f, 0x16, 0x0f, 0x02], &[0, 0, 0, 0])
}
pub fn c10_x_p_w5_47<S: Src>(s: &mut S) {
    plevel_body(s, 5, &[0x08, 0x16, 0x0e], &[0, 0, 0])
}
pub fn c10_x_p_w5_48<S: Src>(s: &mut S) {
    plevel_body(s, 5, &[0x10, 0x0d, 0x0f], &[0, 0, 0])
}
pub fn c10_x_p_w5_49<S: Src>(s: &mut S) {
    plevel_body(s, 5, &[0x16, 0x08, 0x04], &[0, 0, 0])
}
pub fn c10_x_p_w5_50<S: Src>(s: &mut S) {
    plevel_body(s, 5, &[0x12, 0x1a, 0x16], &[1, 0, 0])
}
pub fn c10_x_p_w5_51<S: Src>(s: &mut S) {
    plevel_body(s, 5, &[0x08, 0x31, 0x1b, 0x17], &[0, 0, 0, 0])
}
pub fn c10_x_p_w5_52<S: Src>(s: &mut S) {
    plevel_body(s, 5, &[0x2b, 0x0e], &[0, 0])
}
pub fn c10_x_p_w5_53<S: Src>(s: &mut S) {
    plevel_body(s, 5, &[0x00, 0x10, 0x31], &[0, 2, 0])
}
pub fn c10_x_p_w5_54<S: Src>(s: &mut S) {
    plevel_body(s, 5, &[0x2f, 0x2a, 0x04, 0x00], &[0, 0, 0, 0])
}
pub fn c10_x_p_w5_55<S: Src>(s: &mut S) {
    plevel_body(s, 5, &[0x0f, 0x2c, 0x10], &[0, 1, 2])
}
pub fn c10_x_p_w5_56<S: Src>(s: &mut S) {
    plevel_body(s, 5, &[0x26, 0x2c, 0x19, 0x0f], &[0, 1, 1, 0])
}
pub fn c10_x_p_w5_57<S: Src>(s: &mut S) {
    plevel_body(s, 5, &[0x2f, 0x19, 0x1a], &[0, 1, 0])
}
pub fn c10_x_p_w5_58<S: Src>(s: &mut S) {
    plevel_body(s, 5, &[0x10, 0x2a], &[2, 0])
}
pub fn c10_x_p_w5_59<S: Src>(s: &mut S) {
    plevel_body(s, 5, &[0x04, 0x16], &[0, 0])
}
pub fn c10_x_p_w5_60<S: Src>(s: &mut S) {
    plevel_body(s, 5, &[0x26, 0x00, 0x1b, 0x2e], &[0, 0, 0, 0])
}
pub fn c10_x_p_w5_61<S: Src>(s: &mut S) {
    plevel_body(s, 5, &[0x2c, 0x12], &[1, 1])
}
pub fn c10_x_p_w5_62<S: Src>(s: &mut S) {
    plevel_body(s, 5, &[0x21, 0x13], &[0, 0])
}
pub fn c10_x_p_w5_63<S: Src>(s: &mut S) {
    plevel_body(s, 5, &[0x1c, 0x26], &[0, 0])
}
pub fn c10_x_p_w5_64<S: Src>(s: &mut S) {
    plevel_body(s, 5, &[0x10, 0x26, 0x12, 0x07], &[0, 0, 1, 0])
}
pub fn c10_x_p_w5_65<S: Src>(s: &mut S) {
    plevel_body(s, 5, &[0x04, 0x00, 0x30], &[0, 0, 0])
}
pub fn c10_x_p_w5_66<S: Src>(s: &mut S) {
    plevel_body(s, 5, &[0x10, 0x2a, 0x2f], &[0, 0, 0])
}
pub fn c10_x_p_w5_67<S: Src>(s: &mut S) {
    plevel_body(s, 5, &[0x1a, 0x2e, 0x1b], &[0, 0, 0])
}
pub fn c10_x_p_w5_68<S: Src>(s: &mut S) {
    plevel_body(s, 5, &[0x2c, 0x31, 0x2a, 0x12], &[1, 0, 0, 1])
}
pub fn c10_x_p_w5_69<S: Src>(s: &mut S) {
    plevel_body(s, 5, &[0x2c, 0x2a], &[1, 0])
}
pub fn c10_x_p_w6_00<S: Src>(s: &mut S) {
    plevel_body(s, 6, &[0x0d], &[0])
}
pub fn c10_x_p_w6_01<S: Src>(s: &mut S) {
    plevel_body(s, 6, &[0x0e], &[0])
}
pub fn c10_x_p_w6_02<S: Src>(s: &mut S) {
    plevel_body(s, 6, &[0x10], &[2])
}
pub fn c10_x_p_w6_03<S: Src>(s: &mut S) {
    plevel_body(s, 6, &[0x10], &[5])
}
pub fn c10_x_p_w6_04<S: Src>(s: &mut S) {
    plevel_body(s, 6, &[0x10], &[0])
}
pub fn c10_x_p_w6_05<S: Src>(s: &mut S) {
    plevel_body(s, 6, &[0x11], &[0])
}
pub fn c10_x_p_w6_06<S: Src>(s: &mut S) {
    plevel_body(s, 6, &[0x12], &[1])
}
pub fn c10_x_p_w6_07<S: Src>(s: &mut S) {
    plevel_body(s, 6, &[0x13], &[0])
}
pub fn c10_x_p_w6_08<S: Src>(s: &mut S) {
    plevel_body(s, 6, &[0x16], &[0])
}
pub fn c10_x_p_w6_09<S: Src>(s: &mut S) {
    plevel_body(s, 6, &[0x17], &[0])
}
pub fn c10_x_p_w6_10<S: Src>(s: &mut S) {
    plevel_body(s, 6, &[0x19], &[1])
}
pub fn c10_x_p_w6_11<S: Src>(s: &mut S) {
    plevel_body(s, 6, &[0x1a], &[0])
}
pub fn c10_x_p_w6_12<S: Src>(s: &mut S) {
    plevel_body(s, 6, &[0x1b], &[0])
}
pub fn c10_x_p_w6_13<S: Src>(s: &mut S) {
    plevel_body(s, 6, &[0x1c], &[0])
}
pub fn c10_x_p_w6_14<S: Src>(s: &mut S) {
    plevel_body(s, 6, &[0x21], &[0])
}
pub fn c10_x_p_w6_15<S: Src>(s: &mut S) {
    plevel_body(s, 6, &[0x0f], &[0])
}
pub fn c10_x_p_w6_16<S: Src>(s: &mut S) {
    plevel_body(s, 6, &[0x26], &[0])
}
pub fn c10_x_p_w6_17<S: Src>(s: &mut S) {
    plevel_body(s, 6, &[0x2a], &[0])
}
pub fn c10_x_p_w6_18<S: Src>(s: &mut S) {
    plevel_body(s, 6, &[0x2b], &[0])
}
pub fn c10_x_p_w6_19<S: Src>(s: &mut S) {
    plevel_body(s, 6, &[0x2c], &[1])
}
pub fn c10_x_p_w6_20<S: Src>(s: &mut S) {
    plevel_body(s, 6, &[0x2e], &[0])
}
pub fn c10_x_p_w6_21<S: Src>(s: &mut S) {
    plevel_body(s, 6, &[0x2f], &[0])
}
pub fn c10_x_p_w6_22<S: Src>(s: &mut S) {
    plevel_body(s, 6, &[0x30], &[0])
}
pub fn c10_x_p_w6_23<S: Src>(s: &mut S) {
    plevel_body(s, 6, &[0x31], &[0])
}
pub fn c10_x_p_w6_24<S: Src>(s: &mut S) {
    plevel_body(s, 6, &[0x04], &[0])
}
pub fn c10_x_p_w6_25<S: Src>(s: &mut S) {
    plevel_body(s, 6, &[0x07], &[0])
}
pub fn c10_x_p_w6_26<S: Src>(s: &mut S) {
    plevel_body(s, 6, &[0x08], &[0])
}
pub fn c10_x_p_w6_27<S: Src>(s: &mut S) {
    plevel_body(s, 6, &[0x00], &[0])
}
pub fn c10_x_p_w6_28<S: Src>(s: &mut S) {
    plevel_body(s, 6, &[0x02], &[0])
}
pub fn c10_x_p_w6_29<S: Src>(s: &mut S) {
    plevel_body(s, 6, &[0x31, 0x10], &[0, 0])
}
pub fn c10_x_p_w6_30<S: Src>(s: &mut S) {
    plevel_body(s, 6, &[0x07, 0x08], &[0, 0])
}
pub fn c10_x_p_w6_31<S: Src>(s: &mut S) {
    plevel_body(s, 6, &[0x0e, 0x07, 0x2f, 0x00], &[0, 0, 0, 0])
}
pub fn c10_x_p_w6_32<S: Src>(s: &mut S) {
    plevel_body(s, 6, &[0x16, 0x07], &[0, 0])
}
pub fn c10_x_p_w6_33<S: Src>(s: &mut S) {
    plevel_body(s, 6, &[0x08, 0x11, 0x10], &[0, 0, 0])
}
pub fn c10_x_p_w6_34<S: Src>(s: &mut S) {
    plevel_body(s, 6, &[0x2a, 0x30, 0x1a], &[0, 0, 0])
}
pub fn c10_x_p_w6_35<S: Src>(s: &mut S) {
    plevel_body(s, 6, &[0x21, 0x11], &[0, 0])
}
pub fn c10_x_p_w6_36<S: Src>(s: &mut S) {
    plevel_body(s, 6, &[0x30, 0x0e], &[0, 0])
}
pub fn c10_x_p_w6_37<S: Src>(s: &mut S) {
    plevel_body(s, 6, &[0x2f, 0x10], &[0, 0])
}
pub fn c10_x_p_w6_38<S: Src>(s: &mut S) {
    plevel_body(s, 6, &[0x2e, 0x2c, 0x0f], &[0, 1, 0])
}
pub fn c10_x_p_w6_39<S: Src>(s: &mut S) {
    plevel_body(s, 6, &[0x0d, 0x17, 0x13, 0x26], &[0, 0, 0, 0])
}
pub fn c10_x_p_w6_40<S: Src>(s: &mut S) {
    plevel_body(s, 6, &[0x02, 0x2a, 0x10], &[0, 0, 2])
}
pub fn c10_x_p_w6_41<S: Src>(s: &mut S) {
    plevel_body(s, 6, &[0x2f, 0x31, 0x1c], &[0, 0, 0])
}
pub fn c10_x_p_w6_42<S: Src>(s: &mut S) {
    plevel_body(s, 6, &[0x02, 0x19], &[0, 1])
}
pub fn c10_x_p_w6_43<S: Src>(s: &mut S) {
    plevel_body(s, 6, &[0x30, 0x26], &[0, 0])
}
pub fn c10_x_p_w6_44<S: Src>(s: &mut S) {
    plevel_body(s, 6, &[0x0f, 0x0d], &[0, 0])
}
pub fn c10_x_p_w6_45<S: Src>(s: &mut S) {
    plevel_body(s, 6, &[0x10, 0x1a], &[5, 0])
}
pub fn c10_x_p_w6_46<S: Src>(s: &mut S) {
    plevel_body(s, 6, &[0x00, 0x30, 0x30, 0x08], &[0, 0, 0, 0])
}
pub fn c10_x_p_w6_47<S: Src>(s: &mut S) {
    plevel_body(s, 6, &[0x19, 0x04, 0x0d], &[1, 0, 0])
}
pub fn c10_x_p_w6_48<S: Src>(s: &mut S) {
    plevel_body(s, 6, &[0x26, 0x12], &[0, 1])
}
pub fn c10_x_p_w6_49<S: Src>(s: &mut S) {
    plevel_body(s, 6, &[0x1c, 0x2f], &[0, 0])
}
pub fn c10_x_p_w6_50<S: Src>(s: &mut S) {
    plevel_body(s, 6, &[0x12, 0x08, 0x08], &[1, 0, 0])
}
pub fn c10_x_p_w6_51<S: Src>(s: &mut S) {
    plevel_body(s, 6, &[0x13, 0x13], &[0, 0])
}
pub fn c10_x_p_w6_52<S: Src>(s: &mut S) {
    plevel_body(s, 6, &[0x12, 0x1a, 0x11], &[1, 0, 0])
}
pub fn c10_x_p_w6_53<S: Src>(s: &mut S) {
    plevel_body(s, 6, &[0x00, 0x1c, 0x31, 0x1c], &[0, 0, 0, 0])
}
pub fn c10_x_p_w6_54<S: Src>(s: &mut S) {
    plevel_body(s, 6, &[0x00, 0x1a, 0x30], &[0, 0, 0])
}
pub fn c10_x_p_w6_55<S: Src>(s: &mut S) {
    plevel_body(s, 6, &[0x17, 0x2e], &[0, 0])
}
pub fn c10_x_p_w6_56<S: Src>(s: &mut S) {
    plevel_body(s, 6, &[0x2a, 0x2c, 0x0f], &[0, 1, 0])
}
pub fn c10_x_p_w6_57<S: Src>(s: &mut S) {
    plevel_body(s, 6, &[0x02, 0x02], &[0, 0])
}
pub fn c10_x_p_w6_58<S: Src>(s: &mut S) {
    plevel_body(s, 6, &[0x31, 0x12], &[0, 1])
}
pub fn c10_x_p_w6_59<S: Src>(s: &mut S) {
    plevel_body(s, 6, &[0x04, 0x10], &[0, 2])
}
pub fn c10_x_p_w6_60<S: Src>(s: &mut S) {
    plevel_body(s, 6, &[0x30, 0x2f, 0x2c], &[0, 0, 1])
}
pub fn c10_x_p_w6_61<S: Src>(s: &mut S) {
    plevel_body(s, 6, &[0x10, 0x11], &[5, 0])
}
pub fn c10_x_p_w6_62<S: Src>(s: &mut S) {
    plevel_body(s, 6, &[0x2e, 0x1c], &[0, 0])
}
pub fn c10_x_p_w6_63<S: Src>(s: &mut S) {
    plevel_body(s, 6, &[0x02, 0x1c], &[0, 0])
}
pub fn c10_x_p_w6_64<S: Src>(s: &mut S) {
    plevel_body(s, 6, &[0x2a, 0x10], &[0, 0])
}
pub fn c10_x_p_w6_65<S: Src>(s: &mut S) {
    plevel_body(s, 6, &[0x17, 0x31, 0x1a], &[0, 0, 0])
}
pub fn c10_x_p_w6_66<S: Src>(s: &mut S) {
    plevel_body(s, 6, &[0x0d, 0x0f, 0x26], &[0, 0, 0])
}
pub fn c10_x_p_w6_67<S: Src>(s: &mut S) {
    plevel_body(s, 6, &[0x02, 0x16, 0x08], &[0, 0, 0])
}
pub fn c10_x_p_w6_68<S: Src>(s: &mut S) {
    plevel_body(s, 6, &[0x0f, 0x10, 0x10], &[0, 0, 5])
}
pub fn c10_x_p_w6_69<S: Src>(s: &mut S) {
    plevel_body(s, 6, &[0x2a, 0x13], &[0, 0])
}
pub fn c10_x_p_w7_00<S: Src>(s: &mut S) {
    plevel_body(s, 7, &[0x06, 0x07], &[1, 0])
}
pub fn c10_x_p_w7_01<S: Src>(s: &mut S) {
    plevel_body(s, 7, &[0x07], &[0])
}
pub fn c10_x_p_w7_02<S: Src>(s: &mut S) {
    plevel_body(s, 7, &[0x06], &[1])
}
pub fn c10_x_p_w7_03<S: Src>(s: &mut S) {
    plevel_body(s, 7, &[0x06, 0x08], &[1, 0])
}
pub fn c10_x_p_w7_04<S: Src>(s: &mut S) {
    plevel_body(s, 7, &[0x06, 0x08, 0x0d, 0x0e, 0x10, 0x11, 0x07], &[1, 0, 0, 0, 2, 0, 0])
}
pub fn c10_x_p_w7_05<S: Src>(s: &mut S) {
    plevel_body(s, 7, &[0x06, 0x08, 0x0d, 0x0e, 0x10, 0x11], &[1, 0, 0, 0, 2, 0])
}
pub fn c10_x_p_w7_06<S: Src>(s: &mut S) {
    plevel_body(s, 7, &[0x06, 0x0d], &[1, 0])
}
pub fn c10_x_p_w7_07<S: Src>(s: &mut S) {
    plevel_body(s, 7, &[0x06, 0x06, 0x07], &[1, 1, 0])
}
pub fn c10_x_p_w7_08<S: Src>(s: &mut S) {
    plevel_body(s, 7, &[0x06, 0x0c, 0x11, 0x07], &[1, 0, 0, 0])
}
pub fn c10_x_p_w7_09<S: Src>(s: &mut S) {
    plevel_body(s, 7, &[0x0d], &[0])
}
pub fn c10_x_p_w7_10<S: Src>(s: &mut S) {
    plevel_body(s, 7, &[0x06, 0x15, 0x11, 0x07], &[1, 0, 0, 0])
}
pub fn c10_x_p_w7_11<S: Src>(s: &mut S) {
    plevel_body(s, 7, &[0x06, 0x2d, 0x10, 0x11, 0x07], &[1, 0, 5, 0, 0])
}
pub fn c10_x_p_w7_12<S: Src>(s: &mut S) {
    plevel_body(s, 7, &[0x06, 0x0a, 0x12, 0x11, 0x07], &[1, 0, 1, 0, 0])
}
pub fn c10_x_p_w7_13<S: Src>(s: &mut S) {
    plevel_body(s, 7, &[0x06, 0x0b, 0x13, 0x07], &[1, 0, 0, 0])
}
pub fn c10_x_p_w7_14<S: Src>(s: &mut S) {
    plevel_body(s, 7, &[0x06, 0x04], &[1, 0])
}
pub fn c10_x_p_w8_00<S: Src>(s: &mut S) {
    plevel_body(s, 8, &[0x00, 0x01, 0x02, 0x03, 0x04], &[0, 0, 1, 0, 0])
}
pub fn c10_x_p_w8_01<S: Src>(s: &mut S) {
    plevel_body(s, 8, &[0x00, 0x01, 0x02, 0x03], &[0, 0, 1, 0])
}
pub fn c10_x_p_w8_02<S: Src>(s: &mut S) {
    plevel_body(s, 8, &[0x00, 0x01, 0x04], &[0, 0, 0])
}
pub fn c10_x_p_w8_03<S: Src>(s: &mut S) {
    plevel_body(s, 8, &[0x00, 0x04], &[0, 0])
}
pub fn c10_x_p_w8_04<S: Src>(s: &mut S) {
    plevel_body(s, 8, &[0x00], &[0])
}
pub fn c10_x_p_w8_05<S: Src>(s: &mut S) {
    plevel_body(s, 8, &[0x01], &[0])
}
pub fn c10_x_p_w8_06<S: Src>(s: &mut S) {
    plevel_body(s, 8, &[0x00, 0x01, 0x03, 0x02, 0x04], &[0, 0, 0, 1, 0])
}
pub fn c10_x_p_w8_07<S: Src>(s: &mut S) {
    plevel_body(s, 8, &[0x00, 0x01, 0x02, 0x03, 0x05, 0x06, 0x07, 0x04], &[0, 0, 1, 0, 0, 1, 0, 0])
}
pub fn c10_x_p_w8_08<S: Src>(s: &mut S) {
    plevel_body(s, 8, &[0x00, 0x01, 0x02, 0x03, 0x05, 0x06, 0x07], &[0, 0, 1, 0, 0, 1, 0])
}
pub fn c10_x_p_w8_09<S: Src>(s: &mut S) {
    plevel_body(s, 8, &[0x00, 0x01, 0x02, 0x03, 0x05, 0x06, 0x08, 0x0d, 0x0e, 0x10, 0x11, 0x07, 0x04], &[0, 0, 1, 0, 0, 1, 0, 0, 0, 2, 0, 0, 0])
}
pub fn c10_x_p_w8_10<S: Src>(s: &mut S) {
    plevel_body(s, 8, &[0x00, 0x01, 0x02, 0x03, 0x05, 0x04], &[0, 0, 1, 0, 0, 0])
}
pub fn c10_x_p_w8_11<S: Src>(s: &mut S) {
    plevel_body(s, 8, &[0x00, 0x01, 0x02, 0x03, 0x08, 0x04], &[0, 0, 1, 0, 0, 0])
}
pub fn c10_x_p_w8_12<S: Src>(s: &mut S) {
    plevel_body(s, 8, &[0x00, 0x00, 0x01, 0x02, 0x03, 0x04], &[0, 0, 0, 1, 0, 0])
}
pub fn c10_x_p_w8_13<S: Src>(s: &mut S) {
    plevel_body(s, 8, &[0x00, 0x01, 0x02, 0x02, 0x03, 0x04], &[0, 0, 1, 1, 0, 0])
}
pub fn c10_x_p_w8_14<S: Src>(s: &mut S) {
    plevel_body(s, 8, &[0x00, 0x01, 0x39, 0x02, 0x03, 0x04], &[0, 0, 0, 1, 0, 0])
}
pub fn c10_x_p_w8_15<S: Src>(s: &mut S) {
    plevel_body(s, 8, &[0x00, 0x01, 0x02, 0x22, 0x03, 0x04], &[0, 0, 1, 0, 0, 0])
}
pub fn c10_x_p_w8_16<S: Src>(s: &mut S) {
    plevel_body(s, 8, &[0x00, 0x01, 0x02, 0x03, 0x04, 0x00], &[0, 0, 1, 0, 0, 0])
}
pub fn c10_x_p_w8_17<S: Src>(s: &mut S) {
    plevel_body(s, 8, &[0x04], &[0])
}

harnesses! { k, "sel_gds21_read.rs";
    #[kani::unwind(6)] c10_q_h_header;
    #[kani::stub(std::str::from_utf8, from_utf8_model)] #[kani::stub(crate::data::GdsFloat64::encode, enc_bits)] #[kani::stub(crate::data::GdsFloat64::decode, dec_bits)] #[kani::stub(alloc::fmt::format, fmt_stub)] #[kani::stub(crate::read::GdsReader::read_record, stub_read_record)] #[kani::unwind(8)] c01_q_l2n_next;
    #[kani::stub(std::str::from_utf8, from_utf8_model)] #[kani::stub(crate::data::GdsFloat64::encode, enc_bits)] #[kani::stub(crate::data::GdsFloat64::decode, dec_bits)] #[kani::stub(alloc::fmt::format, fmt_stub)] #[kani::stub(crate::read::GdsReader::read_record, stub_read_record)] #[kani::unwind(8)] c01_t_l2n_next_early;
    #[kani::stub(std::str::from_utf8, from_utf8_model)] #[kani::stub(crate::data::GdsFloat64::encode, enc_bits)] #[kani::stub(crate::data::GdsFloat64::decode, dec_bits)] #[kani::stub(alloc::fmt::format, fmt_stub)] #[kani::unwind(14)] c01_s_l1_k00_n0;
    #[kani::stub(std::str::from_utf8, from_utf8_model)] #[kani::stub(crate::data::GdsFloat64::encode, enc_bits)] #[kani::stub(crate::data::GdsFloat64::decode, dec_bits)] #[kani::stub(alloc::fmt::format, fmt_stub)] #[kani::unwind(16)] c03_s_r1_k00_n0;
    #[kani::stub(std::str::from_utf8, from_utf8_model)] #[kani::stub(crate::data::GdsFloat64::encode, enc_bits)] #[kani::stub(crate::data::GdsFloat64::decode, dec_bits)] #[kani::stub(alloc::fmt::format, fmt_stub)] #[kani::unwind(30)] c01_s_l1_k01_n0;
    #[kani::stub(std::str::from_utf8, from_utf8_model)] #[kani::stub(crate::data::GdsFloat64::encode, enc_bits)] #[kani::stub(crate::data::GdsFloat64::decode, dec_bits)] #[kani::stub(alloc::fmt::format, fmt_stub)] #[kani::unwind(32)] c03_s_r1_k01_n0;
    #[kani::stub(std::str::from_utf8, from_utf8_model)] #[kani::stub(crate::data::GdsFloat64::encode, enc_bits)] #[kani::stub(crate::data::GdsFloat64::decode, dec_bits)] #[kani::stub(alloc::fmt::format, fmt_stub)] #[kani::unwind(6)] c01_q_l1_k02_n0;
    #[kani::stub(std::str::from_utf8, from_utf8_model)] #[kani::stub(crate::data::GdsFloat64::encode, enc_bits)] #[kani::stub(crate::data::GdsFloat64::decode, dec_bits)] #[kani::stub(alloc::fmt::format, fmt_stub)] #[kani::unwind(8)] c03_s_r1_k02_n0;
    #[kani::stub(std::str::from_utf8, from_utf8_model)] #[kani::stub(crate::data::GdsFloat64::encode, enc_bits)] #[kani::stub(crate::data::GdsFloat64::decode, dec_bits)] #[kani::stub(alloc::fmt::format, fmt_stub)] #[kani::unwind(8)] c01_q_l1_k02_n1;
    #[kani::stub(std::str::from_utf8, from_utf8_model)] #[kani::stub(crate::data::GdsFloat64::encode, enc_bits)] #[kani::stub(crate::data::GdsFloat64::decode, dec_bits)] #[kani::stub(alloc::fmt::format, fmt_stub)] #[kani::unwind(10)] c03_s_r1_k02_n1;
    #[kani::stub(std::str::from_utf8, from_utf8_model)] #[kani::stub(crate::data::GdsFloat64::encode, enc_bits)] #[kani::stub(crate::data::GdsFloat64::decode, dec_bits)] #[kani::stub(alloc::fmt::format, fmt_stub)] #[kani::unwind(8)] c01_s_l1_k02_n2;
    #[kani::stub(std::str::from_utf8, from_utf8_model)] #[kani::stub(crate::data::GdsFloat64::encode, enc_bits)] #[kani::stub(crate::data::GdsFloat64::decode, dec_bits)] #[kani::stub(alloc::fmt::format, fmt_stub)] #[kani::unwind(10)] c03_s_r1_k02_n2;
    #[kani::stub(std::str::from_utf8, from_utf8_model)] #[kani::stub(crate::data::GdsFloat64::encode, enc_bits)] #[kani::stub(crate::data::GdsFloat64::decode, dec_bits)] #[kani::stub(alloc::fmt::format, fmt_stub)] #[kani::unwind(10)] c01_s_l1_k02_n3;
    #[kani::stub(std::str::from_utf8, from_utf8_model)] #[kani::stub(crate::data::GdsFloat64::encode, enc_bits)] #[kani::stub(crate::data::GdsFloat64::decode, dec_bits)] #[kani::stub(alloc::fmt::format, fmt_stub)] #[kani::unwind(12)] c03_s_r1_k02_n3;
    #[kani::stub(std::str::from_utf8, from_utf8_model)] #[kani::stub(crate::data::GdsFloat64::encode, enc_bits)] #[kani::stub(crate::data::GdsFloat64::decode, dec_bits)] #[kani::stub(alloc::fmt::format, fmt_stub)] #[kani::unwind(22)] c01_q_l1_k03_n0;
    #[kani::stub(std::str::from_utf8, from_utf8_model)] #[kani::stub(crate::data::GdsFloat64::encode, enc_bits)] #[kani::stub(crate::data::GdsFloat64::decode, dec_bits)] #[kani::stub(alloc::fmt::format, fmt_stub)] #[kani::unwind(24)] c03_s_r1_k03_n0;
    #[kani::stub(std::str::from_utf8, from_utf8_model)] #[kani::stub(crate::data::GdsFloat64::encode, enc_bits)] #[kani::stub(crate::data::GdsFloat64::decode, dec_bits)] #[kani::stub(alloc::fmt::format, fmt_stub)] #[kani::unwind(14)] c01_s_l1_k04_n0;
    #[kani::stub(std::str::from_utf8, from_utf8_model)] #[kani::stub(crate::data::GdsFloat64::encode, enc_bits)] #[kani::stub(crate::data::GdsFloat64::decode, dec_bits)] #[kani::stub(alloc::fmt::format, fmt_stub)] #[kani::unwind(16)] c03_s_r1_k04_n0;
    #[kani::stub(std::str::from_utf8, from_utf8_model)] #[kani::stub(crate::data::GdsFloat64::encode, enc_bits)] #[kani::stub(crate::data::GdsFloat64::decode, dec_bits)] #[kani::stub(alloc::fmt::format, fmt_stub)] #[kani::unwind(30)] c01_s_l1_k05_n0;
    #[kani::stub(std::str::from_utf8, from_utf8_model)] #[kani::stub(crate::data::GdsFloat64::encode, enc_bits)] #[kani::stub(crate::data::GdsFloat64::decode, dec_bits)] #[kani::stub(alloc::fmt::format, fmt_stub)] #[kani::unwind(32)] c03_s_r1_k05_n0;
    #[kani::stub(std::str::from_utf8, from_utf8_model)] #[kani::stub(crate::data::GdsFloat64::encode, enc_bits)] #[kani::stub(crate::data::GdsFloat64::decode, dec_bits)] #[kani::stub(alloc::fmt::format, fmt_stub)] #[kani::unwind(6)] c01_s_l1_k06_n0;
    #[kani::stub(std::str::from_utf8, from_utf8_model)] #[kani::stub(crate::data::GdsFloat64::encode, enc_bits)] #[kani::stub(crate::data::GdsFloat64::decode, dec_bits)] #[kani::stub(alloc::fmt::format, fmt_stub)] #[kani::unwind(8)] c03_q_r1_k06_n0;
    #[kani::stub(std::str::from_utf8, from_utf8_model)] #[kani::stub(crate::data::GdsFloat64::encode, enc_bits)] #[kani::stub(crate::data::GdsFloat64::decode, dec_bits)] #[kani::stub(alloc::fmt::format, fmt_stub)] #[kani::unwind(8)] c01_s_l1_k06_n1;
    #[kani::stub(std::str::from_utf8, from_utf8_model)] #[kani::stub(crate::data::GdsFloat64::encode, enc_bits)] #[kani::stub(crate::data::GdsFloat64::decode, dec_bits)] #[kani::stub(alloc::fmt::format, fmt_stub)] #[kani::unwind(10)] c03_s_r1_k06_n1;
    #[kani::stub(std::str::from_utf8, from_utf8_model)] #[kani::stub(crate::data::GdsFloat64::encode, enc_bits)] #[kani::stub(crate::data::GdsFloat64::decode, dec_bits)] #[kani::stub(alloc::fmt::format, fmt_stub)] #[kani::unwind(8)] c01_s_l1_k06_n2;
    #[kani::stub(std::str::from_utf8, from_utf8_model)] #[kani::stub(crate::data::GdsFloat64::encode, enc_bits)] #[kani::stub(crate::data::GdsFloat64::decode, dec_bits)] #[kani::stub(alloc::fmt::format, fmt_stub)] #[kani::unwind(10)] c03_s_r1_k06_n2;
    #[kani::stub(std::str::from_utf8, from_utf8_model)] #[kani::stub(crate::data::GdsFloat64::encode, enc_bits)] #[kani::stub(crate::data::GdsFloat64::decode, dec_bits)] #[kani::stub(alloc::fmt::format, fmt_stub)] #[kani::unwind(10)] c01_s_l1_k06_n3;
    #[kani::stub(std::str::from_utf8, from_utf8_model)] #[kani::stub(crate::data::GdsFloat64::encode, enc_bits)] #[kani::stub(crate::data::GdsFloat64::decode, dec_bits)] #[kani::stub(alloc::fmt::format, fmt_stub)] #[kani::unwind(12)] c03_s_r1_k06_n3;
    #[kani::stub(std::str::from_utf8, from_utf8_model)] #[kani::stub(crate::data::GdsFloat64::encode, enc_bits)] #[kani::stub(crate::data::GdsFloat64::decode, dec_bits)] #[kani::stub(alloc::fmt::format, fmt_stub)] #[kani::unwind(14)] c01_s_l1_k07_n0;
    #[kani::stub(std::str::from_utf8, from_utf8_model)] #[kani::stub(crate::data::GdsFloat64::encode, enc_bits)] #[kani::stub(crate::data::GdsFloat64::decode, dec_bits)] #[kani::stub(alloc::fmt::format, fmt_stub)] #[kani::unwind(16)] c03_s_r1_k07_n0;
    #[kani::stub(std::str::from_utf8, from_utf8_model)] #[kani::stub(crate::data::GdsFloat64::encode, enc_bits)] #[kani::stub(crate::data::GdsFloat64::decode, dec_bits)] #[kani::stub(alloc::fmt::format, fmt_stub)] #[kani::unwind(14)] c01_s_l1_k08_n0;
    #[kani::stub(std::str::from_utf8, from_utf8_model)] #[kani::stub(crate::data::GdsFloat64::encode, enc_bits)] #[kani::stub(crate::data::GdsFloat64::decode, dec_bits)] #[kani::stub(alloc::fmt::format, fmt_stub)] #[kani::unwind(16)] c03_s_r1_k08_n0;
    #[kani::stub(std::str::from_utf8, from_utf8_model)] #[kani::stub(crate::data::GdsFloat64::encode, enc_bits)] #[kani::stub(crate::data::GdsFloat64::decode, dec_bits)] #[kani::stub(alloc::fmt::format, fmt_stub)] #[kani::unwind(14)] c01_s_l1_k09_n0;
    #[kani::stub(std::str::from_utf8, from_utf8_model)] #[kani::stub(crate::data::GdsFloat64::encode, enc_bits)] #[kani::stub(crate::data::GdsFloat64::decode, dec_bits)] #[kani::stub(alloc::fmt::format, fmt_stub)] #[kani::unwind(16)] c03_s_r1_k09_n0;
    #[kani::stub(std::str::from_utf8, from_utf8_model)] #[kani::stub(crate::data::GdsFloat64::encode, enc_bits)] #[kani::stub(crate::data::GdsFloat64::decode, dec_bits)] #[kani::stub(alloc::fmt::format, fmt_stub)] #[kani::unwind(14)] c01_s_l1_k0a_n0;
    #[kani::stub(std::str::from_utf8, from_utf8_model)] #[kani::stub(crate::data::GdsFloat64::encode, enc_bits)] #[kani::stub(crate::data::GdsFloat64::decode, dec_bits)] #[kani::stub(alloc::fmt::format, fmt_stub)] #[kani::unwind(16)] c03_s_r1_k0a_n0;
    #[kani::stub(std::str::from_utf8, from_utf8_model)] #[kani::stub(crate::data::GdsFloat64::encode, enc_bits)] #[kani::stub(crate::data::GdsFloat64::decode, dec_bits)] #[kani::stub(alloc::fmt::format, fmt_stub)] #[kani::unwind(14)] c01_s_l1_k0b_n0;
    #[kani::stub(std::str::from_utf8, from_utf8_model)] #[kani::stub(crate::data::GdsFloat64::encode, enc_bits)] #[kani::stub(crate::data::GdsFloat64::decode, dec_bits)] #[kani::stub(alloc::fmt::format, fmt_stub)] #[kani::unwind(16)] c03_s_r1_k0b_n0;
    #[kani::stub(std::str::from_utf8, from_utf8_model)] #[kani::stub(crate::data::GdsFloat64::encode, enc_bits)] #[kani::stub(crate::data::GdsFloat64::decode, dec_bits)] #[kani::stub(alloc::fmt::format, fmt_stub)] #[kani::unwind(14)] c01_s_l1_k0c_n0;
    #[kani::stub(std::str::from_utf8, from_utf8_model)] #[kani::stub(crate::data::GdsFloat64::encode, enc_bits)] #[kani::stub(crate::data::GdsFloat64::decode, dec_bits)] #[kani::stub(alloc::fmt::format, fmt_stub)] #[kani::unwind(16)] c03_s_r1_k0c_n0;
    #[kani::stub(std::str::from_utf8, from_utf8_model)] #[kani::stub(crate::data::GdsFloat64::encode, enc_bits)] #[kani::stub(crate::data::GdsFloat64::decode, dec_bits)] #[kani::stub(alloc::fmt::format, fmt_stub)] #[kani::unwind(14)] c01_s_l1_k0d_n0;
    #[kani::stub(std::str::from_utf8, from_utf8_model)] #[kani::stub(crate::data::GdsFloat64::encode, enc_bits)] #[kani::stub(crate::data::GdsFloat64::decode, dec_bits)] #[kani::stub(alloc::fmt::format, fmt_stub)] #[kani::unwind(16)] c03_s_r1_k0d_n0;
    #[kani::stub(std::str::from_utf8, from_utf8_model)] #[kani::stub(crate::data::GdsFloat64::encode, enc_bits)] #[kani::stub(crate::data::GdsFloat64::decode, dec_bits)] #[kani::stub(alloc::fmt::format, fmt_stub)] #[kani::unwind(14)] c01_s_l1_k0e_n0;
    #[kani::stub(std::str::from_utf8, from_utf8_model)] #[kani::stub(crate::data::GdsFloat64::encode, enc_bits)] #[kani::stub(crate::data::GdsFloat64::decode, dec_bits)] #[kani::stub(alloc::fmt::format, fmt_stub)] #[kani::unwind(16)] c03_s_r1_k0e_n0;
    #[kani::stub(std::str::from_utf8, from_utf8_model)] #[kani::stub(crate::data::GdsFloat64::encode, enc_bits)] #[kani::stub(crate::data::GdsFloat64::decode, dec_bits)] #[kani::stub(alloc::fmt::format, fmt_stub)] #[kani::unwind(14)] c01_s_l1_k0f_n0;
    #[kani::stub(std::str::from_utf8, from_utf8_model)] #[kani::stub(crate::data::GdsFloat64::encode, enc_bits)] #[kani::stub(crate::data::GdsFloat64::decode, dec_bits)] #[kani::stub(alloc::fmt::format, fmt_stub)] #[kani::unwind(16)] c03_s_r1_k0f_n0;
    #[kani::stub(std::str::from_utf8, from_utf8_model)] #[kani::stub(crate::data::GdsFloat64::encode, enc_bits)] #[kani::stub(crate::data::GdsFloat64::decode, dec_bits)] #[kani::stub(alloc::fmt::format, fmt_stub)] #[kani::unwind(6)] c01_s_l1_k10_n0;
    #[kani::stub(std::str::from_utf8, from_utf8_model)] #[kani::stub(crate::data::GdsFloat64::encode, enc_bits)] #[kani::stub(crate::data::GdsFloat64::decode, dec_bits)] #[kani::stub(alloc::fmt::format, fmt_stub)] #[kani::unwind(8)] c03_s_r1_k10_n0;
    #[kani::stub(std::str::from_utf8, from_utf8_model)] #[kani::stub(crate::data::GdsFloat64::encode, enc_bits)] #[kani::stub(crate::data::GdsFloat64::decode, dec_bits)] #[kani::stub(alloc::fmt::format, fmt_stub)] #[kani::unwind(14)] c01_q_l1_k10_n2;
    #[kani::stub(std::str::from_utf8, from_utf8_model)] #[kani::stub(crate::data::GdsFloat64::encode, enc_bits)] #[kani::stub(crate::data::GdsFloat64::decode, dec_bits)] #[kani::stub(alloc::fmt::format, fmt_stub)] #[kani::unwind(16)] c03_s_r1_k10_n2;
    #[kani::stub(std::str::from_utf8, from_utf8_model)] #[kani::stub(crate::data::GdsFloat64::encode, enc_bits)] #[kani::stub(crate::data::GdsFloat64::decode, dec_bits)] #[kani::stub(alloc::fmt::format, fmt_stub)] #[kani::unwind(26)] c01_s_l1_k10_n5;
    #[kani::stub(std::str::from_utf8, from_utf8_model)] #[kani::stub(crate::data::GdsFloat64::encode, enc_bits)] #[kani::stub(crate::data::GdsFloat64::decode, dec_bits)] #[kani::stub(alloc::fmt::format, fmt_stub)] #[kani::unwind(28)] c03_q_r1_k10_n5;
    #[kani::stub(std::str::from_utf8, from_utf8_model)] #[kani::stub(crate::data::GdsFloat64::encode, enc_bits)] #[kani::stub(crate::data::GdsFloat64::decode, dec_bits)] #[kani::stub(alloc::fmt::format, fmt_stub)] #[kani::unwind(14)] c01_s_l1_k11_n0;
    #[kani::stub(std::str::from_utf8, from_utf8_model)] #[kani::stub(crate::data::GdsFloat64::encode, enc_bits)] #[kani::stub(crate::data::GdsFloat64::decode, dec_bits)] #[kani::stub(alloc::fmt::format, fmt_stub)] #[kani::unwind(16)] c03_s_r1_k11_n0;
    #[kani::stub(std::str::from_utf8, from_utf8_model)] #[kani::stub(crate::data::GdsFloat64::encode, enc_bits)] #[kani::stub(crate::data::GdsFloat64::decode, dec_bits)] #[kani::stub(alloc::fmt::format, fmt_stub)] #[kani::unwind(6)] c01_s_l1_k12_n0;
    #[kani::stub(std::str::from_utf8, from_utf8_model)] #[kani::stub(crate::data::GdsFloat64::encode, enc_bits)] #[kani::stub(crate::data::GdsFloat64::decode, dec_bits)] #[kani::stub(alloc::fmt::format, fmt_stub)] #[kani::unwind(8)] c03_s_r1_k12_n0;
    #[kani::stub(std::str::from_utf8, from_utf8_model)] #[kani::stub(crate::data::GdsFloat64::encode, enc_bits)] #[kani::stub(crate::data::GdsFloat64::decode, dec_bits)] #[kani::stub(alloc::fmt::format, fmt_stub)] #[kani::unwind(8)] c01_s_l1_k12_n1;
    #[kani::stub(std::str::from_utf8, from_utf8_model)] #[kani::stub(crate::data::GdsFloat64::encode, enc_bits)] #[kani::stub(crate::data::GdsFloat64::decode, dec_bits)] #[kani::stub(alloc::fmt::format, fmt_stub)] #[kani::unwind(10)] c03_s_r1_k12_n1;
    #[kani::stub(std::str::from_utf8, from_utf8_model)] #[kani::stub(crate::data::GdsFloat64::encode, enc_bits)] #[kani::stub(crate::data::GdsFloat64::decode, dec_bits)] #[kani::stub(alloc::fmt::format, fmt_stub)] #[kani::unwind(8)] c01_s_l1_k12_n2;
    #[kani::stub(std::str::from_utf8, from_utf8_model)] #[kani::stub(crate::data::GdsFloat64::encode, enc_bits)] #[kani::stub(crate::data::GdsFloat64::decode, dec_bits)] #[kani::stub(alloc::fmt::format, fmt_stub)] #[kani::unwind(10)] c03_s_r1_k12_n2;
    #[kani::stub(std::str::from_utf8, from_utf8_model)] #[kani::stub(crate::data::GdsFloat64::encode, enc_bits)] #[kani::stub(crate::data::GdsFloat64::decode, dec_bits)] #[kani::stub(alloc::fmt::format, fmt_stub)] #[kani::unwind(10)] c01_s_l1_k12_n3;
    #[kani::stub(std::str::from_utf8, from_utf8_model)] #[kani::stub(crate::data::GdsFloat64::encode, enc_bits)] #[kani::stub(crate::data::GdsFloat64::decode, dec_bits)] #[kani::stub(alloc::fmt::format, fmt_stub)] #[kani::unwind(12)] c03_s_r1_k12_n3;
    #[kani::stub(std::str::from_utf8, from_utf8_model)] #[kani::stub(crate::data::GdsFloat64::encode, enc_bits)] #[kani::stub(crate::data::GdsFloat64::decode, dec_bits)] #[kani::stub(alloc::fmt::format, fmt_stub)] #[kani::unwind(14)] c01_s_l1_k13_n0;
    #[kani::stub(std::str::from_utf8, from_utf8_model)] #[kani::stub(crate::data::GdsFloat64::encode, enc_bits)] #[kani::stub(crate::data::GdsFloat64::decode, dec_bits)] #[kani::stub(alloc::fmt::format, fmt_stub)] #[kani::unwind(16)] c03_s_r1_k13_n0;
    #[kani::stub(std::str::from_utf8, from_utf8_model)] #[kani::stub(crate::data::GdsFloat64::encode, enc_bits)] #[kani::stub(crate::data::GdsFloat64::decode, dec_bits)] #[kani::stub(alloc::fmt::format, fmt_stub)] #[kani::unwind(14)] c01_s_l1_k15_n0;
    #[kani::stub(std::str::from_utf8, from_utf8_model)] #[kani::stub(crate::data::GdsFloat64::encode, enc_bits)] #[kani::stub(crate::data::GdsFloat64::decode, dec_bits)] #[kani::stub(alloc::fmt::format, fmt_stub)] #[kani::unwind(16)] c03_s_r1_k15_n0;
    #[kani::stub(std::str::from_utf8, from_utf8_model)] #[kani::stub(crate::data::GdsFloat64::encode, enc_bits)] #[kani::stub(crate::data::GdsFloat64::decode, dec_bits)] #[kani::stub(alloc::fmt::format, fmt_stub)] #[kani::unwind(14)] c01_s_l1_k16_n0;
    #[kani::stub(std::str::from_utf8, from_utf8_model)] #[kani::stub(crate::data::GdsFloat64::encode, enc_bits)] #[kani::stub(crate::data::GdsFloat64::decode, dec_bits)] #[kani::stub(alloc::fmt::format, fmt_stub)] #[kani::unwind(16)] c03_s_r1_k16_n0;
    #[kani::stub(std::str::from_utf8, from_utf8_model)] #[kani::stub(crate::data::GdsFloat64::encode, enc_bits)] #[kani::stub(crate::data::GdsFloat64::decode, dec_bits)] #[kani::stub(alloc::fmt::format, fmt_stub)] #[kani::unwind(14)] c01_s_l1_k17_n0;
    #[kani::stub(std::str::from_utf8, from_utf8_model)] #[kani::stub(crate::data::GdsFloat64::encode, enc_bits)] #[kani::stub(crate::data::GdsFloat64::decode, dec_bits)] #[kani::stub(alloc::fmt::format, fmt_stub)] #[kani::unwind(16)] c03_s_r1_k17_n0;
    #[kani::stub(std::str::from_utf8, from_utf8_model)] #[kani::stub(crate::data::GdsFloat64::encode, enc_bits)] #[kani::stub(crate::data::GdsFloat64::decode, dec_bits)] #[kani::stub(alloc::fmt::format, fmt_stub)] #[kani::unwind(6)] c01_s_l1_k19_n0;
    #[kani::stub(std::str::from_utf8, from_utf8_model)] #[kani::stub(crate::data::GdsFloat64::encode, enc_bits)] #[kani::stub(crate::data::GdsFloat64::decode, dec_bits)] #[kani::stub(alloc::fmt::format, fmt_stub)] #[kani::unwind(8)] c03_s_r1_k19_n0;
    #[kani::stub(std::str::from_utf8, from_utf8_model)] #[kani::stub(crate::data::GdsFloat64::encode, enc_bits)] #[kani::stub(crate::data::GdsFloat64::decode, dec_bits)] #[kani::stub(alloc::fmt::format, fmt_stub)] #[kani::unwind(8)] c01_s_l1_k19_n1;
    #[kani::stub(std::str::from_utf8, from_utf8_model)] #[kani::stub(crate::data::GdsFloat64::encode, enc_bits)] #[kani::stub(crate::data::GdsFloat64::decode, dec_bits)] #[kani::stub(alloc::fmt::format, fmt_stub)] #[kani::unwind(10)] c03_s_r1_k19_n1;
    #[kani::stub(std::str::from_utf8, from_utf8_model)] #[kani::stub(crate::data::GdsFloat64::encode, enc_bits)] #[kani::stub(crate::data::GdsFloat64::decode, dec_bits)] #[kani::stub(alloc::fmt::format, fmt_stub)] #[kani::unwind(8)] c01_q_l1_k19_n2;
    #[kani::stub(std::str::from_utf8, from_utf8_model)] #[kani::stub(crate::data::GdsFloat64::encode, enc_bits)] #[kani::stub(crate::data::GdsFloat64::decode, dec_bits)] #[kani::stub(alloc::fmt::format, fmt_stub)] #[kani::unwind(10)] c03_s_r1_k19_n2;
    #[kani::stub(std::str::from_utf8, from_utf8_model)] #[kani::stub(crate::data::GdsFloat64::encode, enc_bits)] #[kani::stub(crate::data::GdsFloat64::decode, dec_bits)] #[kani::stub(alloc::fmt::format, fmt_stub)] #[kani::unwind(10)] c01_s_l1_k19_n3;
    #[kani::stub(std::str::from_utf8, from_utf8_model)] #[kani::stub(crate::data::GdsFloat64::encode, enc_bits)] #[kani::stub(crate::data::GdsFloat64::decode, dec_bits)] #[kani::stub(alloc::fmt::format, fmt_stub)] #[kani::unwind(12)] c03_s_r1_k19_n3;
    #[kani::stub(std::str::from_utf8, from_utf8_model)] #[kani::stub(crate::data::GdsFloat64::encode, enc_bits)] #[kani::stub(crate::data::GdsFloat64::decode, dec_bits)] #[kani::stub(alloc::fmt::format, fmt_stub)] #[kani::unwind(14)] c01_s_l1_k1a_n0;
    #[kani::stub(std::str::from_utf8, from_utf8_model)] #[kani::stub(crate::data::GdsFloat64::encode, enc_bits)] #[kani::stub(crate::data::GdsFloat64::decode, dec_bits)] #[kani::stub(alloc::fmt::format, fmt_stub)] #[kani::unwind(16)] c03_s_r1_k1a_n0;
    #[kani::stub(std::str::from_utf8, from_utf8_model)] #[kani::stub(crate::data::GdsFloat64::encode, enc_bits)] #[kani::stub(crate::data::GdsFloat64::decode, dec_bits)] #[kani::stub(alloc::fmt::format, fmt_stub)] #[kani::unwind(14)] c01_s_l1_k1b_n0;
    #[kani::stub(std::str::from_utf8, from_utf8_model)] #[kani::stub(crate::data::GdsFloat64::encode, enc_bits)] #[kani::stub(crate::data::GdsFloat64::decode, dec_bits)] #[kani::stub(alloc::fmt::format, fmt_stub)] #[kani::unwind(16)] c03_s_r1_k1b_n0;
    #[kani::stub(std::str::from_utf8, from_utf8_model)] #[kani::stub(crate::data::GdsFloat64::encode, enc_bits)] #[kani::stub(crate::data::GdsFloat64::decode, dec_bits)] #[kani::stub(alloc::fmt::format, fmt_stub)] #[kani::unwind(14)] c01_s_l1_k1c_n0;
    #[kani::stub(std::str::from_utf8, from_utf8_model)] #[kani::stub(crate::data::GdsFloat64::encode, enc_bits)] #[kani::stub(crate::data::GdsFloat64::decode, dec_bits)] #[kani::stub(alloc::fmt::format, fmt_stub)] #[kani::unwind(16)] c03_s_r1_k1c_n0;
    #[kani::stub(std::str::from_utf8, from_utf8_model)] #[kani::stub(crate::data::GdsFloat64::encode, enc_bits)] #[kani::stub(crate::data::GdsFloat64::decode, dec_bits)] #[kani::stub(alloc::fmt::format, fmt_stub)] #[kani::unwind(6)] c01_s_l1_k1f_n0;
    #[kani::stub(std::str::from_utf8, from_utf8_model)] #[kani::stub(crate::data::GdsFloat64::encode, enc_bits)] #[kani::stub(crate::data::GdsFloat64::decode, dec_bits)] #[kani::stub(alloc::fmt::format, fmt_stub)] #[kani::unwind(8)] c03_s_r1_k1f_n0;
    #[kani::stub(std::str::from_utf8, from_utf8_model)] #[kani::stub(crate::data::GdsFloat64::encode, enc_bits)] #[kani::stub(crate::data::GdsFloat64::decode, dec_bits)] #[kani::stub(alloc::fmt::format, fmt_stub)] #[kani::unwind(8)] c01_s_l1_k1f_n1;
    #[kani::stub(std::str::from_utf8, from_utf8_model)] #[kani::stub(crate::data::GdsFloat64::encode, enc_bits)] #[kani::stub(crate::data::GdsFloat64::decode, dec_bits)] #[kani::stub(alloc::fmt::format, fmt_stub)] #[kani::unwind(10)] c03_s_r1_k1f_n1;
    #[kani::stub(std::str::from_utf8, from_utf8_model)] #[kani::stub(crate::data::GdsFloat64::encode, enc_bits)] #[kani::stub(crate::data::GdsFloat64::decode, dec_bits)] #[kani::stub(alloc::fmt::format, fmt_stub)] #[kani::unwind(8)] c01_s_l1_k1f_n2;
    #[kani::stub(std::str::from_utf8, from_utf8_model)] #[kani::stub(crate::data::GdsFloat64::encode, enc_bits)] #[kani::stub(crate::data::GdsFloat64::decode, dec_bits)] #[kani::stub(alloc::fmt::format, fmt_stub)] #[kani::unwind(10)] c03_s_r1_k1f_n2;
    #[kani::stub(std::str::from_utf8, from_utf8_model)] #[kani::stub(crate::data::GdsFloat64::encode, enc_bits)] #[kani::stub(crate::data::GdsFloat64::decode, dec_bits)] #[kani::stub(alloc::fmt::format, fmt_stub)] #[kani::unwind(10)] c01_s_l1_k1f_n3;
    #[kani::stub(std::str::from_utf8, from_utf8_model)] #[kani::stub(crate::data::GdsFloat64::encode, enc_bits)] #[kani::stub(crate::data::GdsFloat64::decode, dec_bits)] #[kani::stub(alloc::fmt::format, fmt_stub)] #[kani::unwind(12)] c03_s_r1_k1f_n3;
    #[kani::stub(std::str::from_utf8, from_utf8_model)] #[kani::stub(crate::data::GdsFloat64::encode, enc_bits)] #[kani::stub(crate::data::GdsFloat64::decode, dec_bits)] #[kani::stub(alloc::fmt::format, fmt_stub)] #[kani::unwind(6)] c01_s_l1_k20_n0;
    #[kani::stub(std::str::from_utf8, from_utf8_model)] #[kani::stub(crate::data::GdsFloat64::encode, enc_bits)] #[kani::stub(crate::data::GdsFloat64::decode, dec_bits)] #[kani::stub(alloc::fmt::format, fmt_stub)] #[kani::unwind(8)] c03_s_r1_k20_n0;
    #[kani::stub(std::str::from_utf8, from_utf8_model)] #[kani::stub(crate::data::GdsFloat64::encode, enc_bits)] #[kani::stub(crate::data::GdsFloat64::decode, dec_bits)] #[kani::stub(alloc::fmt::format, fmt_stub)] #[kani::unwind(8)] c01_s_l1_k20_n1;
    #[kani::stub(std::str::from_utf8, from_utf8_model)] #[kani::stub(crate::data::GdsFloat64::encode, enc_bits)] #[kani::stub(crate::data::GdsFloat64::decode, dec_bits)] #[kani::stub(alloc::fmt::format, fmt_stub)] #[kani::unwind(10)] c03_s_r1_k20_n1;
    #[kani::stub(std::str::from_utf8, from_utf8_model)] #[kani::stub(crate::data::GdsFloat64::encode, enc_bits)] #[kani::stub(crate::data::GdsFloat64::decode, dec_bits)] #[kani::stub(alloc::fmt::format, fmt_stub)] #[kani::unwind(8)] c01_s_l1_k20_n2;
    #[kani::stub(std::str::from_utf8, from_utf8_model)] #[kani::stub(crate::data::GdsFloat64::encode, enc_bits)] #[kani::stub(crate::data::GdsFloat64::decode, dec_bits)] #[kani::stub(alloc::fmt::format, fmt_stub)] #[kani::unwind(10)] c03_s_r1_k20_n2;
    #[kani::stub(std::str::from_utf8, from_utf8_model)] #[kani::stub(crate::data::GdsFloat64::encode, enc_bits)] #[kani::stub(crate::data::GdsFloat64::decode, dec_bits)] #[kani::stub(alloc::fmt::format, fmt_stub)] #[kani::unwind(10)] c01_s_l1_k20_n3;
    #[kani::stub(std::str::from_utf8, from_utf8_model)] #[kani::stub(crate::data::GdsFloat64::encode, enc_bits)] #[kani::stub(crate::data::GdsFloat64::decode, dec_bits)] #[kani::stub(alloc::fmt::format, fmt_stub)] #[kani::unwind(12)] c03_s_r1_k20_n3;
    #[kani::stub(std::str::from_utf8, from_utf8_model)] #[kani::stub(crate::data::GdsFloat64::encode, enc_bits)] #[kani::stub(crate::data::GdsFloat64::decode, dec_bits)] #[kani::stub(alloc::fmt::format, fmt_stub)] #[kani::unwind(14)] c01_s_l1_k21_n0;
    #[kani::stub(std::str::from_utf8, from_utf8_model)] #[kani::stub(crate::data::GdsFloat64::encode, enc_bits)] #[kani::stub(crate::data::GdsFloat64::decode, dec_bits)] #[kani::stub(alloc::fmt::format, fmt_stub)] #[kani::unwind(16)] c03_s_r1_k21_n0;
    #[kani::stub(std::str::from_utf8, from_utf8_model)] #[kani::stub(crate::data::GdsFloat64::encode, enc_bits)] #[kani::stub(crate::data::GdsFloat64::decode, dec_bits)] #[kani::stub(alloc::fmt::format, fmt_stub)] #[kani::unwind(14)] c01_s_l1_k22_n0;
    #[kani::stub(std::str::from_utf8, from_utf8_model)] #[kani::stub(crate::data::GdsFloat64::encode, enc_bits)] #[kani::stub(crate::data::GdsFloat64::decode, dec_bits)] #[kani::stub(alloc::fmt::format, fmt_stub)] #[kani::unwind(16)] c03_s_r1_k22_n0;
    #[kani::stub(std::str::from_utf8, from_utf8_model)] #[kani::stub(crate::data::GdsFloat64::encode, enc_bits)] #[kani::stub(crate::data::GdsFloat64::decode, dec_bits)] #[kani::stub(alloc::fmt::format, fmt_stub)] #[kani::unwind(6)] c01_s_l1_k23_n0;
    #[kani::stub(std::str::from_utf8, from_utf8_model)] #[kani::stub(crate::data::GdsFloat64::encode, enc_bits)] #[kani::stub(crate::data::GdsFloat64::decode, dec_bits)] #[kani::stub(alloc::fmt::format, fmt_stub)] #[kani::unwind(8)] c03_s_r1_k23_n0;
    #[kani::stub(std::str::from_utf8, from_utf8_model)] #[kani::stub(crate::data::GdsFloat64::encode, enc_bits)] #[kani::stub(crate::data::GdsFloat64::decode, dec_bits)] #[kani::stub(alloc::fmt::format, fmt_stub)] #[kani::unwind(8)] c01_s_l1_k23_n1;
    #[kani::stub(std::str::from_utf8, from_utf8_model)] #[kani::stub(crate::data::GdsFloat64::encode, enc_bits)] #[kani::stub(crate::data::GdsFloat64::decode, dec_bits)] #[kani::stub(alloc::fmt::format, fmt_stub)] #[kani::unwind(10)] c03_s_r1_k23_n1;
    #[kani::stub(std::str::from_utf8, from_utf8_model)] #[kani::stub(crate::data::GdsFloat64::encode, enc_bits)] #[kani::stub(crate::data::GdsFloat64::decode, dec_bits)] #[kani::stub(alloc::fmt::format, fmt_stub)] #[kani::unwind(8)] c01_s_l1_k23_n2;
    #[kani::stub(std::str::from_utf8, from_utf8_model)] #[kani::stub(crate::data::GdsFloat64::encode, enc_bits)] #[kani::stub(crate::data::GdsFloat64::decode, dec_bits)] #[kani::stub(alloc::fmt::format, fmt_stub)] #[kani::unwind(10)] c03_s_r1_k23_n2;
    #[kani::stub(std::str::from_utf8, from_utf8_model)] #[kani::stub(crate::data::GdsFloat64::encode, enc_bits)] #[kani::stub(crate::data::GdsFloat64::decode, dec_bits)] #[kani::stub(alloc::fmt::format, fmt_stub)] #[kani::unwind(10)] c01_s_l1_k23_n3;
    #[kani::stub(std::str::from_utf8, from_utf8_model)] #[kani::stub(crate::data::GdsFloat64::encode, enc_bits)] #[kani::stub(crate::data::GdsFloat64::decode, dec_bits)] #[kani::stub(alloc::fmt::format, fmt_stub)] #[kani::unwind(12)] c03_s_r1_k23_n3;
    #[kani::stub(std::str::from_utf8, from_utf8_model)] #[kani::stub(crate::data::GdsFloat64::encode, enc_bits)] #[kani::stub(crate::data::GdsFloat64::decode, dec_bits)] #[kani::stub(alloc::fmt::format, fmt_stub)] #[kani::unwind(14)] c01_s_l1_k26_n0;
    #[kani::stub(std::str::from_utf8, from_utf8_model)] #[kani::stub(crate::data::GdsFloat64::encode, enc_bits)] #[kani::stub(crate::data::GdsFloat64::decode, dec_bits)] #[kani::stub(alloc::fmt::format, fmt_stub)] #[kani::unwind(16)] c03_s_r1_k26_n0;
    #[kani::stub(std::str::from_utf8, from_utf8_model)] #[kani::stub(crate::data::GdsFloat64::encode, enc_bits)] #[kani::stub(crate::data::GdsFloat64::decode, dec_bits)] #[kani::stub(alloc::fmt::format, fmt_stub)] #[kani::unwind(14)] c01_s_l1_k2a_n0;
    #[kani::stub(std::str::from_utf8, from_utf8_model)] #[kani::stub(crate::data::GdsFloat64::encode, enc_bits)] #[kani::stub(crate::data::GdsFloat64::decode, dec_bits)] #[kani::stub(alloc::fmt::format, fmt_stub)] #[kani::unwind(16)] c03_s_r1_k2a_n0;
    #[kani::stub(std::str::from_utf8, from_utf8_model)] #[kani::stub(crate::data::GdsFloat64::encode, enc_bits)] #[kani::stub(crate::data::GdsFloat64::decode, dec_bits)] #[kani::stub(alloc::fmt::format, fmt_stub)] #[kani::unwind(14)] c01_s_l1_k2b_n0;
    #[kani::stub(std::str::from_utf8, from_utf8_model)] #[kani::stub(crate::data::GdsFloat64::encode, enc_bits)] #[kani::stub(crate::data::GdsFloat64::decode, dec_bits)] #[kani::stub(alloc::fmt::format, fmt_stub)] #[kani::unwind(16)] c03_s_r1_k2b_n0;
    #[kani::stub(std::str::from_utf8, from_utf8_model)] #[kani::stub(crate::data::GdsFloat64::encode, enc_bits)] #[kani::stub(crate::data::GdsFloat64::decode, dec_bits)] #[kani::stub(alloc::fmt::format, fmt_stub)] #[kani::unwind(6)] c01_s_l1_k2c_n0;
    #[kani::stub(std::str::from_utf8, from_utf8_model)] #[kani::stub(crate::data::GdsFloat64::encode, enc_bits)] #[kani::stub(crate::data::GdsFloat64::decode, dec_bits)] #[kani::stub(alloc::fmt::format, fmt_stub)] #[kani::unwind(8)] c03_s_r1_k2c_n0;
    #[kani::stub(std::str::from_utf8, from_utf8_model)] #[kani::stub(crate::data::GdsFloat64::encode, enc_bits)] #[kani::stub(crate::data::GdsFloat64::decode, dec_bits)] #[kani::stub(alloc::fmt::format, fmt_stub)] #[kani::unwind(8)] c01_s_l1_k2c_n1;
    #[kani::stub(std::str::from_utf8, from_utf8_model)] #[kani::stub(crate::data::GdsFloat64::encode, enc_bits)] #[kani::stub(crate::data::GdsFloat64::decode, dec_bits)] #[kani::stub(alloc::fmt::format, fmt_stub)] #[kani::unwind(10)] c03_s_r1_k2c_n1;
    #[kani::stub(std::str::from_utf8, from_utf8_model)] #[kani::stub(crate::data::GdsFloat64::encode, enc_bits)] #[kani::stub(crate::data::GdsFloat64::decode, dec_bits)] #[kani::stub(alloc::fmt::format, fmt_stub)] #[kani::unwind(8)] c01_s_l1_k2c_n2;
    #[kani::stub(std::str::from_utf8, from_utf8_model)] #[kani::stub(crate::data::GdsFloat64::encode, enc_bits)] #[kani::stub(crate::data::GdsFloat64::decode, dec_bits)] #[kani::stub(alloc::fmt::format, fmt_stub)] #[kani::unwind(10)] c03_s_r1_k2c_n2;
    #[kani::stub(std::str::from_utf8, from_utf8_model)] #[kani::stub(crate::data::GdsFloat64::encode, enc_bits)] #[kani::stub(crate::data::GdsFloat64::decode, dec_bits)] #[kani::stub(alloc::fmt::format, fmt_stub)] #[kani::unwind(10)] c01_s_l1_k2c_n3;
    #[kani::stub(std::str::from_utf8, from_utf8_model)] #[kani::stub(crate::data::GdsFloat64::encode, enc_bits)] #[kani::stub(crate::data::GdsFloat64::decode, dec_bits)] #[kani::stub(alloc::fmt::format, fmt_stub)] #[kani::unwind(12)] c03_q_r1_k2c_n3;
    #[kani::stub(std::str::from_utf8, from_utf8_model)] #[kani::stub(crate::data::GdsFloat64::encode, enc_bits)] #[kani::stub(crate::data::GdsFloat64::decode, dec_bits)] #[kani::stub(alloc::fmt::format, fmt_stub)] #[kani::unwind(14)] c01_s_l1_k2d_n0;
    #[kani::stub(std::str::from_utf8, from_utf8_model)] #[kani::stub(crate::data::GdsFloat64::encode, enc_bits)] #[kani::stub(crate::data::GdsFloat64::decode, dec_bits)] #[kani::stub(alloc::fmt::format, fmt_stub)] #[kani::unwind(16)] c03_s_r1_k2d_n0;
    #[kani::stub(std::str::from_utf8, from_utf8_model)] #[kani::stub(crate::data::GdsFloat64::encode, enc_bits)] #[kani::stub(crate::data::GdsFloat64::decode, dec_bits)] #[kani::stub(alloc::fmt::format, fmt_stub)] #[kani::unwind(14)] c01_s_l1_k2e_n0;
    #[kani::stub(std::str::from_utf8, from_utf8_model)] #[kani::stub(crate::data::GdsFloat64::encode, enc_bits)] #[kani::stub(crate::data::GdsFloat64::decode, dec_bits)] #[kani::stub(alloc::fmt::format, fmt_stub)] #[kani::unwind(16)] c03_s_r1_k2e_n0;
    #[kani::stub(std::str::from_utf8, from_utf8_model)] #[kani::stub(crate::data::GdsFloat64::encode, enc_bits)] #[kani::stub(crate::data::GdsFloat64::decode, dec_bits)] #[kani::stub(alloc::fmt::format, fmt_stub)] #[kani::unwind(14)] c01_s_l1_k2f_n0;
    #[kani::stub(std::str::from_utf8, from_utf8_model)] #[kani::stub(crate::data::GdsFloat64::encode, enc_bits)] #[kani::stub(crate::data::GdsFloat64::decode, dec_bits)] #[kani::stub(alloc::fmt::format, fmt_stub)] #[kani::unwind(16)] c03_s_r1_k2f_n0;
    #[kani::stub(std::str::from_utf8, from_utf8_model)] #[kani::stub(crate::data::GdsFloat64::encode, enc_bits)] #[kani::stub(crate::data::GdsFloat64::decode, dec_bits)] #[kani::stub(alloc::fmt::format, fmt_stub)] #[kani::unwind(14)] c01_s_l1_k30_n0;
    #[kani::stub(std::str::from_utf8, from_utf8_model)] #[kani::stub(crate::data::GdsFloat64::encode, enc_bits)] #[kani::stub(crate::data::GdsFloat64::decode, dec_bits)] #[kani::stub(alloc::fmt::format, fmt_stub)] #[kani::unwind(16)] c03_s_r1_k30_n0;
    #[kani::stub(std::str::from_utf8, from_utf8_model)] #[kani::stub(crate::data::GdsFloat64::encode, enc_bits)] #[kani::stub(crate::data::GdsFloat64::decode, dec_bits)] #[kani::stub(alloc::fmt::format, fmt_stub)] #[kani::unwind(14)] c01_s_l1_k31_n0;
    #[kani::stub(std::str::from_utf8, from_utf8_model)] #[kani::stub(crate::data::GdsFloat64::encode, enc_bits)] #[kani::stub(crate::data::GdsFloat64::decode, dec_bits)] #[kani::stub(alloc::fmt::format, fmt_stub)] #[kani::unwind(16)] c03_s_r1_k31_n0;
    #[kani::stub(std::str::from_utf8, from_utf8_model)] #[kani::stub(crate::data::GdsFloat64::encode, enc_bits)] #[kani::stub(crate::data::GdsFloat64::decode, dec_bits)] #[kani::stub(alloc::fmt::format, fmt_stub)] #[kani::unwind(14)] c01_s_l1_k32_n0;
    #[kani::stub(std::str::from_utf8, from_utf8_model)] #[kani::stub(crate::data::GdsFloat64::encode, enc_bits)] #[kani::stub(crate::data::GdsFloat64::decode, dec_bits)] #[kani::stub(alloc::fmt::format, fmt_stub)] #[kani::unwind(16)] c03_s_r1_k32_n0;
    #[kani::stub(std::str::from_utf8, from_utf8_model)] #[kani::stub(crate::data::GdsFloat64::encode, enc_bits)] #[kani::stub(crate::data::GdsFloat64::decode, dec_bits)] #[kani::stub(alloc::fmt::format, fmt_stub)] #[kani::unwind(18)] c01_s_l1_k33_n0;
    #[kani::stub(std::str::from_utf8, from_utf8_model)] #[kani::stub(crate::data::GdsFloat64::encode, enc_bits)] #[kani::stub(crate::data::GdsFloat64::decode, dec_bits)] #[kani::stub(alloc::fmt::format, fmt_stub)] #[kani::unwind(20)] c03_s_r1_k33_n0;
    #[kani::stub(std::str::from_utf8, from_utf8_model)] #[kani::stub(crate::data::GdsFloat64::encode, enc_bits)] #[kani::stub(crate::data::GdsFloat64::decode, dec_bits)] #[kani::stub(alloc::fmt::format, fmt_stub)] #[kani::unwind(14)] c01_s_l1_k36_n0;
    #[kani::stub(std::str::from_utf8, from_utf8_model)] #[kani::stub(crate::data::GdsFloat64::encode, enc_bits)] #[kani::stub(crate::data::GdsFloat64::decode, dec_bits)] #[kani::stub(alloc::fmt::format, fmt_stub)] #[kani::unwind(16)] c03_s_r1_k36_n0;
    #[kani::stub(std::str::from_utf8, from_utf8_model)] #[kani::stub(crate::data::GdsFloat64::encode, enc_bits)] #[kani::stub(crate::data::GdsFloat64::decode, dec_bits)] #[kani::stub(alloc::fmt::format, fmt_stub)] #[kani::unwind(6)] c01_s_l1_k37_n0;
    #[kani::stub(std::str::from_utf8, from_utf8_model)] #[kani::stub(crate::data::GdsFloat64::encode, enc_bits)] #[kani::stub(crate::data::GdsFloat64::decode, dec_bits)] #[kani::stub(alloc::fmt::format, fmt_stub)] #[kani::unwind(8)] c03_s_r1_k37_n0;
    #[kani::stub(std::str::from_utf8, from_utf8_model)] #[kani::stub(crate::data::GdsFloat64::encode, enc_bits)] #[kani::stub(crate::data::GdsFloat64::decode, dec_bits)] #[kani::stub(alloc::fmt::format, fmt_stub)] #[kani::unwind(8)] c01_s_l1_k37_n1;
    #[kani::stub(std::str::from_utf8, from_utf8_model)] #[kani::stub(crate::data::GdsFloat64::encode, enc_bits)] #[kani::stub(crate::data::GdsFloat64::decode, dec_bits)] #[kani::stub(alloc::fmt::format, fmt_stub)] #[kani::unwind(10)] c03_s_r1_k37_n1;
    #[kani::stub(std::str::from_utf8, from_utf8_model)] #[kani::stub(crate::data::GdsFloat64::encode, enc_bits)] #[kani::stub(crate::data::GdsFloat64::decode, dec_bits)] #[kani::stub(alloc::fmt::format, fmt_stub)] #[kani::unwind(8)] c01_s_l1_k37_n2;
    #[kani::stub(std::str::from_utf8, from_utf8_model)] #[kani::stub(crate::data::GdsFloat64::encode, enc_bits)] #[kani::stub(crate::data::GdsFloat64::decode, dec_bits)] #[kani::stub(alloc::fmt::format, fmt_stub)] #[kani::unwind(10)] c03_s_r1_k37_n2;
    #[kani::stub(std::str::from_utf8, from_utf8_model)] #[kani::stub(crate::data::GdsFloat64::encode, enc_bits)] #[kani::stub(crate::data::GdsFloat64::decode, dec_bits)] #[kani::stub(alloc::fmt::format, fmt_stub)] #[kani::unwind(10)] c01_s_l1_k37_n3;
    #[kani::stub(std::str::from_utf8, from_utf8_model)] #[kani::stub(crate::data::GdsFloat64::encode, enc_bits)] #[kani::stub(crate::data::GdsFloat64::decode, dec_bits)] #[kani::stub(alloc::fmt::format, fmt_stub)] #[kani::unwind(12)] c03_s_r1_k37_n3;
    #[kani::stub(std::str::from_utf8, from_utf8_model)] #[kani::stub(crate::data::GdsFloat64::encode, enc_bits)] #[kani::stub(crate::data::GdsFloat64::decode, dec_bits)] #[kani::stub(alloc::fmt::format, fmt_stub)] #[kani::unwind(14)] c01_s_l1_k38_n0;
    #[kani::stub(std::str::from_utf8, from_utf8_model)] #[kani::stub(crate::data::GdsFloat64::encode, enc_bits)] #[kani::stub(crate::data::GdsFloat64::decode, dec_bits)] #[kani::stub(alloc::fmt::format, fmt_stub)] #[kani::unwind(16)] c03_s_r1_k38_n0;
    #[kani::stub(std::str::from_utf8, from_utf8_model)] #[kani::stub(crate::data::GdsFloat64::encode, enc_bits)] #[kani::stub(crate::data::GdsFloat64::decode, dec_bits)] #[kani::stub(alloc::fmt::format, fmt_stub)] #[kani::unwind(14)] c01_s_l1_k39_n0;
    #[kani::stub(std::str::from_utf8, from_utf8_model)] #[kani::stub(crate::data::GdsFloat64::encode, enc_bits)] #[kani::stub(crate::data::GdsFloat64::decode, dec_bits)] #[kani::stub(alloc::fmt::format, fmt_stub)] #[kani::unwind(16)] c03_s_r1_k39_n0;
    #[kani::stub(std::str::from_utf8, from_utf8_model)] #[kani::stub(crate::data::GdsFloat64::encode, enc_bits)] #[kani::stub(crate::data::GdsFloat64::decode, dec_bits)] #[kani::stub(alloc::fmt::format, fmt_stub)] #[kani::unwind(6)] c01_s_l1_k3a_n0;
    #[kani::stub(std::str::from_utf8, from_utf8_model)] #[kani::stub(crate::data::GdsFloat64::encode, enc_bits)] #[kani::stub(crate::data::GdsFloat64::decode, dec_bits)] #[kani::stub(alloc::fmt::format, fmt_stub)] #[kani::unwind(8)] c03_s_r1_k3a_n0;
    #[kani::stub(std::str::from_utf8, from_utf8_model)] #[kani::stub(crate::data::GdsFloat64::encode, enc_bits)] #[kani::stub(crate::data::GdsFloat64::decode, dec_bits)] #[kani::stub(alloc::fmt::format, fmt_stub)] #[kani::unwind(8)] c01_s_l1_k3a_n1;
    #[kani::stub(std::str::from_utf8, from_utf8_model)] #[kani::stub(crate::data::GdsFloat64::encode, enc_bits)] #[kani::stub(crate::data::GdsFloat64::decode, dec_bits)] #[kani::stub(alloc::fmt::format, fmt_stub)] #[kani::unwind(10)] c03_s_r1_k3a_n1;
    #[kani::stub(std::str::from_utf8, from_utf8_model)] #[kani::stub(crate::data::GdsFloat64::encode, enc_bits)] #[kani::stub(crate::data::GdsFloat64::decode, dec_bits)] #[kani::stub(alloc::fmt::format, fmt_stub)] #[kani::unwind(8)] c01_s_l1_k3a_n2;
    #[kani::stub(std::str::from_utf8, from_utf8_model)] #[kani::stub(crate::data::GdsFloat64::encode, enc_bits)] #[kani::stub(crate::data::GdsFloat64::decode, dec_bits)] #[kani::stub(alloc::fmt::format, fmt_stub)] #[kani::unwind(10)] c03_s_r1_k3a_n2;
    #[kani::stub(std::str::from_utf8, from_utf8_model)] #[kani::stub(crate::data::GdsFloat64::encode, enc_bits)] #[kani::stub(crate::data::GdsFloat64::decode, dec_bits)] #[kani::stub(alloc::fmt::format, fmt_stub)] #[kani::unwind(10)] c01_s_l1_k3a_n3;
    #[kani::stub(std::str::from_utf8, from_utf8_model)] #[kani::stub(crate::data::GdsFloat64::encode, enc_bits)] #[kani::stub(crate::data::GdsFloat64::decode, dec_bits)] #[kani::stub(alloc::fmt::format, fmt_stub)] #[kani::unwind(12)] c03_s_r1_k3a_n3;
    #[kani::stub(std::str::from_utf8, from_utf8_model)] #[kani::stub(crate::data::GdsFloat64::encode, enc_bits)] #[kani::stub(crate::data::GdsFloat64::decode, dec_bits)] #[kani::stub(alloc::fmt::format, fmt_stub)] #[kani::unwind(14)] c01_s_l1_k3b_n0;
    #[kani::stub(std::str::from_utf8, from_utf8_model)] #[kani::stub(crate::data::GdsFloat64::encode, enc_bits)] #[kani::stub(crate::data::GdsFloat64::decode, dec_bits)] #[kani::stub(alloc::fmt::format, fmt_stub)] #[kani::unwind(16)] c03_s_r1_k3b_n0;
    #[kani::stub(std::str::from_utf8, from_utf8_model)] #[kani::stub(crate::data::GdsFloat64::encode, enc_bits)] #[kani::stub(crate::data::GdsFloat64::decode, dec_bits)] #[kani::stub(alloc::fmt::format, fmt_stub)] #[kani::unwind(8)] c03_s_r1pad_k02_n0;
    #[kani::stub(std::str::from_utf8, from_utf8_model)] #[kani::stub(crate::data::GdsFloat64::encode, enc_bits)] #[kani::stub(crate::data::GdsFloat64::decode, dec_bits)] #[kani::stub(alloc::fmt::format, fmt_stub)] #[kani::unwind(8)] c03_s_r1pad_k02_n1;
    #[kani::stub(std::str::from_utf8, from_utf8_model)] #[kani::stub(crate::data::GdsFloat64::encode, enc_bits)] #[kani::stub(crate::data::GdsFloat64::decode, dec_bits)] #[kani::stub(alloc::fmt::format, fmt_stub)] #[kani::unwind(8)] c03_s_r1pad_k02_n2;
    #[kani::stub(std::str::from_utf8, from_utf8_model)] #[kani::stub(crate::data::GdsFloat64::encode, enc_bits)] #[kani::stub(crate::data::GdsFloat64::decode, dec_bits)] #[kani::stub(alloc::fmt::format, fmt_stub)] #[kani::unwind(8)] c03_s_r1pad_k02_n3;
    #[kani::stub(std::str::from_utf8, from_utf8_model)] #[kani::stub(crate::data::GdsFloat64::encode, enc_bits)] #[kani::stub(crate::data::GdsFloat64::decode, dec_bits)] #[kani::stub(alloc::fmt::format, fmt_stub)] #[kani::unwind(8)] c03_s_r1pad_k06_n0;
    #[kani::stub(std::str::from_utf8, from_utf8_model)] #[kani::stub(crate::data::GdsFloat64::encode, enc_bits)] #[kani::stub(crate::data::GdsFloat64::decode, dec_bits)] #[kani::stub(alloc::fmt::format, fmt_stub)] #[kani::unwind(8)] c03_s_r1pad_k06_n1;
    #[kani::stub(std::str::from_utf8, from_utf8_model)] #[kani::stub(crate::data::GdsFloat64::encode, enc_bits)] #[kani::stub(crate::data::GdsFloat64::decode, dec_bits)] #[kani::stub(alloc::fmt::format, fmt_stub)] #[kani::unwind(8)] c03_q_r1pad_k06_n2;
    #[kani::stub(std::str::from_utf8, from_utf8_model)] #[kani::stub(crate::data::GdsFloat64::encode, enc_bits)] #[kani::stub(crate::data::GdsFloat64::decode, dec_bits)] #[kani::stub(alloc::fmt::format, fmt_stub)] #[kani::unwind(8)] c03_s_r1pad_k06_n3;
    #[kani::stub(std::str::from_utf8, from_utf8_model)] #[kani::stub(crate::data::GdsFloat64::encode, enc_bits)] #[kani::stub(crate::data::GdsFloat64::decode, dec_bits)] #[kani::stub(alloc::fmt::format, fmt_stub)] #[kani::unwind(8)] c03_s_r1pad_k12_n0;
    #[kani::stub(std::str::from_utf8, from_utf8_model)] #[kani::stub(crate::data::GdsFloat64::encode, enc_bits)] #[kani::stub(crate::data::GdsFloat64::decode, dec_bits)] #[kani::stub(alloc::fmt::format, fmt_stub)] #[kani::unwind(8)] c03_s_r1pad_k12_n1;
    #[kani::stub(std::str::from_utf8, from_utf8_model)] #[kani::stub(crate::data::GdsFloat64::encode, enc_bits)] #[kani::stub(crate::data::GdsFloat64::decode, dec_bits)] #[kani::stub(alloc::fmt::format, fmt_stub)] #[kani::unwind(8)] c03_s_r1pad_k12_n2;
    #[kani::stub(std::str::from_utf8, from_utf8_model)] #[kani::stub(crate::data::GdsFloat64::encode, enc_bits)] #[kani::stub(crate::data::GdsFloat64::decode, dec_bits)] #[kani::stub(alloc::fmt::format, fmt_stub)] #[kani::unwind(8)] c03_s_r1pad_k12_n3;
    #[kani::stub(std::str::from_utf8, from_utf8_model)] #[kani::stub(crate::data::GdsFloat64::encode, enc_bits)] #[kani::stub(crate::data::GdsFloat64::decode, dec_bits)] #[kani::stub(alloc::fmt::format, fmt_stub)] #[kani::unwind(8)] c03_q_r1pad_k19_n0;
    #[kani::stub(std::str::from_utf8, from_utf8_model)] #[kani::stub(crate::data::GdsFloat64::encode, enc_bits)] #[kani::stub(crate::data::GdsFloat64::decode, dec_bits)] #[kani::stub(alloc::fmt::format, fmt_stub)] #[kani::unwind(8)] c03_s_r1pad_k19_n1;
    #[kani::stub(std::str::from_utf8, from_utf8_model)] #[kani::stub(crate::data::GdsFloat64::encode, enc_bits)] #[kani::stub(crate::data::GdsFloat64::decode, dec_bits)] #[kani::stub(alloc::fmt::format, fmt_stub)] #[kani::unwind(8)] c03_s_r1pad_k19_n2;
    #[kani::stub(std::str::from_utf8, from_utf8_model)] #[kani::stub(crate::data::GdsFloat64::encode, enc_bits)] #[kani::stub(crate::data::GdsFloat64::decode, dec_bits)] #[kani::stub(alloc::fmt::format, fmt_stub)] #[kani::unwind(8)] c03_s_r1pad_k19_n3;
    #[kani::stub(std::str::from_utf8, from_utf8_model)] #[kani::stub(crate::data::GdsFloat64::encode, enc_bits)] #[kani::stub(crate::data::GdsFloat64::decode, dec_bits)] #[kani::stub(alloc::fmt::format, fmt_stub)] #[kani::unwind(8)] c03_s_r1pad_k2c_n0;
    #[kani::stub(std::str::from_utf8, from_utf8_model)] #[kani::stub(crate::data::GdsFloat64::encode, enc_bits)] #[kani::stub(crate::data::GdsFloat64::decode, dec_bits)] #[kani::stub(alloc::fmt::format, fmt_stub)] #[kani::unwind(8)] c03_s_r1pad_k2c_n1;
    #[kani::stub(std::str::from_utf8, from_utf8_model)] #[kani::stub(crate::data::GdsFloat64::encode, enc_bits)] #[kani::stub(crate::data::GdsFloat64::decode, dec_bits)] #[kani::stub(alloc::fmt::format, fmt_stub)] #[kani::unwind(8)] c03_s_r1pad_k2c_n2;
    #[kani::stub(std::str::from_utf8, from_utf8_model)] #[kani::stub(crate::data::GdsFloat64::encode, enc_bits)] #[kani::stub(crate::data::GdsFloat64::decode, dec_bits)] #[kani::stub(alloc::fmt::format, fmt_stub)] #[kani::unwind(8)] c03_s_r1pad_k2c_n3;
    #[kani::stub(std::str::from_utf8, from_utf8_model)] #[kani::stub(crate::data::GdsFloat64::encode, enc_bits)] #[kani::stub(crate::data::GdsFloat64::decode, dec_bits)] #[kani::stub(alloc::fmt::format, fmt_stub)] #[kani::unwind(26)] c10_s_r_k00_l0;
    #[kani::stub(std::str::from_utf8, from_utf8_model)] #[kani::stub(crate::data::GdsFloat64::encode, enc_bits)] #[kani::stub(crate::data::GdsFloat64::decode, dec_bits)] #[kani::stub(alloc::fmt::format, fmt_stub)] #[kani::unwind(26)] c10_s_r_k00_l2;
    #[kani::stub(std::str::from_utf8, from_utf8_model)] #[kani::stub(crate::data::GdsFloat64::encode, enc_bits)] #[kani::stub(crate::data::GdsFloat64::decode, dec_bits)] #[kani::stub(alloc::fmt::format, fmt_stub)] #[kani::unwind(26)] c10_s_r_k00_l4;
    #[kani::stub(std::str::from_utf8, from_utf8_model)] #[kani::stub(crate::data::GdsFloat64::encode, enc_bits)] #[kani::stub(crate::data::GdsFloat64::decode, dec_bits)] #[kani::stub(alloc::fmt::format, fmt_stub)] #[kani::unwind(26)] c10_s_r_k00_l8;
    #[kani::stub(std::str::from_utf8, from_utf8_model)] #[kani::stub(crate::data::GdsFloat64::encode, enc_bits)] #[kani::stub(crate::data::GdsFloat64::decode, dec_bits)] #[kani::stub(alloc::fmt::format, fmt_stub)] #[kani::unwind(26)] c10_s_r_k00_l24;
    #[kani::stub(std::str::from_utf8, from_utf8_model)] #[kani::stub(crate::data::GdsFloat64::encode, enc_bits)] #[kani::stub(crate::data::GdsFloat64::decode, dec_bits)] #[kani::stub(alloc::fmt::format, fmt_stub)] #[kani::unwind(26)] c10_s_r_k01_l0;
    #[kani::stub(std::str::from_utf8, from_utf8_model)] #[kani::stub(crate::data::GdsFloat64::encode, enc_bits)] #[kani::stub(crate::data::GdsFloat64::decode, dec_bits)] #[kani::stub(alloc::fmt::format, fmt_stub)] #[kani::unwind(26)] c10_s_r_k01_l2;
    #[kani::stub(std::str::from_utf8, from_utf8_model)] #[kani::stub(crate::data::GdsFloat64::encode, enc_bits)] #[kani::stub(crate::data::GdsFloat64::decode, dec_bits)] #[kani::stub(alloc::fmt::format, fmt_stub)] #[kani::unwind(26)] c10_s_r_k01_l4;
    #[kani::stub(std::str::from_utf8, from_utf8_model)] #[kani::stub(crate::data::GdsFloat64::encode, enc_bits)] #[kani::stub(crate::data::GdsFloat64::decode, dec_bits)] #[kani::stub(alloc::fmt::format, fmt_stub)] #[kani::unwind(26)] c10_s_r_k01_l8;
    #[kani::stub(std::str::from_utf8, from_utf8_model)] #[kani::stub(crate::data::GdsFloat64::encode, enc_bits)] #[kani::stub(crate::data::GdsFloat64::decode, dec_bits)] #[kani::stub(alloc::fmt::format, fmt_stub)] #[kani::unwind(26)] c10_q_r_k01_l24;
    #[kani::stub(std::str::from_utf8, from_utf8_model)] #[kani::stub(crate::data::GdsFloat64::encode, enc_bits)] #[kani::stub(crate::data::GdsFloat64::decode, dec_bits)] #[kani::stub(alloc::fmt::format, fmt_stub)] #[kani::unwind(26)] c10_q_r_k02_l0;
    #[kani::stub(std::str::from_utf8, from_utf8_model)] #[kani::stub(crate::data::GdsFloat64::encode, enc_bits)] #[kani::stub(crate::data::GdsFloat64::decode, dec_bits)] #[kani::stub(alloc::fmt::format, fmt_stub)] #[kani::unwind(26)] c10_s_r_k02_l2;
    #[kani::stub(std::str::from_utf8, from_utf8_model)] #[kani::stub(crate::data::GdsFloat64::encode, enc_bits)] #[kani::stub(crate::data::GdsFloat64::decode, dec_bits)] #[kani::stub(alloc::fmt::format, fmt_stub)] #[kani::unwind(26)] c10_s_r_k02_l4;
    #[kani::stub(std::str::from_utf8, from_utf8_model)] #[kani::stub(crate::data::GdsFloat64::encode, enc_bits)] #[kani::stub(crate::data::GdsFloat64::decode, dec_bits)] #[kani::stub(alloc::fmt::format, fmt_stub)] #[kani::unwind(26)] c10_s_r_k02_l6;
    #[kani::stub(std::str::from_utf8, from_utf8_model)] #[kani::stub(crate::data::GdsFloat64::encode, enc_bits)] #[kani::stub(crate::data::GdsFloat64::decode, dec_bits)] #[kani::stub(alloc::fmt::format, fmt_stub)] #[kani::unwind(26)] c10_s_r_k02_l8;
    #[kani::stub(std::str::from_utf8, from_utf8_model)] #[kani::stub(crate::data::GdsFloat64::encode, enc_bits)] #[kani::stub(crate::data::GdsFloat64::decode, dec_bits)] #[kani::stub(alloc::fmt::format, fmt_stub)] #[kani::unwind(26)] c10_s_r_k02_l12;
    #[kani::stub(std::str::from_utf8, from_utf8_model)] #[kani::stub(crate::data::GdsFloat64::encode, enc_bits)] #[kani::stub(crate::data::GdsFloat64::decode, dec_bits)] #[kani::stub(alloc::fmt::format, fmt_stub)] #[kani::unwind(26)] c10_s_r_k02_l16;
    #[kani::stub(std::str::from_utf8, from_utf8_model)] #[kani::stub(crate::data::GdsFloat64::encode, enc_bits)] #[kani::stub(crate::data::GdsFloat64::decode, dec_bits)] #[kani::stub(alloc::fmt::format, fmt_stub)] #[kani::unwind(26)] c10_s_r_k02_l24;
    #[kani::stub(std::str::from_utf8, from_utf8_model)] #[kani::stub(crate::data::GdsFloat64::encode, enc_bits)] #[kani::stub(crate::data::GdsFloat64::decode, dec_bits)] #[kani::stub(alloc::fmt::format, fmt_stub)] #[kani::unwind(26)] c10_s_r_k03_l0;
    #[kani::stub(std::str::from_utf8, from_utf8_model)] #[kani::stub(crate::data::GdsFloat64::encode, enc_bits)] #[kani::stub(crate::data::GdsFloat64::decode, dec_bits)] #[kani::stub(alloc::fmt::format, fmt_stub)] #[kani::unwind(26)] c10_s_r_k03_l2;
    #[kani::stub(std::str::from_utf8, from_utf8_model)] #[kani::stub(crate::data::GdsFloat64::encode, enc_bits)] #[kani::stub(crate::data::GdsFloat64::decode, dec_bits)] #[kani::stub(alloc::fmt::format, fmt_stub)] #[kani::unwind(26)] c10_s_r_k03_l4;
    #[kani::stub(std::str::from_utf8, from_utf8_model)] #[kani::stub(crate::data::GdsFloat64::encode, enc_bits)] #[kani::stub(crate::data::GdsFloat64::decode, dec_bits)] #[kani::stub(alloc::fmt::format, fmt_stub)] #[kani::unwind(26)] c10_s_r_k03_l8;
    #[kani::stub(std::str::from_utf8, from_utf8_model)] #[kani::stub(crate::data::GdsFloat64::encode, enc_bits)] #[kani::stub(crate::data::GdsFloat64::decode, dec_bits)] #[kani::stub(alloc::fmt::format, fmt_stub)] #[kani::unwind(26)] c10_s_r_k03_l24;
    #[kani::stub(std::str::from_utf8, from_utf8_model)] #[kani::stub(crate::data::GdsFloat64::encode, enc_bits)] #[kani::stub(crate::data::GdsFloat64::decode, dec_bits)] #[kani::stub(alloc::fmt::format, fmt_stub)] #[kani::unwind(26)] c10_s_r_k04_l0;
    #[kani::stub(std::str::from_utf8, from_utf8_model)] #[kani::stub(crate::data::GdsFloat64::encode, enc_bits)] #[kani::stub(crate::data::GdsFloat64::decode, dec_bits)] #[kani::stub(alloc::fmt::format, fmt_stub)] #[kani::unwind(26)] c10_s_r_k04_l2;
    #[kani::stub(std::str::from_utf8, from_utf8_model)] #[kani::stub(crate::data::GdsFloat64::encode, enc_bits)] #[kani::stub(crate::data::GdsFloat64::decode, dec_bits)] #[kani::stub(alloc::fmt::format, fmt_stub)] #[kani::unwind(26)] c10_s_r_k04_l4;
    #[kani::stub(std::str::from_utf8, from_utf8_model)] #[kani::stub(crate::data::GdsFloat64::encode, enc_bits)] #[kani::stub(crate::data::GdsFloat64::decode, dec_bits)] #[kani::stub(alloc::fmt::format, fmt_stub)] #[kani::unwind(26)] c10_s_r_k04_l8;
    #[kani::stub(std::str::from_utf8, from_utf8_model)] #[kani::stub(crate::data::GdsFloat64::encode, enc_bits)] #[kani::stub(crate::data::GdsFloat64::decode, dec_bits)] #[kani::stub(alloc::fmt::format, fmt_stub)] #[kani::unwind(26)] c10_s_r_k04_l24;
    #[kani::stub(std::str::from_utf8, from_utf8_model)] #[kani::stub(crate::data::GdsFloat64::encode, enc_bits)] #[kani::stub(crate::data::GdsFloat64::decode, dec_bits)] #[kani::stub(alloc::fmt::format, fmt_stub)] #[kani::unwind(26)] c10_s_r_k05_l0;
    #[kani::stub(std::str::from_utf8, from_utf8_model)] #[kani::stub(crate::data::GdsFloat64::encode, enc_bits)] #[kani::stub(crate::data::GdsFloat64::decode, dec_bits)] #[kani::stub(alloc::fmt::format, fmt_stub)] #[kani::unwind(26)] c10_s_r_k05_l2;
    #[kani::stub(std::str::from_utf8, from_utf8_model)] #[kani::stub(crate::data::GdsFloat64::encode, enc_bits)] #[kani::stub(crate::data::GdsFloat64::decode, dec_bits)] #[kani::stub(alloc::fmt::format, fmt_stub)] #[kani::unwind(26)] c10_s_r_k05_l4;
    #[kani::stub(std::str::from_utf8, from_utf8_model)] #[kani::stub(crate::data::GdsFloat64::encode, enc_bits)] #[kani::stub(crate::data::GdsFloat64::decode, dec_bits)] #[kani::stub(alloc::fmt::format, fmt_stub)] #[kani::unwind(26)] c10_s_r_k05_l8;
    #[kani::stub(std::str::from_utf8, from_utf8_model)] #[kani::stub(crate::data::GdsFloat64::encode, enc_bits)] #[kani::stub(crate::data::GdsFloat64::decode, dec_bits)] #[kani::stub(alloc::fmt::format, fmt_stub)] #[kani::unwind(26)] c10_s_r_k05_l24;
    #[kani::stub(std::str::from_utf8, from_utf8_model)] #[kani::stub(crate::data::GdsFloat64::encode, enc_bits)] #[kani::stub(crate::data::GdsFloat64::decode, dec_bits)] #[kani::stub(alloc::fmt::format, fmt_stub)] #[kani::unwind(26)] c10_s_r_k06_l0;
    #[kani::stub(std::str::from_utf8, from_utf8_model)] #[kani::stub(crate::data::GdsFloat64::encode, enc_bits)] #[kani::stub(crate::data::GdsFloat64::decode, dec_bits)] #[kani::stub(alloc::fmt::format, fmt_stub)] #[kani::unwind(26)] c10_s_r_k06_l2;
    #[kani::stub(std::str::from_utf8, from_utf8_model)] #[kani::stub(crate::data::GdsFloat64::encode, enc_bits)] #[kani::stub(crate::data::GdsFloat64::decode, dec_bits)] #[kani::stub(alloc::fmt::format, fmt_stub)] #[kani::unwind(26)] c10_s_r_k06_l4;
    #[kani::stub(std::str::from_utf8, from_utf8_model)] #[kani::stub(crate::data::GdsFloat64::encode, enc_bits)] #[kani::stub(crate::data::GdsFloat64::decode, dec_bits)] #[kani::stub(alloc::fmt::format, fmt_stub)] #[kani::unwind(26)] c10_s_r_k06_l6;
    #[kani::stub(std::str::from_utf8, from_utf8_model)] #[kani::stub(crate::data::GdsFloat64::encode, enc_bits)] #[kani::stub(crate::data::GdsFloat64::decode, dec_bits)] #[kani::stub(alloc::fmt::format, fmt_stub)] #[kani::unwind(26)] c10_s_r_k06_l8;
    #[kani::stub(std::str::from_utf8, from_utf8_model)] #[kani::stub(crate::data::GdsFloat64::encode, enc_bits)] #[kani::stub(crate::data::GdsFloat64::decode, dec_bits)] #[kani::stub(alloc::fmt::format, fmt_stub)] #[kani::unwind(26)] c10_s_r_k06_l12;
    #[kani::stub(std::str::from_utf8, from_utf8_model)] #[kani::stub(crate::data::GdsFloat64::encode, enc_bits)] #[kani::stub(crate::data::GdsFloat64::decode, dec_bits)] #[kani::stub(alloc::fmt::format, fmt_stub)] #[kani::unwind(26)] c10_s_r_k06_l16;
    #[kani::stub(std::str::from_utf8, from_utf8_model)] #[kani::stub(crate::data::GdsFloat64::encode, enc_bits)] #[kani::stub(crate::data::GdsFloat64::decode, dec_bits)] #[kani::stub(alloc::fmt::format, fmt_stub)] #[kani::unwind(26)] c10_s_r_k06_l24;
    #[kani::stub(std::str::from_utf8, from_utf8_model)] #[kani::stub(crate::data::GdsFloat64::encode, enc_bits)] #[kani::stub(crate::data::GdsFloat64::decode, dec_bits)] #[kani::stub(alloc::fmt::format, fmt_stub)] #[kani::unwind(26)] c10_s_r_k07_l0;
    #[kani::stub(std::str::from_utf8, from_utf8_model)] #[kani::stub(crate::data::GdsFloat64::encode, enc_bits)] #[kani::stub(crate::data::GdsFloat64::decode, dec_bits)] #[kani::stub(alloc::fmt::format, fmt_stub)] #[kani::unwind(26)] c10_s_r_k07_l2;
    #[kani::stub(std::str::from_utf8, from_utf8_model)] #[kani::stub(crate::data::GdsFloat64::encode, enc_bits)] #[kani::stub(crate::data::GdsFloat64::decode, dec_bits)] #[kani::stub(alloc::fmt::format, fmt_stub)] #[kani::unwind(26)] c10_s_r_k07_l4;
    #[kani::stub(std::str::from_utf8, from_utf8_model)] #[kani::stub(crate::data::GdsFloat64::encode, enc_bits)] #[kani::stub(crate::data::GdsFloat64::decode, dec_bits)] #[kani::stub(alloc::fmt::format, fmt_stub)] #[kani::unwind(26)] c10_s_r_k07_l8;
    #[kani::stub(std::str::from_utf8, from_utf8_model)] #[kani::stub(crate::data::GdsFloat64::encode, enc_bits)] #[kani::stub(crate::data::GdsFloat64::decode, dec_bits)] #[kani::stub(alloc::fmt::format, fmt_stub)] #[kani::unwind(26)] c10_s_r_k07_l24;
    #[kani::stub(std::str::from_utf8, from_utf8_model)] #[kani::stub(crate::data::GdsFloat64::encode, enc_bits)] #[kani::stub(crate::data::GdsFloat64::decode, dec_bits)] #[kani::stub(alloc::fmt::format, fmt_stub)] #[kani::unwind(26)] c10_s_r_k08_l0;
    #[kani::stub(std::str::from_utf8, from_utf8_model)] #[kani::stub(crate::data::GdsFloat64::encode, enc_bits)] #[kani::stub(crate::data::GdsFloat64::decode, dec_bits)] #[kani::stub(alloc::fmt::format, fmt_stub)] #[kani::unwind(26)] c10_s_r_k08_l2;
    #[kani::stub(std::str::from_utf8, from_utf8_model)] #[kani::stub(crate::data::GdsFloat64::encode, enc_bits)] #[kani::stub(crate::data::GdsFloat64::decode, dec_bits)] #[kani::stub(alloc::fmt::format, fmt_stub)] #[kani::unwind(26)] c10_s_r_k08_l4;
    #[kani::stub(std::str::from_utf8, from_utf8_model)] #[kani::stub(crate::data::GdsFloat64::encode, enc_bits)] #[kani::stub(crate::data::GdsFloat64::decode, dec_bits)] #[kani::stub(alloc::fmt::format, fmt_stub)] #[kani::unwind(26)] c10_s_r_k08_l8;
    #[kani::stub(std::str::from_utf8, from_utf8_model)] #[kani::stub(crate::data::GdsFloat64::encode, enc_bits)] #[kani::stub(crate::data::GdsFloat64::decode, dec_bits)] #[kani::stub(alloc::fmt::format, fmt_stub)] #[kani::unwind(26)] c10_s_r_k08_l24;
    #[kani::stub(std::str::from_utf8, from_utf8_model)] #[kani::stub(crate::data::GdsFloat64::encode, enc_bits)] #[kani::stub(crate::data::GdsFloat64::decode, dec_bits)] #[kani::stub(alloc::fmt::format, fmt_stub)] #[kani::unwind(26)] c10_s_r_k09_l0;
    #[kani::stub(std::str::from_utf8, from_utf8_model)] #[kani::stub(crate::data::GdsFloat64::encode, enc_bits)] #[kani::stub(crate::data::GdsFloat64::decode, dec_bits)] #[kani::stub(alloc::fmt::format, fmt_stub)] #[kani::unwind(26)] c10_s_r_k09_l2;
    #[kani::stub(std::str::from_utf8, from_utf8_model)] #[kani::stub(crate::data::GdsFloat64::encode, enc_bits)] #[kani::stub(crate::data::GdsFloat64::decode, dec_bits)] #[kani::stub(alloc::fmt::format, fmt_stub)] #[kani::unwind(26)] c10_s_r_k09_l4;
    #[kani::stub(std::str::from_utf8, from_utf8_model)] #[kani::stub(crate::data::GdsFloat64::encode, enc_bits)] #[kani::stub(crate::data::GdsFloat64::decode, dec_bits)] #[kani::stub(alloc::fmt::format, fmt_stub)] #[kani::unwind(26)] c10_s_r_k09_l8;
    #[kani::stub(std::str::from_utf8, from_utf8_model)] #[kani::stub(crate::data::GdsFloat64::encode, enc_bits)] #[kani::stub(crate::data::GdsFloat64::decode, dec_bits)] #[kani::stub(alloc::fmt::format, fmt_stub)] #[kani::unwind(26)] c10_s_r_k09_l24;
    #[kani::stub(std::str::from_utf8, from_utf8_model)] #[kani::stub(crate::data::GdsFloat64::encode, enc_bits)] #[kani::stub(crate::data::GdsFloat64::decode, dec_bits)] #[kani::stub(alloc::fmt::format, fmt_stub)] #[kani::unwind(26)] c10_s_r_k0a_l0;
    #[kani::stub(std::str::from_utf8, from_utf8_model)] #[kani::stub(crate::data::GdsFloat64::encode, enc_bits)] #[kani::stub(crate::data::GdsFloat64::decode, dec_bits)] #[kani::stub(alloc::fmt::format, fmt_stub)] #[kani::unwind(26)] c10_s_r_k0a_l2;
    #[kani::stub(std::str::from_utf8, from_utf8_model)] #[kani::stub(crate::data::GdsFloat64::encode, enc_bits)] #[kani::stub(crate::data::GdsFloat64::decode, dec_bits)] #[kani::stub(alloc::fmt::format, fmt_stub)] #[kani::unwind(26)] c10_s_r_k0a_l4;
    #[kani::stub(std::str::from_utf8, from_utf8_model)] #[kani::stub(crate::data::GdsFloat64::encode, enc_bits)] #[kani::stub(crate::data::GdsFloat64::decode, dec_bits)] #[kani::stub(alloc::fmt::format, fmt_stub)] #[kani::unwind(26)] c10_s_r_k0a_l8;
    #[kani::stub(std::str::from_utf8, from_utf8_model)] #[kani::stub(crate::data::GdsFloat64::encode, enc_bits)] #[kani::stub(crate::data::GdsFloat64::decode, dec_bits)] #[kani::stub(alloc::fmt::format, fmt_stub)] #[kani::unwind(26)] c10_s_r_k0a_l24;
    #[kani::stub(std::str::from_utf8, from_utf8_model)] #[kani::stub(crate::data::GdsFloat64::encode, enc_bits)] #[kani::stub(crate::data::GdsFloat64::decode, dec_bits)] #[kani::stub(alloc::fmt::format, fmt_stub)] #[kani::unwind(26)] c10_s_r_k0b_l0;
    #[kani::stub(std::str::from_utf8, from_utf8_model)] #[kani::stub(crate::data::GdsFloat64::encode, enc_bits)] #[kani::stub(crate::data::GdsFloat64::decode, dec_bits)] #[kani::stub(alloc::fmt::format, fmt_stub)] #[kani::unwind(26)] c10_s_r_k0b_l2;
    #[kani::stub(std::str::from_utf8, from_utf8_model)] #[kani::stub(crate::data::GdsFloat64::encode, enc_bits)] #[kani::stub(crate::data::GdsFloat64::decode, dec_bits)] #[kani::stub(alloc::fmt::format, fmt_stub)] #[kani::unwind(26)] c10_s_r_k0b_l4;
    #[kani::stub(std::str::from_utf8, from_utf8_model)] #[kani::stub(crate::data::GdsFloat64::encode, enc_bits)] #[kani::stub(crate::data::GdsFloat64::decode, dec_bits)] #[kani::stub(alloc::fmt::format, fmt_stub)] #[kani::unwind(26)] c10_s_r_k0b_l8;
    #[kani::stub(std::str::from_utf8, from_utf8_model)] #[kani::stub(crate::data::GdsFloat64::encode, enc_bits)] #[kani::stub(crate::data::GdsFloat64::decode, dec_bits)] #[kani::stub(alloc::fmt::format, fmt_stub)] #[kani::unwind(26)] c10_s_r_k0b_l24;
    #[kani::stub(std::str::from_utf8, from_utf8_model)] #[kani::stub(crate::data::GdsFloat64::encode, enc_bits)] #[kani::stub(crate::data::GdsFloat64::decode, dec_bits)] #[kani::stub(alloc::fmt::format, fmt_stub)] #[kani::unwind(26)] c10_s_r_k0c_l0;
    #[kani::stub(std::str::from_utf8, from_utf8_model)] #[kani::stub(crate::data::GdsFloat64::encode, enc_bits)] #[kani::stub(crate::data::GdsFloat64::decode, dec_bits)] #[kani::stub(alloc::fmt::format, fmt_stub)] #[kani::unwind(26)] c10_s_r_k0c_l2;
    #[kani::stub(std::str::from_utf8, from_utf8_model)] #[kani::stub(crate::data::GdsFloat64::encode, enc_bits)] #[kani::stub(crate::data::GdsFloat64::decode, dec_bits)] #[kani::stub(alloc::fmt::format, fmt_stub)] #[kani::unwind(26)] c10_s_r_k0c_l4;
    #[kani::stub(std::str::from_utf8, from_utf8_model)] #[kani::stub(crate::data::GdsFloat64::encode, enc_bits)] #[kani::stub(crate::data::GdsFloat64::decode, dec_bits)] #[kani::stub(alloc::fmt::format, fmt_stub)] #[kani::unwind(26)] c10_s_r_k0c_l8;
    #[kani::stub(std::str::from_utf8, from_utf8_model)] #[kani::stub(crate::data::GdsFloat64::encode, enc_bits)] #[kani::stub(crate::data::GdsFloat64::decode, dec_bits)] #[kani::stub(alloc::fmt::format, fmt_stub)] #[kani::unwind(26)] c10_s_r_k0c_l24;
    #[kani::stub(std::str::from_utf8, from_utf8_model)] #[kani::stub(crate::data::GdsFloat64::encode, enc_bits)] #[kani::stub(crate::data::GdsFloat64::decode, dec_bits)] #[kani::stub(alloc::fmt::format, fmt_stub)] #[kani::unwind(26)] c10_s_r_k0d_l0;
    #[kani::stub(std::str::from_utf8, from_utf8_model)] #[kani::stub(crate::data::GdsFloat64::encode, enc_bits)] #[kani::stub(crate::data::GdsFloat64::decode, dec_bits)] #[kani::stub(alloc::fmt::format, fmt_stub)] #[kani::unwind(26)] c10_s_r_k0d_l2;
    #[kani::stub(std::str::from_utf8, from_utf8_model)] #[kani::stub(crate::data::GdsFloat64::encode, enc_bits)] #[kani::stub(crate::data::GdsFloat64::decode, dec_bits)] #[kani::stub(alloc::fmt::format, fmt_stub)] #[kani::unwind(26)] c10_s_r_k0d_l4;
    #[kani::stub(std::str::from_utf8, from_utf8_model)] #[kani::stub(crate::data::GdsFloat64::encode, enc_bits)] #[kani::stub(crate::data::GdsFloat64::decode, dec_bits)] #[kani::stub(alloc::fmt::format, fmt_stub)] #[kani::unwind(26)] c10_s_r_k0d_l8;
    #[kani::stub(std::str::from_utf8, from_utf8_model)] #[kani::stub(crate::data::GdsFloat64::encode, enc_bits)] #[kani::stub(crate::data::GdsFloat64::decode, dec_bits)] #[kani::stub(alloc::fmt::format, fmt_stub)] #[kani::unwind(26)] c10_s_r_k0d_l24;
    #[kani::stub(std::str::from_utf8, from_utf8_model)] #[kani::stub(crate::data::GdsFloat64::encode, enc_bits)] #[kani::stub(crate::data::GdsFloat64::decode, dec_bits)] #[kani::stub(alloc::fmt::format, fmt_stub)] #[kani::unwind(26)] c10_s_r_k0e_l0;
    #[kani::stub(std::str::from_utf8, from_utf8_model)] #[kani::stub(crate::data::GdsFloat64::encode, enc_bits)] #[kani::stub(crate::data::GdsFloat64::decode, dec_bits)] #[kani::stub(alloc::fmt::format, fmt_stub)] #[kani::unwind(26)] c10_s_r_k0e_l2;
    #[kani::stub(std::str::from_utf8, from_utf8_model)] #[kani::stub(crate::data::GdsFloat64::encode, enc_bits)] #[kani::stub(crate::data::GdsFloat64::decode, dec_bits)] #[kani::stub(alloc::fmt::format, fmt_stub)] #[kani::unwind(26)] c10_s_r_k0e_l4;
    #[kani::stub(std::str::from_utf8, from_utf8_model)] #[kani::stub(crate::data::GdsFloat64::encode, enc_bits)] #[kani::stub(crate::data::GdsFloat64::decode, dec_bits)] #[kani::stub(alloc::fmt::format, fmt_stub)] #[kani::unwind(26)] c10_s_r_k0e_l8;
    #[kani::stub(std::str::from_utf8, from_utf8_model)] #[kani::stub(crate::data::GdsFloat64::encode, enc_bits)] #[kani::stub(crate::data::GdsFloat64::decode, dec_bits)] #[kani::stub(alloc::fmt::format, fmt_stub)] #[kani::unwind(26)] c10_s_r_k0e_l24;
    #[kani::stub(std::str::from_utf8, from_utf8_model)] #[kani::stub(crate::data::GdsFloat64::encode, enc_bits)] #[kani::stub(crate::data::GdsFloat64::decode, dec_bits)] #[kani::stub(alloc::fmt::format, fmt_stub)] #[kani::unwind(26)] c10_s_r_k0f_l0;
    #[kani::stub(std::str::from_utf8, from_utf8_model)] #[kani::stub(crate::data::GdsFloat64::encode, enc_bits)] #[kani::stub(crate::data::GdsFloat64::decode, dec_bits)] #[kani::stub(alloc::fmt::format, fmt_stub)] #[kani::unwind(26)] c10_s_r_k0f_l2;
    #[kani::stub(std::str::from_utf8, from_utf8_model)] #[kani::stub(crate::data::GdsFloat64::encode, enc_bits)] #[kani::stub(crate::data::GdsFloat64::decode, dec_bits)] #[kani::stub(alloc::fmt::format, fmt_stub)] #[kani::unwind(26)] c10_s_r_k0f_l4;
    #[kani::stub(std::str::from_utf8, from_utf8_model)] #[kani::stub(crate::data::GdsFloat64::encode, enc_bits)] #[kani::stub(crate::data::GdsFloat64::decode, dec_bits)] #[kani::stub(alloc::fmt::format, fmt_stub)] #[kani::unwind(26)] c10_s_r_k0f_l8;
    #[kani::stub(std::str::from_utf8, from_utf8_model)] #[kani::stub(crate::data::GdsFloat64::encode, enc_bits)] #[kani::stub(crate::data::GdsFloat64::decode, dec_bits)] #[kani::stub(alloc::fmt::format, fmt_stub)] #[kani::unwind(26)] c10_s_r_k0f_l24;
    #[kani::stub(std::str::from_utf8, from_utf8_model)] #[kani::stub(crate::data::GdsFloat64::encode, enc_bits)] #[kani::stub(crate::data::GdsFloat64::decode, dec_bits)] #[kani::stub(alloc::fmt::format, fmt_stub)] #[kani::unwind(26)] c10_s_r_k10_l0;
    #[kani::stub(std::str::from_utf8, from_utf8_model)] #[kani::stub(crate::data::GdsFloat64::encode, enc_bits)] #[kani::stub(crate::data::GdsFloat64::decode, dec_bits)] #[kani::stub(alloc::fmt::format, fmt_stub)] #[kani::unwind(26)] c10_s_r_k10_l2;
    #[kani::stub(std::str::from_utf8, from_utf8_model)] #[kani::stub(crate::data::GdsFloat64::encode, enc_bits)] #[kani::stub(crate::data::GdsFloat64::decode, dec_bits)] #[kani::stub(alloc::fmt::format, fmt_stub)] #[kani::unwind(26)] c10_s_r_k10_l4;
    #[kani::stub(std::str::from_utf8, from_utf8_model)] #[kani::stub(crate::data::GdsFloat64::encode, enc_bits)] #[kani::stub(crate::data::GdsFloat64::decode, dec_bits)] #[kani::stub(alloc::fmt::format, fmt_stub)] #[kani::unwind(26)] c10_q_r_k10_l6;
    #[kani::stub(std::str::from_utf8, from_utf8_model)] #[kani::stub(crate::data::GdsFloat64::encode, enc_bits)] #[kani::stub(crate::data::GdsFloat64::decode, dec_bits)] #[kani::stub(alloc::fmt::format, fmt_stub)] #[kani::unwind(26)] c10_s_r_k10_l8;
    #[kani::stub(std::str::from_utf8, from_utf8_model)] #[kani::stub(crate::data::GdsFloat64::encode, enc_bits)] #[kani::stub(crate::data::GdsFloat64::decode, dec_bits)] #[kani::stub(alloc::fmt::format, fmt_stub)] #[kani::unwind(26)] c10_s_r_k10_l12;
    #[kani::stub(std::str::from_utf8, from_utf8_model)] #[kani::stub(crate::data::GdsFloat64::encode, enc_bits)] #[kani::stub(crate::data::GdsFloat64::decode, dec_bits)] #[kani::stub(alloc::fmt::format, fmt_stub)] #[kani::unwind(26)] c10_s_r_k10_l16;
    #[kani::stub(std::str::from_utf8, from_utf8_model)] #[kani::stub(crate::data::GdsFloat64::encode, enc_bits)] #[kani::stub(crate::data::GdsFloat64::decode, dec_bits)] #[kani::stub(alloc::fmt::format, fmt_stub)] #[kani::unwind(26)] c10_s_r_k10_l24;
    #[kani::stub(std::str::from_utf8, from_utf8_model)] #[kani::stub(crate::data::GdsFloat64::encode, enc_bits)] #[kani::stub(crate::data::GdsFloat64::decode, dec_bits)] #[kani::stub(alloc::fmt::format, fmt_stub)] #[kani::unwind(26)] c10_s_r_k11_l0;
    #[kani::stub(std::str::from_utf8, from_utf8_model)] #[kani::stub(crate::data::GdsFloat64::encode, enc_bits)] #[kani::stub(crate::data::GdsFloat64::decode, dec_bits)] #[kani::stub(alloc::fmt::format, fmt_stub)] #[kani::unwind(26)] c10_s_r_k11_l2;
    #[kani::stub(std::str::from_utf8, from_utf8_model)] #[kani::stub(crate::data::GdsFloat64::encode, enc_bits)] #[kani::stub(crate::data::GdsFloat64::decode, dec_bits)] #[kani::stub(alloc::fmt::format, fmt_stub)] #[kani::unwind(26)] c10_s_r_k11_l4;
    #[kani::stub(std::str::from_utf8, from_utf8_model)] #[kani::stub(crate::data::GdsFloat64::encode, enc_bits)] #[kani::stub(crate::data::GdsFloat64::decode, dec_bits)] #[kani::stub(alloc::fmt::format, fmt_stub)] #[kani::unwind(26)] c10_s_r_k11_l8;
    #[kani::stub(std::str::from_utf8, from_utf8_model)] #[kani::stub(crate::data::GdsFloat64::encode, enc_bits)] #[kani::stub(crate::data::GdsFloat64::decode, dec_bits)] #[kani::stub(alloc::fmt::format, fmt_stub)] #[kani::unwind(26)] c10_s_r_k11_l24;
    #[kani::stub(std::str::from_utf8, from_utf8_model)] #[kani::stub(crate::data::GdsFloat64::encode, enc_bits)] #[kani::stub(crate::data::GdsFloat64::decode, dec_bits)] #[kani::stub(alloc::fmt::format, fmt_stub)] #[kani::unwind(26)] c10_s_r_k12_l0;
    #[kani::stub(std::str::from_utf8, from_utf8_model)] #[kani::stub(crate::data::GdsFloat64::encode, enc_bits)] #[kani::stub(crate::data::GdsFloat64::decode, dec_bits)] #[kani::stub(alloc::fmt::format, fmt_stub)] #[kani::unwind(26)] c10_s_r_k12_l2;
    #[kani::stub(std::str::from_utf8, from_utf8_model)] #[kani::stub(crate::data::GdsFloat64::encode, enc_bits)] #[kani::stub(crate::data::GdsFloat64::decode, dec_bits)] #[kani::stub(alloc::fmt::format, fmt_stub)] #[kani::unwind(26)] c10_s_r_k12_l4;
    #[kani::stub(std::str::from_utf8, from_utf8_model)] #[kani::stub(crate::data::GdsFloat64::encode, enc_bits)] #[kani::stub(crate::data::GdsFloat64::decode, dec_bits)] #[kani::stub(alloc::fmt::format, fmt_stub)] #[kani::unwind(26)] c10_s_r_k12_l6;
    #[kani::stub(std::str::from_utf8, from_utf8_model)] #[kani::stub(crate::data::GdsFloat64::encode, enc_bits)] #[kani::stub(crate::data::GdsFloat64::decode, dec_bits)] #[kani::stub(alloc::fmt::format, fmt_stub)] #[kani::unwind(26)] c10_s_r_k12_l8;
    #[kani::stub(std::str::from_utf8, from_utf8_model)] #[kani::stub(crate::data::GdsFloat64::encode, enc_bits)] #[kani::stub(crate::data::GdsFloat64::decode, dec_bits)] #[kani::stub(alloc::fmt::format, fmt_stub)] #[kani::unwind(26)] c10_s_r_k12_l12;
    #[kani::stub(std::str::from_utf8, from_utf8_model)] #[kani::stub(crate::data::GdsFloat64::encode, enc_bits)] #[kani::stub(crate::data::GdsFloat64::decode, dec_bits)] #[kani::stub(alloc::fmt::format, fmt_stub)] #[kani::unwind(26)] c10_s_r_k12_l16;
    #[kani::stub(std::str::from_utf8, from_utf8_model)] #[kani::stub(crate::data::GdsFloat64::encode, enc_bits)] #[kani::stub(crate::data::GdsFloat64::decode, dec_bits)] #[kani::stub(alloc::fmt::format, fmt_stub)] #[kani::unwind(26)] c10_s_r_k12_l24;
    #[kani::stub(std::str::from_utf8, from_utf8_model)] #[kani::stub(crate::data::GdsFloat64::encode, enc_bits)] #[kani::stub(crate::data::GdsFloat64::decode, dec_bits)] #[kani::stub(alloc::fmt::format, fmt_stub)] #[kani::unwind(26)] c10_s_r_k13_l0;
    #[kani::stub(std::str::from_utf8, from_utf8_model)] #[kani::stub(crate::data::GdsFloat64::encode, enc_bits)] #[kani::stub(crate::data::GdsFloat64::decode, dec_bits)] #[kani::stub(alloc::fmt::format, fmt_stub)] #[kani::unwind(26)] c10_s_r_k13_l2;
    #[kani::stub(std::str::from_utf8, from_utf8_model)] #[kani::stub(crate::data::GdsFloat64::encode, enc_bits)] #[kani::stub(crate::data::GdsFloat64::decode, dec_bits)] #[kani::stub(alloc::fmt::format, fmt_stub)] #[kani::unwind(26)] c10_s_r_k13_l4;
    #[kani::stub(std::str::from_utf8, from_utf8_model)] #[kani::stub(crate::data::GdsFloat64::encode, enc_bits)] #[kani::stub(crate::data::GdsFloat64::decode, dec_bits)] #[kani::stub(alloc::fmt::format, fmt_stub)] #[kani::unwind(26)] c10_s_r_k13_l8;
    #[kani::stub(std::str::from_utf8, from_utf8_model)] #[kani::stub(crate::data::GdsFloat64::encode, enc_bits)] #[kani::stub(crate::data::GdsFloat64::decode, dec_bits)] #[kani::stub(alloc::fmt::format, fmt_stub)] #[kani::unwind(26)] c10_s_r_k13_l24;
    #[kani::stub(std::str::from_utf8, from_utf8_model)] #[kani::stub(crate::data::GdsFloat64::encode, enc_bits)] #[kani::stub(crate::data::GdsFloat64::decode, dec_bits)] #[kani::stub(alloc::fmt::format, fmt_stub)] #[kani::unwind(26)] c10_s_r_k15_l0;
    #[kani::stub(std::str::from_utf8, from_utf8_model)] #[kani::stub(crate::data::GdsFloat64::encode, enc_bits)] #[kani::stub(crate::data::GdsFloat64::decode, dec_bits)] #[kani::stub(alloc::fmt::format, fmt_stub)] #[kani::unwind(26)] c10_s_r_k15_l2;
    #[kani::stub(std::str::from_utf8, from_utf8_model)] #[kani::stub(crate::data::GdsFloat64::encode, enc_bits)] #[kani::stub(crate::data::GdsFloat64::decode, dec_bits)] #[kani::stub(alloc::fmt::format, fmt_stub)] #[kani::unwind(26)] c10_s_r_k15_l4;
    #[kani::stub(std::str::from_utf8, from_utf8_model)] #[kani::stub(crate::data::GdsFloat64::encode, enc_bits)] #[kani::stub(crate::data::GdsFloat64::decode, dec_bits)] #[kani::stub(alloc::fmt::format, fmt_stub)] #[kani::unwind(26)] c10_s_r_k15_l8;
    #[kani::stub(std::str::from_utf8, from_utf8_model)] #[kani::stub(crate::data::GdsFloat64::encode, enc_bits)] #[kani::stub(crate::data::GdsFloat64::decode, dec_bits)] #[kani::stub(alloc::fmt::format, fmt_stub)] #[kani::unwind(26)] c10_s_r_k15_l24;
    #[kani::stub(std::str::from_utf8, from_utf8_model)] #[kani::stub(crate::data::GdsFloat64::encode, enc_bits)] #[kani::stub(crate::data::GdsFloat64::decode, dec_bits)] #[kani::stub(alloc::fmt::format, fmt_stub)] #[kani::unwind(26)] c10_s_r_k16_l0;
    #[kani::stub(std::str::from_utf8, from_utf8_model)] #[kani::stub(crate::data::GdsFloat64::encode, enc_bits)] #[kani::stub(crate::data::GdsFloat64::decode, dec_bits)] #[kani::stub(alloc::fmt::format, fmt_stub)] #[kani::unwind(26)] c10_s_r_k16_l2;
    #[kani::stub(std::str::from_utf8, from_utf8_model)] #[kani::stub(crate::data::GdsFloat64::encode, enc_bits)] #[kani::stub(crate::data::GdsFloat64::decode, dec_bits)] #[kani::stub(alloc::fmt::format, fmt_stub)] #[kani::unwind(26)] c10_s_r_k16_l4;
    #[kani::stub(std::str::from_utf8, from_utf8_model)] #[kani::stub(crate::data::GdsFloat64::encode, enc_bits)] #[kani::stub(crate::data::GdsFloat64::decode, dec_bits)] #[kani::stub(alloc::fmt::format, fmt_stub)] #[kani::unwind(26)] c10_s_r_k16_l8;
    #[kani::stub(std::str::from_utf8, from_utf8_model)] #[kani::stub(crate::data::GdsFloat64::encode, enc_bits)] #[kani::stub(crate::data::GdsFloat64::decode, dec_bits)] #[kani::stub(alloc::fmt::format, fmt_stub)] #[kani::unwind(26)] c10_s_r_k16_l24;
    #[kani::stub(std::str::from_utf8, from_utf8_model)] #[kani::stub(crate::data::GdsFloat64::encode, enc_bits)] #[kani::stub(crate::data::GdsFloat64::decode, dec_bits)] #[kani::stub(alloc::fmt::format, fmt_stub)] #[kani::unwind(26)] c10_s_r_k17_l0;
    #[kani::stub(std::str::from_utf8, from_utf8_model)] #[kani::stub(crate::data::GdsFloat64::encode, enc_bits)] #[kani::stub(crate::data::GdsFloat64::decode, dec_bits)] #[kani::stub(alloc::fmt::format, fmt_stub)] #[kani::unwind(26)] c10_s_r_k17_l2;
    #[kani::stub(std::str::from_utf8, from_utf8_model)] #[kani::stub(crate::data::GdsFloat64::encode, enc_bits)] #[kani::stub(crate::data::GdsFloat64::decode, dec_bits)] #[kani::stub(alloc::fmt::format, fmt_stub)] #[kani::unwind(26)] c10_s_r_k17_l4;
    #[kani::stub(std::str::from_utf8, from_utf8_model)] #[kani::stub(crate::data::GdsFloat64::encode, enc_bits)] #[kani::stub(crate::data::GdsFloat64::decode, dec_bits)] #[kani::stub(alloc::fmt::format, fmt_stub)] #[kani::unwind(26)] c10_s_r_k17_l8;
    #[kani::stub(std::str::from_utf8, from_utf8_model)] #[kani::stub(crate::data::GdsFloat64::encode, enc_bits)] #[kani::stub(crate::data::GdsFloat64::decode, dec_bits)] #[kani::stub(alloc::fmt::format, fmt_stub)] #[kani::unwind(26)] c10_s_r_k17_l24;
    #[kani::stub(std::str::from_utf8, from_utf8_model)] #[kani::stub(crate::data::GdsFloat64::encode, enc_bits)] #[kani::stub(crate::data::GdsFloat64::decode, dec_bits)] #[kani::stub(alloc::fmt::format, fmt_stub)] #[kani::unwind(26)] c10_s_r_k19_l0;
    #[kani::stub(std::str::from_utf8, from_utf8_model)] #[kani::stub(crate::data::GdsFloat64::encode, enc_bits)] #[kani::stub(crate::data::GdsFloat64::decode, dec_bits)] #[kani::stub(alloc::fmt::format, fmt_stub)] #[kani::unwind(26)] c10_s_r_k19_l2;
    #[kani::stub(std::str::from_utf8, from_utf8_model)] #[kani::stub(crate::data::GdsFloat64::encode, enc_bits)] #[kani::stub(crate::data::GdsFloat64::decode, dec_bits)] #[kani::stub(alloc::fmt::format, fmt_stub)] #[kani::unwind(26)] c10_s_r_k19_l4;
    #[kani::stub(std::str::from_utf8, from_utf8_model)] #[kani::stub(crate::data::GdsFloat64::encode, enc_bits)] #[kani::stub(crate::data::GdsFloat64::decode, dec_bits)] #[kani::stub(alloc::fmt::format, fmt_stub)] #[kani::unwind(26)] c10_s_r_k19_l6;
    #[kani::stub(std::str::from_utf8, from_utf8_model)] #[kani::stub(crate::data::GdsFloat64::encode, enc_bits)] #[kani::stub(crate::data::GdsFloat64::decode, dec_bits)] #[kani::stub(alloc::fmt::format, fmt_stub)] #[kani::unwind(26)] c10_s_r_k19_l8;
    #[kani::stub(std::str::from_utf8, from_utf8_model)] #[kani::stub(crate::data::GdsFloat64::encode, enc_bits)] #[kani::stub(crate::data::GdsFloat64::decode, dec_bits)] #[kani::stub(alloc::fmt::format, fmt_stub)] #[kani::unwind(26)] c10_s_r_k19_l12;
    #[kani::stub(std::str::from_utf8, from_utf8_model)] #[kani::stub(crate::data::GdsFloat64::encode, enc_bits)] #[kani::stub(crate::data::GdsFloat64::decode, dec_bits)] #[kani::stub(alloc::fmt::format, fmt_stub)] #[kani::unwind(26)] c10_s_r_k19_l16;
    #[kani::stub(std::str::from_utf8, from_utf8_model)] #[kani::stub(crate::data::GdsFloat64::encode, enc_bits)] #[kani::stub(crate::data::GdsFloat64::decode, dec_bits)] #[kani::stub(alloc::fmt::format, fmt_stub)] #[kani::unwind(26)] c10_s_r_k19_l24;
    #[kani::stub(std::str::from_utf8, from_utf8_model)] #[kani::stub(crate::data::GdsFloat64::encode, enc_bits)] #[kani::stub(crate::data::GdsFloat64::decode, dec_bits)] #[kani::stub(alloc::fmt::format, fmt_stub)] #[kani::unwind(26)] c10_s_r_k1a_l0;
    #[kani::stub(std::str::from_utf8, from_utf8_model)] #[kani::stub(crate::data::GdsFloat64::encode, enc_bits)] #[kani::stub(crate::data::GdsFloat64::decode, dec_bits)] #[kani::stub(alloc::fmt::format, fmt_stub)] #[kani::unwind(26)] c10_s_r_k1a_l2;
    #[kani::stub(std::str::from_utf8, from_utf8_model)] #[kani::stub(crate::data::GdsFloat64::encode, enc_bits)] #[kani::stub(crate::data::GdsFloat64::decode, dec_bits)] #[kani::stub(alloc::fmt::format, fmt_stub)] #[kani::unwind(26)] c10_s_r_k1a_l4;
    #[kani::stub(std::str::from_utf8, from_utf8_model)] #[kani::stub(crate::data::GdsFloat64::encode, enc_bits)] #[kani::stub(crate::data::GdsFloat64::decode, dec_bits)] #[kani::stub(alloc::fmt::format, fmt_stub)] #[kani::unwind(26)] c10_s_r_k1a_l8;
    #[kani::stub(std::str::from_utf8, from_utf8_model)] #[kani::stub(crate::data::GdsFloat64::encode, enc_bits)] #[kani::stub(crate::data::GdsFloat64::decode, dec_bits)] #[kani::stub(alloc::fmt::format, fmt_stub)] #[kani::unwind(26)] c10_s_r_k1a_l24;
    #[kani::stub(std::str::from_utf8, from_utf8_model)] #[kani::stub(crate::data::GdsFloat64::encode, enc_bits)] #[kani::stub(crate::data::GdsFloat64::decode, dec_bits)] #[kani::stub(alloc::fmt::format, fmt_stub)] #[kani::unwind(26)] c10_s_r_k1b_l0;
    #[kani::stub(std::str::from_utf8, from_utf8_model)] #[kani::stub(crate::data::GdsFloat64::encode, enc_bits)] #[kani::stub(crate::data::GdsFloat64::decode, dec_bits)] #[kani::stub(alloc::fmt::format, fmt_stub)] #[kani::unwind(26)] c10_s_r_k1b_l2;
    #[kani::stub(std::str::from_utf8, from_utf8_model)] #[kani::stub(crate::data::GdsFloat64::encode, enc_bits)] #[kani::stub(crate::data::GdsFloat64::decode, dec_bits)] #[kani::stub(alloc::fmt::format, fmt_stub)] #[kani::unwind(26)] c10_s_r_k1b_l4;
    #[kani::stub(std::str::from_utf8, from_utf8_model)] #[kani::stub(crate::data::GdsFloat64::encode, enc_bits)] #[kani::stub(crate::data::GdsFloat64::decode, dec_bits)] #[kani::stub(alloc::fmt::format, fmt_stub)] #[kani::unwind(26)] c10_s_r_k1b_l8;
    #[kani::stub(std::str::from_utf8, from_utf8_model)] #[kani::stub(crate::data::GdsFloat64::encode, enc_bits)] #[kani::stub(crate::data::GdsFloat64::decode, dec_bits)] #[kani::stub(alloc::fmt::format, fmt_stub)] #[kani::unwind(26)] c10_s_r_k1b_l24;
    #[kani::stub(std::str::from_utf8, from_utf8_model)] #[kani::stub(crate::data::GdsFloat64::encode, enc_bits)] #[kani::stub(crate::data::GdsFloat64::decode, dec_bits)] #[kani::stub(alloc::fmt::format, fmt_stub)] #[kani::unwind(26)] c10_s_r_k1c_l0;
    #[kani::stub(std::str::from_utf8, from_utf8_model)] #[kani::stub(crate::data::GdsFloat64::encode, enc_bits)] #[kani::stub(crate::data::GdsFloat64::decode, dec_bits)] #[kani::stub(alloc::fmt::format, fmt_stub)] #[kani::unwind(26)] c10_s_r_k1c_l2;
    #[kani::stub(std::str::from_utf8, from_utf8_model)] #[kani::stub(crate::data::GdsFloat64::encode, enc_bits)] #[kani::stub(crate::data::GdsFloat64::decode, dec_bits)] #[kani::stub(alloc::fmt::format, fmt_stub)] #[kani::unwind(26)] c10_s_r_k1c_l4;
    #[kani::stub(std::str::from_utf8, from_utf8_model)] #[kani::stub(crate::data::GdsFloat64::encode, enc_bits)] #[kani::stub(crate::data::GdsFloat64::decode, dec_bits)] #[kani::stub(alloc::fmt::format, fmt_stub)] #[kani::unwind(26)] c10_s_r_k1c_l8;
    #[kani::stub(std::str::from_utf8, from_utf8_model)] #[kani::stub(crate::data::GdsFloat64::encode, enc_bits)] #[kani::stub(crate::data::GdsFloat64::decode, dec_bits)] #[kani::stub(alloc::fmt::format, fmt_stub)] #[kani::unwind(26)] c10_s_r_k1c_l24;
    #[kani::stub(std::str::from_utf8, from_utf8_model)] #[kani::stub(crate::data::GdsFloat64::encode, enc_bits)] #[kani::stub(crate::data::GdsFloat64::decode, dec_bits)] #[kani::stub(alloc::fmt::format, fmt_stub)] #[kani::unwind(26)] c10_s_r_k1f_l0;
    #[kani::stub(std::str::from_utf8, from_utf8_model)] #[kani::stub(crate::data::GdsFloat64::encode, enc_bits)] #[kani::stub(crate::data::GdsFloat64::decode, dec_bits)] #[kani::stub(alloc::fmt::format, fmt_stub)] #[kani::unwind(26)] c10_s_r_k1f_l2;
    #[kani::stub(std::str::from_utf8, from_utf8_model)] #[kani::stub(crate::data::GdsFloat64::encode, enc_bits)] #[kani::stub(crate::data::GdsFloat64::decode, dec_bits)] #[kani::stub(alloc::fmt::format, fmt_stub)] #[kani::unwind(26)] c10_s_r_k1f_l4;
    #[kani::stub(std::str::from_utf8, from_utf8_model)] #[kani::stub(crate::data::GdsFloat64::encode, enc_bits)] #[kani::stub(crate::data::GdsFloat64::decode, dec_bits)] #[kani::stub(alloc::fmt::format, fmt_stub)] #[kani::unwind(26)] c10_s_r_k1f_l6;
    #[kani::stub(std::str::from_utf8, from_utf8_model)] #[kani::stub(crate::data::GdsFloat64::encode, enc_bits)] #[kani::stub(crate::data::GdsFloat64::decode, dec_bits)] #[kani::stub(alloc::fmt::format, fmt_stub)] #[kani::unwind(26)] c10_s_r_k1f_l8;
    #[kani::stub(std::str::from_utf8, from_utf8_model)] #[kani::stub(crate::data::GdsFloat64::encode, enc_bits)] #[kani::stub(crate::data::GdsFloat64::decode, dec_bits)] #[kani::stub(alloc::fmt::format, fmt_stub)] #[kani::unwind(26)] c10_s_r_k1f_l12;
    #[kani::stub(std::str::from_utf8, from_utf8_model)] #[kani::stub(crate::data::GdsFloat64::encode, enc_bits)] #[kani::stub(crate::data::GdsFloat64::decode, dec_bits)] #[kani::stub(alloc::fmt::format, fmt_stub)] #[kani::unwind(26)] c10_s_r_k1f_l16;
    #[kani::stub(std::str::from_utf8, from_utf8_model)] #[kani::stub(crate::data::GdsFloat64::encode, enc_bits)] #[kani::stub(crate::data::GdsFloat64::decode, dec_bits)] #[kani::stub(alloc::fmt::format, fmt_stub)] #[kani::unwind(26)] c10_s_r_k1f_l24;
    #[kani::stub(std::str::from_utf8, from_utf8_model)] #[kani::stub(crate::data::GdsFloat64::encode, enc_bits)] #[kani::stub(crate::data::GdsFloat64::decode, dec_bits)] #[kani::stub(alloc::fmt::format, fmt_stub)] #[kani::unwind(26)] c10_s_r_k20_l0;
    #[kani::stub(std::str::from_utf8, from_utf8_model)] #[kani::stub(crate::data::GdsFloat64::encode, enc_bits)] #[kani::stub(crate::data::GdsFloat64::decode, dec_bits)] #[kani::stub(alloc::fmt::format, fmt_stub)] #[kani::unwind(26)] c10_s_r_k20_l2;
    #[kani::stub(std::str::from_utf8, from_utf8_model)] #[kani::stub(crate::data::GdsFloat64::encode, enc_bits)] #[kani::stub(crate::data::GdsFloat64::decode, dec_bits)] #[kani::stub(alloc::fmt::format, fmt_stub)] #[kani::unwind(26)] c10_s_r_k20_l4;
    #[kani::stub(std::str::from_utf8, from_utf8_model)] #[kani::stub(crate::data::GdsFloat64::encode, enc_bits)] #[kani::stub(crate::data::GdsFloat64::decode, dec_bits)] #[kani::stub(alloc::fmt::format, fmt_stub)] #[kani::unwind(26)] c10_s_r_k20_l6;
    #[kani::stub(std::str::from_utf8, from_utf8_model)] #[kani::stub(crate::data::GdsFloat64::encode, enc_bits)] #[kani::stub(crate::data::GdsFloat64::decode, dec_bits)] #[kani::stub(alloc::fmt::format, fmt_stub)] #[kani::unwind(26)] c10_s_r_k20_l8;
    #[kani::stub(std::str::from_utf8, from_utf8_model)] #[kani::stub(crate::data::GdsFloat64::encode, enc_bits)] #[kani::stub(crate::data::GdsFloat64::decode, dec_bits)] #[kani::stub(alloc::fmt::format, fmt_stub)] #[kani::unwind(26)] c10_s_r_k20_l12;
    #[kani::stub(std::str::from_utf8, from_utf8_model)] #[kani::stub(crate::data::GdsFloat64::encode, enc_bits)] #[kani::stub(crate::data::GdsFloat64::decode, dec_bits)] #[kani::stub(alloc::fmt::format, fmt_stub)] #[kani::unwind(26)] c10_s_r_k20_l16;
    #[kani::stub(std::str::from_utf8, from_utf8_model)] #[kani::stub(crate::data::GdsFloat64::encode, enc_bits)] #[kani::stub(crate::data::GdsFloat64::decode, dec_bits)] #[kani::stub(alloc::fmt::format, fmt_stub)] #[kani::unwind(26)] c10_s_r_k20_l24;
    #[kani::stub(std::str::from_utf8, from_utf8_model)] #[kani::stub(crate::data::GdsFloat64::encode, enc_bits)] #[kani::stub(crate::data::GdsFloat64::decode, dec_bits)] #[kani::stub(alloc::fmt::format, fmt_stub)] #[kani::unwind(26)] c10_s_r_k21_l0;
    #[kani::stub(std::str::from_utf8, from_utf8_model)] #[kani::stub(crate::data::GdsFloat64::encode, enc_bits)] #[kani::stub(crate::data::GdsFloat64::decode, dec_bits)] #[kani::stub(alloc::fmt::format, fmt_stub)] #[kani::unwind(26)] c10_s_r_k21_l2;
    #[kani::stub(std::str::from_utf8, from_utf8_model)] #[kani::stub(crate::data::GdsFloat64::encode, enc_bits)] #[kani::stub(crate::data::GdsFloat64::decode, dec_bits)] #[kani::stub(alloc::fmt::format, fmt_stub)] #[kani::unwind(26)] c10_s_r_k21_l4;
    #[kani::stub(std::str::from_utf8, from_utf8_model)] #[kani::stub(crate::data::GdsFloat64::encode, enc_bits)] #[kani::stub(crate::data::GdsFloat64::decode, dec_bits)] #[kani::stub(alloc::fmt::format, fmt_stub)] #[kani::unwind(26)] c10_s_r_k21_l8;
    #[kani::stub(std::str::from_utf8, from_utf8_model)] #[kani::stub(crate::data::GdsFloat64::encode, enc_bits)] #[kani::stub(crate::data::GdsFloat64::decode, dec_bits)] #[kani::stub(alloc::fmt::format, fmt_stub)] #[kani::unwind(26)] c10_s_r_k21_l24;
    #[kani::stub(std::str::from_utf8, from_utf8_model)] #[kani::stub(crate::data::GdsFloat64::encode, enc_bits)] #[kani::stub(crate::data::GdsFloat64::decode, dec_bits)] #[kani::stub(alloc::fmt::format, fmt_stub)] #[kani::unwind(26)] c10_s_r_k22_l0;
    #[kani::stub(std::str::from_utf8, from_utf8_model)] #[kani::stub(crate::data::GdsFloat64::encode, enc_bits)] #[kani::stub(crate::data::GdsFloat64::decode, dec_bits)] #[kani::stub(alloc::fmt::format, fmt_stub)] #[kani::unwind(26)] c10_s_r_k22_l2;
    #[kani::stub(std::str::from_utf8, from_utf8_model)] #[kani::stub(crate::data::GdsFloat64::encode, enc_bits)] #[kani::stub(crate::data::GdsFloat64::decode, dec_bits)] #[kani::stub(alloc::fmt::format, fmt_stub)] #[kani::unwind(26)] c10_s_r_k22_l4;
    #[kani::stub(std::str::from_utf8, from_utf8_model)] #[kani::stub(crate::data::GdsFloat64::encode, enc_bits)] #[kani::stub(crate::data::GdsFloat64::decode, dec_bits)] #[kani::stub(alloc::fmt::format, fmt_stub)] #[kani::unwind(26)] c10_s_r_k22_l8;
    #[kani::stub(std::str::from_utf8, from_utf8_model)] #[kani::stub(crate::data::GdsFloat64::encode, enc_bits)] #[kani::stub(crate::data::GdsFloat64::decode, dec_bits)] #[kani::stub(alloc::fmt::format, fmt_stub)] #[kani::unwind(26)] c10_s_r_k22_l24;
    #[kani::stub(std::str::from_utf8, from_utf8_model)] #[kani::stub(crate::data::GdsFloat64::encode, enc_bits)] #[kani::stub(crate::data::GdsFloat64::decode, dec_bits)] #[kani::stub(alloc::fmt::format, fmt_stub)] #[kani::unwind(26)] c10_s_r_k23_l0;
    #[kani::stub(std::str::from_utf8, from_utf8_model)] #[kani::stub(crate::data::GdsFloat64::encode, enc_bits)] #[kani::stub(crate::data::GdsFloat64::decode, dec_bits)] #[kani::stub(alloc::fmt::format, fmt_stub)] #[kani::unwind(26)] c10_s_r_k23_l2;
    #[kani::stub(std::str::from_utf8, from_utf8_model)] #[kani::stub(crate::data::GdsFloat64::encode, enc_bits)] #[kani::stub(crate::data::GdsFloat64::decode, dec_bits)] #[kani::stub(alloc::fmt::format, fmt_stub)] #[kani::unwind(26)] c10_s_r_k23_l4;
    #[kani::stub(std::str::from_utf8, from_utf8_model)] #[kani::stub(crate::data::GdsFloat64::encode, enc_bits)] #[kani::stub(crate::data::GdsFloat64::decode, dec_bits)] #[kani::stub(alloc::fmt::format, fmt_stub)] #[kani::unwind(26)] c10_s_r_k23_l6;
    #[kani::stub(std::str::from_utf8, from_utf8_model)] #[kani::stub(crate::data::GdsFloat64::encode, enc_bits)] #[kani::stub(crate::data::GdsFloat64::decode, dec_bits)] #[kani::stub(alloc::fmt::format, fmt_stub)] #[kani::unwind(26)] c10_s_r_k23_l8;
    #[kani::stub(std::str::from_utf8, from_utf8_model)] #[kani::stub(crate::data::GdsFloat64::encode, enc_bits)] #[kani::stub(crate::data::GdsFloat64::decode, dec_bits)] #[kani::stub(alloc::fmt::format, fmt_stub)] #[kani::unwind(26)] c10_s_r_k23_l12;
    #[kani::stub(std::str::from_utf8, from_utf8_model)] #[kani::stub(crate::data::GdsFloat64::encode, enc_bits)] #[kani::stub(crate::data::GdsFloat64::decode, dec_bits)] #[kani::stub(alloc::fmt::format, fmt_stub)] #[kani::unwind(26)] c10_s_r_k23_l16;
    #[kani::stub(std::str::from_utf8, from_utf8_model)] #[kani::stub(crate::data::GdsFloat64::encode, enc_bits)] #[kani::stub(crate::data::GdsFloat64::decode, dec_bits)] #[kani::stub(alloc::fmt::format, fmt_stub)] #[kani::unwind(26)] c10_s_r_k23_l24;
    #[kani::stub(std::str::from_utf8, from_utf8_model)] #[kani::stub(crate::data::GdsFloat64::encode, enc_bits)] #[kani::stub(crate::data::GdsFloat64::decode, dec_bits)] #[kani::stub(alloc::fmt::format, fmt_stub)] #[kani::unwind(26)] c10_s_r_k26_l0;
    #[kani::stub(std::str::from_utf8, from_utf8_model)] #[kani::stub(crate::data::GdsFloat64::encode, enc_bits)] #[kani::stub(crate::data::GdsFloat64::decode, dec_bits)] #[kani::stub(alloc::fmt::format, fmt_stub)] #[kani::unwind(26)] c10_s_r_k26_l2;
    #[kani::stub(std::str::from_utf8, from_utf8_model)] #[kani::stub(crate::data::GdsFloat64::encode, enc_bits)] #[kani::stub(crate::data::GdsFloat64::decode, dec_bits)] #[kani::stub(alloc::fmt::format, fmt_stub)] #[kani::unwind(26)] c10_s_r_k26_l4;
    #[kani::stub(std::str::from_utf8, from_utf8_model)] #[kani::stub(crate::data::GdsFloat64::encode, enc_bits)] #[kani::stub(crate::data::GdsFloat64::decode, dec_bits)] #[kani::stub(alloc::fmt::format, fmt_stub)] #[kani::unwind(26)] c10_s_r_k26_l8;
    #[kani::stub(std::str::from_utf8, from_utf8_model)] #[kani::stub(crate::data::GdsFloat64::encode, enc_bits)] #[kani::stub(crate::data::GdsFloat64::decode, dec_bits)] #[kani::stub(alloc::fmt::format, fmt_stub)] #[kani::unwind(26)] c10_s_r_k26_l24;
    #[kani::stub(std::str::from_utf8, from_utf8_model)] #[kani::stub(crate::data::GdsFloat64::encode, enc_bits)] #[kani::stub(crate::data::GdsFloat64::decode, dec_bits)] #[kani::stub(alloc::fmt::format, fmt_stub)] #[kani::unwind(26)] c10_s_r_k2a_l0;
    #[kani::stub(std::str::from_utf8, from_utf8_model)] #[kani::stub(crate::data::GdsFloat64::encode, enc_bits)] #[kani::stub(crate::data::GdsFloat64::decode, dec_bits)] #[kani::stub(alloc::fmt::format, fmt_stub)] #[kani::unwind(26)] c10_s_r_k2a_l2;
    #[kani::stub(std::str::from_utf8, from_utf8_model)] #[kani::stub(crate::data::GdsFloat64::encode, enc_bits)] #[kani::stub(crate::data::GdsFloat64::decode, dec_bits)] #[kani::stub(alloc::fmt::format, fmt_stub)] #[kani::unwind(26)] c10_s_r_k2a_l4;
    #[kani::stub(std::str::from_utf8, from_utf8_model)] #[kani::stub(crate::data::GdsFloat64::encode, enc_bits)] #[kani::stub(crate::data::GdsFloat64::decode, dec_bits)] #[kani::stub(alloc::fmt::format, fmt_stub)] #[kani::unwind(26)] c10_s_r_k2a_l8;
    #[kani::stub(std::str::from_utf8, from_utf8_model)] #[kani::stub(crate::data::GdsFloat64::encode, enc_bits)] #[kani::stub(crate::data::GdsFloat64::decode, dec_bits)] #[kani::stub(alloc::fmt::format, fmt_stub)] #[kani::unwind(26)] c10_s_r_k2a_l24;
    #[kani::stub(std::str::from_utf8, from_utf8_model)] #[kani::stub(crate::data::GdsFloat64::encode, enc_bits)] #[kani::stub(crate::data::GdsFloat64::decode, dec_bits)] #[kani::stub(alloc::fmt::format, fmt_stub)] #[kani::unwind(26)] c10_s_r_k2b_l0;
    #[kani::stub(std::str::from_utf8, from_utf8_model)] #[kani::stub(crate::data::GdsFloat64::encode, enc_bits)] #[kani::stub(crate::data::GdsFloat64::decode, dec_bits)] #[kani::stub(alloc::fmt::format, fmt_stub)] #[kani::unwind(26)] c10_s_r_k2b_l2;
    #[kani::stub(std::str::from_utf8, from_utf8_model)] #[kani::stub(crate::data::GdsFloat64::encode, enc_bits)] #[kani::stub(crate::data::GdsFloat64::decode, dec_bits)] #[kani::stub(alloc::fmt::format, fmt_stub)] #[kani::unwind(26)] c10_s_r_k2b_l4;
    #[kani::stub(std::str::from_utf8, from_utf8_model)] #[kani::stub(crate::data::GdsFloat64::encode, enc_bits)] #[kani::stub(crate::data::GdsFloat64::decode, dec_bits)] #[kani::stub(alloc::fmt::format, fmt_stub)] #[kani::unwind(26)] c10_s_r_k2b_l8;
    #[kani::stub(std::str::from_utf8, from_utf8_model)] #[kani::stub(crate::data::GdsFloat64::encode, enc_bits)] #[kani::stub(crate::data::GdsFloat64::decode, dec_bits)] #[kani::stub(alloc::fmt::format, fmt_stub)] #[kani::unwind(26)] c10_s_r_k2b_l24;
    #[kani::stub(std::str::from_utf8, from_utf8_model)] #[kani::stub(crate::data::GdsFloat64::encode, enc_bits)] #[kani::stub(crate::data::GdsFloat64::decode, dec_bits)] #[kani::stub(alloc::fmt::format, fmt_stub)] #[kani::unwind(26)] c10_s_r_k2c_l0;
    #[kani::stub(std::str::from_utf8, from_utf8_model)] #[kani::stub(crate::data::GdsFloat64::encode, enc_bits)] #[kani::stub(crate::data::GdsFloat64::decode, dec_bits)] #[kani::stub(alloc::fmt::format, fmt_stub)] #[kani::unwind(26)] c10_q_r_k2c_l2;
    #[kani::stub(std::str::from_utf8, from_utf8_model)] #[kani::stub(crate::data::GdsFloat64::encode, enc_bits)] #[kani::stub(crate::data::GdsFloat64::decode, dec_bits)] #[kani::stub(alloc::fmt::format, fmt_stub)] #[kani::unwind(26)] c10_s_r_k2c_l4;
    #[kani::stub(std::str::from_utf8, from_utf8_model)] #[kani::stub(crate::data::GdsFloat64::encode, enc_bits)] #[kani::stub(crate::data::GdsFloat64::decode, dec_bits)] #[kani::stub(alloc::fmt::format, fmt_stub)] #[kani::unwind(26)] c10_s_r_k2c_l6;
    #[kani::stub(std::str::from_utf8, from_utf8_model)] #[kani::stub(crate::data::GdsFloat64::encode, enc_bits)] #[kani::stub(crate::data::GdsFloat64::decode, dec_bits)] #[kani::stub(alloc::fmt::format, fmt_stub)] #[kani::unwind(26)] c10_s_r_k2c_l8;
    #[kani::stub(std::str::from_utf8, from_utf8_model)] #[kani::stub(crate::data::GdsFloat64::encode, enc_bits)] #[kani::stub(crate::data::GdsFloat64::decode, dec_bits)] #[kani::stub(alloc::fmt::format, fmt_stub)] #[kani::unwind(26)] c10_s_r_k2c_l12;
    #[kani::stub(std::str::from_utf8, from_utf8_model)] #[kani::stub(crate::data::GdsFloat64::encode, enc_bits)] #[kani::stub(crate::data::GdsFloat64::decode, dec_bits)] #[kani::stub(alloc::fmt::format, fmt_stub)] #[kani::unwind(26)] c10_s_r_k2c_l16;
    #[kani::stub(std::str::from_utf8, from_utf8_model)] #[kani::stub(crate::data::GdsFloat64::encode, enc_bits)] #[kani::stub(crate::data::GdsFloat64::decode, dec_bits)] #[kani::stub(alloc::fmt::format, fmt_stub)] #[kani::unwind(26)] c10_s_r_k2c_l24;
    #[kani::stub(std::str::from_utf8, from_utf8_model)] #[kani::stub(crate::data::GdsFloat64::encode, enc_bits)] #[kani::stub(crate::data::GdsFloat64::decode, dec_bits)] #[kani::stub(alloc::fmt::format, fmt_stub)] #[kani::unwind(26)] c10_s_r_k2d_l0;
    #[kani::stub(std::str::from_utf8, from_utf8_model)] #[kani::stub(crate::data::GdsFloat64::encode, enc_bits)] #[kani::stub(crate::data::GdsFloat64::decode, dec_bits)] #[kani::stub(alloc::fmt::format, fmt_stub)] #[kani::unwind(26)] c10_s_r_k2d_l2;
    #[kani::stub(std::str::from_utf8, from_utf8_model)] #[kani::stub(crate::data::GdsFloat64::encode, enc_bits)] #[kani::stub(crate::data::GdsFloat64::decode, dec_bits)] #[kani::stub(alloc::fmt::format, fmt_stub)] #[kani::unwind(26)] c10_s_r_k2d_l4;
    #[kani::stub(std::str::from_utf8, from_utf8_model)] #[kani::stub(crate::data::GdsFloat64::encode, enc_bits)] #[kani::stub(crate::data::GdsFloat64::decode, dec_bits)] #[kani::stub(alloc::fmt::format, fmt_stub)] #[kani::unwind(26)] c10_s_r_k2d_l8;
    #[kani::stub(std::str::from_utf8, from_utf8_model)] #[kani::stub(crate::data::GdsFloat64::encode, enc_bits)] #[kani::stub(crate::data::GdsFloat64::decode, dec_bits)] #[kani::stub(alloc::fmt::format, fmt_stub)] #[kani::unwind(26)] c10_s_r_k2d_l24;
    #[kani::stub(std::str::from_utf8, from_utf8_model)] #[kani::stub(crate::data::GdsFloat64::encode, enc_bits)] #[kani::stub(crate::data::GdsFloat64::decode, dec_bits)] #[kani::stub(alloc::fmt::format, fmt_stub)] #[kani::unwind(26)] c10_s_r_k2e_l0;
    #[kani::stub(std::str::from_utf8, from_utf8_model)] #[kani::stub(crate::data::GdsFloat64::encode, enc_bits)] #[kani::stub(crate::data::GdsFloat64::decode, dec_bits)] #[kani::stub(alloc::fmt::format, fmt_stub)] #[kani::unwind(26)] c10_s_r_k2e_l2;
    #[kani::stub(std::str::from_utf8, from_utf8_model)] #[kani::stub(crate::data::GdsFloat64::encode, enc_bits)] #[kani::stub(crate::data::GdsFloat64::decode, dec_bits)] #[kani::stub(alloc::fmt::format, fmt_stub)] #[kani::unwind(26)] c10_s_r_k2e_l4;
    #[kani::stub(std::str::from_utf8, from_utf8_model)] #[kani::stub(crate::data::GdsFloat64::encode, enc_bits)] #[kani::stub(crate::data::GdsFloat64::decode, dec_bits)] #[kani::stub(alloc::fmt::format, fmt_stub)] #[kani::unwind(26)] c10_s_r_k2e_l8;
    #[kani::stub(std::str::from_utf8, from_utf8_model)] #[kani::stub(crate::data::GdsFloat64::encode, enc_bits)] #[kani::stub(crate::data::GdsFloat64::decode, dec_bits)] #[kani::stub(alloc::fmt::format, fmt_stub)] #[kani::unwind(26)] c10_s_r_k2e_l24;
    #[kani::stub(std::str::from_utf8, from_utf8_model)] #[kani::stub(crate::data::GdsFloat64::encode, enc_bits)] #[kani::stub(crate::data::GdsFloat64::decode, dec_bits)] #[kani::stub(alloc::fmt::format, fmt_stub)] #[kani::unwind(26)] c10_s_r_k2f_l0;
    #[kani::stub(std::str::from_utf8, from_utf8_model)] #[kani::stub(crate::data::GdsFloat64::encode, enc_bits)] #[kani::stub(crate::data::GdsFloat64::decode, dec_bits)] #[kani::stub(alloc::fmt::format, fmt_stub)] #[kani::unwind(26)] c10_s_r_k2f_l2;
    #[kani::stub(std::str::from_utf8, from_utf8_model)] #[kani::stub(crate::data::GdsFloat64::encode, enc_bits)] #[kani::stub(crate::data::GdsFloat64::decode, dec_bits)] #[kani::stub(alloc::fmt::format, fmt_stub)] #[kani::unwind(26)] c10_s_r_k2f_l4;
    #[kani::stub(std::str::from_utf8, from_utf8_model)] #[kani::stub(crate::data::GdsFloat64::encode, enc_bits)] #[kani::stub(crate::data::GdsFloat64::decode, dec_bits)] #[kani::stub(alloc::fmt::format, fmt_stub)] #[kani::unwind(26)] c10_s_r_k2f_l8;
    #[kani::stub(std::str::from_utf8, from_utf8_model)] #[kani::stub(crate::data::GdsFloat64::encode, enc_bits)] #[kani::stub(crate::data::GdsFloat64::decode, dec_bits)] #[kani::stub(alloc::fmt::format, fmt_stub)] #[kani::unwind(26)] c10_s_r_k2f_l24;
    #[kani::stub(std::str::from_utf8, from_utf8_model)] #[kani::stub(crate::data::GdsFloat64::encode, enc_bits)] #[kani::stub(crate::data::GdsFloat64::decode, dec_bits)] #[kani::stub(alloc::fmt::format, fmt_stub)] #[kani::unwind(26)] c10_s_r_k30_l0;
    #[kani::stub(std::str::from_utf8, from_utf8_model)] #[kani::stub(crate::data::GdsFloat64::encode, enc_bits)] #[kani::stub(crate::data::GdsFloat64::decode, dec_bits)] #[kani::stub(alloc::fmt::format, fmt_stub)] #[kani::unwind(26)] c10_s_r_k30_l2;
    #[kani::stub(std::str::from_utf8, from_utf8_model)] #[kani::stub(crate::data::GdsFloat64::encode, enc_bits)] #[kani::stub(crate::data::GdsFloat64::decode, dec_bits)] #[kani::stub(alloc::fmt::format, fmt_stub)] #[kani::unwind(26)] c10_s_r_k30_l4;
    #[kani::stub(std::str::from_utf8, from_utf8_model)] #[kani::stub(crate::data::GdsFloat64::encode, enc_bits)] #[kani::stub(crate::data::GdsFloat64::decode, dec_bits)] #[kani::stub(alloc::fmt::format, fmt_stub)] #[kani::unwind(26)] c10_s_r_k30_l8;
    #[kani::stub(std::str::from_utf8, from_utf8_model)] #[kani::stub(crate::data::GdsFloat64::encode, enc_bits)] #[kani::stub(crate::data::GdsFloat64::decode, dec_bits)] #[kani::stub(alloc::fmt::format, fmt_stub)] #[kani::unwind(26)] c10_s_r_k30_l24;
    #[kani::stub(std::str::from_utf8, from_utf8_model)] #[kani::stub(crate::data::GdsFloat64::encode, enc_bits)] #[kani::stub(crate::data::GdsFloat64::decode, dec_bits)] #[kani::stub(alloc::fmt::format, fmt_stub)] #[kani::unwind(26)] c10_s_r_k31_l0;
    #[kani::stub(std::str::from_utf8, from_utf8_model)] #[kani::stub(crate::data::GdsFloat64::encode, enc_bits)] #[kani::stub(crate::data::GdsFloat64::decode, dec_bits)] #[kani::stub(alloc::fmt::format, fmt_stub)] #[kani::unwind(26)] c10_s_r_k31_l2;
    #[kani::stub(std::str::from_utf8, from_utf8_model)] #[kani::stub(crate::data::GdsFloat64::encode, enc_bits)] #[kani::stub(crate::data::GdsFloat64::decode, dec_bits)] #[kani::stub(alloc::fmt::format, fmt_stub)] #[kani::unwind(26)] c10_s_r_k31_l4;
    #[kani::stub(std::str::from_utf8, from_utf8_model)] #[kani::stub(crate::data::GdsFloat64::encode, enc_bits)] #[kani::stub(crate::data::GdsFloat64::decode, dec_bits)] #[kani::stub(alloc::fmt::format, fmt_stub)] #[kani::unwind(26)] c10_s_r_k31_l8;
    #[kani::stub(std::str::from_utf8, from_utf8_model)] #[kani::stub(crate::data::GdsFloat64::encode, enc_bits)] #[kani::stub(crate::data::GdsFloat64::decode, dec_bits)] #[kani::stub(alloc::fmt::format, fmt_stub)] #[kani::unwind(26)] c10_s_r_k31_l24;
    #[kani::stub(std::str::from_utf8, from_utf8_model)] #[kani::stub(crate::data::GdsFloat64::encode, enc_bits)] #[kani::stub(crate::data::GdsFloat64::decode, dec_bits)] #[kani::stub(alloc::fmt::format, fmt_stub)] #[kani::unwind(26)] c10_s_r_k32_l0;
    #[kani::stub(std::str::from_utf8, from_utf8_model)] #[kani::stub(crate::data::GdsFloat64::encode, enc_bits)] #[kani::stub(crate::data::GdsFloat64::decode, dec_bits)] #[kani::stub(alloc::fmt::format, fmt_stub)] #[kani::unwind(26)] c10_s_r_k32_l2;
    #[kani::stub(std::str::from_utf8, from_utf8_model)] #[kani::stub(crate::data::GdsFloat64::encode, enc_bits)] #[kani::stub(crate::data::GdsFloat64::decode, dec_bits)] #[kani::stub(alloc::fmt::format, fmt_stub)] #[kani::unwind(26)] c10_s_r_k32_l4;
    #[kani::stub(std::str::from_utf8, from_utf8_model)] #[kani::stub(crate::data::GdsFloat64::encode, enc_bits)] #[kani::stub(crate::data::GdsFloat64::decode, dec_bits)] #[kani::stub(alloc::fmt::format, fmt_stub)] #[kani::unwind(26)] c10_s_r_k32_l8;
    #[kani::stub(std::str::from_utf8, from_utf8_model)] #[kani::stub(crate::data::GdsFloat64::encode, enc_bits)] #[kani::stub(crate::data::GdsFloat64::decode, dec_bits)] #[kani::stub(alloc::fmt::format, fmt_stub)] #[kani::unwind(26)] c10_s_r_k32_l24;
    #[kani::stub(std::str::from_utf8, from_utf8_model)] #[kani::stub(crate::data::GdsFloat64::encode, enc_bits)] #[kani::stub(crate::data::GdsFloat64::decode, dec_bits)] #[kani::stub(alloc::fmt::format, fmt_stub)] #[kani::unwind(26)] c10_s_r_k33_l0;
    #[kani::stub(std::str::from_utf8, from_utf8_model)] #[kani::stub(crate::data::GdsFloat64::encode, enc_bits)] #[kani::stub(crate::data::GdsFloat64::decode, dec_bits)] #[kani::stub(alloc::fmt::format, fmt_stub)] #[kani::unwind(26)] c10_s_r_k33_l2;
    #[kani::stub(std::str::from_utf8, from_utf8_model)] #[kani::stub(crate::data::GdsFloat64::encode, enc_bits)] #[kani::stub(crate::data::GdsFloat64::decode, dec_bits)] #[kani::stub(alloc::fmt::format, fmt_stub)] #[kani::unwind(26)] c10_s_r_k33_l4;
    #[kani::stub(std::str::from_utf8, from_utf8_model)] #[kani::stub(crate::data::GdsFloat64::encode, enc_bits)] #[kani::stub(crate::data::GdsFloat64::decode, dec_bits)] #[kani::stub(alloc::fmt::format, fmt_stub)] #[kani::unwind(26)] c10_s_r_k33_l8;
    #[kani::stub(std::str::from_utf8, from_utf8_model)] #[kani::stub(crate::data::GdsFloat64::encode, enc_bits)] #[kani::stub(crate::data::GdsFloat64::decode, dec_bits)] #[kani::stub(alloc::fmt::format, fmt_stub)] #[kani::unwind(26)] c10_s_r_k33_l24;
    #[kani::stub(std::str::from_utf8, from_utf8_model)] #[kani::stub(crate::data::GdsFloat64::encode, enc_bits)] #[kani::stub(crate::data::GdsFloat64::decode, dec_bits)] #[kani::stub(alloc::fmt::format, fmt_stub)] #[kani::unwind(26)] c10_s_r_k36_l0;
    #[kani::stub(std::str::from_utf8, from_utf8_model)] #[kani::stub(crate::data::GdsFloat64::encode, enc_bits)] #[kani::stub(crate::data::GdsFloat64::decode, dec_bits)] #[kani::stub(alloc::fmt::format, fmt_stub)] #[kani::unwind(26)] c10_s_r_k36_l2;
    #[kani::stub(std::str::from_utf8, from_utf8_model)] #[kani::stub(crate::data::GdsFloat64::encode, enc_bits)] #[kani::stub(crate::data::GdsFloat64::decode, dec_bits)] #[kani::stub(alloc::fmt::format, fmt_stub)] #[kani::unwind(26)] c10_s_r_k36_l4;
    #[kani::stub(std::str::from_utf8, from_utf8_model)] #[kani::stub(crate::data::GdsFloat64::encode, enc_bits)] #[kani::stub(crate::data::GdsFloat64::decode, dec_bits)] #[kani::stub(alloc::fmt::format, fmt_stub)] #[kani::unwind(26)] c10_s_r_k36_l8;
    #[kani::stub(std::str::from_utf8, from_utf8_model)] #[kani::stub(crate::data::GdsFloat64::encode, enc_bits)] #[kani::stub(crate::data::GdsFloat64::decode, dec_bits)] #[kani::stub(alloc::fmt::format, fmt_stub)] #[kani::unwind(26)] c10_s_r_k36_l24;
    #[kani::stub(std::str::from_utf8, from_utf8_model)] #[kani::stub(crate::data::GdsFloat64::encode, enc_bits)] #[kani::stub(crate::data::GdsFloat64::decode, dec_bits)] #[kani::stub(alloc::fmt::format, fmt_stub)] #[kani::unwind(26)] c10_s_r_k37_l0;
    #[kani::stub(std::str::from_utf8, from_utf8_model)] #[kani::stub(crate::data::GdsFloat64::encode, enc_bits)] #[kani::stub(crate::data::GdsFloat64::decode, dec_bits)] #[kani::stub(alloc::fmt::format, fmt_stub)] #[kani::unwind(26)] c10_s_r_k37_l2;
    #[kani::stub(std::str::from_utf8, from_utf8_model)] #[kani::stub(crate::data::GdsFloat64::encode, enc_bits)] #[kani::stub(crate::data::GdsFloat64::decode, dec_bits)] #[kani::stub(alloc::fmt::format, fmt_stub)] #[kani::unwind(26)] c10_s_r_k37_l4;
    #[kani::stub(std::str::from_utf8, from_utf8_model)] #[kani::stub(crate::data::GdsFloat64::encode, enc_bits)] #[kani::stub(crate::data::GdsFloat64::decode, dec_bits)] #[kani::stub(alloc::fmt::format, fmt_stub)] #[kani::unwind(26)] c10_s_r_k37_l6;
    #[kani::stub(std::str::from_utf8, from_utf8_model)] #[kani::stub(crate::data::GdsFloat64::encode, enc_bits)] #[kani::stub(crate::data::GdsFloat64::decode, dec_bits)] #[kani::stub(alloc::fmt::format, fmt_stub)] #[kani::unwind(26)] c10_s_r_k37_l8;
    #[kani::stub(std::str::from_utf8, from_utf8_model)] #[kani::stub(crate::data::GdsFloat64::encode, enc_bits)] #[kani::stub(crate::data::GdsFloat64::decode, dec_bits)] #[kani::stub(alloc::fmt::format, fmt_stub)] #[kani::unwind(26)] c10_s_r_k37_l12;
    #[kani::stub(std::str::from_utf8, from_utf8_model)] #[kani::stub(crate::data::GdsFloat64::encode, enc_bits)] #[kani::stub(crate::data::GdsFloat64::decode, dec_bits)] #[kani::stub(alloc::fmt::format, fmt_stub)] #[kani::unwind(26)] c10_s_r_k37_l16;
    #[kani::stub(std::str::from_utf8, from_utf8_model)] #[kani::stub(crate::data::GdsFloat64::encode, enc_bits)] #[kani::stub(crate::data::GdsFloat64::decode, dec_bits)] #[kani::stub(alloc::fmt::format, fmt_stub)] #[kani::unwind(26)] c10_s_r_k37_l24;
    #[kani::stub(std::str::from_utf8, from_utf8_model)] #[kani::stub(crate::data::GdsFloat64::encode, enc_bits)] #[kani::stub(crate::data::GdsFloat64::decode, dec_bits)] #[kani::stub(alloc::fmt::format, fmt_stub)] #[kani::unwind(26)] c10_s_r_k38_l0;
    #[kani::stub(std::str::from_utf8, from_utf8_model)] #[kani::stub(crate::data::GdsFloat64::encode, enc_bits)] #[kani::stub(crate::data::GdsFloat64::decode, dec_bits)] #[kani::stub(alloc::fmt::format, fmt_stub)] #[kani::unwind(26)] c10_s_r_k38_l2;
    #[kani::stub(std::str::from_utf8, from_utf8_model)] #[kani::stub(crate::data::GdsFloat64::encode, enc_bits)] #[kani::stub(crate::data::GdsFloat64::decode, dec_bits)] #[kani::stub(alloc::fmt::format, fmt_stub)] #[kani::unwind(26)] c10_s_r_k38_l4;
    #[kani::stub(std::str::from_utf8, from_utf8_model)] #[kani::stub(crate::data::GdsFloat64::encode, enc_bits)] #[kani::stub(crate::data::GdsFloat64::decode, dec_bits)] #[kani::stub(alloc::fmt::format, fmt_stub)] #[kani::unwind(26)] c10_s_r_k38_l8;
    #[kani::stub(std::str::from_utf8, from_utf8_model)] #[kani::stub(crate::data::GdsFloat64::encode, enc_bits)] #[kani::stub(crate::data::GdsFloat64::decode, dec_bits)] #[kani::stub(alloc::fmt::format, fmt_stub)] #[kani::unwind(26)] c10_s_r_k38_l24;
    #[kani::stub(std::str::from_utf8, from_utf8_model)] #[kani::stub(crate::data::GdsFloat64::encode, enc_bits)] #[kani::stub(crate::data::GdsFloat64::decode, dec_bits)] #[kani::stub(alloc::fmt::format, fmt_stub)] #[kani::unwind(26)] c10_s_r_k39_l0;
    #[kani::stub(std::str::from_utf8, from_utf8_model)] #[kani::stub(crate::data::GdsFloat64::encode, enc_bits)] #[kani::stub(crate::data::GdsFloat64::decode, dec_bits)] #[kani::stub(alloc::fmt::format, fmt_stub)] #[kani::unwind(26)] c10_s_r_k39_l2;
    #[kani::stub(std::str::from_utf8, from_utf8_model)] #[kani::stub(crate::data::GdsFloat64::encode, enc_bits)] #[kani::stub(crate::data::GdsFloat64::decode, dec_bits)] #[kani::stub(alloc::fmt::format, fmt_stub)] #[kani::unwind(26)] c10_s_r_k39_l4;
    #[kani::stub(std::str::from_utf8, from_utf8_model)] #[kani::stub(crate::data::GdsFloat64::encode, enc_bits)] #[kani::stub(crate::data::GdsFloat64::decode, dec_bits)] #[kani::stub(alloc::fmt::format, fmt_stub)] #[kani::unwind(26)] c10_s_r_k39_l8;
    #[kani::stub(std::str::from_utf8, from_utf8_model)] #[kani::stub(crate::data::GdsFloat64::encode, enc_bits)] #[kani::stub(crate::data::GdsFloat64::decode, dec_bits)] #[kani::stub(alloc::fmt::format, fmt_stub)] #[kani::unwind(26)] c10_s_r_k39_l24;
    #[kani::stub(std::str::from_utf8, from_utf8_model)] #[kani::stub(crate::data::GdsFloat64::encode, enc_bits)] #[kani::stub(crate::data::GdsFloat64::decode, dec_bits)] #[kani::stub(alloc::fmt::format, fmt_stub)] #[kani::unwind(26)] c10_s_r_k3a_l0;
    #[kani::stub(std::str::from_utf8, from_utf8_model)] #[kani::stub(crate::data::GdsFloat64::encode, enc_bits)] #[kani::stub(crate::data::GdsFloat64::decode, dec_bits)] #[kani::stub(alloc::fmt::format, fmt_stub)] #[kani::unwind(26)] c10_s_r_k3a_l2;
    #[kani::stub(std::str::from_utf8, from_utf8_model)] #[kani::stub(crate::data::GdsFloat64::encode, enc_bits)] #[kani::stub(crate::data::GdsFloat64::decode, dec_bits)] #[kani::stub(alloc::fmt::format, fmt_stub)] #[kani::unwind(26)] c10_s_r_k3a_l4;
    #[kani::stub(std::str::from_utf8, from_utf8_model)] #[kani::stub(crate::data::GdsFloat64::encode, enc_bits)] #[kani::stub(crate::data::GdsFloat64::decode, dec_bits)] #[kani::stub(alloc::fmt::format, fmt_stub)] #[kani::unwind(26)] c10_s_r_k3a_l6;
    #[kani::stub(std::str::from_utf8, from_utf8_model)] #[kani::stub(crate::data::GdsFloat64::encode, enc_bits)] #[kani::stub(crate::data::GdsFloat64::decode, dec_bits)] #[kani::stub(alloc::fmt::format, fmt_stub)] #[kani::unwind(26)] c10_s_r_k3a_l8;
    #[kani::stub(std::str::from_utf8, from_utf8_model)] #[kani::stub(crate::data::GdsFloat64::encode, enc_bits)] #[kani::stub(crate::data::GdsFloat64::decode, dec_bits)] #[kani::stub(alloc::fmt::format, fmt_stub)] #[kani::unwind(26)] c10_s_r_k3a_l12;
    #[kani::stub(std::str::from_utf8, from_utf8_model)] #[kani::stub(crate::data::GdsFloat64::encode, enc_bits)] #[kani::stub(crate::data::GdsFloat64::decode, dec_bits)] #[kani::stub(alloc::fmt::format, fmt_stub)] #[kani::unwind(26)] c10_s_r_k3a_l16;
    #[kani::stub(std::str::from_utf8, from_utf8_model)] #[kani::stub(crate::data::GdsFloat64::encode, enc_bits)] #[kani::stub(crate::data::GdsFloat64::decode, dec_bits)] #[kani::stub(alloc::fmt::format, fmt_stub)] #[kani::unwind(26)] c10_s_r_k3a_l24;
    #[kani::stub(std::str::from_utf8, from_utf8_model)] #[kani::stub(crate::data::GdsFloat64::encode, enc_bits)] #[kani::stub(crate::data::GdsFloat64::decode, dec_bits)] #[kani::stub(alloc::fmt::format, fmt_stub)] #[kani::unwind(26)] c10_s_r_k3b_l0;
    #[kani::stub(std::str::from_utf8, from_utf8_model)] #[kani::stub(crate::data::GdsFloat64::encode, enc_bits)] #[kani::stub(crate::data::GdsFloat64::decode, dec_bits)] #[kani::stub(alloc::fmt::format, fmt_stub)] #[kani::unwind(26)] c10_s_r_k3b_l2;
    #[kani::stub(std::str::from_utf8, from_utf8_model)] #[kani::stub(crate::data::GdsFloat64::encode, enc_bits)] #[kani::stub(crate::data::GdsFloat64::decode, dec_bits)] #[kani::stub(alloc::fmt::format, fmt_stub)] #[kani::unwind(26)] c10_s_r_k3b_l4;
    #[kani::stub(std::str::from_utf8, from_utf8_model)] #[kani::stub(crate::data::GdsFloat64::encode, enc_bits)] #[kani::stub(crate::data::GdsFloat64::decode, dec_bits)] #[kani::stub(alloc::fmt::format, fmt_stub)] #[kani::unwind(26)] c10_s_r_k3b_l8;
    #[kani::stub(std::str::from_utf8, from_utf8_model)] #[kani::stub(crate::data::GdsFloat64::encode, enc_bits)] #[kani::stub(crate::data::GdsFloat64::decode, dec_bits)] #[kani::stub(alloc::fmt::format, fmt_stub)] #[kani::unwind(26)] c10_s_r_k3b_l24;
    #[kani::stub(std::str::from_utf8, from_utf8_model)] #[kani::stub(crate::data::GdsFloat64::encode, enc_bits)] #[kani::stub(crate::data::GdsFloat64::decode, dec_bits)] #[kani::stub(alloc::fmt::format, fmt_stub)] #[kani::stub(crate::read::GdsParser::next, stub_next)] #[kani::unwind(22)] c01_s_l2a_e0_m0;
    #[kani::stub(std::str::from_utf8, from_utf8_model)] #[kani::stub(crate::data::GdsFloat64::encode, enc_bits)] #[kani::stub(crate::data::GdsFloat64::decode, dec_bits)] #[kani::stub(alloc::fmt::format, fmt_stub)] #[kani::stub(crate::read::GdsParser::next, stub_next)] #[kani::unwind(22)] c03_s_r2_e0_m0;
    #[kani::stub(std::str::from_utf8, from_utf8_model)] #[kani::stub(crate::data::GdsFloat64::encode, enc_bits)] #[kani::stub(crate::data::GdsFloat64::decode, dec_bits)] #[kani::stub(alloc::fmt::format, fmt_stub)] #[kani::stub(crate::read::GdsParser::next, stub_next)] #[kani::unwind(22)] c01_s_l2a_e0_m1;
    #[kani::stub(std::str::from_utf8, from_utf8_model)] #[kani::stub(crate::data::GdsFloat64::encode, enc_bits)] #[kani::stub(crate::data::GdsFloat64::decode, dec_bits)] #[kani::stub(alloc::fmt::format, fmt_stub)] #[kani::stub(crate::read::GdsParser::next, stub_next)] #[kani::unwind(22)] c03_s_r2_e0_m1;
    #[kani::stub(std::str::from_utf8, from_utf8_model)] #[kani::stub(crate::data::GdsFloat64::encode, enc_bits)] #[kani::stub(crate::data::GdsFloat64::decode, dec_bits)] #[kani::stub(alloc::fmt::format, fmt_stub)] #[kani::stub(crate::read::GdsParser::next, stub_next)] #[kani::unwind(22)] c01_s_l2a_e0_m2;
    #[kani::stub(std::str::from_utf8, from_utf8_model)] #[kani::stub(crate::data::GdsFloat64::encode, enc_bits)] #[kani::stub(crate::data::GdsFloat64::decode, dec_bits)] #[kani::stub(alloc::fmt::format, fmt_stub)] #[kani::stub(crate::read::GdsParser::next, stub_next)] #[kani::unwind(22)] c03_s_r2_e0_m2;
    #[kani::stub(std::str::from_utf8, from_utf8_model)] #[kani::stub(crate::data::GdsFloat64::encode, enc_bits)] #[kani::stub(crate::data::GdsFloat64::decode, dec_bits)] #[kani::stub(alloc::fmt::format, fmt_stub)] #[kani::stub(crate::read::GdsParser::next, stub_next)] #[kani::unwind(22)] c01_q_l2a_e0_m3;
    #[kani::stub(std::str::from_utf8, from_utf8_model)] #[kani::stub(crate::data::GdsFloat64::encode, enc_bits)] #[kani::stub(crate::data::GdsFloat64::decode, dec_bits)] #[kani::stub(alloc::fmt::format, fmt_stub)] #[kani::stub(crate::read::GdsParser::next, stub_next)] #[kani::unwind(22)] c03_s_r2_e0_m3;
    #[kani::stub(std::str::from_utf8, from_utf8_model)] #[kani::stub(crate::data::GdsFloat64::encode, enc_bits)] #[kani::stub(crate::data::GdsFloat64::decode, dec_bits)] #[kani::stub(alloc::fmt::format, fmt_stub)] #[kani::stub(crate::read::GdsParser::next, stub_next)] #[kani::unwind(22)] c01_s_l2a_e1_m0;
    #[kani::stub(std::str::from_utf8, from_utf8_model)] #[kani::stub(crate::data::GdsFloat64::encode, enc_bits)] #[kani::stub(crate::data::GdsFloat64::decode, dec_bits)] #[kani::stub(alloc::fmt::format, fmt_stub)] #[kani::stub(crate::read::GdsParser::next, stub_next)] #[kani::unwind(22)] c03_s_r2_e1_m0;
    #[kani::stub(std::str::from_utf8, from_utf8_model)] #[kani::stub(crate::data::GdsFloat64::encode, enc_bits)] #[kani::stub(crate::data::GdsFloat64::decode, dec_bits)] #[kani::stub(alloc::fmt::format, fmt_stub)] #[kani::stub(crate::read::GdsParser::next, stub_next)] #[kani::unwind(22)] c01_s_l2a_e1_m1;
    #[kani::stub(std::str::from_utf8, from_utf8_model)] #[kani::stub(crate::data::GdsFloat64::encode, enc_bits)] #[kani::stub(crate::data::GdsFloat64::decode, dec_bits)] #[kani::stub(alloc::fmt::format, fmt_stub)] #[kani::stub(crate::read::GdsParser::next, stub_next)] #[kani::unwind(22)] c03_s_r2_e1_m1;
    #[kani::stub(std::str::from_utf8, from_utf8_model)] #[kani::stub(crate::data::GdsFloat64::encode, enc_bits)] #[kani::stub(crate::data::GdsFloat64::decode, dec_bits)] #[kani::stub(alloc::fmt::format, fmt_stub)] #[kani::stub(crate::read::GdsParser::next, stub_next)] #[kani::unwind(22)] c01_s_l2a_e1_m2;
    #[kani::stub(std::str::from_utf8, from_utf8_model)] #[kani::stub(crate::data::GdsFloat64::encode, enc_bits)] #[kani::stub(crate::data::GdsFloat64::decode, dec_bits)] #[kani::stub(alloc::fmt::format, fmt_stub)] #[kani::stub(crate::read::GdsParser::next, stub_next)] #[kani::unwind(22)] c03_s_r2_e1_m2;
    #[kani::stub(std::str::from_utf8, from_utf8_model)] #[kani::stub(crate::data::GdsFloat64::encode, enc_bits)] #[kani::stub(crate::data::GdsFloat64::decode, dec_bits)] #[kani::stub(alloc::fmt::format, fmt_stub)] #[kani::stub(crate::read::GdsParser::next, stub_next)] #[kani::unwind(22)] c01_s_l2a_e1_m32;
    #[kani::stub(std::str::from_utf8, from_utf8_model)] #[kani::stub(crate::data::GdsFloat64::encode, enc_bits)] #[kani::stub(crate::data::GdsFloat64::decode, dec_bits)] #[kani::stub(alloc::fmt::format, fmt_stub)] #[kani::stub(crate::read::GdsParser::next, stub_next)] #[kani::unwind(22)] c03_s_r2_e1_m32;
    #[kani::stub(std::str::from_utf8, from_utf8_model)] #[kani::stub(crate::data::GdsFloat64::encode, enc_bits)] #[kani::stub(crate::data::GdsFloat64::decode, dec_bits)] #[kani::stub(alloc::fmt::format, fmt_stub)] #[kani::stub(crate::read::GdsParser::next, stub_next)] #[kani::unwind(22)] c01_s_l2a_e1_m64;
    #[kani::stub(std::str::from_utf8, from_utf8_model)] #[kani::stub(crate::data::GdsFloat64::encode, enc_bits)] #[kani::stub(crate::data::GdsFloat64::decode, dec_bits)] #[kani::stub(alloc::fmt::format, fmt_stub)] #[kani::stub(crate::read::GdsParser::next, stub_next)] #[kani::unwind(22)] c03_s_r2_e1_m64;
    #[kani::stub(std::str::from_utf8, from_utf8_model)] #[kani::stub(crate::data::GdsFloat64::encode, enc_bits)] #[kani::stub(crate::data::GdsFloat64::decode, dec_bits)] #[kani::stub(alloc::fmt::format, fmt_stub)] #[kani::stub(crate::read::GdsParser::next, stub_next)] #[kani::unwind(22)] c01_s_l2a_e1_m128;
    #[kani::stub(std::str::from_utf8, from_utf8_model)] #[kani::stub(crate::data::GdsFloat64::encode, enc_bits)] #[kani::stub(crate::data::GdsFloat64::decode, dec_bits)] #[kani::stub(alloc::fmt::format, fmt_stub)] #[kani::stub(crate::read::GdsParser::next, stub_next)] #[kani::unwind(22)] c03_s_r2_e1_m128;
    #[kani::stub(std::str::from_utf8, from_utf8_model)] #[kani::stub(crate::data::GdsFloat64::encode, enc_bits)] #[kani::stub(crate::data::GdsFloat64::decode, dec_bits)] #[kani::stub(alloc::fmt::format, fmt_stub)] #[kani::stub(crate::read::GdsParser::next, stub_next)] #[kani::unwind(22)] c01_s_l2a_e1_m227;
    #[kani::stub(std::str::from_utf8, from_utf8_model)] #[kani::stub(crate::data::GdsFloat64::encode, enc_bits)] #[kani::stub(crate::data::GdsFloat64::decode, dec_bits)] #[kani::stub(alloc::fmt::format, fmt_stub)] #[kani::stub(crate::read::GdsParser::next, stub_next)] #[kani::unwind(22)] c03_s_r2_e1_m227;
    #[kani::stub(std::str::from_utf8, from_utf8_model)] #[kani::stub(crate::data::GdsFloat64::encode, enc_bits)] #[kani::stub(crate::data::GdsFloat64::decode, dec_bits)] #[kani::stub(alloc::fmt::format, fmt_stub)] #[kani::stub(crate::read::GdsParser::next, stub_next)] #[kani::unwind(22)] c01_s_l2a_e1_m256;
    #[kani::stub(std::str::from_utf8, from_utf8_model)] #[kani::stub(crate::data::GdsFloat64::encode, enc_bits)] #[kani::stub(crate::data::GdsFloat64::decode, dec_bits)] #[kani::stub(alloc::fmt::format, fmt_stub)] #[kani::stub(crate::read::GdsParser::next, stub_next)] #[kani::unwind(22)] c03_s_r2_e1_m256;
    #[kani::stub(std::str::from_utf8, from_utf8_model)] #[kani::stub(crate::data::GdsFloat64::encode, enc_bits)] #[kani::stub(crate::data::GdsFloat64::decode, dec_bits)] #[kani::stub(alloc::fmt::format, fmt_stub)] #[kani::stub(crate::read::GdsParser::next, stub_next)] #[kani::unwind(22)] c01_s_l2a_e1_m355;
    #[kani::stub(std::str::from_utf8, from_utf8_model)] #[kani::stub(crate::data::GdsFloat64::encode, enc_bits)] #[kani::stub(crate::data::GdsFloat64::decode, dec_bits)] #[kani::stub(alloc::fmt::format, fmt_stub)] #[kani::stub(crate::read::GdsParser::next, stub_next)] #[kani::unwind(22)] c03_s_r2_e1_m355;
    #[kani::stub(std::str::from_utf8, from_utf8_model)] #[kani::stub(crate::data::GdsFloat64::encode, enc_bits)] #[kani::stub(crate::data::GdsFloat64::decode, dec_bits)] #[kani::stub(alloc::fmt::format, fmt_stub)] #[kani::stub(crate::read::GdsParser::next, stub_next)] #[kani::unwind(22)] c01_s_l2a_e1_m419;
    #[kani::stub(std::str::from_utf8, from_utf8_model)] #[kani::stub(crate::data::GdsFloat64::encode, enc_bits)] #[kani::stub(crate::data::GdsFloat64::decode, dec_bits)] #[kani::stub(alloc::fmt::format, fmt_stub)] #[kani::stub(crate::read::GdsParser::next, stub_next)] #[kani::unwind(22)] c03_s_r2_e1_m419;
    #[kani::stub(std::str::from_utf8, from_utf8_model)] #[kani::stub(crate::data::GdsFloat64::encode, enc_bits)] #[kani::stub(crate::data::GdsFloat64::decode, dec_bits)] #[kani::stub(alloc::fmt::format, fmt_stub)] #[kani::stub(crate::read::GdsParser::next, stub_next)] #[kani::unwind(22)] c01_s_l2a_e1_m451;
    #[kani::stub(std::str::from_utf8, from_utf8_model)] #[kani::stub(crate::data::GdsFloat64::encode, enc_bits)] #[kani::stub(crate::data::GdsFloat64::decode, dec_bits)] #[kani::stub(alloc::fmt::format, fmt_stub)] #[kani::stub(crate::read::GdsParser::next, stub_next)] #[kani::unwind(22)] c03_s_r2_e1_m451;
    #[kani::stub(std::str::from_utf8, from_utf8_model)] #[kani::stub(crate::data::GdsFloat64::encode, enc_bits)] #[kani::stub(crate::data::GdsFloat64::decode, dec_bits)] #[kani::stub(alloc::fmt::format, fmt_stub)] #[kani::stub(crate::read::GdsParser::next, stub_next)] #[kani::unwind(22)] c01_s_l2a_e1_m481;
    #[kani::stub(std::str::from_utf8, from_utf8_model)] #[kani::stub(crate::data::GdsFloat64::encode, enc_bits)] #[kani::stub(crate::data::GdsFloat64::decode, dec_bits)] #[kani::stub(alloc::fmt::format, fmt_stub)] #[kani::stub(crate::read::GdsParser::next, stub_next)] #[kani::unwind(22)] c03_s_r2_e1_m481;
    #[kani::stub(std::str::from_utf8, from_utf8_model)] #[kani::stub(crate::data::GdsFloat64::encode, enc_bits)] #[kani::stub(crate::data::GdsFloat64::decode, dec_bits)] #[kani::stub(alloc::fmt::format, fmt_stub)] #[kani::stub(crate::read::GdsParser::next, stub_next)] #[kani::unwind(22)] c01_s_l2a_e1_m482;
    #[kani::stub(std::str::from_utf8, from_utf8_model)] #[kani::stub(crate::data::GdsFloat64::encode, enc_bits)] #[kani::stub(crate::data::GdsFloat64::decode, dec_bits)] #[kani::stub(alloc::fmt::format, fmt_stub)] #[kani::stub(crate::read::GdsParser::next, stub_next)] #[kani::unwind(22)] c03_s_r2_e1_m482;
    #[kani::stub(std::str::from_utf8, from_utf8_model)] #[kani::stub(crate::data::GdsFloat64::encode, enc_bits)] #[kani::stub(crate::data::GdsFloat64::decode, dec_bits)] #[kani::stub(alloc::fmt::format, fmt_stub)] #[kani::stub(crate::read::GdsParser::next, stub_next)] #[kani::unwind(22)] c01_q_l2a_e1_m483;
    #[kani::stub(std::str::from_utf8, from_utf8_model)] #[kani::stub(crate::data::GdsFloat64::encode, enc_bits)] #[kani::stub(crate::data::GdsFloat64::decode, dec_bits)] #[kani::stub(alloc::fmt::format, fmt_stub)] #[kani::stub(crate::read::GdsParser::next, stub_next)] #[kani::unwind(22)] c03_q_r2_e1_m483;
    #[kani::stub(std::str::from_utf8, from_utf8_model)] #[kani::stub(crate::data::GdsFloat64::encode, enc_bits)] #[kani::stub(crate::data::GdsFloat64::decode, dec_bits)] #[kani::stub(alloc::fmt::format, fmt_stub)] #[kani::stub(crate::read::GdsParser::next, stub_next)] #[kani::unwind(22)] c01_q_l2a_e2_m0;
    #[kani::stub(std::str::from_utf8, from_utf8_model)] #[kani::stub(crate::data::GdsFloat64::encode, enc_bits)] #[kani::stub(crate::data::GdsFloat64::decode, dec_bits)] #[kani::stub(alloc::fmt::format, fmt_stub)] #[kani::stub(crate::read::GdsParser::next, stub_next)] #[kani::unwind(22)] c03_s_r2_e2_m0;
    #[kani::stub(std::str::from_utf8, from_utf8_model)] #[kani::stub(crate::data::GdsFloat64::encode, enc_bits)] #[kani::stub(crate::data::GdsFloat64::decode, dec_bits)] #[kani::stub(alloc::fmt::format, fmt_stub)] #[kani::stub(crate::read::GdsParser::next, stub_next)] #[kani::unwind(22)] c01_s_l2a_e2_m1;
    #[kani::stub(std::str::from_utf8, from_utf8_model)] #[kani::stub(crate::data::GdsFloat64::encode, enc_bits)] #[kani::stub(crate::data::GdsFloat64::decode, dec_bits)] #[kani::stub(alloc::fmt::format, fmt_stub)] #[kani::stub(crate::read::GdsParser::next, stub_next)] #[kani::unwind(22)] c03_s_r2_e2_m1;
    #[kani::stub(std::str::from_utf8, from_utf8_model)] #[kani::stub(crate::data::GdsFloat64::encode, enc_bits)] #[kani::stub(crate::data::GdsFloat64::decode, dec_bits)] #[kani::stub(alloc::fmt::format, fmt_stub)] #[kani::stub(crate::read::GdsParser::next, stub_next)] #[kani::unwind(22)] c01_s_l2a_e2_m2;
    #[kani::stub(std::str::from_utf8, from_utf8_model)] #[kani::stub(crate::data::GdsFloat64::encode, enc_bits)] #[kani::stub(crate::data::GdsFloat64::decode, dec_bits)] #[kani::stub(alloc::fmt::format, fmt_stub)] #[kani::stub(crate::read::GdsParser::next, stub_next)] #[kani::unwind(22)] c03_s_r2_e2_m2;
    #[kani::stub(std::str::from_utf8, from_utf8_model)] #[kani::stub(crate::data::GdsFloat64::encode, enc_bits)] #[kani::stub(crate::data::GdsFloat64::decode, dec_bits)] #[kani::stub(alloc::fmt::format, fmt_stub)] #[kani::stub(crate::read::GdsParser::next, stub_next)] #[kani::unwind(22)] c01_s_l2a_e2_m3;
    #[kani::stub(std::str::from_utf8, from_utf8_model)] #[kani::stub(crate::data::GdsFloat64::encode, enc_bits)] #[kani::stub(crate::data::GdsFloat64::decode, dec_bits)] #[kani::stub(alloc::fmt::format, fmt_stub)] #[kani::stub(crate::read::GdsParser::next, stub_next)] #[kani::unwind(22)] c03_s_r2_e2_m3;
    #[kani::stub(std::str::from_utf8, from_utf8_model)] #[kani::stub(crate::data::GdsFloat64::encode, enc_bits)] #[kani::stub(crate::data::GdsFloat64::decode, dec_bits)] #[kani::stub(alloc::fmt::format, fmt_stub)] #[kani::stub(crate::read::GdsParser::next, stub_next)] #[kani::unwind(22)] c01_s_l2a_e2_m4;
    #[kani::stub(std::str::from_utf8, from_utf8_model)] #[kani::stub(crate::data::GdsFloat64::encode, enc_bits)] #[kani::stub(crate::data::GdsFloat64::decode, dec_bits)] #[kani::stub(alloc::fmt::format, fmt_stub)] #[kani::stub(crate::read::GdsParser::next, stub_next)] #[kani::unwind(22)] c03_s_r2_e2_m4;
    #[kani::stub(std::str::from_utf8, from_utf8_model)] #[kani::stub(crate::data::GdsFloat64::encode, enc_bits)] #[kani::stub(crate::data::GdsFloat64::decode, dec_bits)] #[kani::stub(alloc::fmt::format, fmt_stub)] #[kani::stub(crate::read::GdsParser::next, stub_next)] #[kani::unwind(22)] c01_s_l2a_e2_m12;
    #[kani::stub(std::str::from_utf8, from_utf8_model)] #[kani::stub(crate::data::GdsFloat64::encode, enc_bits)] #[kani::stub(crate::data::GdsFloat64::decode, dec_bits)] #[kani::stub(alloc::fmt::format, fmt_stub)] #[kani::stub(crate::read::GdsParser::next, stub_next)] #[kani::unwind(22)] c03_s_r2_e2_m12;
    #[kani::stub(std::str::from_utf8, from_utf8_model)] #[kani::stub(crate::data::GdsFloat64::encode, enc_bits)] #[kani::stub(crate::data::GdsFloat64::decode, dec_bits)] #[kani::stub(alloc::fmt::format, fmt_stub)] #[kani::stub(crate::read::GdsParser::next, stub_next)] #[kani::unwind(22)] c01_s_l2a_e2_m15;
    #[kani::stub(std::str::from_utf8, from_utf8_model)] #[kani::stub(crate::data::GdsFloat64::encode, enc_bits)] #[kani::stub(crate::data::GdsFloat64::decode, dec_bits)] #[kani::stub(alloc::fmt::format, fmt_stub)] #[kani::stub(crate::read::GdsParser::next, stub_next)] #[kani::unwind(22)] c03_s_r2_e2_m15;
    #[kani::stub(std::str::from_utf8, from_utf8_model)] #[kani::stub(crate::data::GdsFloat64::encode, enc_bits)] #[kani::stub(crate::data::GdsFloat64::decode, dec_bits)] #[kani::stub(alloc::fmt::format, fmt_stub)] #[kani::stub(crate::read::GdsParser::next, stub_next)] #[kani::unwind(22)] c01_s_l2a_e2_m20;
    #[kani::stub(std::str::from_utf8, from_utf8_model)] #[kani::stub(crate::data::GdsFloat64::encode, enc_bits)] #[kani::stub(crate::data::GdsFloat64::decode, dec_bits)] #[kani::stub(alloc::fmt::format, fmt_stub)] #[kani::stub(crate::read::GdsParser::next, stub_next)] #[kani::unwind(22)] c03_s_r2_e2_m20;
    #[kani::stub(std::str::from_utf8, from_utf8_model)] #[kani::stub(crate::data::GdsFloat64::encode, enc_bits)] #[kani::stub(crate::data::GdsFloat64::decode, dec_bits)] #[kani::stub(alloc::fmt::format, fmt_stub)] #[kani::stub(crate::read::GdsParser::next, stub_next)] #[kani::unwind(22)] c01_s_l2a_e2_m23;
    #[kani::stub(std::str::from_utf8, from_utf8_model)] #[kani::stub(crate::data::GdsFloat64::encode, enc_bits)] #[kani::stub(crate::data::GdsFloat64::decode, dec_bits)] #[kani::stub(alloc::fmt::format, fmt_stub)] #[kani::stub(crate::read::GdsParser::next, stub_next)] #[kani::unwind(22)] c03_s_r2_e2_m23;
    #[kani::stub(std::str::from_utf8, from_utf8_model)] #[kani::stub(crate::data::GdsFloat64::encode, enc_bits)] #[kani::stub(crate::data::GdsFloat64::decode, dec_bits)] #[kani::stub(alloc::fmt::format, fmt_stub)] #[kani::stub(crate::read::GdsParser::next, stub_next)] #[kani::unwind(22)] c01_s_l2a_e2_m29;
    #[kani::stub(std::str::from_utf8, from_utf8_model)] #[kani::stub(crate::data::GdsFloat64::encode, enc_bits)] #[kani::stub(crate::data::GdsFloat64::decode, dec_bits)] #[kani::stub(alloc::fmt::format, fmt_stub)] #[kani::stub(crate::read::GdsParser::next, stub_next)] #[kani::unwind(22)] c03_s_r2_e2_m29;
    #[kani::stub(std::str::from_utf8, from_utf8_model)] #[kani::stub(crate::data::GdsFloat64::encode, enc_bits)] #[kani::stub(crate::data::GdsFloat64::decode, dec_bits)] #[kani::stub(alloc::fmt::format, fmt_stub)] #[kani::stub(crate::read::GdsParser::next, stub_next)] #[kani::unwind(22)] c01_s_l2a_e2_m30;
    #[kani::stub(std::str::from_utf8, from_utf8_model)] #[kani::stub(crate::data::GdsFloat64::encode, enc_bits)] #[kani::stub(crate::data::GdsFloat64::decode, dec_bits)] #[kani::stub(alloc::fmt::format, fmt_stub)] #[kani::stub(crate::read::GdsParser::next, stub_next)] #[kani::unwind(22)] c03_s_r2_e2_m30;
    #[kani::stub(std::str::from_utf8, from_utf8_model)] #[kani::stub(crate::data::GdsFloat64::encode, enc_bits)] #[kani::stub(crate::data::GdsFloat64::decode, dec_bits)] #[kani::stub(alloc::fmt::format, fmt_stub)] #[kani::stub(crate::read::GdsParser::next, stub_next)] #[kani::unwind(22)] c01_s_l2a_e2_m31;
    #[kani::stub(std::str::from_utf8, from_utf8_model)] #[kani::stub(crate::data::GdsFloat64::encode, enc_bits)] #[kani::stub(crate::data::GdsFloat64::decode, dec_bits)] #[kani::stub(alloc::fmt::format, fmt_stub)] #[kani::stub(crate::read::GdsParser::next, stub_next)] #[kani::unwind(22)] c03_s_r2_e2_m31;
    #[kani::stub(std::str::from_utf8, from_utf8_model)] #[kani::stub(crate::data::GdsFloat64::encode, enc_bits)] #[kani::stub(crate::data::GdsFloat64::decode, dec_bits)] #[kani::stub(alloc::fmt::format, fmt_stub)] #[kani::stub(crate::read::GdsParser::next, stub_next)] #[kani::unwind(22)] c01_s_l2a_e3_m0;
    #[kani::stub(std::str::from_utf8, from_utf8_model)] #[kani::stub(crate::data::GdsFloat64::encode, enc_bits)] #[kani::stub(crate::data::GdsFloat64::decode, dec_bits)] #[kani::stub(alloc::fmt::format, fmt_stub)] #[kani::stub(crate::read::GdsParser::next, stub_next)] #[kani::unwind(22)] c03_s_r2_e3_m0;
    #[kani::stub(std::str::from_utf8, from_utf8_model)] #[kani::stub(crate::data::GdsFloat64::encode, enc_bits)] #[kani::stub(crate::data::GdsFloat64::decode, dec_bits)] #[kani::stub(alloc::fmt::format, fmt_stub)] #[kani::stub(crate::read::GdsParser::next, stub_next)] #[kani::unwind(22)] c01_s_l2a_e3_m1;
    #[kani::stub(std::str::from_utf8, from_utf8_model)] #[kani::stub(crate::data::GdsFloat64::encode, enc_bits)] #[kani::stub(crate::data::GdsFloat64::decode, dec_bits)] #[kani::stub(alloc::fmt::format, fmt_stub)] #[kani::stub(crate::read::GdsParser::next, stub_next)] #[kani::unwind(22)] c03_s_r2_e3_m1;
    #[kani::stub(std::str::from_utf8, from_utf8_model)] #[kani::stub(crate::data::GdsFloat64::encode, enc_bits)] #[kani::stub(crate::data::GdsFloat64::decode, dec_bits)] #[kani::stub(alloc::fmt::format, fmt_stub)] #[kani::stub(crate::read::GdsParser::next, stub_next)] #[kani::unwind(22)] c01_s_l2a_e3_m2;
    #[kani::stub(std::str::from_utf8, from_utf8_model)] #[kani::stub(crate::data::GdsFloat64::encode, enc_bits)] #[kani::stub(crate::data::GdsFloat64::decode, dec_bits)] #[kani::stub(alloc::fmt::format, fmt_stub)] #[kani::stub(crate::read::GdsParser::next, stub_next)] #[kani::unwind(22)] c03_s_r2_e3_m2;
    #[kani::stub(std::str::from_utf8, from_utf8_model)] #[kani::stub(crate::data::GdsFloat64::encode, enc_bits)] #[kani::stub(crate::data::GdsFloat64::decode, dec_bits)] #[kani::stub(alloc::fmt::format, fmt_stub)] #[kani::stub(crate::read::GdsParser::next, stub_next)] #[kani::unwind(22)] c01_s_l2a_e3_m3;
    #[kani::stub(std::str::from_utf8, from_utf8_model)] #[kani::stub(crate::data::GdsFloat64::encode, enc_bits)] #[kani::stub(crate::data::GdsFloat64::decode, dec_bits)] #[kani::stub(alloc::fmt::format, fmt_stub)] #[kani::stub(crate::read::GdsParser::next, stub_next)] #[kani::unwind(22)] c03_s_r2_e3_m3;
    #[kani::stub(std::str::from_utf8, from_utf8_model)] #[kani::stub(crate::data::GdsFloat64::encode, enc_bits)] #[kani::stub(crate::data::GdsFloat64::decode, dec_bits)] #[kani::stub(alloc::fmt::format, fmt_stub)] #[kani::stub(crate::read::GdsParser::next, stub_next)] #[kani::unwind(22)] c01_s_l2a_e3_m4;
    #[kani::stub(std::str::from_utf8, from_utf8_model)] #[kani::stub(crate::data::GdsFloat64::encode, enc_bits)] #[kani::stub(crate::data::GdsFloat64::decode, dec_bits)] #[kani::stub(alloc::fmt::format, fmt_stub)] #[kani::stub(crate::read::GdsParser::next, stub_next)] #[kani::unwind(22)] c03_s_r2_e3_m4;
    #[kani::stub(std::str::from_utf8, from_utf8_model)] #[kani::stub(crate::data::GdsFloat64::encode, enc_bits)] #[kani::stub(crate::data::GdsFloat64::decode, dec_bits)] #[kani::stub(alloc::fmt::format, fmt_stub)] #[kani::stub(crate::read::GdsParser::next, stub_next)] #[kani::unwind(22)] c01_s_l2a_e3_m12;
    #[kani::stub(std::str::from_utf8, from_utf8_model)] #[kani::stub(crate::data::GdsFloat64::encode, enc_bits)] #[kani::stub(crate::data::GdsFloat64::decode, dec_bits)] #[kani::stub(alloc::fmt::format, fmt_stub)] #[kani::stub(crate::read::GdsParser::next, stub_next)] #[kani::unwind(22)] c03_s_r2_e3_m12;
    #[kani::stub(std::str::from_utf8, from_utf8_model)] #[kani::stub(crate::data::GdsFloat64::encode, enc_bits)] #[kani::stub(crate::data::GdsFloat64::decode, dec_bits)] #[kani::stub(alloc::fmt::format, fmt_stub)] #[kani::stub(crate::read::GdsParser::next, stub_next)] #[kani::unwind(22)] c01_s_l2a_e3_m15;
    #[kani::stub(std::str::from_utf8, from_utf8_model)] #[kani::stub(crate::data::GdsFloat64::encode, enc_bits)] #[kani::stub(crate::data::GdsFloat64::decode, dec_bits)] #[kani::stub(alloc::fmt::format, fmt_stub)] #[kani::stub(crate::read::GdsParser::next, stub_next)] #[kani::unwind(22)] c03_s_r2_e3_m15;
    #[kani::stub(std::str::from_utf8, from_utf8_model)] #[kani::stub(crate::data::GdsFloat64::encode, enc_bits)] #[kani::stub(crate::data::GdsFloat64::decode, dec_bits)] #[kani::stub(alloc::fmt::format, fmt_stub)] #[kani::stub(crate::read::GdsParser::next, stub_next)] #[kani::unwind(22)] c01_s_l2a_e3_m20;
    #[kani::stub(std::str::from_utf8, from_utf8_model)] #[kani::stub(crate::data::GdsFloat64::encode, enc_bits)] #[kani::stub(crate::data::GdsFloat64::decode, dec_bits)] #[kani::stub(alloc::fmt::format, fmt_stub)] #[kani::stub(crate::read::GdsParser::next, stub_next)] #[kani::unwind(22)] c03_s_r2_e3_m20;
    #[kani::stub(std::str::from_utf8, from_utf8_model)] #[kani::stub(crate::data::GdsFloat64::encode, enc_bits)] #[kani::stub(crate::data::GdsFloat64::decode, dec_bits)] #[kani::stub(alloc::fmt::format, fmt_stub)] #[kani::stub(crate::read::GdsParser::next, stub_next)] #[kani::unwind(22)] c01_s_l2a_e3_m23;
    #[kani::stub(std::str::from_utf8, from_utf8_model)] #[kani::stub(crate::data::GdsFloat64::encode, enc_bits)] #[kani::stub(crate::data::GdsFloat64::decode, dec_bits)] #[kani::stub(alloc::fmt::format, fmt_stub)] #[kani::stub(crate::read::GdsParser::next, stub_next)] #[kani::unwind(22)] c03_s_r2_e3_m23;
    #[kani::stub(std::str::from_utf8, from_utf8_model)] #[kani::stub(crate::data::GdsFloat64::encode, enc_bits)] #[kani::stub(crate::data::GdsFloat64::decode, dec_bits)] #[kani::stub(alloc::fmt::format, fmt_stub)] #[kani::stub(crate::read::GdsParser::next, stub_next)] #[kani::unwind(22)] c01_s_l2a_e3_m29;
    #[kani::stub(std::str::from_utf8, from_utf8_model)] #[kani::stub(crate::data::GdsFloat64::encode, enc_bits)] #[kani::stub(crate::data::GdsFloat64::decode, dec_bits)] #[kani::stub(alloc::fmt::format, fmt_stub)] #[kani::stub(crate::read::GdsParser::next, stub_next)] #[kani::unwind(22)] c03_s_r2_e3_m29;
    #[kani::stub(std::str::from_utf8, from_utf8_model)] #[kani::stub(crate::data::GdsFloat64::encode, enc_bits)] #[kani::stub(crate::data::GdsFloat64::decode, dec_bits)] #[kani::stub(alloc::fmt::format, fmt_stub)] #[kani::stub(crate::read::GdsParser::next, stub_next)] #[kani::unwind(22)] c01_s_l2a_e3_m30;
    #[kani::stub(std::str::from_utf8, from_utf8_model)] #[kani::stub(crate::data::GdsFloat64::encode, enc_bits)] #[kani::stub(crate::data::GdsFloat64::decode, dec_bits)] #[kani::stub(alloc::fmt::format, fmt_stub)] #[kani::stub(crate::read::GdsParser::next, stub_next)] #[kani::unwind(22)] c03_s_r2_e3_m30;
    #[kani::stub(std::str::from_utf8, from_utf8_model)] #[kani::stub(crate::data::GdsFloat64::encode, enc_bits)] #[kani::stub(crate::data::GdsFloat64::decode, dec_bits)] #[kani::stub(alloc::fmt::format, fmt_stub)] #[kani::stub(crate::read::GdsParser::next, stub_next)] #[kani::unwind(22)] c01_s_l2a_e3_m31;
    #[kani::stub(std::str::from_utf8, from_utf8_model)] #[kani::stub(crate::data::GdsFloat64::encode, enc_bits)] #[kani::stub(crate::data::GdsFloat64::decode, dec_bits)] #[kani::stub(alloc::fmt::format, fmt_stub)] #[kani::stub(crate::read::GdsParser::next, stub_next)] #[kani::unwind(22)] c03_q_r2_e3_m31;
    #[kani::stub(std::str::from_utf8, from_utf8_model)] #[kani::stub(crate::data::GdsFloat64::encode, enc_bits)] #[kani::stub(crate::data::GdsFloat64::decode, dec_bits)] #[kani::stub(alloc::fmt::format, fmt_stub)] #[kani::stub(crate::read::GdsParser::next, stub_next)] #[kani::unwind(22)] c01_s_l2a_e4_m0;
    #[kani::stub(std::str::from_utf8, from_utf8_model)] #[kani::stub(crate::data::GdsFloat64::encode, enc_bits)] #[kani::stub(crate::data::GdsFloat64::decode, dec_bits)] #[kani::stub(alloc::fmt::format, fmt_stub)] #[kani::stub(crate::read::GdsParser::next, stub_next)] #[kani::unwind(22)] c03_s_r2_e4_m0;
    #[kani::stub(std::str::from_utf8, from_utf8_model)] #[kani::stub(crate::data::GdsFloat64::encode, enc_bits)] #[kani::stub(crate::data::GdsFloat64::decode, dec_bits)] #[kani::stub(alloc::fmt::format, fmt_stub)] #[kani::stub(crate::read::GdsParser::next, stub_next)] #[kani::unwind(22)] c01_s_l2a_e4_m1;
    #[kani::stub(std::str::from_utf8, from_utf8_model)] #[kani::stub(crate::data::GdsFloat64::encode, enc_bits)] #[kani::stub(crate::data::GdsFloat64::decode, dec_bits)] #[kani::stub(alloc::fmt::format, fmt_stub)] #[kani::stub(crate::read::GdsParser::next, stub_next)] #[kani::unwind(22)] c03_s_r2_e4_m1;
    #[kani::stub(std::str::from_utf8, from_utf8_model)] #[kani::stub(crate::data::GdsFloat64::encode, enc_bits)] #[kani::stub(crate::data::GdsFloat64::decode, dec_bits)] #[kani::stub(alloc::fmt::format, fmt_stub)] #[kani::stub(crate::read::GdsParser::next, stub_next)] #[kani::unwind(22)] c01_s_l2a_e4_m2;
    #[kani::stub(std::str::from_utf8, from_utf8_model)] #[kani::stub(crate::data::GdsFloat64::encode, enc_bits)] #[kani::stub(crate::data::GdsFloat64::decode, dec_bits)] #[kani::stub(alloc::fmt::format, fmt_stub)] #[kani::stub(crate::read::GdsParser::next, stub_next)] #[kani::unwind(22)] c03_s_r2_e4_m2;
    #[kani::stub(std::str::from_utf8, from_utf8_model)] #[kani::stub(crate::data::GdsFloat64::encode, enc_bits)] #[kani::stub(crate::data::GdsFloat64::decode, dec_bits)] #[kani::stub(alloc::fmt::format, fmt_stub)] #[kani::stub(crate::read::GdsParser::next, stub_next)] #[kani::unwind(22)] c01_s_l2a_e4_m4;
    #[kani::stub(std::str::from_utf8, from_utf8_model)] #[kani::stub(crate::data::GdsFloat64::encode, enc_bits)] #[kani::stub(crate::data::GdsFloat64::decode, dec_bits)] #[kani::stub(alloc::fmt::format, fmt_stub)] #[kani::stub(crate::read::GdsParser::next, stub_next)] #[kani::unwind(22)] c03_s_r2_e4_m4;
    #[kani::stub(std::str::from_utf8, from_utf8_model)] #[kani::stub(crate::data::GdsFloat64::encode, enc_bits)] #[kani::stub(crate::data::GdsFloat64::decode, dec_bits)] #[kani::stub(alloc::fmt::format, fmt_stub)] #[kani::stub(crate::read::GdsParser::next, stub_next)] #[kani::unwind(22)] c01_s_l2a_e4_m12;
    #[kani::stub(std::str::from_utf8, from_utf8_model)] #[kani::stub(crate::data::GdsFloat64::encode, enc_bits)] #[kani::stub(crate::data::GdsFloat64::decode, dec_bits)] #[kani::stub(alloc::fmt::format, fmt_stub)] #[kani::stub(crate::read::GdsParser::next, stub_next)] #[kani::unwind(22)] c03_s_r2_e4_m12;
    #[kani::stub(std::str::from_utf8, from_utf8_model)] #[kani::stub(crate::data::GdsFloat64::encode, enc_bits)] #[kani::stub(crate::data::GdsFloat64::decode, dec_bits)] #[kani::stub(alloc::fmt::format, fmt_stub)] #[kani::stub(crate::read::GdsParser::next, stub_next)] #[kani::unwind(22)] c01_s_l2a_e4_m20;
    #[kani::stub(std::str::from_utf8, from_utf8_model)] #[kani::stub(crate::data::GdsFloat64::encode, enc_bits)] #[kani::stub(crate::data::GdsFloat64::decode, dec_bits)] #[kani::stub(alloc::fmt::format, fmt_stub)] #[kani::stub(crate::read::GdsParser::next, stub_next)] #[kani::unwind(22)] c03_s_r2_e4_m20;
    #[kani::stub(std::str::from_utf8, from_utf8_model)] #[kani::stub(crate::data::GdsFloat64::encode, enc_bits)] #[kani::stub(crate::data::GdsFloat64::decode, dec_bits)] #[kani::stub(alloc::fmt::format, fmt_stub)] #[kani::stub(crate::read::GdsParser::next, stub_next)] #[kani::unwind(22)] c01_s_l2a_e4_m32;
    #[kani::stub(std::str::from_utf8, from_utf8_model)] #[kani::stub(crate::data::GdsFloat64::encode, enc_bits)] #[kani::stub(crate::data::GdsFloat64::decode, dec_bits)] #[kani::stub(alloc::fmt::format, fmt_stub)] #[kani::stub(crate::read::GdsParser::next, stub_next)] #[kani::unwind(22)] c03_s_r2_e4_m32;
    #[kani::stub(std::str::from_utf8, from_utf8_model)] #[kani::stub(crate::data::GdsFloat64::encode, enc_bits)] #[kani::stub(crate::data::GdsFloat64::decode, dec_bits)] #[kani::stub(alloc::fmt::format, fmt_stub)] #[kani::stub(crate::read::GdsParser::next, stub_next)] #[kani::unwind(22)] c01_s_l2a_e4_m64;
    #[kani::stub(std::str::from_utf8, from_utf8_model)] #[kani::stub(crate::data::GdsFloat64::encode, enc_bits)] #[kani::stub(crate::data::GdsFloat64::decode, dec_bits)] #[kani::stub(alloc::fmt::format, fmt_stub)] #[kani::stub(crate::read::GdsParser::next, stub_next)] #[kani::unwind(22)] c03_s_r2_e4_m64;
    #[kani::stub(std::str::from_utf8, from_utf8_model)] #[kani::stub(crate::data::GdsFloat64::encode, enc_bits)] #[kani::stub(crate::data::GdsFloat64::decode, dec_bits)] #[kani::stub(alloc::fmt::format, fmt_stub)] #[kani::stub(crate::read::GdsParser::next, stub_next)] #[kani::unwind(22)] c01_s_l2a_e4_m127;
    #[kani::stub(std::str::from_utf8, from_utf8_model)] #[kani::stub(crate::data::GdsFloat64::encode, enc_bits)] #[kani::stub(crate::data::GdsFloat64::decode, dec_bits)] #[kani::stub(alloc::fmt::format, fmt_stub)] #[kani::stub(crate::read::GdsParser::next, stub_next)] #[kani::unwind(22)] c03_s_r2_e4_m127;
    #[kani::stub(std::str::from_utf8, from_utf8_model)] #[kani::stub(crate::data::GdsFloat64::encode, enc_bits)] #[kani::stub(crate::data::GdsFloat64::decode, dec_bits)] #[kani::stub(alloc::fmt::format, fmt_stub)] #[kani::stub(crate::read::GdsParser::next, stub_next)] #[kani::unwind(22)] c01_s_l2a_e4_m512;
    #[kani::stub(std::str::from_utf8, from_utf8_model)] #[kani::stub(crate::data::GdsFloat64::encode, enc_bits)] #[kani::stub(crate::data::GdsFloat64::decode, dec_bits)] #[kani::stub(alloc::fmt::format, fmt_stub)] #[kani::stub(crate::read::GdsParser::next, stub_next)] #[kani::unwind(22)] c03_s_r2_e4_m512;
    #[kani::stub(std::str::from_utf8, from_utf8_model)] #[kani::stub(crate::data::GdsFloat64::encode, enc_bits)] #[kani::stub(crate::data::GdsFloat64::decode, dec_bits)] #[kani::stub(alloc::fmt::format, fmt_stub)] #[kani::stub(crate::read::GdsParser::next, stub_next)] #[kani::unwind(22)] c01_s_l2a_e4_m575;
    #[kani::stub(std::str::from_utf8, from_utf8_model)] #[kani::stub(crate::data::GdsFloat64::encode, enc_bits)] #[kani::stub(crate::data::GdsFloat64::decode, dec_bits)] #[kani::stub(alloc::fmt::format, fmt_stub)] #[kani::stub(crate::read::GdsParser::next, stub_next)] #[kani::unwind(22)] c03_s_r2_e4_m575;
    #[kani::stub(std::str::from_utf8, from_utf8_model)] #[kani::stub(crate::data::GdsFloat64::encode, enc_bits)] #[kani::stub(crate::data::GdsFloat64::decode, dec_bits)] #[kani::stub(alloc::fmt::format, fmt_stub)] #[kani::stub(crate::read::GdsParser::next, stub_next)] #[kani::unwind(22)] c01_s_l2a_e4_m607;
    #[kani::stub(std::str::from_utf8, from_utf8_model)] #[kani::stub(crate::data::GdsFloat64::encode, enc_bits)] #[kani::stub(crate::data::GdsFloat64::decode, dec_bits)] #[kani::stub(alloc::fmt::format, fmt_stub)] #[kani::stub(crate::read::GdsParser::next, stub_next)] #[kani::unwind(22)] c03_s_r2_e4_m607;
    #[kani::stub(std::str::from_utf8, from_utf8_model)] #[kani::stub(crate::data::GdsFloat64::encode, enc_bits)] #[kani::stub(crate::data::GdsFloat64::decode, dec_bits)] #[kani::stub(alloc::fmt::format, fmt_stub)] #[kani::stub(crate::read::GdsParser::next, stub_next)] #[kani::unwind(22)] c01_s_l2a_e4_m611;
    #[kani::stub(std::str::from_utf8, from_utf8_model)] #[kani::stub(crate::data::GdsFloat64::encode, enc_bits)] #[kani::stub(crate::data::GdsFloat64::decode, dec_bits)] #[kani::stub(alloc::fmt::format, fmt_stub)] #[kani::stub(crate::read::GdsParser::next, stub_next)] #[kani::unwind(22)] c03_s_r2_e4_m611;
    #[kani::stub(std::str::from_utf8, from_utf8_model)] #[kani::stub(crate::data::GdsFloat64::encode, enc_bits)] #[kani::stub(crate::data::GdsFloat64::decode, dec_bits)] #[kani::stub(alloc::fmt::format, fmt_stub)] #[kani::stub(crate::read::GdsParser::next, stub_next)] #[kani::unwind(22)] c01_s_l2a_e4_m623;
    #[kani::stub(std::str::from_utf8, from_utf8_model)] #[kani::stub(crate::data::GdsFloat64::encode, enc_bits)] #[kani::stub(crate::data::GdsFloat64::decode, dec_bits)] #[kani::stub(alloc::fmt::format, fmt_stub)] #[kani::stub(crate::read::GdsParser::next, stub_next)] #[kani::unwind(22)] c03_s_r2_e4_m623;
    #[kani::stub(std::str::from_utf8, from_utf8_model)] #[kani::stub(crate::data::GdsFloat64::encode, enc_bits)] #[kani::stub(crate::data::GdsFloat64::decode, dec_bits)] #[kani::stub(alloc::fmt::format, fmt_stub)] #[kani::stub(crate::read::GdsParser::next, stub_next)] #[kani::unwind(22)] c01_s_l2a_e4_m631;
    #[kani::stub(std::str::from_utf8, from_utf8_model)] #[kani::stub(crate::data::GdsFloat64::encode, enc_bits)] #[kani::stub(crate::data::GdsFloat64::decode, dec_bits)] #[kani::stub(alloc::fmt::format, fmt_stub)] #[kani::stub(crate::read::GdsParser::next, stub_next)] #[kani::unwind(22)] c03_s_r2_e4_m631;
    #[kani::stub(std::str::from_utf8, from_utf8_model)] #[kani::stub(crate::data::GdsFloat64::encode, enc_bits)] #[kani::stub(crate::data::GdsFloat64::decode, dec_bits)] #[kani::stub(alloc::fmt::format, fmt_stub)] #[kani::stub(crate::read::GdsParser::next, stub_next)] #[kani::unwind(22)] c01_s_l2a_e4_m637;
    #[kani::stub(std::str::from_utf8, from_utf8_model)] #[kani::stub(crate::data::GdsFloat64::encode, enc_bits)] #[kani::stub(crate::data::GdsFloat64::decode, dec_bits)] #[kani::stub(alloc::fmt::format, fmt_stub)] #[kani::stub(crate::read::GdsParser::next, stub_next)] #[kani::unwind(22)] c03_s_r2_e4_m637;
    #[kani::stub(std::str::from_utf8, from_utf8_model)] #[kani::stub(crate::data::GdsFloat64::encode, enc_bits)] #[kani::stub(crate::data::GdsFloat64::decode, dec_bits)] #[kani::stub(alloc::fmt::format, fmt_stub)] #[kani::stub(crate::read::GdsParser::next, stub_next)] #[kani::unwind(22)] c01_s_l2a_e4_m638;
    #[kani::stub(std::str::from_utf8, from_utf8_model)] #[kani::stub(crate::data::GdsFloat64::encode, enc_bits)] #[kani::stub(crate::data::GdsFloat64::decode, dec_bits)] #[kani::stub(alloc::fmt::format, fmt_stub)] #[kani::stub(crate::read::GdsParser::next, stub_next)] #[kani::unwind(22)] c03_s_r2_e4_m638;
    #[kani::stub(std::str::from_utf8, from_utf8_model)] #[kani::stub(crate::data::GdsFloat64::encode, enc_bits)] #[kani::stub(crate::data::GdsFloat64::decode, dec_bits)] #[kani::stub(alloc::fmt::format, fmt_stub)] #[kani::stub(crate::read::GdsParser::next, stub_next)] #[kani::unwind(22)] c01_q_l2a_e4_m639;
    #[kani::stub(std::str::from_utf8, from_utf8_model)] #[kani::stub(crate::data::GdsFloat64::encode, enc_bits)] #[kani::stub(crate::data::GdsFloat64::decode, dec_bits)] #[kani::stub(alloc::fmt::format, fmt_stub)] #[kani::stub(crate::read::GdsParser::next, stub_next)] #[kani::unwind(22)] c03_s_r2_e4_m639;
    #[kani::stub(std::str::from_utf8, from_utf8_model)] #[kani::stub(crate::data::GdsFloat64::encode, enc_bits)] #[kani::stub(crate::data::GdsFloat64::decode, dec_bits)] #[kani::stub(alloc::fmt::format, fmt_stub)] #[kani::stub(crate::read::GdsParser::next, stub_next)] #[kani::unwind(22)] c01_s_l2a_e5_m0;
    #[kani::stub(std::str::from_utf8, from_utf8_model)] #[kani::stub(crate::data::GdsFloat64::encode, enc_bits)] #[kani::stub(crate::data::GdsFloat64::decode, dec_bits)] #[kani::stub(alloc::fmt::format, fmt_stub)] #[kani::stub(crate::read::GdsParser::next, stub_next)] #[kani::unwind(22)] c03_s_r2_e5_m0;
    #[kani::stub(std::str::from_utf8, from_utf8_model)] #[kani::stub(crate::data::GdsFloat64::encode, enc_bits)] #[kani::stub(crate::data::GdsFloat64::decode, dec_bits)] #[kani::stub(alloc::fmt::format, fmt_stub)] #[kani::stub(crate::read::GdsParser::next, stub_next)] #[kani::unwind(22)] c01_s_l2a_e5_m1;
    #[kani::stub(std::str::from_utf8, from_utf8_model)] #[kani::stub(crate::data::GdsFloat64::encode, enc_bits)] #[kani::stub(crate::data::GdsFloat64::decode, dec_bits)] #[kani::stub(alloc::fmt::format, fmt_stub)] #[kani::stub(crate::read::GdsParser::next, stub_next)] #[kani::unwind(22)] c03_s_r2_e5_m1;
    #[kani::stub(std::str::from_utf8, from_utf8_model)] #[kani::stub(crate::data::GdsFloat64::encode, enc_bits)] #[kani::stub(crate::data::GdsFloat64::decode, dec_bits)] #[kani::stub(alloc::fmt::format, fmt_stub)] #[kani::stub(crate::read::GdsParser::next, stub_next)] #[kani::unwind(22)] c01_s_l2a_e5_m2;
    #[kani::stub(std::str::from_utf8, from_utf8_model)] #[kani::stub(crate::data::GdsFloat64::encode, enc_bits)] #[kani::stub(crate::data::GdsFloat64::decode, dec_bits)] #[kani::stub(alloc::fmt::format, fmt_stub)] #[kani::stub(crate::read::GdsParser::next, stub_next)] #[kani::unwind(22)] c03_s_r2_e5_m2;
    #[kani::stub(std::str::from_utf8, from_utf8_model)] #[kani::stub(crate::data::GdsFloat64::encode, enc_bits)] #[kani::stub(crate::data::GdsFloat64::decode, dec_bits)] #[kani::stub(alloc::fmt::format, fmt_stub)] #[kani::stub(crate::read::GdsParser::next, stub_next)] #[kani::unwind(22)] c01_s_l2a_e5_m3;
    #[kani::stub(std::str::from_utf8, from_utf8_model)] #[kani::stub(crate::data::GdsFloat64::encode, enc_bits)] #[kani::stub(crate::data::GdsFloat64::decode, dec_bits)] #[kani::stub(alloc::fmt::format, fmt_stub)] #[kani::stub(crate::read::GdsParser::next, stub_next)] #[kani::unwind(22)] c03_s_r2_e5_m3;
    #[kani::stub(std::str::from_utf8, from_utf8_model)] #[kani::stub(crate::data::GdsFloat64::encode, enc_bits)] #[kani::stub(crate::data::GdsFloat64::decode, dec_bits)] #[kani::stub(alloc::fmt::format, fmt_stub)] #[kani::stub(crate::read::GdsParser::next, stub_next)] #[kani::unwind(22)] c01_s_l2a_e6_m0;
    #[kani::stub(std::str::from_utf8, from_utf8_model)] #[kani::stub(crate::data::GdsFloat64::encode, enc_bits)] #[kani::stub(crate::data::GdsFloat64::decode, dec_bits)] #[kani::stub(alloc::fmt::format, fmt_stub)] #[kani::stub(crate::read::GdsParser::next, stub_next)] #[kani::unwind(22)] c03_s_r2_e6_m0;
    #[kani::stub(std::str::from_utf8, from_utf8_model)] #[kani::stub(crate::data::GdsFloat64::encode, enc_bits)] #[kani::stub(crate::data::GdsFloat64::decode, dec_bits)] #[kani::stub(alloc::fmt::format, fmt_stub)] #[kani::stub(crate::read::GdsParser::next, stub_next)] #[kani::unwind(22)] c01_s_l2a_e6_m1;
    #[kani::stub(std::str::from_utf8, from_utf8_model)] #[kani::stub(crate::data::GdsFloat64::encode, enc_bits)] #[kani::stub(crate::data::GdsFloat64::decode, dec_bits)] #[kani::stub(alloc::fmt::format, fmt_stub)] #[kani::stub(crate::read::GdsParser::next, stub_next)] #[kani::unwind(22)] c03_s_r2_e6_m1;
    #[kani::stub(std::str::from_utf8, from_utf8_model)] #[kani::stub(crate::data::GdsFloat64::encode, enc_bits)] #[kani::stub(crate::data::GdsFloat64::decode, dec_bits)] #[kani::stub(alloc::fmt::format, fmt_stub)] #[kani::stub(crate::read::GdsParser::next, stub_next)] #[kani::unwind(22)] c01_s_l2a_e6_m2;
    #[kani::stub(std::str::from_utf8, from_utf8_model)] #[kani::stub(crate::data::GdsFloat64::encode, enc_bits)] #[kani::stub(crate::data::GdsFloat64::decode, dec_bits)] #[kani::stub(alloc::fmt::format, fmt_stub)] #[kani::stub(crate::read::GdsParser::next, stub_next)] #[kani::unwind(22)] c03_s_r2_e6_m2;
    #[kani::stub(std::str::from_utf8, from_utf8_model)] #[kani::stub(crate::data::GdsFloat64::encode, enc_bits)] #[kani::stub(crate::data::GdsFloat64::decode, dec_bits)] #[kani::stub(alloc::fmt::format, fmt_stub)] #[kani::stub(crate::read::GdsParser::next, stub_next)] #[kani::unwind(22)] c01_s_l2a_e6_m3;
    #[kani::stub(std::str::from_utf8, from_utf8_model)] #[kani::stub(crate::data::GdsFloat64::encode, enc_bits)] #[kani::stub(crate::data::GdsFloat64::decode, dec_bits)] #[kani::stub(alloc::fmt::format, fmt_stub)] #[kani::stub(crate::read::GdsParser::next, stub_next)] #[kani::unwind(22)] c03_s_r2_e6_m3;
    #[kani::stub(std::str::from_utf8, from_utf8_model)] #[kani::stub(crate::data::GdsFloat64::encode, enc_bits)] #[kani::stub(crate::data::GdsFloat64::decode, dec_bits)] #[kani::stub(alloc::fmt::format, fmt_stub)] #[kani::stub(crate::read::GdsParser::next, stub_next)] #[kani::unwind(22)] c01_s_l2a_e1_m483_pt0;
    #[kani::stub(std::str::from_utf8, from_utf8_model)] #[kani::stub(crate::data::GdsFloat64::encode, enc_bits)] #[kani::stub(crate::data::GdsFloat64::decode, dec_bits)] #[kani::stub(alloc::fmt::format, fmt_stub)] #[kani::stub(crate::read::GdsParser::next, stub_next)] #[kani::unwind(22)] c03_s_r2_e1_m483_pt0;
    #[kani::stub(std::str::from_utf8, from_utf8_model)] #[kani::stub(crate::data::GdsFloat64::encode, enc_bits)] #[kani::stub(crate::data::GdsFloat64::decode, dec_bits)] #[kani::stub(alloc::fmt::format, fmt_stub)] #[kani::stub(crate::read::GdsParser::next, stub_next)] #[kani::unwind(22)] c01_s_l2a_e1_m483_pt1;
    #[kani::stub(std::str::from_utf8, from_utf8_model)] #[kani::stub(crate::data::GdsFloat64::encode, enc_bits)] #[kani::stub(crate::data::GdsFloat64::decode, dec_bits)] #[kani::stub(alloc::fmt::format, fmt_stub)] #[kani::stub(crate::read::GdsParser::next, stub_next)] #[kani::unwind(22)] c03_s_r2_e1_m483_pt1;
    #[kani::stub(std::str::from_utf8, from_utf8_model)] #[kani::stub(crate::data::GdsFloat64::encode, enc_bits)] #[kani::stub(crate::data::GdsFloat64::decode, dec_bits)] #[kani::stub(alloc::fmt::format, fmt_stub)] #[kani::stub(crate::read::GdsParser::next, stub_next)] #[kani::unwind(22)] c01_q_l2a_e1_m483_pt2;
    #[kani::stub(std::str::from_utf8, from_utf8_model)] #[kani::stub(crate::data::GdsFloat64::encode, enc_bits)] #[kani::stub(crate::data::GdsFloat64::decode, dec_bits)] #[kani::stub(alloc::fmt::format, fmt_stub)] #[kani::stub(crate::read::GdsParser::next, stub_next)] #[kani::unwind(22)] c03_s_r2_e1_m483_pt2;
    #[kani::stub(std::str::from_utf8, from_utf8_model)] #[kani::stub(crate::data::GdsFloat64::encode, enc_bits)] #[kani::stub(crate::data::GdsFloat64::decode, dec_bits)] #[kani::stub(alloc::fmt::format, fmt_stub)] #[kani::stub(crate::read::GdsParser::next, stub_next)] #[kani::unwind(22)] c01_s_l2a_e1_m483_pt4;
    #[kani::stub(std::str::from_utf8, from_utf8_model)] #[kani::stub(crate::data::GdsFloat64::encode, enc_bits)] #[kani::stub(crate::data::GdsFloat64::decode, dec_bits)] #[kani::stub(alloc::fmt::format, fmt_stub)] #[kani::stub(crate::read::GdsParser::next, stub_next)] #[kani::unwind(22)] c03_s_r2_e1_m483_pt4;
    #[kani::stub(std::str::from_utf8, from_utf8_model)] #[kani::stub(crate::data::GdsFloat64::encode, enc_bits)] #[kani::stub(crate::data::GdsFloat64::decode, dec_bits)] #[kani::stub(alloc::fmt::format, fmt_stub)] #[kani::stub(crate::read::GdsParser::next, stub_next)] #[kani::unwind(22)] c01_s_l2a_e4_m639_pt0;
    #[kani::stub(std::str::from_utf8, from_utf8_model)] #[kani::stub(crate::data::GdsFloat64::encode, enc_bits)] #[kani::stub(crate::data::GdsFloat64::decode, dec_bits)] #[kani::stub(alloc::fmt::format, fmt_stub)] #[kani::stub(crate::read::GdsParser::next, stub_next)] #[kani::unwind(22)] c03_q_r2_e4_m639_pt0;
    #[kani::stub(std::str::from_utf8, from_utf8_model)] #[kani::stub(crate::data::GdsFloat64::encode, enc_bits)] #[kani::stub(crate::data::GdsFloat64::decode, dec_bits)] #[kani::stub(alloc::fmt::format, fmt_stub)] #[kani::stub(crate::read::GdsParser::next, stub_next)] #[kani::unwind(22)] c01_s_l2a_e4_m639_pt1;
    #[kani::stub(std::str::from_utf8, from_utf8_model)] #[kani::stub(crate::data::GdsFloat64::encode, enc_bits)] #[kani::stub(crate::data::GdsFloat64::decode, dec_bits)] #[kani::stub(alloc::fmt::format, fmt_stub)] #[kani::stub(crate::read::GdsParser::next, stub_next)] #[kani::unwind(22)] c03_s_r2_e4_m639_pt1;
    #[kani::stub(std::str::from_utf8, from_utf8_model)] #[kani::stub(crate::data::GdsFloat64::encode, enc_bits)] #[kani::stub(crate::data::GdsFloat64::decode, dec_bits)] #[kani::stub(alloc::fmt::format, fmt_stub)] #[kani::stub(crate::read::GdsParser::next, stub_next)] #[kani::unwind(22)] c01_s_l2a_e4_m639_pt2;
    #[kani::stub(std::str::from_utf8, from_utf8_model)] #[kani::stub(crate::data::GdsFloat64::encode, enc_bits)] #[kani::stub(crate::data::GdsFloat64::decode, dec_bits)] #[kani::stub(alloc::fmt::format, fmt_stub)] #[kani::stub(crate::read::GdsParser::next, stub_next)] #[kani::unwind(22)] c03_s_r2_e4_m639_pt2;
    #[kani::stub(std::str::from_utf8, from_utf8_model)] #[kani::stub(crate::data::GdsFloat64::encode, enc_bits)] #[kani::stub(crate::data::GdsFloat64::decode, dec_bits)] #[kani::stub(alloc::fmt::format, fmt_stub)] #[kani::stub(crate::read::GdsParser::next, stub_next)] #[kani::unwind(22)] c01_s_l2a_e4_m639_pt4;
    #[kani::stub(std::str::from_utf8, from_utf8_model)] #[kani::stub(crate::data::GdsFloat64::encode, enc_bits)] #[kani::stub(crate::data::GdsFloat64::decode, dec_bits)] #[kani::stub(alloc::fmt::format, fmt_stub)] #[kani::stub(crate::read::GdsParser::next, stub_next)] #[kani::unwind(22)] c03_s_r2_e4_m639_pt4;
    #[kani::stub(std::str::from_utf8, from_utf8_model)] #[kani::stub(crate::data::GdsFloat64::encode, enc_bits)] #[kani::stub(crate::data::GdsFloat64::decode, dec_bits)] #[kani::stub(alloc::fmt::format, fmt_stub)] #[kani::stub(crate::read::GdsParser::next, stub_next)] #[kani::unwind(22)] c01_x_l2p_e0_m1024;
    #[kani::stub(std::str::from_utf8, from_utf8_model)] #[kani::stub(crate::data::GdsFloat64::encode, enc_bits)] #[kani::stub(crate::data::GdsFloat64::decode, dec_bits)] #[kani::stub(alloc::fmt::format, fmt_stub)] #[kani::stub(crate::read::GdsParser::next, stub_next)] #[kani::unwind(22)] c03_x_r2p_e0_m1024;
    #[kani::stub(std::str::from_utf8, from_utf8_model)] #[kani::stub(crate::data::GdsFloat64::encode, enc_bits)] #[kani::stub(crate::data::GdsFloat64::decode, dec_bits)] #[kani::stub(alloc::fmt::format, fmt_stub)] #[kani::stub(crate::read::GdsParser::next, stub_next)] #[kani::unwind(22)] c01_x_l2p_e0_m1027;
    #[kani::stub(std::str::from_utf8, from_utf8_model)] #[kani::stub(crate::data::GdsFloat64::encode, enc_bits)] #[kani::stub(crate::data::GdsFloat64::decode, dec_bits)] #[kani::stub(alloc::fmt::format, fmt_stub)] #[kani::stub(crate::read::GdsParser::next, stub_next)] #[kani::unwind(22)] c03_x_r2p_e0_m1027;
    #[kani::stub(std::str::from_utf8, from_utf8_model)] #[kani::stub(crate::data::GdsFloat64::encode, enc_bits)] #[kani::stub(crate::data::GdsFloat64::decode, dec_bits)] #[kani::stub(alloc::fmt::format, fmt_stub)] #[kani::stub(crate::read::GdsParser::next, stub_next)] #[kani::unwind(22)] c01_x_l2p_e1_m1024;
    #[kani::stub(std::str::from_utf8, from_utf8_model)] #[kani::stub(crate::data::GdsFloat64::encode, enc_bits)] #[kani::stub(crate::data::GdsFloat64::decode, dec_bits)] #[kani::stub(alloc::fmt::format, fmt_stub)] #[kani::stub(crate::read::GdsParser::next, stub_next)] #[kani::unwind(22)] c03_x_r2p_e1_m1024;
    #[kani::stub(std::str::from_utf8, from_utf8_model)] #[kani::stub(crate::data::GdsFloat64::encode, enc_bits)] #[kani::stub(crate::data::GdsFloat64::decode, dec_bits)] #[kani::stub(alloc::fmt::format, fmt_stub)] #[kani::stub(crate::read::GdsParser::next, stub_next)] #[kani::unwind(22)] c01_x_l2p_e1_m1507;
    #[kani::stub(std::str::from_utf8, from_utf8_model)] #[kani::stub(crate::data::GdsFloat64::encode, enc_bits)] #[kani::stub(crate::data::GdsFloat64::decode, dec_bits)] #[kani::stub(alloc::fmt::format, fmt_stub)] #[kani::stub(crate::read::GdsParser::next, stub_next)] #[kani::unwind(22)] c03_x_r2p_e1_m1507;
    #[kani::stub(std::str::from_utf8, from_utf8_model)] #[kani::stub(crate::data::GdsFloat64::encode, enc_bits)] #[kani::stub(crate::data::GdsFloat64::decode, dec_bits)] #[kani::stub(alloc::fmt::format, fmt_stub)] #[kani::stub(crate::read::GdsParser::next, stub_next)] #[kani::unwind(22)] c01_x_l2p_e2_m1024;
    #[kani::stub(std::str::from_utf8, from_utf8_model)] #[kani::stub(crate::data::GdsFloat64::encode, enc_bits)] #[kani::stub(crate::data::GdsFloat64::decode, dec_bits)] #[kani::stub(alloc::fmt::format, fmt_stub)] #[kani::stub(crate::read::GdsParser::next, stub_next)] #[kani::unwind(22)] c03_x_r2p_e2_m1024;
    #[kani::stub(std::str::from_utf8, from_utf8_model)] #[kani::stub(crate::data::GdsFloat64::encode, enc_bits)] #[kani::stub(crate::data::GdsFloat64::decode, dec_bits)] #[kani::stub(alloc::fmt::format, fmt_stub)] #[kani::stub(crate::read::GdsParser::next, stub_next)] #[kani::unwind(22)] c01_x_l2p_e2_m1055;
    #[kani::stub(std::str::from_utf8, from_utf8_model)] #[kani::stub(crate::data::GdsFloat64::encode, enc_bits)] #[kani::stub(crate::data::GdsFloat64::decode, dec_bits)] #[kani::stub(alloc::fmt::format, fmt_stub)] #[kani::stub(crate::read::GdsParser::next, stub_next)] #[kani::unwind(22)] c03_x_r2p_e2_m1055;
    #[kani::stub(std::str::from_utf8, from_utf8_model)] #[kani::stub(crate::data::GdsFloat64::encode, enc_bits)] #[kani::stub(crate::data::GdsFloat64::decode, dec_bits)] #[kani::stub(alloc::fmt::format, fmt_stub)] #[kani::stub(crate::read::GdsParser::next, stub_next)] #[kani::unwind(22)] c01_x_l2p_e3_m1024;
    #[kani::stub(std::str::from_utf8, from_utf8_model)] #[kani::stub(crate::data::GdsFloat64::encode, enc_bits)] #[kani::stub(crate::data::GdsFloat64::decode, dec_bits)] #[kani::stub(alloc::fmt::format, fmt_stub)] #[kani::stub(crate::read::GdsParser::next, stub_next)] #[kani::unwind(22)] c03_x_r2p_e3_m1024;
    #[kani::stub(std::str::from_utf8, from_utf8_model)] #[kani::stub(crate::data::GdsFloat64::encode, enc_bits)] #[kani::stub(crate::data::GdsFloat64::decode, dec_bits)] #[kani::stub(alloc::fmt::format, fmt_stub)] #[kani::stub(crate::read::GdsParser::next, stub_next)] #[kani::unwind(22)] c01_x_l2p_e3_m1055;
    #[kani::stub(std::str::from_utf8, from_utf8_model)] #[kani::stub(crate::data::GdsFloat64::encode, enc_bits)] #[kani::stub(crate::data::GdsFloat64::decode, dec_bits)] #[kani::stub(alloc::fmt::format, fmt_stub)] #[kani::stub(crate::read::GdsParser::next, stub_next)] #[kani::unwind(22)] c03_x_r2p_e3_m1055;
    #[kani::stub(std::str::from_utf8, from_utf8_model)] #[kani::stub(crate::data::GdsFloat64::encode, enc_bits)] #[kani::stub(crate::data::GdsFloat64::decode, dec_bits)] #[kani::stub(alloc::fmt::format, fmt_stub)] #[kani::stub(crate::read::GdsParser::next, stub_next)] #[kani::unwind(22)] c01_x_l2p_e4_m1024;
    #[kani::stub(std::str::from_utf8, from_utf8_model)] #[kani::stub(crate::data::GdsFloat64::encode, enc_bits)] #[kani::stub(crate::data::GdsFloat64::decode, dec_bits)] #[kani::stub(alloc::fmt::format, fmt_stub)] #[kani::stub(crate::read::GdsParser::next, stub_next)] #[kani::unwind(22)] c03_x_r2p_e4_m1024;
    #[kani::stub(std::str::from_utf8, from_utf8_model)] #[kani::stub(crate::data::GdsFloat64::encode, enc_bits)] #[kani::stub(crate::data::GdsFloat64::decode, dec_bits)] #[kani::stub(alloc::fmt::format, fmt_stub)] #[kani::stub(crate::read::GdsParser::next, stub_next)] #[kani::unwind(22)] c01_x_l2p_e4_m1663;
    #[kani::stub(std::str::from_utf8, from_utf8_model)] #[kani::stub(crate::data::GdsFloat64::encode, enc_bits)] #[kani::stub(crate::data::GdsFloat64::decode, dec_bits)] #[kani::stub(alloc::fmt::format, fmt_stub)] #[kani::stub(crate::read::GdsParser::next, stub_next)] #[kani::unwind(22)] c03_x_r2p_e4_m1663;
    #[kani::stub(std::str::from_utf8, from_utf8_model)] #[kani::stub(crate::data::GdsFloat64::encode, enc_bits)] #[kani::stub(crate::data::GdsFloat64::decode, dec_bits)] #[kani::stub(alloc::fmt::format, fmt_stub)] #[kani::stub(crate::read::GdsParser::next, stub_next)] #[kani::unwind(22)] c01_x_l2p_e5_m1024;
    #[kani::stub(std::str::from_utf8, from_utf8_model)] #[kani::stub(crate::data::GdsFloat64::encode, enc_bits)] #[kani::stub(crate::data::GdsFloat64::decode, dec_bits)] #[kani::stub(alloc::fmt::format, fmt_stub)] #[kani::stub(crate::read::GdsParser::next, stub_next)] #[kani::unwind(22)] c03_x_r2p_e5_m1024;
    #[kani::stub(std::str::from_utf8, from_utf8_model)] #[kani::stub(crate::data::GdsFloat64::encode, enc_bits)] #[kani::stub(crate::data::GdsFloat64::decode, dec_bits)] #[kani::stub(alloc::fmt::format, fmt_stub)] #[kani::stub(crate::read::GdsParser::next, stub_next)] #[kani::unwind(22)] c01_x_l2p_e5_m1027;
    #[kani::stub(std::str::from_utf8, from_utf8_model)] #[kani::stub(crate::data::GdsFloat64::encode, enc_bits)] #[kani::stub(crate::data::GdsFloat64::decode, dec_bits)] #[kani::stub(alloc::fmt::format, fmt_stub)] #[kani::stub(crate::read::GdsParser::next, stub_next)] #[kani::unwind(22)] c03_x_r2p_e5_m1027;
    #[kani::stub(std::str::from_utf8, from_utf8_model)] #[kani::stub(crate::data::GdsFloat64::encode, enc_bits)] #[kani::stub(crate::data::GdsFloat64::decode, dec_bits)] #[kani::stub(alloc::fmt::format, fmt_stub)] #[kani::stub(crate::read::GdsParser::next, stub_next)] #[kani::unwind(22)] c01_x_l2p_e6_m1024;
    #[kani::stub(std::str::from_utf8, from_utf8_model)] #[kani::stub(crate::data::GdsFloat64::encode, enc_bits)] #[kani::stub(crate::data::GdsFloat64::decode, dec_bits)] #[kani::stub(alloc::fmt::format, fmt_stub)] #[kani::stub(crate::read::GdsParser::next, stub_next)] #[kani::unwind(22)] c03_x_r2p_e6_m1024;
    #[kani::stub(std::str::from_utf8, from_utf8_model)] #[kani::stub(crate::data::GdsFloat64::encode, enc_bits)] #[kani::stub(crate::data::GdsFloat64::decode, dec_bits)] #[kani::stub(alloc::fmt::format, fmt_stub)] #[kani::stub(crate::read::GdsParser::next, stub_next)] #[kani::unwind(22)] c01_x_l2p_e6_m1027;
    #[kani::stub(std::str::from_utf8, from_utf8_model)] #[kani::stub(crate::data::GdsFloat64::encode, enc_bits)] #[kani::stub(crate::data::GdsFloat64::decode, dec_bits)] #[kani::stub(alloc::fmt::format, fmt_stub)] #[kani::stub(crate::read::GdsParser::next, stub_next)] #[kani::unwind(22)] c03_x_r2p_e6_m1027;
    #[kani::stub(std::str::from_utf8, from_utf8_model)] #[kani::stub(crate::data::GdsFloat64::encode, enc_bits)] #[kani::stub(crate::data::GdsFloat64::decode, dec_bits)] #[kani::stub(alloc::fmt::format, fmt_stub)] #[kani::stub(crate::read::GdsParser::next, stub_next)] #[kani::unwind(60)] c01_q_l2b_lib_0x0_k0_m0;
    #[kani::stub(std::str::from_utf8, from_utf8_model)] #[kani::stub(crate::data::GdsFloat64::encode, enc_bits)] #[kani::stub(crate::data::GdsFloat64::decode, dec_bits)] #[kani::stub(alloc::fmt::format, fmt_stub)] #[kani::stub(crate::read::GdsParser::next, stub_next)] #[kani::unwind(60)] c01_x_l2b_lib_1x1_k0_m0;
    #[kani::stub(std::str::from_utf8, from_utf8_model)] #[kani::stub(crate::data::GdsFloat64::encode, enc_bits)] #[kani::stub(crate::data::GdsFloat64::decode, dec_bits)] #[kani::stub(alloc::fmt::format, fmt_stub)] #[kani::stub(crate::read::GdsParser::next, stub_next)] #[kani::unwind(60)] c01_x_l2b_lib_1x1_k4_m1023;
    #[kani::stub(std::str::from_utf8, from_utf8_model)] #[kani::stub(crate::data::GdsFloat64::encode, enc_bits)] #[kani::stub(crate::data::GdsFloat64::decode, dec_bits)] #[kani::stub(alloc::fmt::format, fmt_stub)] #[kani::stub(crate::read::GdsParser::next, stub_next)] #[kani::unwind(60)] c01_x_l2b_lib_2x1_k2_m0;
    #[kani::stub(std::str::from_utf8, from_utf8_model)] #[kani::stub(crate::data::GdsFloat64::encode, enc_bits)] #[kani::stub(crate::data::GdsFloat64::decode, dec_bits)] #[kani::stub(alloc::fmt::format, fmt_stub)] #[kani::stub(crate::read::GdsParser::next, stub_next)] #[kani::unwind(60)] c01_x_l2b_lib_1x2_k5_m7;
    #[kani::stub(std::str::from_utf8, from_utf8_model)] #[kani::stub(crate::data::GdsFloat64::encode, enc_bits)] #[kani::stub(crate::data::GdsFloat64::decode, dec_bits)] #[kani::stub(alloc::fmt::format, fmt_stub)] #[kani::stub(crate::read::GdsParser::next, stub_next)] #[kani::unwind(60)] c01_x_l2b_lib_2x2_k0_m0;
    #[kani::stub(std::str::from_utf8, from_utf8_model)] #[kani::stub(crate::data::GdsFloat64::encode, enc_bits)] #[kani::stub(crate::data::GdsFloat64::decode, dec_bits)] #[kani::stub(alloc::fmt::format, fmt_stub)] #[kani::stub(crate::read::GdsParser::next, stub_next)] #[kani::unwind(60)] c03_q_r2_lib_junk_0x0_k0_m0;
    #[kani::stub(std::str::from_utf8, from_utf8_model)] #[kani::stub(crate::data::GdsFloat64::encode, enc_bits)] #[kani::stub(crate::data::GdsFloat64::decode, dec_bits)] #[kani::stub(alloc::fmt::format, fmt_stub)] #[kani::stub(crate::read::GdsParser::next, stub_next)] #[kani::unwind(60)] c03_x_r2_lib_junk_1x1_k6_m3;
    #[kani::stub(std::str::from_utf8, from_utf8_model)] #[kani::stub(crate::data::GdsFloat64::encode, enc_bits)] #[kani::stub(crate::data::GdsFloat64::decode, dec_bits)] #[kani::stub(alloc::fmt::format, fmt_stub)] #[kani::stub(crate::read::GdsParser::next, stub_next)] #[kani::unwind(60)] c03_x_r2_lib_junk_1x1_k3_m1023;
    #[kani::stub(std::str::from_utf8, from_utf8_model)] #[kani::stub(crate::data::GdsFloat64::encode, enc_bits)] #[kani::stub(crate::data::GdsFloat64::decode, dec_bits)] #[kani::stub(alloc::fmt::format, fmt_stub)] #[kani::stub(crate::read::GdsParser::next, stub_next)] #[kani::unwind(16)] c03_q_unsup_k39;
    #[kani::stub(std::str::from_utf8, from_utf8_model)] #[kani::stub(crate::data::GdsFloat64::encode, enc_bits)] #[kani::stub(crate::data::GdsFloat64::decode, dec_bits)] #[kani::stub(alloc::fmt::format, fmt_stub)] #[kani::stub(crate::read::GdsParser::next, stub_next)] #[kani::unwind(16)] c03_s_unsup_k3a;
    #[kani::stub(std::str::from_utf8, from_utf8_model)] #[kani::stub(crate::data::GdsFloat64::encode, enc_bits)] #[kani::stub(crate::data::GdsFloat64::decode, dec_bits)] #[kani::stub(alloc::fmt::format, fmt_stub)] #[kani::stub(crate::read::GdsParser::next, stub_next)] #[kani::unwind(16)] c03_s_unsup_k3b;
    #[kani::stub(std::str::from_utf8, from_utf8_model)] #[kani::stub(crate::data::GdsFloat64::encode, enc_bits)] #[kani::stub(crate::data::GdsFloat64::decode, dec_bits)] #[kani::stub(alloc::fmt::format, fmt_stub)] #[kani::stub(crate::read::GdsParser::next, stub_next)] #[kani::unwind(16)] c03_s_unsup_k1f;
    #[kani::stub(std::str::from_utf8, from_utf8_model)] #[kani::stub(crate::data::GdsFloat64::encode, enc_bits)] #[kani::stub(crate::data::GdsFloat64::decode, dec_bits)] #[kani::stub(alloc::fmt::format, fmt_stub)] #[kani::stub(crate::read::GdsParser::next, stub_next)] #[kani::unwind(16)] c03_q_unsup_k20;
    #[kani::stub(std::str::from_utf8, from_utf8_model)] #[kani::stub(crate::data::GdsFloat64::encode, enc_bits)] #[kani::stub(crate::data::GdsFloat64::decode, dec_bits)] #[kani::stub(alloc::fmt::format, fmt_stub)] #[kani::stub(crate::read::GdsParser::next, stub_next)] #[kani::unwind(16)] c03_s_unsup_k23;
    #[kani::stub(std::str::from_utf8, from_utf8_model)] #[kani::stub(crate::data::GdsFloat64::encode, enc_bits)] #[kani::stub(crate::data::GdsFloat64::decode, dec_bits)] #[kani::stub(alloc::fmt::format, fmt_stub)] #[kani::stub(crate::read::GdsParser::next, stub_next)] #[kani::unwind(16)] c03_s_unsup_k22;
    #[kani::stub(std::str::from_utf8, from_utf8_model)] #[kani::stub(crate::data::GdsFloat64::encode, enc_bits)] #[kani::stub(crate::data::GdsFloat64::decode, dec_bits)] #[kani::stub(alloc::fmt::format, fmt_stub)] #[kani::stub(crate::read::GdsParser::next, stub_next)] #[kani::unwind(16)] c03_s_unsup_k36;
    #[kani::stub(std::str::from_utf8, from_utf8_model)] #[kani::stub(crate::data::GdsFloat64::encode, enc_bits)] #[kani::stub(crate::data::GdsFloat64::decode, dec_bits)] #[kani::stub(alloc::fmt::format, fmt_stub)] #[kani::stub(crate::read::GdsParser::next, stub_next)] #[kani::unwind(16)] c10_x_p_w0_00;
    #[kani::stub(std::str::from_utf8, from_utf8_model)] #[kani::stub(crate::data::GdsFloat64::encode, enc_bits)] #[kani::stub(crate::data::GdsFloat64::decode, dec_bits)] #[kani::stub(alloc::fmt::format, fmt_stub)] #[kani::stub(crate::read::GdsParser::next, stub_next)] #[kani::unwind(16)] c10_x_p_w0_01;
    #[kani::stub(std::str::from_utf8, from_utf8_model)] #[kani::stub(crate::data::GdsFloat64::encode, enc_bits)] #[kani::stub(crate::data::GdsFloat64::decode, dec_bits)] #[kani::stub(alloc::fmt::format, fmt_stub)] #[kani::stub(crate::read::GdsParser::next, stub_next)] #[kani::unwind(16)] c10_x_p_w0_02;
    #[kani::stub(std::str::from_utf8, from_utf8_model)] #[kani::stub(crate::data::GdsFloat64::encode, enc_bits)] #[kani::stub(crate::data::GdsFloat64::decode, dec_bits)] #[kani::stub(alloc::fmt::format, fmt_stub)] #[kani::stub(crate::read::GdsParser::next, stub_next)] #[kani::unwind(16)] c10_x_p_w0_03;
    #[kani::stub(std::str::from_utf8, from_utf8_model)] #[kani::stub(crate::data::GdsFloat64::encode, enc_bits)] #[kani::stub(crate::data::GdsFloat64::decode, dec_bits)] #[kani::stub(alloc::fmt::format, fmt_stub)] #[kani::stub(crate::read::GdsParser::next, stub_next)] #[kani::unwind(16)] c10_x_p_w0_04;
    #[kani::stub(std::str::from_utf8, from_utf8_model)] #[kani::stub(crate::data::GdsFloat64::encode, enc_bits)] #[kani::stub(crate::data::GdsFloat64::decode, dec_bits)] #[kani::stub(alloc::fmt::format, fmt_stub)] #[kani::stub(crate::read::GdsParser::next, stub_next)] #[kani::unwind(16)] c10_x_p_w0_05;
    #[kani::stub(std::str::from_utf8, from_utf8_model)] #[kani::stub(crate::data::GdsFloat64::encode, enc_bits)] #[kani::stub(crate::data::GdsFloat64::decode, dec_bits)] #[kani::stub(alloc::fmt::format, fmt_stub)] #[kani::stub(crate::read::GdsParser::next, stub_next)] #[kani::unwind(16)] c10_x_p_w0_06;
    #[kani::stub(std::str::from_utf8, from_utf8_model)] #[kani::stub(crate::data::GdsFloat64::encode, enc_bits)] #[kani::stub(crate::data::GdsFloat64::decode, dec_bits)] #[kani::stub(alloc::fmt::format, fmt_stub)] #[kani::stub(crate::read::GdsParser::next, stub_next)] #[kani::unwind(16)] c10_x_p_w0_07;
    #[kani::stub(std::str::from_utf8, from_utf8_model)] #[kani::stub(crate::data::GdsFloat64::encode, enc_bits)] #[kani::stub(crate::data::GdsFloat64::decode, dec_bits)] #[kani::stub(alloc::fmt::format, fmt_stub)] #[kani::stub(crate::read::GdsParser::next, stub_next)] #[kani::unwind(16)] c10_x_p_w0_08;
    #[kani::stub(std::str::from_utf8, from_utf8_model)] #[kani::stub(crate::data::GdsFloat64::encode, enc_bits)] #[kani::stub(crate::data::GdsFloat64::decode, dec_bits)] #[kani::stub(alloc::fmt::format, fmt_stub)] #[kani::stub(crate::read::GdsParser::next, stub_next)] #[kani::unwind(16)] c10_x_p_w0_09;
    #[kani::stub(std::str::from_utf8, from_utf8_model)] #[kani::stub(crate::data::GdsFloat64::encode, enc_bits)] #[kani::stub(crate::data::GdsFloat64::decode, dec_bits)] #[kani::stub(alloc::fmt::format, fmt_stub)] #[kani::stub(crate::read::GdsParser::next, stub_next)] #[kani::unwind(16)] c10_x_p_w0_10;
    #[kani::stub(std::str::from_utf8, from_utf8_model)] #[kani::stub(crate::data::GdsFloat64::encode, enc_bits)] #[kani::stub(crate::data::GdsFloat64::decode, dec_bits)] #[kani::stub(alloc::fmt::format, fmt_stub)] #[kani::stub(crate::read::GdsParser::next, stub_next)] #[kani::unwind(16)] c10_x_p_w0_11;
    #[kani::stub(std::str::from_utf8, from_utf8_model)] #[kani::stub(crate::data::GdsFloat64::encode, enc_bits)] #[kani::stub(crate::data::GdsFloat64::decode, dec_bits)] #[kani::stub(alloc::fmt::format, fmt_stub)] #[kani::stub(crate::read::GdsParser::next, stub_next)] #[kani::unwind(16)] c10_x_p_w0_12;
    #[kani::stub(std::str::from_utf8, from_utf8_model)] #[kani::stub(crate::data::GdsFloat64::encode, enc_bits)] #[kani::stub(crate::data::GdsFloat64::decode, dec_bits)] #[kani::stub(alloc::fmt::format, fmt_stub)] #[kani::stub(crate::read::GdsParser::next, stub_next)] #[kani::unwind(16)] c10_x_p_w0_13;
    #[kani::stub(std::str::from_utf8, from_utf8_model)] #[kani::stub(crate::data::GdsFloat64::encode, enc_bits)] #[kani::stub(crate::data::GdsFloat64::decode, dec_bits)] #[kani::stub(alloc::fmt::format, fmt_stub)] #[kani::stub(crate::read::GdsParser::next, stub_next)] #[kani::unwind(16)] c10_x_p_w0_14;
    #[kani::stub(std::str::from_utf8, from_utf8_model)] #[kani::stub(crate::data::GdsFloat64::encode, enc_bits)] #[kani::stub(crate::data::GdsFloat64::decode, dec_bits)] #[kani::stub(alloc::fmt::format, fmt_stub)] #[kani::stub(crate::read::GdsParser::next, stub_next)] #[kani::unwind(16)] c10_x_p_w0_15;
    #[kani::stub(std::str::from_utf8, from_utf8_model)] #[kani::stub(crate::data::GdsFloat64::encode, enc_bits)] #[kani::stub(crate::data::GdsFloat64::decode, dec_bits)] #[kani::stub(alloc::fmt::format, fmt_stub)] #[kani::stub(crate::read::GdsParser::next, stub_next)] #[kani::unwind(16)] c10_x_p_w0_16;
    #[kani::stub(std::str::from_utf8, from_utf8_model)] #[kani::stub(crate::data::GdsFloat64::encode, enc_bits)] #[kani::stub(crate::data::GdsFloat64::decode, dec_bits)] #[kani::stub(alloc::fmt::format, fmt_stub)] #[kani::stub(crate::read::GdsParser::next, stub_next)] #[kani::unwind(16)] c10_x_p_w0_17;
    #[kani::stub(std::str::from_utf8, from_utf8_model)] #[kani::stub(crate::data::GdsFloat64::encode, enc_bits)] #[kani::stub(crate::data::GdsFloat64::decode, dec_bits)] #[kani::stub(alloc::fmt::format, fmt_stub)] #[kani::stub(crate::read::GdsParser::next, stub_next)] #[kani::unwind(16)] c10_x_p_w0_18;
    #[kani::stub(std::str::from_utf8, from_utf8_model)] #[kani::stub(crate::data::GdsFloat64::encode, enc_bits)] #[kani::stub(crate::data::GdsFloat64::decode, dec_bits)] #[kani::stub(alloc::fmt::format, fmt_stub)] #[kani::stub(crate::read::GdsParser::next, stub_next)] #[kani::unwind(16)] c10_x_p_w0_19;
    #[kani::stub(std::str::from_utf8, from_utf8_model)] #[kani::stub(crate::data::GdsFloat64::encode, enc_bits)] #[kani::stub(crate::data::GdsFloat64::decode, dec_bits)] #[kani::stub(alloc::fmt::format, fmt_stub)] #[kani::stub(crate::read::GdsParser::next, stub_next)] #[kani::unwind(16)] c10_x_p_w0_20;
    #[kani::stub(std::str::from_utf8, from_utf8_model)] #[kani::stub(crate::data::GdsFloat64::encode, enc_bits)] #[kani::stub(crate::data::GdsFloat64::decode, dec_bits)] #[kani::stub(alloc::fmt::format, fmt_stub)] #[kani::stub(crate::read::GdsParser::next, stub_next)] #[kani::unwind(16)] c10_x_p_w0_21;
    #[kani::stub(std::str::from_utf8, from_utf8_model)] #[kani::stub(crate::data::GdsFloat64::encode, enc_bits)] #[kani::stub(crate::data::GdsFloat64::decode, dec_bits)] #[kani::stub(alloc::fmt::format, fmt_stub)] #[kani::stub(crate::read::GdsParser::next, stub_next)] #[kani::unwind(16)] c10_x_p_w0_22;
    #[kani::stub(std::str::from_utf8, from_utf8_model)] #[kani::stub(crate::data::GdsFloat64::encode, enc_bits)] #[kani::stub(crate::data::GdsFloat64::decode, dec_bits)] #[kani::stub(alloc::fmt::format, fmt_stub)] #[kani::stub(crate::read::GdsParser::next, stub_next)] #[kani::unwind(16)] c10_x_p_w0_23;
    #[kani::stub(std::str::from_utf8, from_utf8_model)] #[kani::stub(crate::data::GdsFloat64::encode, enc_bits)] #[kani::stub(crate::data::GdsFloat64::decode, dec_bits)] #[kani::stub(alloc::fmt::format, fmt_stub)] #[kani::stub(crate::read::GdsParser::next, stub_next)] #[kani::unwind(16)] c10_x_p_w0_24;
    #[kani::stub(std::str::from_utf8, from_utf8_model)] #[kani::stub(crate::data::GdsFloat64::encode, enc_bits)] #[kani::stub(crate::data::GdsFloat64::decode, dec_bits)] #[kani::stub(alloc::fmt::format, fmt_stub)] #[kani::stub(crate::read::GdsParser::next, stub_next)] #[kani::unwind(16)] c10_x_p_w0_25;
    #[kani::stub(std::str::from_utf8, from_utf8_model)] #[kani::stub(crate::data::GdsFloat64::encode, enc_bits)] #[kani::stub(crate::data::GdsFloat64::decode, dec_bits)] #[kani::stub(alloc::fmt::format, fmt_stub)] #[kani::stub(crate::read::GdsParser::next, stub_next)] #[kani::unwind(16)] c10_x_p_w0_26;
    #[kani::stub(std::str::from_utf8, from_utf8_model)] #[kani::stub(crate::data::GdsFloat64::encode, enc_bits)] #[kani::stub(crate::data::GdsFloat64::decode, dec_bits)] #[kani::stub(alloc::fmt::format, fmt_stub)] #[kani::stub(crate::read::GdsParser::next, stub_next)] #[kani::unwind(16)] c10_x_p_w0_27;
    #[kani::stub(std::str::from_utf8, from_utf8_model)] #[kani::stub(crate::data::GdsFloat64::encode, enc_bits)] #[kani::stub(crate::data::GdsFloat64::decode, dec_bits)] #[kani::stub(alloc::fmt::format, fmt_stub)] #[kani::stub(crate::read::GdsParser::next, stub_next)] #[kani::unwind(16)] c10_x_p_w0_28;
    #[kani::stub(std::str::from_utf8, from_utf8_model)] #[kani::stub(crate::data::GdsFloat64::encode, enc_bits)] #[kani::stub(crate::data::GdsFloat64::decode, dec_bits)] #[kani::stub(alloc::fmt::format, fmt_stub)] #[kani::stub(crate::read::GdsParser::next, stub_next)] #[kani::unwind(16)] c10_x_p_w0_29;
    #[kani::stub(std::str::from_utf8, from_utf8_model)] #[kani::stub(crate::data::GdsFloat64::encode, enc_bits)] #[kani::stub(crate::data::GdsFloat64::decode, dec_bits)] #[kani::stub(alloc::fmt::format, fmt_stub)] #[kani::stub(crate::read::GdsParser::next, stub_next)] #[kani::unwind(16)] c10_x_p_w0_30;
    #[kani::stub(std::str::from_utf8, from_utf8_model)] #[kani::stub(crate::data::GdsFloat64::encode, enc_bits)] #[kani::stub(crate::data::GdsFloat64::decode, dec_bits)] #[kani::stub(alloc::fmt::format, fmt_stub)] #[kani::stub(crate::read::GdsParser::next, stub_next)] #[kani::unwind(16)] c10_x_p_w0_31;
    #[kani::stub(std::str::from_utf8, from_utf8_model)] #[kani::stub(crate::data::GdsFloat64::encode, enc_bits)] #[kani::stub(crate::data::GdsFloat64::decode, dec_bits)] #[kani::stub(alloc::fmt::format, fmt_stub)] #[kani::stub(crate::read::GdsParser::next, stub_next)] #[kani::unwind(16)] c10_x_p_w0_32;
    #[kani::stub(std::str::from_utf8, from_utf8_model)] #[kani::stub(crate::data::GdsFloat64::encode, enc_bits)] #[kani::stub(crate::data::GdsFloat64::decode, dec_bits)] #[kani::stub(alloc::fmt::format, fmt_stub)] #[kani::stub(crate::read::GdsParser::next, stub_next)] #[kani::unwind(16)] c10_x_p_w0_33;
    #[kani::stub(std::str::from_utf8, from_utf8_model)] #[kani::stub(crate::data::GdsFloat64::encode, enc_bits)] #[kani::stub(crate::data::GdsFloat64::decode, dec_bits)] #[kani::stub(alloc::fmt::format, fmt_stub)] #[kani::stub(crate::read::GdsParser::next, stub_next)] #[kani::unwind(16)] c10_x_p_w0_34;
    #[kani::stub(std::str::from_utf8, from_utf8_model)] #[kani::stub(crate::data::GdsFloat64::encode, enc_bits)] #[kani::stub(crate::data::GdsFloat64::decode, dec_bits)] #[kani::stub(alloc::fmt::format, fmt_stub)] #[kani::stub(crate::read::GdsParser::next, stub_next)] #[kani::unwind(16)] c10_x_p_w0_35;
    #[kani::stub(std::str::from_utf8, from_utf8_model)] #[kani::stub(crate::data::GdsFloat64::encode, enc_bits)] #[kani::stub(crate::data::GdsFloat64::decode, dec_bits)] #[kani::stub(alloc::fmt::format, fmt_stub)] #[kani::stub(crate::read::GdsParser::next, stub_next)] #[kani::unwind(16)] c10_x_p_w0_36;
    #[kani::stub(std::str::from_utf8, from_utf8_model)] #[kani::stub(crate::data::GdsFloat64::encode, enc_bits)] #[kani::stub(crate::data::GdsFloat64::decode, dec_bits)] #[kani::stub(alloc::fmt::format, fmt_stub)] #[kani::stub(crate::read::GdsParser::next, stub_next)] #[kani::unwind(16)] c10_x_p_w0_37;
    #[kani::stub(std::str::from_utf8, from_utf8_model)] #[kani::stub(crate::data::GdsFloat64::encode, enc_bits)] #[kani::stub(crate::data::GdsFloat64::decode, dec_bits)] #[kani::stub(alloc::fmt::format, fmt_stub)] #[kani::stub(crate::read::GdsParser::next, stub_next)] #[kani::unwind(16)] c10_x_p_w0_38;
    #[kani::stub(std::str::from_utf8, from_utf8_model)] #[kani::stub(crate::data::GdsFloat64::encode, enc_bits)] #[kani::stub(crate::data::GdsFloat64::decode, dec_bits)] #[kani::stub(alloc::fmt::format, fmt_stub)] #[kani::stub(crate::read::GdsParser::next, stub_next)] #[kani::unwind(16)] c10_x_p_w0_39;
    #[kani::stub(std::str::from_utf8, from_utf8_model)] #[kani::stub(crate::data::GdsFloat64::encode, enc_bits)] #[kani::stub(crate::data::GdsFloat64::decode, dec_bits)] #[kani::stub(alloc::fmt::format, fmt_stub)] #[kani::stub(crate::read::GdsParser::next, stub_next)] #[kani::unwind(16)] c10_x_p_w0_40;
    #[kani::stub(std::str::from_utf8, from_utf8_model)] #[kani::stub(crate::data::GdsFloat64::encode, enc_bits)] #[kani::stub(crate::data::GdsFloat64::decode, dec_bits)] #[kani::stub(alloc::fmt::format, fmt_stub)] #[kani::stub(crate::read::GdsParser::next, stub_next)] #[kani::unwind(16)] c10_x_p_w0_41;
    #[kani::stub(std::str::from_utf8, from_utf8_model)] #[kani::stub(crate::data::GdsFloat64::encode, enc_bits)] #[kani::stub(crate::data::GdsFloat64::decode, dec_bits)] #[kani::stub(alloc::fmt::format, fmt_stub)] #[kani::stub(crate::read::GdsParser::next, stub_next)] #[kani::unwind(16)] c10_x_p_w0_42;
    #[kani::stub(std::str::from_utf8, from_utf8_model)] #[kani::stub(crate::data::GdsFloat64::encode, enc_bits)] #[kani::stub(crate::data::GdsFloat64::decode, dec_bits)] #[kani::stub(alloc::fmt::format, fmt_stub)] #[kani::stub(crate::read::GdsParser::next, stub_next)] #[kani::unwind(16)] c10_x_p_w0_43;
    #[kani::stub(std::str::from_utf8, from_utf8_model)] #[kani::stub(crate::data::GdsFloat64::encode, enc_bits)] #[kani::stub(crate::data::GdsFloat64::decode, dec_bits)] #[kani::stub(alloc::fmt::format, fmt_stub)] #[kani::stub(crate::read::GdsParser::next, stub_next)] #[kani::unwind(16)] c10_x_p_w0_44;
    #[kani::stub(std::str::from_utf8, from_utf8_model)] #[kani::stub(crate::data::GdsFloat64::encode, enc_bits)] #[kani::stub(crate::data::GdsFloat64::decode, dec_bits)] #[kani::stub(alloc::fmt::format, fmt_stub)] #[kani::stub(crate::read::GdsParser::next, stub_next)] #[kani::unwind(16)] c10_x_p_w0_45;
    #[kani::stub(std::str::from_utf8, from_utf8_model)] #[kani::stub(crate::data::GdsFloat64::encode, enc_bits)] #[kani::stub(crate::data::GdsFloat64::decode, dec_bits)] #[kani::stub(alloc::fmt::format, fmt_stub)] #[kani::stub(crate::read::GdsParser::next, stub_next)] #[kani::unwind(16)] c10_x_p_w0_46;
    #[kani::stub(std::str::from_utf8, from_utf8_model)] #[kani::stub(crate::data::GdsFloat64::encode, enc_bits)] #[kani::stub(crate::data::GdsFloat64::decode, dec_bits)] #[kani::stub(alloc::fmt::format, fmt_stub)] #[kani::stub(crate::read::GdsParser::next, stub_next)] #[kani::unwind(16)] c10_x_p_w0_47;
    #[kani::stub(std::str::from_utf8, from_utf8_model)] #[kani::stub(crate::data::GdsFloat64::encode, enc_bits)] #[kani::stub(crate::data::GdsFloat64::decode, dec_bits)] #[kani::stub(alloc::fmt::format, fmt_stub)] #[kani::stub(crate::read::GdsParser::next, stub_next)] #[kani::unwind(16)] c10_x_p_w0_48;
    #[kani::stub(std::str::from_utf8, from_utf8_model)] #[kani::stub(crate::data::GdsFloat64::encode, enc_bits)] #[kani::stub(crate::data::GdsFloat64::decode, dec_bits)] #[kani::stub(alloc::fmt::format, fmt_stub)] #[kani::stub(crate::read::GdsParser::next, stub_next)] #[kani::unwind(16)] c10_x_p_w0_49;
    #[kani::stub(std::str::from_utf8, from_utf8_model)] #[kani::stub(crate::data::GdsFloat64::encode, enc_bits)] #[kani::stub(crate::data::GdsFloat64::decode, dec_bits)] #[kani::stub(alloc::fmt::format, fmt_stub)] #[kani::stub(crate::read::GdsParser::next, stub_next)] #[kani::unwind(16)] c10_x_p_w0_50;
    #[kani::stub(std::str::from_utf8, from_utf8_model)] #[kani::stub(crate::data::GdsFloat64::encode, enc_bits)] #[kani::stub(crate::data::GdsFloat64::decode, dec_bits)] #[kani::stub(alloc::fmt::format, fmt_stub)] #[kani::stub(crate::read::GdsParser::next, stub_next)] #[kani::unwind(16)] c10_x_p_w0_51;
    #[kani::stub(std::str::from_utf8, from_utf8_model)] #[kani::stub(crate::data::GdsFloat64::encode, enc_bits)] #[kani::stub(crate::data::GdsFloat64::decode, dec_bits)] #[kani::stub(alloc::fmt::format, fmt_stub)] #[kani::stub(crate::read::GdsParser::next, stub_next)] #[kani::unwind(16)] c10_x_p_w0_52;
    #[kani::stub(std::str::from_utf8, from_utf8_model)] #[kani::stub(crate::data::GdsFloat64::encode, enc_bits)] #[kani::stub(crate::data::GdsFloat64::decode, dec_bits)] #[kani::stub(alloc::fmt::format, fmt_stub)] #[kani::stub(crate::read::GdsParser::next, stub_next)] #[kani::unwind(16)] c10_x_p_w0_53;
    #[kani::stub(std::str::from_utf8, from_utf8_model)] #[kani::stub(crate::data::GdsFloat64::encode, enc_bits)] #[kani::stub(crate::data::GdsFloat64::decode, dec_bits)] #[kani::stub(alloc::fmt::format, fmt_stub)] #[kani::stub(crate::read::GdsParser::next, stub_next)] #[kani::unwind(16)] c10_x_p_w0_54;
    #[kani::stub(std::str::from_utf8, from_utf8_model)] #[kani::stub(crate::data::GdsFloat64::encode, enc_bits)] #[kani::stub(crate::data::GdsFloat64::decode, dec_bits)] #[kani::stub(alloc::fmt::format, fmt_stub)] #[kani::stub(crate::read::GdsParser::next, stub_next)] #[kani::unwind(16)] c10_x_p_w0_55;
    #[kani::stub(std::str::from_utf8, from_utf8_model)] #[kani::stub(crate::data::GdsFloat64::encode, enc_bits)] #[kani::stub(crate::data::GdsFloat64::decode, dec_bits)] #[kani::stub(alloc::fmt::format, fmt_stub)] #[kani::stub(crate::read::GdsParser::next, stub_next)] #[kani::unwind(16)] c10_x_p_w0_56;
    #[kani::stub(std::str::from_utf8, from_utf8_model)] #[kani::stub(crate::data::GdsFloat64::encode, enc_bits)] #[kani::stub(crate::data::GdsFloat64::decode, dec_bits)] #[kani::stub(alloc::fmt::format, fmt_stub)] #[kani::stub(crate::read::GdsParser::next, stub_next)] #[kani::unwind(16)] c10_x_p_w0_57;
    #[kani::stub(std::str::from_utf8, from_utf8_model)] #[kani::stub(crate::data::GdsFloat64::encode, enc_bits)] #[kani::stub(crate::data::GdsFloat64::decode, dec_bits)] #[kani::stub(alloc::fmt::format, fmt_stub)] #[kani::stub(crate::read::GdsParser::next, stub_next)] #[kani::unwind(16)] c10_x_p_w0_58;
    #[kani::stub(std::str::from_utf8, from_utf8_model)] #[kani::stub(crate::data::GdsFloat64::encode, enc_bits)] #[kani::stub(crate::data::GdsFloat64::decode, dec_bits)] #[kani::stub(alloc::fmt::format, fmt_stub)] #[kani::stub(crate::read::GdsParser::next, stub_next)] #[kani::unwind(16)] c10_x_p_w0_59;
    #[kani::stub(std::str::from_utf8, from_utf8_model)] #[kani::stub(crate::data::GdsFloat64::encode, enc_bits)] #[kani::stub(crate::data::GdsFloat64::decode, dec_bits)] #[kani::stub(alloc::fmt::format, fmt_stub)] #[kani::stub(crate::read::GdsParser::next, stub_next)] #[kani::unwind(16)] c10_x_p_w0_60;
    #[kani::stub(std::str::from_utf8, from_utf8_model)] #[kani::stub(crate::data::GdsFloat64::encode, enc_bits)] #[kani::stub(crate::data::GdsFloat64::decode, dec_bits)] #[kani::stub(alloc::fmt::format, fmt_stub)] #[kani::stub(crate::read::GdsParser::next, stub_next)] #[kani::unwind(16)] c10_x_p_w0_61;
    #[kani::stub(std::str::from_utf8, from_utf8_model)] #[kani::stub(crate::data::GdsFloat64::encode, enc_bits)] #[kani::stub(crate::data::GdsFloat64::decode, dec_bits)] #[kani::stub(alloc::fmt::format, fmt_stub)] #[kani::stub(crate::read::GdsParser::next, stub_next)] #[kani::unwind(16)] c10_x_p_w0_62;
    #[kani::stub(std::str::from_utf8, from_utf8_model)] #[kani::stub(crate::data::GdsFloat64::encode, enc_bits)] #[kani::stub(crate::data::GdsFloat64::decode, dec_bits)] #[kani::stub(alloc::fmt::format, fmt_stub)] #[kani::stub(crate::read::GdsParser::next, stub_next)] #[kani::unwind(16)] c10_x_p_w0_63;
    #[kani::stub(std::str::from_utf8, from_utf8_model)] #[kani::stub(crate::data::GdsFloat64::encode, enc_bits)] #[kani::stub(crate::data::GdsFloat64::decode, dec_bits)] #[kani::stub(alloc::fmt::format, fmt_stub)] #[kani::stub(crate::read::GdsParser::next, stub_next)] #[kani::unwind(16)] c10_x_p_w0_64;
    #[kani::stub(std::str::from_utf8, from_utf8_model)] #[kani::stub(crate::data::GdsFloat64::encode, enc_bits)] #[kani::stub(crate::data::GdsFloat64::decode, dec_bits)] #[kani::stub(alloc::fmt::format, fmt_stub)] #[kani::stub(crate::read::GdsParser::next, stub_next)] #[kani::unwind(16)] c10_x_p_w0_65;
    #[kani::stub(std::str::from_utf8, from_utf8_model)] #[kani::stub(crate::data::GdsFloat64::encode, enc_bits)] #[kani::stub(crate::data::GdsFloat64::decode, dec_bits)] #[kani::stub(alloc::fmt::format, fmt_stub)] #[kani::stub(crate::read::GdsParser::next, stub_next)] #[kani::unwind(16)] c10_x_p_w0_66;
    #[kani::stub(std::str::from_utf8, from_utf8_model)] #[kani::stub(crate::data::GdsFloat64::encode, enc_bits)] #[kani::stub(crate::data::GdsFloat64::decode, dec_bits)] #[kani::stub(alloc::fmt::format, fmt_stub)] #[kani::stub(crate::read::GdsParser::next, stub_next)] #[kani::unwind(16)] c10_x_p_w0_67;
    #[kani::stub(std::str::from_utf8, from_utf8_model)] #[kani::stub(crate::data::GdsFloat64::encode, enc_bits)] #[kani::stub(crate::data::GdsFloat64::decode, dec_bits)] #[kani::stub(alloc::fmt::format, fmt_stub)] #[kani::stub(crate::read::GdsParser::next, stub_next)] #[kani::unwind(16)] c10_x_p_w0_68;
    #[kani::stub(std::str::from_utf8, from_utf8_model)] #[kani::stub(crate::data::GdsFloat64::encode, enc_bits)] #[kani::stub(crate::data::GdsFloat64::decode, dec_bits)] #[kani::stub(alloc::fmt::format, fmt_stub)] #[kani::stub(crate::read::GdsParser::next, stub_next)] #[kani::unwind(16)] c10_x_p_w0_69;
    #[kani::stub(std::str::from_utf8, from_utf8_model)] #[kani::stub(crate::data::GdsFloat64::encode, enc_bits)] #[kani::stub(crate::data::GdsFloat64::decode, dec_bits)] #[kani::stub(alloc::fmt::format, fmt_stub)] #[kani::stub(crate::read::GdsParser::next, stub_next)] #[kani::unwind(16)] c10_x_p_w1_00;
    #[kani::stub(std::str::from_utf8, from_utf8_model)] #[kani::stub(crate::data::GdsFloat64::encode, enc_bits)] #[kani::stub(crate::data::GdsFloat64::decode, dec_bits)] #[kani::stub(alloc::fmt::format, fmt_stub)] #[kani::stub(crate::read::GdsParser::next, stub_next)] #[kani::unwind(16)] c10_x_p_w1_01;
    #[kani::stub(std::str::from_utf8, from_utf8_model)] #[kani::stub(crate::data::GdsFloat64::encode, enc_bits)] #[kani::stub(crate::data::GdsFloat64::decode, dec_bits)] #[kani::stub(alloc::fmt::format, fmt_stub)] #[kani::stub(crate::read::GdsParser::next, stub_next)] #[kani::unwind(16)] c10_x_p_w1_02;
    #[kani::stub(std::str::from_utf8, from_utf8_model)] #[kani::stub(crate::data::GdsFloat64::encode, enc_bits)] #[kani::stub(crate::data::GdsFloat64::decode, dec_bits)] #[kani::stub(alloc::fmt::format, fmt_stub)] #[kani::stub(crate::read::GdsParser::next, stub_next)] #[kani::unwind(16)] c10_x_p_w1_03;
    #[kani::stub(std::str::from_utf8, from_utf8_model)] #[kani::stub(crate::data::GdsFloat64::encode, enc_bits)] #[kani::stub(crate::data::GdsFloat64::decode, dec_bits)] #[kani::stub(alloc::fmt::format, fmt_stub)] #[kani::stub(crate::read::GdsParser::next, stub_next)] #[kani::unwind(16)] c10_x_p_w1_04;
    #[kani::stub(std::str::from_utf8, from_utf8_model)] #[kani::stub(crate::data::GdsFloat64::encode, enc_bits)] #[kani::stub(crate::data::GdsFloat64::decode, dec_bits)] #[kani::stub(alloc::fmt::format, fmt_stub)] #[kani::stub(crate::read::GdsParser::next, stub_next)] #[kani::unwind(16)] c10_x_p_w1_05;
    #[kani::stub(std::str::from_utf8, from_utf8_model)] #[kani::stub(crate::data::GdsFloat64::encode, enc_bits)] #[kani::stub(crate::data::GdsFloat64::decode, dec_bits)] #[kani::stub(alloc::fmt::format, fmt_stub)] #[kani::stub(crate::read::GdsParser::next, stub_next)] #[kani::unwind(16)] c10_x_p_w1_06;
    #[kani::stub(std::str::from_utf8, from_utf8_model)] #[kani::stub(crate::data::GdsFloat64::encode, enc_bits)] #[kani::stub(crate::data::GdsFloat64::decode, dec_bits)] #[kani::stub(alloc::fmt::format, fmt_stub)] #[kani::stub(crate::read::GdsParser::next, stub_next)] #[kani::unwind(16)] c10_x_p_w1_07;
    #[kani::stub(std::str::from_utf8, from_utf8_model)] #[kani::stub(crate::data::GdsFloat64::encode, enc_bits)] #[kani::stub(crate::data::GdsFloat64::decode, dec_bits)] #[kani::stub(alloc::fmt::format, fmt_stub)] #[kani::stub(crate::read::GdsParser::next, stub_next)] #[kani::unwind(16)] c10_x_p_w1_08;
    #[kani::stub(std::str::from_utf8, from_utf8_model)] #[kani::stub(crate::data::GdsFloat64::encode, enc_bits)] #[kani::stub(crate::data::GdsFloat64::decode, dec_bits)] #[kani::stub(alloc::fmt::format, fmt_stub)] #[kani::stub(crate::read::GdsParser::next, stub_next)] #[kani::unwind(16)] c10_x_p_w1_09;
    #[kani::stub(std::str::from_utf8, from_utf8_model)] #[kani::stub(crate::data::GdsFloat64::encode, enc_bits)] #[kani::stub(crate::data::GdsFloat64::decode, dec_bits)] #[kani::stub(alloc::fmt::format, fmt_stub)] #[kani::stub(crate::read::GdsParser::next, stub_next)] #[kani::unwind(16)] c10_x_p_w1_10;
    #[kani::stub(std::str::from_utf8, from_utf8_model)] #[kani::stub(crate::data::GdsFloat64::encode, enc_bits)] #[kani::stub(crate::data::GdsFloat64::decode, dec_bits)] #[kani::stub(alloc::fmt::format, fmt_stub)] #[kani::stub(crate::read::GdsParser::next, stub_next)] #[kani::unwind(16)] c10_x_p_w1_11;
    #[kani::stub(std::str::from_utf8, from_utf8_model)] #[kani::stub(crate::data::GdsFloat64::encode, enc_bits)] #[kani::stub(crate::data::GdsFloat64::decode, dec_bits)] #[kani::stub(alloc::fmt::format, fmt_stub)] #[kani::stub(crate::read::GdsParser::next, stub_next)] #[kani::unwind(16)] c10_x_p_w1_12;
    #[kani::stub(std::str::from_utf8, from_utf8_model)] #[kani::stub(crate::data::GdsFloat64::encode, enc_bits)] #[kani::stub(crate::data::GdsFloat64::decode, dec_bits)] #[kani::stub(alloc::fmt::format, fmt_stub)] #[kani::stub(crate::read::GdsParser::next, stub_next)] #[kani::unwind(16)] c10_x_p_w1_13;
    #[kani::stub(std::str::from_utf8, from_utf8_model)] #[kani::stub(crate::data::GdsFloat64::encode, enc_bits)] #[kani::stub(crate::data::GdsFloat64::decode, dec_bits)] #[kani::stub(alloc::fmt::format, fmt_stub)] #[kani::stub(crate::read::GdsParser::next, stub_next)] #[kani::unwind(16)] c10_x_p_w1_14;
    #[kani::stub(std::str::from_utf8, from_utf8_model)] #[kani::stub(crate::data::GdsFloat64::encode, enc_bits)] #[kani::stub(crate::data::GdsFloat64::decode, dec_bits)] #[kani::stub(alloc::fmt::format, fmt_stub)] #[kani::stub(crate::read::GdsParser::next, stub_next)] #[kani::unwind(16)] c10_x_p_w1_15;
    #[kani::stub(std::str::from_utf8, from_utf8_model)] #[kani::stub(crate::data::GdsFloat64::encode, enc_bits)] #[kani::stub(crate::data::GdsFloat64::decode, dec_bits)] #[kani::stub(alloc::fmt::format, fmt_stub)] #[kani::stub(crate::read::GdsParser::next, stub_next)] #[kani::unwind(16)] c10_x_p_w1_16;
    #[kani::stub(std::str::from_utf8, from_utf8_model)] #[kani::stub(crate::data::GdsFloat64::encode, enc_bits)] #[kani::stub(crate::data::GdsFloat64::decode, dec_bits)] #[kani::stub(alloc::fmt::format, fmt_stub)] #[kani::stub(crate::read::GdsParser::next, stub_next)] #[kani::unwind(16)] c10_x_p_w1_17;
    #[kani::stub(std::str::from_utf8, from_utf8_model)] #[kani::stub(crate::data::GdsFloat64::encode, enc_bits)] #[kani::stub(crate::data::GdsFloat64::decode, dec_bits)] #[kani::stub(alloc::fmt::format, fmt_stub)] #[kani::stub(crate::read::GdsParser::next, stub_next)] #[kani::unwind(16)] c10_x_p_w1_18;
    #[kani::stub(std::str::from_utf8, from_utf8_model)] #[kani::stub(crate::data::GdsFloat64::encode, enc_bits)] #[kani::stub(crate::data::GdsFloat64::decode, dec_bits)] #[kani::stub(alloc::fmt::format, fmt_stub)] #[kani::stub(crate::read::GdsParser::next, stub_next)] #[kani::unwind(16)] c10_x_p_w1_19;
    #[kani::stub(std::str::from_utf8, from_utf8_model)] #[kani::stub(crate::data::GdsFloat64::encode, enc_bits)] #[kani::stub(crate::data::GdsFloat64::decode, dec_bits)] #[kani::stub(alloc::fmt::format, fmt_stub)] #[kani::stub(crate::read::GdsParser::next, stub_next)] #[kani::unwind(16)] c10_x_p_w1_20;
    #[kani::stub(std::str::from_utf8, from_utf8_model)] #[kani::stub(crate::data::GdsFloat64::encode, enc_bits)] #[kani::stub(crate::data::GdsFloat64::decode, dec_bits)] #[kani::stub(alloc::fmt::format, fmt_stub)] #[kani::stub(crate::read::GdsParser::next, stub_next)] #[kani::unwind(16)] c10_x_p_w1_21;
    #[kani::stub(std::str::from_utf8, from_utf8_model)] #[kani::stub(crate::data::GdsFloat64::encode, enc_bits)] #[kani::stub(crate::data::GdsFloat64::decode, dec_bits)] #[kani::stub(alloc::fmt::format, fmt_stub)] #[kani::stub(crate::read::GdsParser::next, stub_next)] #[kani::unwind(16)] c10_x_p_w1_22;
    #[kani::stub(std::str::from_utf8, from_utf8_model)] #[kani::stub(crate::data::GdsFloat64::encode, enc_bits)] #[kani::stub(crate::data::GdsFloat64::decode, dec_bits)] #[kani::stub(alloc::fmt::format, fmt_stub)] #[kani::stub(crate::read::GdsParser::next, stub_next)] #[kani::unwind(16)] c10_x_p_w1_23;
    #[kani::stub(std::str::from_utf8, from_utf8_model)] #[kani::stub(crate::data::GdsFloat64::encode, enc_bits)] #[kani::stub(crate::data::GdsFloat64::decode, dec_bits)] #[kani::stub(alloc::fmt::format, fmt_stub)] #[kani::stub(crate::read::GdsParser::next, stub_next)] #[kani::unwind(16)] c10_x_p_w1_24;
    #[kani::stub(std::str::from_utf8, from_utf8_model)] #[kani::stub(crate::data::GdsFloat64::encode, enc_bits)] #[kani::stub(crate::data::GdsFloat64::decode, dec_bits)] #[kani::stub(alloc::fmt::format, fmt_stub)] #[kani::stub(crate::read::GdsParser::next, stub_next)] #[kani::unwind(16)] c10_x_p_w1_25;
    #[kani::stub(std::str::from_utf8, from_utf8_model)] #[kani::stub(crate::data::GdsFloat64::encode, enc_bits)] #[kani::stub(crate::data::GdsFloat64::decode, dec_bits)] #[kani::stub(alloc::fmt::format, fmt_stub)] #[kani::stub(crate::read::GdsParser::next, stub_next)] #[kani::unwind(16)] c10_x_p_w1_26;
    #[kani::stub(std::str::from_utf8, from_utf8_model)] #[kani::stub(crate::data::GdsFloat64::encode, enc_bits)] #[kani::stub(crate::data::GdsFloat64::decode, dec_bits)] #[kani::stub(alloc::fmt::format, fmt_stub)] #[kani::stub(crate::read::GdsParser::next, stub_next)] #[kani::unwind(16)] c10_x_p_w1_27;
    #[kani::stub(std::str::from_utf8, from_utf8_model)] #[kani::stub(crate::data::GdsFloat64::encode, enc_bits)] #[kani::stub(crate::data::GdsFloat64::decode, dec_bits)] #[kani::stub(alloc::fmt::format, fmt_stub)] #[kani::stub(crate::read::GdsParser::next, stub_next)] #[kani::unwind(16)] c10_x_p_w1_28;
    #[kani::stub(std::str::from_utf8, from_utf8_model)] #[kani::stub(crate::data::GdsFloat64::encode, enc_bits)] #[kani::stub(crate::data::GdsFloat64::decode, dec_bits)] #[kani::stub(alloc::fmt::format, fmt_stub)] #[kani::stub(crate::read::GdsParser::next, stub_next)] #[kani::unwind(16)] c10_x_p_w1_29;
    #[kani::stub(std::str::from_utf8, from_utf8_model)] #[kani::stub(crate::data::GdsFloat64::encode, enc_bits)] #[kani::stub(crate::data::GdsFloat64::decode, dec_bits)] #[kani::stub(alloc::fmt::format, fmt_stub)] #[kani::stub(crate::read::GdsParser::next, stub_next)] #[kani::unwind(16)] c10_x_p_w1_30;
    #[kani::stub(std::str::from_utf8, from_utf8_model)] #[kani::stub(crate::data::GdsFloat64::encode, enc_bits)] #[kani::stub(crate::data::GdsFloat64::decode, dec_bits)] #[kani::stub(alloc::fmt::format, fmt_stub)] #[kani::stub(crate::read::GdsParser::next, stub_next)] #[kani::unwind(16)] c10_x_p_w1_31;
    #[kani::stub(std::str::from_utf8, from_utf8_model)] #[kani::stub(crate::data::GdsFloat64::encode, enc_bits)] #[kani::stub(crate::data::GdsFloat64::decode, dec_bits)] #[kani::stub(alloc::fmt::format, fmt_stub)] #[kani::stub(crate::read::GdsParser::next, stub_next)] #[kani::unwind(16)] c10_x_p_w1_32;
    #[kani::stub(std::str::from_utf8, from_utf8_model)] #[kani::stub(crate::data::GdsFloat64::encode, enc_bits)] #[kani::stub(crate::data::GdsFloat64::decode, dec_bits)] #[kani::stub(alloc::fmt::format, fmt_stub)] #[kani::stub(crate::read::GdsParser::next, stub_next)] #[kani::unwind(16)] c10_x_p_w1_33;
    #[kani::stub(std::str::from_utf8, from_utf8_model)] #[kani::stub(crate::data::GdsFloat64::encode, enc_bits)] #[kani::stub(crate::data::GdsFloat64::decode, dec_bits)] #[kani::stub(alloc::fmt::format, fmt_stub)] #[kani::stub(crate::read::GdsParser::next, stub_next)] #[kani::unwind(16)] c10_x_p_w1_34;
    #[kani::stub(std::str::from_utf8, from_utf8_model)] #[kani::stub(crate::data::GdsFloat64::encode, enc_bits)] #[kani::stub(crate::data::GdsFloat64::decode, dec_bits)] #[kani::stub(alloc::fmt::format, fmt_stub)] #[kani::stub(crate::read::GdsParser::next, stub_next)] #[kani::unwind(16)] c10_x_p_w1_35;
    #[kani::stub(std::str::from_utf8, from_utf8_model)] #[kani::stub(crate::data::GdsFloat64::encode, enc_bits)] #[kani::stub(crate::data::GdsFloat64::decode, dec_bits)] #[kani::stub(alloc::fmt::format, fmt_stub)] #[kani::stub(crate::read::GdsParser::next, stub_next)] #[kani::unwind(16)] c10_x_p_w1_36;
    #[kani::stub(std::str::from_utf8, from_utf8_model)] #[kani::stub(crate::data::GdsFloat64::encode, enc_bits)] #[kani::stub(crate::data::GdsFloat64::decode, dec_bits)] #[kani::stub(alloc::fmt::format, fmt_stub)] #[kani::stub(crate::read::GdsParser::next, stub_next)] #[kani::unwind(16)] c10_x_p_w1_37;
    #[kani::stub(std::str::from_utf8, from_utf8_model)] #[kani::stub(crate::data::GdsFloat64::encode, enc_bits)] #[kani::stub(crate::data::GdsFloat64::decode, dec_bits)] #[kani::stub(alloc::fmt::format, fmt_stub)] #[kani::stub(crate::read::GdsParser::next, stub_next)] #[kani::unwind(16)] c10_x_p_w1_38;
    #[kani::stub(std::str::from_utf8, from_utf8_model)] #[kani::stub(crate::data::GdsFloat64::encode, enc_bits)] #[kani::stub(crate::data::GdsFloat64::decode, dec_bits)] #[kani::stub(alloc::fmt::format, fmt_stub)] #[kani::stub(crate::read::GdsParser::next, stub_next)] #[kani::unwind(16)] c10_x_p_w1_39;
    #[kani::stub(std::str::from_utf8, from_utf8_model)] #[kani::stub(crate::data::GdsFloat64::encode, enc_bits)] #[kani::stub(crate::data::GdsFloat64::decode, dec_bits)] #[kani::stub(alloc::fmt::format, fmt_stub)] #[kani::stub(crate::read::GdsParser::next, stub_next)] #[kani::unwind(16)] c10_x_p_w1_40;
    #[kani::stub(std::str::from_utf8, from_utf8_model)] #[kani::stub(crate::data::GdsFloat64::encode, enc_bits)] #[kani::stub(crate::data::GdsFloat64::decode, dec_bits)] #[kani::stub(alloc::fmt::format, fmt_stub)] #[kani::stub(crate::read::GdsParser::next, stub_next)] #[kani::unwind(16)] c10_x_p_w1_41;
    #[kani::stub(std::str::from_utf8, from_utf8_model)] #[kani::stub(crate::data::GdsFloat64::encode, enc_bits)] #[kani::stub(crate::data::GdsFloat64::decode, dec_bits)] #[kani::stub(alloc::fmt::format, fmt_stub)] #[kani::stub(crate::read::GdsParser::next, stub_next)] #[kani::unwind(16)] c10_x_p_w1_42;
    #[kani::stub(std::str::from_utf8, from_utf8_model)] #[kani::stub(crate::data::GdsFloat64::encode, enc_bits)] #[kani::stub(crate::data::GdsFloat64::decode, dec_bits)] #[kani::stub(alloc::fmt::format, fmt_stub)] #[kani::stub(crate::read::GdsParser::next, stub_next)] #[kani::unwind(16)] c10_x_p_w1_43;
    #[kani::stub(std::str::from_utf8, from_utf8_model)] #[kani::stub(crate::data::GdsFloat64::encode, enc_bits)] #[kani::stub(crate::data::GdsFloat64::decode, dec_bits)] #[kani::stub(alloc::fmt::format, fmt_stub)] #[kani::stub(crate::read::GdsParser::next, stub_next)] #[kani::unwind(16)] c10_x_p_w1_44;
    #[kani::stub(std::str::from_utf8, from_utf8_model)] #[kani::stub(crate::data::GdsFloat64::encode, enc_bits)] #[kani::stub(crate::data::GdsFloat64::decode, dec_bits)] #[kani::stub(alloc::fmt::format, fmt_stub)] #[kani::stub(crate::read::GdsParser::next, stub_next)] #[kani::unwind(16)] c10_x_p_w1_45;
    #[kani::stub(std::str::from_utf8, from_utf8_model)] #[kani::stub(crate::data::GdsFloat64::encode, enc_bits)] #[kani::stub(crate::data::GdsFloat64::decode, dec_bits)] #[kani::stub(alloc::fmt::format, fmt_stub)] #[kani::stub(crate::read::GdsParser::next, stub_next)] #[kani::unwind(16)] c10_x_p_w1_46;
    #[kani::stub(std::str::from_utf8, from_utf8_model)] #[kani::stub(crate::data::GdsFloat64::encode, enc_bits)] #[kani::stub(crate::data::GdsFloat64::decode, dec_bits)] #[kani::stub(alloc::fmt::format, fmt_stub)] #[kani::stub(crate::read::GdsParser::next, stub_next)] #[kani::unwind(16)] c10_x_p_w1_47;
    #[kani::stub(std::str::from_utf8, from_utf8_model)] #[kani::stub(crate::data::GdsFloat64::encode, enc_bits)] #[kani::stub(crate::data::GdsFloat64::decode, dec_bits)] #[kani::stub(alloc::fmt::format, fmt_stub)] #[kani::stub(crate::read::GdsParser::next, stub_next)] #[kani::unwind(16)] c10_x_p_w1_48;
    #[kani::stub(std::str::from_utf8, from_utf8_model)] #[kani::stub(crate::data::GdsFloat64::encode, enc_bits)] #[kani::stub(crate::data::GdsFloat64::decode, dec_bits)] #[kani::stub(alloc::fmt::format, fmt_stub)] #[kani::stub(crate::read::GdsParser::next, stub_next)] #[kani::unwind(16)] c10_x_p_w1_49;
    #[kani::stub(std::str::from_utf8, from_utf8_model)] #[kani::stub(crate::data::GdsFloat64::encode, enc_bits)] #[kani::stub(crate::data::GdsFloat64::decode, dec_bits)] #[kani::stub(alloc::fmt::format, fmt_stub)] #[kani::stub(crate::read::GdsParser::next, stub_next)] #[kani::unwind(16)] c10_x_p_w1_50;
    #[kani::stub(std::str::from_utf8, from_utf8_model)] #[kani::stub(crate::data::GdsFloat64::encode, enc_bits)] #[kani::stub(crate::data::GdsFloat64::decode, dec_bits)] #[kani::stub(alloc::fmt::format, fmt_stub)] #[kani::stub(crate::read::GdsParser::next, stub_next)] #[kani::unwind(16)] c10_x_p_w1_51;
    #[kani::stub(std::str::from_utf8, from_utf8_model)] #[kani::stub(crate::data::GdsFloat64::encode, enc_bits)] #[kani::stub(crate::data::GdsFloat64::decode, dec_bits)] #[kani::stub(alloc::fmt::format, fmt_stub)] #[kani::stub(crate::read::GdsParser::next, stub_next)] #[kani::unwind(16)] c10_x_p_w1_52;
    #[kani::stub(std::str::from_utf8, from_utf8_model)] #[kani::stub(crate::data::GdsFloat64::encode, enc_bits)] #[kani::stub(crate::data::GdsFloat64::decode, dec_bits)] #[kani::stub(alloc::fmt::format, fmt_stub)] #[kani::stub(crate::read::GdsParser::next, stub_next)] #[kani::unwind(16)] c10_x_p_w1_53;
    #[kani::stub(std::str::from_utf8, from_utf8_model)] #[kani::stub(crate::data::GdsFloat64::encode, enc_bits)] #[kani::stub(crate::data::GdsFloat64::decode, dec_bits)] #[kani::stub(alloc::fmt::format, fmt_stub)] #[kani::stub(crate::read::GdsParser::next, stub_next)] #[kani::unwind(16)] c10_x_p_w1_54;
    #[kani::stub(std::str::from_utf8, from_utf8_model)] #[kani::stub(crate::data::GdsFloat64::encode, enc_bits)] #[kani::stub(crate::data::GdsFloat64::decode, dec_bits)] #[kani::stub(alloc::fmt::format, fmt_stub)] #[kani::stub(crate::read::GdsParser::next, stub_next)] #[kani::unwind(16)] c10_x_p_w1_55;
    #[kani::stub(std::str::from_utf8, from_utf8_model)] #[kani::stub(crate::data::GdsFloat64::encode, enc_bits)] #[kani::stub(crate::data::GdsFloat64::decode, dec_bits)] #[kani::stub(alloc::fmt::format, fmt_stub)] #[kani::stub(crate::read::GdsParser::next, stub_next)] #[kani::unwind(16)] c10_x_p_w1_56;
    #[kani::stub(std::str::from_utf8, from_utf8_model)] #[kani::stub(crate::data::GdsFloat64::encode, enc_bits)] #[kani::stub(crate::data::GdsFloat64::decode, dec_bits)] #[kani::stub(alloc::fmt::format, fmt_stub)] #[kani::stub(crate::read::GdsParser::next, stub_next)] #[kani::unwind(16)] c10_x_p_w1_57;
    #[kani::stub(std::str::from_utf8, from_utf8_model)] #[kani::stub(crate::data::GdsFloat64::encode, enc_bits)] #[kani::stub(crate::data::GdsFloat64::decode, dec_bits)] #[kani::stub(alloc::fmt::format, fmt_stub)] #[kani::stub(crate::read::GdsParser::next, stub_next)] #[kani::unwind(16)] c10_x_p_w1_58;
    #[kani::stub(std::str::from_utf8, from_utf8_model)] #[kani::stub(crate::data::GdsFloat64::encode, enc_bits)] #[kani::stub(crate::data::GdsFloat64::decode, dec_bits)] #[kani::stub(alloc::fmt::format, fmt_stub)] #[kani::stub(crate::read::GdsParser::next, stub_next)] #[kani::unwind(16)] c10_x_p_w1_59;
    #[kani::stub(std::str::from_utf8, from_utf8_model)] #[kani::stub(crate::data::GdsFloat64::encode, enc_bits)] #[kani::stub(crate::data::GdsFloat64::decode, dec_bits)] #[kani::stub(alloc::fmt::format, fmt_stub)] #[kani::stub(crate::read::GdsParser::next, stub_next)] #[kani::unwind(16)] c10_x_p_w1_60;
    #[kani::stub(std::str::from_utf8, from_utf8_model)] #[kani::stub(crate::data::GdsFloat64::encode, enc_bits)] #[kani::stub(crate::data::GdsFloat64::decode, dec_bits)] #[kani::stub(alloc::fmt::format, fmt_stub)] #[kani::stub(crate::read::GdsParser::next, stub_next)] #[kani::unwind(16)] c10_x_p_w1_61;
    #[kani::stub(std::str::from_utf8, from_utf8_model)] #[kani::stub(crate::data::GdsFloat64::encode, enc_bits)] #[kani::stub(crate::data::GdsFloat64::decode, dec_bits)] #[kani::stub(alloc::fmt::format, fmt_stub)] #[kani::stub(crate::read::GdsParser::next, stub_next)] #[kani::unwind(16)] c10_x_p_w1_62;
    #[kani::stub(std::str::from_utf8, from_utf8_model)] #[kani::stub(crate::data::GdsFloat64::encode, enc_bits)] #[kani::stub(crate::data::GdsFloat64::decode, dec_bits)] #[kani::stub(alloc::fmt::format, fmt_stub)] #[kani::stub(crate::read::GdsParser::next, stub_next)] #[kani::unwind(16)] c10_x_p_w1_63;
    #[kani::stub(std::str::from_utf8, from_utf8_model)] #[kani::stub(crate::data::GdsFloat64::encode, enc_bits)] #[kani::stub(crate::data::GdsFloat64::decode, dec_bits)] #[kani::stub(alloc::fmt::format, fmt_stub)] #[kani::stub(crate::read::GdsParser::next, stub_next)] #[kani::unwind(16)] c10_x_p_w1_64;
    #[kani::stub(std::str::from_utf8, from_utf8_model)] #[kani::stub(crate::data::GdsFloat64::encode, enc_bits)] #[kani::stub(crate::data::GdsFloat64::decode, dec_bits)] #[kani::stub(alloc::fmt::format, fmt_stub)] #[kani::stub(crate::read::GdsParser::next, stub_next)] #[kani::unwind(16)] c10_x_p_w1_65;
    #[kani::stub(std::str::from_utf8, from_utf8_model)] #[kani::stub(crate::data::GdsFloat64::encode, enc_bits)] #[kani::stub(crate::data::GdsFloat64::decode, dec_bits)] #[kani::stub(alloc::fmt::format, fmt_stub)] #[kani::stub(crate::read::GdsParser::next, stub_next)] #[kani::unwind(16)] c10_x_p_w1_66;
    #[kani::stub(std::str::from_utf8, from_utf8_model)] #[kani::stub(crate::data::GdsFloat64::encode, enc_bits)] #[kani::stub(crate::data::GdsFloat64::decode, dec_bits)] #[kani::stub(alloc::fmt::format, fmt_stub)] #[kani::stub(crate::read::GdsParser::next, stub_next)] #[kani::unwind(16)] c10_x_p_w1_67;
    #[kani::stub(std::str::from_utf8, from_utf8_model)] #[kani::stub(crate::data::GdsFloat64::encode, enc_bits)] #[kani::stub(crate::data::GdsFloat64::decode, dec_bits)] #[kani::stub(alloc::fmt::format, fmt_stub)] #[kani::stub(crate::read::GdsParser::next, stub_next)] #[kani::unwind(16)] c10_x_p_w1_68;
    #[kani::stub(std::str::from_utf8, from_utf8_model)] #[kani::stub(crate::data::GdsFloat64::encode, enc_bits)] #[kani::stub(crate::data::GdsFloat64::decode, dec_bits)] #[kani::stub(alloc::fmt::format, fmt_stub)] #[kani::stub(crate::read::GdsParser::next, stub_next)] #[kani::unwind(16)] c10_x_p_w1_69;
    #[kani::stub(std::str::from_utf8, from_utf8_model)] #[kani::stub(crate::data::GdsFloat64::encode, enc_bits)] #[kani::stub(crate::data::GdsFloat64::decode, dec_bits)] #[kani::stub(alloc::fmt::format, fmt_stub)] #[kani::stub(crate::read::GdsParser::next, stub_next)] #[kani::unwind(16)] c10_x_p_w2_00;
    #[kani::stub(std::str::from_utf8, from_utf8_model)] #[kani::stub(crate::data::GdsFloat64::encode, enc_bits)] #[kani::stub(crate::data::GdsFloat64::decode, dec_bits)] #[kani::stub(alloc::fmt::format, fmt_stub)] #[kani::stub(crate::read::GdsParser::next, stub_next)] #[kani::unwind(16)] c10_x_p_w2_01;
    #[kani::stub(std::str::from_utf8, from_utf8_model)] #[kani::stub(crate::data::GdsFloat64::encode, enc_bits)] #[kani::stub(crate::data::GdsFloat64::decode, dec_bits)] #[kani::stub(alloc::fmt::format, fmt_stub)] #[kani::stub(crate::read::GdsParser::next, stub_next)] #[kani::unwind(16)] c10_x_p_w2_02;
    #[kani::stub(std::str::from_utf8, from_utf8_model)] #[kani::stub(crate::data::GdsFloat64::encode, enc_bits)] #[kani::stub(crate::data::GdsFloat64::decode, dec_bits)] #[kani::stub(alloc::fmt::format, fmt_stub)] #[kani::stub(crate::read::GdsParser::next, stub_next)] #[kani::unwind(16)] c10_x_p_w2_03;
    #[kani::stub(std::str::from_utf8, from_utf8_model)] #[kani::stub(crate::data::GdsFloat64::encode, enc_bits)] #[kani::stub(crate::data::GdsFloat64::decode, dec_bits)] #[kani::stub(alloc::fmt::format, fmt_stub)] #[kani::stub(crate::read::GdsParser::next, stub_next)] #[kani::unwind(16)] c10_x_p_w2_04;
    #[kani::stub(std::str::from_utf8, from_utf8_model)] #[kani::stub(crate::data::GdsFloat64::encode, enc_bits)] #[kani::stub(crate::data::GdsFloat64::decode, dec_bits)] #[kani::stub(alloc::fmt::format, fmt_stub)] #[kani::stub(crate::read::GdsParser::next, stub_next)] #[kani::unwind(16)] c10_x_p_w2_05;
    #[kani::stub(std::str::from_utf8, from_utf8_model)] #[kani::stub(crate::data::GdsFloat64::encode, enc_bits)] #[kani::stub(crate::data::GdsFloat64::decode, dec_bits)] #[kani::stub(alloc::fmt::format, fmt_stub)] #[kani::stub(crate::read::GdsParser::next, stub_next)] #[kani::unwind(16)] c10_x_p_w2_06;
    #[kani::stub(std::str::from_utf8, from_utf8_model)] #[kani::stub(crate::data::GdsFloat64::encode, enc_bits)] #[kani::stub(crate::data::GdsFloat64::decode, dec_bits)] #[kani::stub(alloc::fmt::format, fmt_stub)] #[kani::stub(crate::read::GdsParser::next, stub_next)] #[kani::unwind(16)] c10_x_p_w2_07;
    #[kani::stub(std::str::from_utf8, from_utf8_model)] #[kani::stub(crate::data::GdsFloat64::encode, enc_bits)] #[kani::stub(crate::data::GdsFloat64::decode, dec_bits)] #[kani::stub(alloc::fmt::format, fmt_stub)] #[kani::stub(crate::read::GdsParser::next, stub_next)] #[kani::unwind(16)] c10_x_p_w2_08;
    #[kani::stub(std::str::from_utf8, from_utf8_model)] #[kani::stub(crate::data::GdsFloat64::encode, enc_bits)] #[kani::stub(crate::data::GdsFloat64::decode, dec_bits)] #[kani::stub(alloc::fmt::format, fmt_stub)] #[kani::stub(crate::read::GdsParser::next, stub_next)] #[kani::unwind(16)] c10_x_p_w2_09;
    #[kani::stub(std::str::from_utf8, from_utf8_model)] #[kani::stub(crate::data::GdsFloat64::encode, enc_bits)] #[kani::stub(crate::data::GdsFloat64::decode, dec_bits)] #[kani::stub(alloc::fmt::format, fmt_stub)] #[kani::stub(crate::read::GdsParser::next, stub_next)] #[kani::unwind(16)] c10_x_p_w2_10;
    #[kani::stub(std::str::from_utf8, from_utf8_model)] #[kani::stub(crate::data::GdsFloat64::encode, enc_bits)] #[kani::stub(crate::data::GdsFloat64::decode, dec_bits)] #[kani::stub(alloc::fmt::format, fmt_stub)] #[kani::stub(crate::read::GdsParser::next, stub_next)] #[kani::unwind(16)] c10_x_p_w2_11;
    #[kani::stub(std::str::from_utf8, from_utf8_model)] #[kani::stub(crate::data::GdsFloat64::encode, enc_bits)] #[kani::stub(crate::data::GdsFloat64::decode, dec_bits)] #[kani::stub(alloc::fmt::format, fmt_stub)] #[kani::stub(crate::read::GdsParser::next, stub_next)] #[kani::unwind(16)] c10_x_p_w2_12;
    #[kani::stub(std::str::from_utf8, from_utf8_model)] #[kani::stub(crate::data::GdsFloat64::encode, enc_bits)] #[kani::stub(crate::data::GdsFloat64::decode, dec_bits)] #[kani::stub(alloc::fmt::format, fmt_stub)] #[kani::stub(crate::read::GdsParser::next, stub_next)] #[kani::unwind(16)] c10_x_p_w2_13;
    #[kani::stub(std::str::from_utf8, from_utf8_model)] #[kani::stub(crate::data::GdsFloat64::encode, enc_bits)] #[kani::stub(crate::data::GdsFloat64::decode, dec_bits)] #[kani::stub(alloc::fmt::format, fmt_stub)] #[kani::stub(crate::read::GdsParser::next, stub_next)] #[kani::unwind(16)] c10_x_p_w2_14;
    #[kani::stub(std::str::from_utf8, from_utf8_model)] #[kani::stub(crate::data::GdsFloat64::encode, enc_bits)] #[kani::stub(crate::data::GdsFloat64::decode, dec_bits)] #[kani::stub(alloc::fmt::format, fmt_stub)] #[kani::stub(crate::read::GdsParser::next, stub_next)] #[kani::unwind(16)] c10_x_p_w2_15;
    #[kani::stub(std::str::from_utf8, from_utf8_model)] #[kani::stub(crate::data::GdsFloat64::encode, enc_bits)] #[kani::stub(crate::data::GdsFloat64::decode, dec_bits)] #[kani::stub(alloc::fmt::format, fmt_stub)] #[kani::stub(crate::read::GdsParser::next, stub_next)] #[kani::unwind(16)] c10_x_p_w2_16;
    #[kani::stub(std::str::from_utf8, from_utf8_model)] #[kani::stub(crate::data::GdsFloat64::encode, enc_bits)] #[kani::stub(crate::data::GdsFloat64::decode, dec_bits)] #[kani::stub(alloc::fmt::format, fmt_stub)] #[kani::stub(crate::read::GdsParser::next, stub_next)] #[kani::unwind(16)] c10_x_p_w2_17;
    #[kani::stub(std::str::from_utf8, from_utf8_model)] #[kani::stub(crate::data::GdsFloat64::encode, enc_bits)] #[kani::stub(crate::data::GdsFloat64::decode, dec_bits)] #[kani::stub(alloc::fmt::format, fmt_stub)] #[kani::stub(crate::read::GdsParser::next, stub_next)] #[kani::unwind(16)] c10_x_p_w2_18;
    #[kani::stub(std::str::from_utf8, from_utf8_model)] #[kani::stub(crate::data::GdsFloat64::encode, enc_bits)] #[kani::stub(crate::data::GdsFloat64::decode, dec_bits)] #[kani::stub(alloc::fmt::format, fmt_stub)] #[kani::stub(crate::read::GdsParser::next, stub_next)] #[kani::unwind(16)] c10_x_p_w2_19;
    #[kani::stub(std::str::from_utf8, from_utf8_model)] #[kani::stub(crate::data::GdsFloat64::encode, enc_bits)] #[kani::stub(crate::data::GdsFloat64::decode, dec_bits)] #[kani::stub(alloc::fmt::format, fmt_stub)] #[kani::stub(crate::read::GdsParser::next, stub_next)] #[kani::unwind(16)] c10_x_p_w2_20;
    #[kani::stub(std::str::from_utf8, from_utf8_model)] #[kani::stub(crate::data::GdsFloat64::encode, enc_bits)] #[kani::stub(crate::data::GdsFloat64::decode, dec_bits)] #[kani::stub(alloc::fmt::format, fmt_stub)] #[kani::stub(crate::read::GdsParser::next, stub_next)] #[kani::unwind(16)] c10_x_p_w2_21;
    #[kani::stub(std::str::from_utf8, from_utf8_model)] #[kani::stub(crate::data::GdsFloat64::encode, enc_bits)] #[kani::stub(crate::data::GdsFloat64::decode, dec_bits)] #[kani::stub(alloc::fmt::format, fmt_stub)] #[kani::stub(crate::read::GdsParser::next, stub_next)] #[kani::unwind(16)] c10_x_p_w2_22;
    #[kani::stub(std::str::from_utf8, from_utf8_model)] #[kani::stub(crate::data::GdsFloat64::encode, enc_bits)] #[kani::stub(crate::data::GdsFloat64::decode, dec_bits)] #[kani::stub(alloc::fmt::format, fmt_stub)] #[kani::stub(crate::read::GdsParser::next, stub_next)] #[kani::unwind(16)] c10_x_p_w2_23;
    #[kani::stub(std::str::from_utf8, from_utf8_model)] #[kani::stub(crate::data::GdsFloat64::encode, enc_bits)] #[kani::stub(crate::data::GdsFloat64::decode, dec_bits)] #[kani::stub(alloc::fmt::format, fmt_stub)] #[kani::stub(crate::read::GdsParser::next, stub_next)] #[kani::unwind(16)] c10_x_p_w2_24;
    #[kani::stub(std::str::from_utf8, from_utf8_model)] #[kani::stub(crate::data::GdsFloat64::encode, enc_bits)] #[kani::stub(crate::data::GdsFloat64::decode, dec_bits)] #[kani::stub(alloc::fmt::format, fmt_stub)] #[kani::stub(crate::read::GdsParser::next, stub_next)] #[kani::unwind(16)] c10_x_p_w2_25;
    #[kani::stub(std::str::from_utf8, from_utf8_model)] #[kani::stub(crate::data::GdsFloat64::encode, enc_bits)] #[kani::stub(crate::data::GdsFloat64::decode, dec_bits)] #[kani::stub(alloc::fmt::format, fmt_stub)] #[kani::stub(crate::read::GdsParser::next, stub_next)] #[kani::unwind(16)] c10_x_p_w2_26;
    #[kani::stub(std::str::from_utf8, from_utf8_model)] #[kani::stub(crate::data::GdsFloat64::encode, enc_bits)] #[kani::stub(crate::data::GdsFloat64::decode, dec_bits)] #[kani::stub(alloc::fmt::format, fmt_stub)] #[kani::stub(crate::read::GdsParser::next, stub_next)] #[kani::unwind(16)] c10_x_p_w2_27;
    #[kani::stub(std::str::from_utf8, from_utf8_model)] #[kani::stub(crate::data::GdsFloat64::encode, enc_bits)] #[kani::stub(crate::data::GdsFloat64::decode, dec_bits)] #[kani::stub(alloc::fmt::format, fmt_stub)] #[kani::stub(crate::read::GdsParser::next, stub_next)] #[kani::unwind(16)] c10_x_p_w2_28;
    #[kani::stub(std::str::from_utf8, from_utf8_model)] #[kani::stub(crate::data::GdsFloat64::encode, enc_bits)] #[kani::stub(crate::data::GdsFloat64::decode, dec_bits)] #[kani::stub(alloc::fmt::format, fmt_stub)] #[kani::stub(crate::read::GdsParser::next, stub_next)] #[kani::unwind(16)] c10_x_p_w2_29;
    #[kani::stub(std::str::from_utf8, from_utf8_model)] #[kani::stub(crate::data::GdsFloat64::encode, enc_bits)] #[kani::stub(crate::data::GdsFloat64::decode, dec_bits)] #[kani::stub(alloc::fmt::format, fmt_stub)] #[kani::stub(crate::read::GdsParser::next, stub_next)] #[kani::unwind(16)] c10_x_p_w2_30;
    #[kani::stub(std::str::from_utf8, from_utf8_model)] #[kani::stub(crate::data::GdsFloat64::encode, enc_bits)] #[kani::stub(crate::data::GdsFloat64::decode, dec_bits)] #[kani::stub(alloc::fmt::format, fmt_stub)] #[kani::stub(crate::read::GdsParser::next, stub_next)] #[kani::unwind(16)] c10_x_p_w2_31;
    #[kani::stub(std::str::from_utf8, from_utf8_model)] #[kani::stub(crate::data::GdsFloat64::encode, enc_bits)] #[kani::stub(crate::data::GdsFloat64::decode, dec_bits)] #[kani::stub(alloc::fmt::format, fmt_stub)] #[kani::stub(crate::read::GdsParser::next, stub_next)] #[kani::unwind(16)] c10_x_p_w2_32;
    #[kani::stub(std::str::from_utf8, from_utf8_model)] #[kani::stub(crate::data::GdsFloat64::encode, enc_bits)] #[kani::stub(crate::data::GdsFloat64::decode, dec_bits)] #[kani::stub(alloc::fmt::format, fmt_stub)] #[kani::stub(crate::read::GdsParser::next, stub_next)] #[kani::unwind(16)] c10_x_p_w2_33;
    #[kani::stub(std::str::from_utf8, from_utf8_model)] #[kani::stub(crate::data::GdsFloat64::encode, enc_bits)] #[kani::stub(crate::data::GdsFloat64::decode, dec_bits)] #[kani::stub(alloc::fmt::format, fmt_stub)] #[kani::stub(crate::read::GdsParser::next, stub_next)] #[kani::unwind(16)] c10_x_p_w2_34;
    #[kani::stub(std::str::from_utf8, from_utf8_model)] #[kani::stub(crate::data::GdsFloat64::encode, enc_bits)] #[kani::stub(crate::data::GdsFloat64::decode, dec_bits)] #[kani::stub(alloc::fmt::format, fmt_stub)] #[kani::stub(crate::read::GdsParser::next, stub_next)] #[kani::unwind(16)] c10_x_p_w2_35;
    #[kani::stub(std::str::from_utf8, from_utf8_model)] #[kani::stub(crate::data::GdsFloat64::encode, enc_bits)] #[kani::stub(crate::data::GdsFloat64::decode, dec_bits)] #[kani::stub(alloc::fmt::format, fmt_stub)] #[kani::stub(crate::read::GdsParser::next, stub_next)] #[kani::unwind(16)] c10_x_p_w2_36;
    #[kani::stub(std::str::from_utf8, from_utf8_model)] #[kani::stub(crate::data::GdsFloat64::encode, enc_bits)] #[kani::stub(crate::data::GdsFloat64::decode, dec_bits)] #[kani::stub(alloc::fmt::format, fmt_stub)] #[kani::stub(crate::read::GdsParser::next, stub_next)] #[kani::unwind(16)] c10_x_p_w2_37;
    #[kani::stub(std::str::from_utf8, from_utf8_model)] #[kani::stub(crate::data::GdsFloat64::encode, enc_bits)] #[kani::stub(crate::data::GdsFloat64::decode, dec_bits)] #[kani::stub(alloc::fmt::format, fmt_stub)] #[kani::stub(crate::read::GdsParser::next, stub_next)] #[kani::unwind(16)] c10_x_p_w2_38;
    #[kani::stub(std::str::from_utf8, from_utf8_model)] #[kani::stub(crate::data::GdsFloat64::encode, enc_bits)] #[kani::stub(crate::data::GdsFloat64::decode, dec_bits)] #[kani::stub(alloc::fmt::format, fmt_stub)] #[kani::stub(crate::read::GdsParser::next, stub_next)] #[kani::unwind(16)] c10_x_p_w2_39;
    #[kani::stub(std::str::from_utf8, from_utf8_model)] #[kani::stub(crate::data::GdsFloat64::encode, enc_bits)] #[kani::stub(crate::data::GdsFloat64::decode, dec_bits)] #[kani::stub(alloc::fmt::format, fmt_stub)] #[kani::stub(crate::read::GdsParser::next, stub_next)] #[kani::unwind(16)] c10_x_p_w2_40;
    #[kani::stub(std::str::from_utf8, from_utf8_model)] #[kani::stub(crate::data::GdsFloat64::encode, enc_bits)] #[kani::stub(crate::data::GdsFloat64::decode, dec_bits)] #[kani::stub(alloc::fmt::format, fmt_stub)] #[kani::stub(crate::read::GdsParser::next, stub_next)] #[kani::unwind(16)] c10_x_p_w2_41;
    #[kani::stub(std::str::from_utf8, from_utf8_model)] #[kani::stub(crate::data::GdsFloat64::encode, enc_bits)] #[kani::stub(crate::data::GdsFloat64::decode, dec_bits)] #[kani::stub(alloc::fmt::format, fmt_stub)] #[kani::stub(crate::read::GdsParser::next, stub_next)] #[kani::unwind(16)] c10_x_p_w2_42;
    #[kani::stub(std::str::from_utf8, from_utf8_model)] #[kani::stub(crate::data::GdsFloat64::encode, enc_bits)] #[kani::stub(crate::data::GdsFloat64::decode, dec_bits)] #[kani::stub(alloc::fmt::format, fmt_stub)] #[kani::stub(crate::read::GdsParser::next, stub_next)] #[kani::unwind(16)] c10_x_p_w2_43;
    #[kani::stub(std::str::from_utf8, from_utf8_model)] #[kani::stub(crate::data::GdsFloat64::encode, enc_bits)] #[kani::stub(crate::data::GdsFloat64::decode, dec_bits)] #[kani::stub(alloc::fmt::format, fmt_stub)] #[kani::stub(crate::read::GdsParser::next, stub_next)] #[kani::unwind(16)] c10_x_p_w2_44;
    #[kani::stub(std::str::from_utf8, from_utf8_model)] #[kani::stub(crate::data::GdsFloat64::encode, enc_bits)] #[kani::stub(crate::data::GdsFloat64::decode, dec_bits)] #[kani::stub(alloc::fmt::format, fmt_stub)] #[kani::stub(crate::read::GdsParser::next, stub_next)] #[kani::unwind(16)] c10_x_p_w2_45;
    #[kani::stub(std::str::from_utf8, from_utf8_model)] #[kani::stub(crate::data::GdsFloat64::encode, enc_bits)] #[kani::stub(crate::data::GdsFloat64::decode, dec_bits)] #[kani::stub(alloc::fmt::format, fmt_stub)] #[kani::stub(crate::read::GdsParser::next, stub_next)] #[kani::unwind(16)] c10_x_p_w2_46;
    #[kani::stub(std::str::from_utf8, from_utf8_model)] #[kani::stub(crate::data::GdsFloat64::encode, enc_bits)] #[kani::stub(crate::data::GdsFloat64::decode, dec_bits)] #[kani::stub(alloc::fmt::format, fmt_stub)] #[kani::stub(crate::read::GdsParser::next, stub_next)] #[kani::unwind(16)] c10_x_p_w2_47;
    #[kani::stub(std::str::from_utf8, from_utf8_model)] #[kani::stub(crate::data::GdsFloat64::encode, enc_bits)] #[kani::stub(crate::data::GdsFloat64::decode, dec_bits)] #[kani::stub(alloc::fmt::format, fmt_stub)] #[kani::stub(crate::read::GdsParser::next, stub_next)] #[kani::unwind(16)] c10_x_p_w2_48;
    #[kani::stub(std::str::from_utf8, from_utf8_model)] #[kani::stub(crate::data::GdsFloat64::encode, enc_bits)] #[kani::stub(crate::data::GdsFloat64::decode, dec_bits)] #[kani::stub(alloc::fmt::format, fmt_stub)] #[kani::stub(crate::read::GdsParser::next, stub_next)] #[kani::unwind(16)] c10_x_p_w2_49;
    #[kani::stub(std::str::from_utf8, from_utf8_model)] #[kani::stub(crate::data::GdsFloat64::encode, enc_bits)] #[kani::stub(crate::data::GdsFloat64::decode, dec_bits)] #[kani::stub(alloc::fmt::format, fmt_stub)] #[kani::stub(crate::read::GdsParser::next, stub_next)] #[kani::unwind(16)] c10_x_p_w2_50;
    #[kani::stub(std::str::from_utf8, from_utf8_model)] #[kani::stub(crate::data::GdsFloat64::encode, enc_bits)] #[kani::stub(crate::data::GdsFloat64::decode, dec_bits)] #[kani::stub(alloc::fmt::format, fmt_stub)] #[kani::stub(crate::read::GdsParser::next, stub_next)] #[kani::unwind(16)] c10_x_p_w2_51;
    #[kani::stub(std::str::from_utf8, from_utf8_model)] #[kani::stub(crate::data::GdsFloat64::encode, enc_bits)] #[kani::stub(crate::data::GdsFloat64::decode, dec_bits)] #[kani::stub(alloc::fmt::format, fmt_stub)] #[kani::stub(crate::read::GdsParser::next, stub_next)] #[kani::unwind(16)] c10_x_p_w2_52;
    #[kani::stub(std::str::from_utf8, from_utf8_model)] #[kani::stub(crate::data::GdsFloat64::encode, enc_bits)] #[kani::stub(crate::data::GdsFloat64::decode, dec_bits)] #[kani::stub(alloc::fmt::format, fmt_stub)] #[kani::stub(crate::read::GdsParser::next, stub_next)] #[kani::unwind(16)] c10_x_p_w2_53;
    #[kani::stub(std::str::from_utf8, from_utf8_model)] #[kani::stub(crate::data::GdsFloat64::encode, enc_bits)] #[kani::stub(crate::data::GdsFloat64::decode, dec_bits)] #[kani::stub(alloc::fmt::format, fmt_stub)] #[kani::stub(crate::read::GdsParser::next, stub_next)] #[kani::unwind(16)] c10_x_p_w2_54;
    #[kani::stub(std::str::from_utf8, from_utf8_model)] #[kani::stub(crate::data::GdsFloat64::encode, enc_bits)] #[kani::stub(crate::data::GdsFloat64::decode, dec_bits)] #[kani::stub(alloc::fmt::format, fmt_stub)] #[kani::stub(crate::read::GdsParser::next, stub_next)] #[kani::unwind(16)] c10_x_p_w2_55;
    #[kani::stub(std::str::from_utf8, from_utf8_model)] #[kani::stub(crate::data::GdsFloat64::encode, enc_bits)] #[kani::stub(crate::data::GdsFloat64::decode, dec_bits)] #[kani::stub(alloc::fmt::format, fmt_stub)] #[kani::stub(crate::read::GdsParser::next, stub_next)] #[kani::unwind(16)] c10_x_p_w2_56;
    #[kani::stub(std::str::from_utf8, from_utf8_model)] #[kani::stub(crate::data::GdsFloat64::encode, enc_bits)] #[kani::stub(crate::data::GdsFloat64::decode, dec_bits)] #[kani::stub(alloc::fmt::format, fmt_stub)] #[kani::stub(crate::read::GdsParser::next, stub_next)] #[kani::unwind(16)] c10_x_p_w2_57;
    #[kani::stub(std::str::from_utf8, from_utf8_model)] #[kani::stub(crate::data::GdsFloat64::encode, enc_bits)] #[kani::stub(crate::data::GdsFloat64::decode, dec_bits)] #[kani::stub(alloc::fmt::format, fmt_stub)] #[kani::stub(crate::read::GdsParser::next, stub_next)] #[kani::unwind(16)] c10_x_p_w2_58;
    #[kani::stub(std::str::from_utf8, from_utf8_model)] #[kani::stub(crate::data::GdsFloat64::encode, enc_bits)] #[kani::stub(crate::data::GdsFloat64::decode, dec_bits)] #[kani::stub(alloc::fmt::format, fmt_stub)] #[kani::stub(crate::read::GdsParser::next, stub_next)] #[kani::unwind(16)] c10_x_p_w2_59;
    #[kani::stub(std::str::from_utf8, from_utf8_model)] #[kani::stub(crate::data::GdsFloat64::encode, enc_bits)] #[kani::stub(crate::data::GdsFloat64::decode, dec_bits)] #[kani::stub(alloc::fmt::format, fmt_stub)] #[kani::stub(crate::read::GdsParser::next, stub_next)] #[kani::unwind(16)] c10_x_p_w2_60;
    #[kani::stub(std::str::from_utf8, from_utf8_model)] #[kani::stub(crate::data::GdsFloat64::encode, enc_bits)] #[kani::stub(crate::data::GdsFloat64::decode, dec_bits)] #[kani::stub(alloc::fmt::format, fmt_stub)] #[kani::stub(crate::read::GdsParser::next, stub_next)] #[kani::unwind(16)] c10_x_p_w2_61;
    #[kani::stub(std::str::from_utf8, from_utf8_model)] #[kani::stub(crate::data::GdsFloat64::encode, enc_bits)] #[kani::stub(crate::data::GdsFloat64::decode, dec_bits)] #[kani::stub(alloc::fmt::format, fmt_stub)] #[kani::stub(crate::read::GdsParser::next, stub_next)] #[kani::unwind(16)] c10_x_p_w2_62;
    #[kani::stub(std::str::from_utf8, from_utf8_model)] #[kani::stub(crate::data::GdsFloat64::encode, enc_bits)] #[kani::stub(crate::data::GdsFloat64::decode, dec_bits)] #[kani::stub(alloc::fmt::format, fmt_stub)] #[kani::stub(crate::read::GdsParser::next, stub_next)] #[kani::unwind(16)] c10_x_p_w2_63;
    #[kani::stub(std::str::from_utf8, from_utf8_model)] #[kani::stub(crate::data::GdsFloat64::encode, enc_bits)] #[kani::stub(crate::data::GdsFloat64::decode, dec_bits)] #[kani::stub(alloc::fmt::format, fmt_stub)] #[kani::stub(crate::read::GdsParser::next, stub_next)] #[kani::unwind(16)] c10_x_p_w2_64;
    #[kani::stub(std::str::from_utf8, from_utf8_model)] #[kani::stub(crate::data::GdsFloat64::encode, enc_bits)] #[kani::stub(crate::data::GdsFloat64::decode, dec_bits)] #[kani::stub(alloc::fmt::format, fmt_stub)] #[kani::stub(crate::read::GdsParser::next, stub_next)] #[kani::unwind(16)] c10_x_p_w2_65;
    #[kani::stub(std::str::from_utf8, from_utf8_model)] #[kani::stub(crate::data::GdsFloat64::encode, enc_bits)] #[kani::stub(crate::data::GdsFloat64::decode, dec_bits)] #[kani::stub(alloc::fmt::format, fmt_stub)] #[kani::stub(crate::read::GdsParser::next, stub_next)] #[kani::unwind(16)] c10_x_p_w2_66;
    #[kani::stub(std::str::from_utf8, from_utf8_model)] #[kani::stub(crate::data::GdsFloat64::encode, enc_bits)] #[kani::stub(crate::data::GdsFloat64::decode, dec_bits)] #[kani::stub(alloc::fmt::format, fmt_stub)] #[kani::stub(crate::read::GdsParser::next, stub_next)] #[kani::unwind(16)] c10_x_p_w2_67;
    #[kani::stub(std::str::from_utf8, from_utf8_model)] #[kani::stub(crate::data::GdsFloat64::encode, enc_bits)] #[kani::stub(crate::data::GdsFloat64::decode, dec_bits)] #[kani::stub(alloc::fmt::format, fmt_stub)] #[kani::stub(crate::read::GdsParser::next, stub_next)] #[kani::unwind(16)] c10_x_p_w2_68;
    #[kani::stub(std::str::from_utf8, from_utf8_model)] #[kani::stub(crate::data::GdsFloat64::encode, enc_bits)] #[kani::stub(crate::data::GdsFloat64::decode, dec_bits)] #[kani::stub(alloc::fmt::format, fmt_stub)] #[kani::stub(crate::read::GdsParser::next, stub_next)] #[kani::unwind(16)] c10_x_p_w2_69;
    #[kani::stub(std::str::from_utf8, from_utf8_model)] #[kani::stub(crate::data::GdsFloat64::encode, enc_bits)] #[kani::stub(crate::data::GdsFloat64::decode, dec_bits)] #[kani::stub(alloc::fmt::format, fmt_stub)] #[kani::stub(crate::read::GdsParser::next, stub_next)] #[kani::unwind(16)] c10_x_p_w3_00;
    #[kani::stub(std::str::from_utf8, from_utf8_model)] #[kani::stub(crate::data::GdsFloat64::encode, enc_bits)] #[kani::stub(crate::data::GdsFloat64::decode, dec_bits)] #[kani::stub(alloc::fmt::format, fmt_stub)] #[kani::stub(crate::read::GdsParser::next, stub_next)] #[kani::unwind(16)] c10_x_p_w3_01;
    #[kani::stub(std::str::from_utf8, from_utf8_model)] #[kani::stub(crate::data::GdsFloat64::encode, enc_bits)] #[kani::stub(crate::data::GdsFloat64::decode, dec_bits)] #[kani::stub(alloc::fmt::format, fmt_stub)] #[kani::stub(crate::read::GdsParser::next, stub_next)] #[kani::unwind(16)] c10_x_p_w3_02;
    #[kani::stub(std::str::from_utf8, from_utf8_model)] #[kani::stub(crate::data::GdsFloat64::encode, enc_bits)] #[kani::stub(crate::data::GdsFloat64::decode, dec_bits)] #[kani::stub(alloc::fmt::format, fmt_stub)] #[kani::stub(crate::read::GdsParser::next, stub_next)] #[kani::unwind(16)] c10_x_p_w3_03;
    #[kani::stub(std::str::from_utf8, from_utf8_model)] #[kani::stub(crate::data::GdsFloat64::encode, enc_bits)] #[kani::stub(crate::data::GdsFloat64::decode, dec_bits)] #[kani::stub(alloc::fmt::format, fmt_stub)] #[kani::stub(crate::read::GdsParser::next, stub_next)] #[kani::unwind(16)] c10_x_p_w3_04;
    #[kani::stub(std::str::from_utf8, from_utf8_model)] #[kani::stub(crate::data::GdsFloat64::encode, enc_bits)] #[kani::stub(crate::data::GdsFloat64::decode, dec_bits)] #[kani::stub(alloc::fmt::format, fmt_stub)] #[kani::stub(crate::read::GdsParser::next, stub_next)] #[kani::unwind(16)] c10_x_p_w3_05;
    #[kani::stub(std::str::from_utf8, from_utf8_model)] #[kani::stub(crate::data::GdsFloat64::encode, enc_bits)] #[kani::stub(crate::data::GdsFloat64::decode, dec_bits)] #[kani::stub(alloc::fmt::format, fmt_stub)] #[kani::stub(crate::read::GdsParser::next, stub_next)] #[kani::unwind(16)] c10_x_p_w3_06;
    #[kani::stub(std::str::from_utf8, from_utf8_model)] #[kani::stub(crate::data::GdsFloat64::encode, enc_bits)] #[kani::stub(crate::data::GdsFloat64::decode, dec_bits)] #[kani::stub(alloc::fmt::format, fmt_stub)] #[kani::stub(crate::read::GdsParser::next, stub_next)] #[kani::unwind(16)] c10_x_p_w3_07;
    #[kani::stub(std::str::from_utf8, from_utf8_model)] #[kani::stub(crate::data::GdsFloat64::encode, enc_bits)] #[kani::stub(crate::data::GdsFloat64::decode, dec_bits)] #[kani::stub(alloc::fmt::format, fmt_stub)] #[kani::stub(crate::read::GdsParser::next, stub_next)] #[kani::unwind(16)] c10_x_p_w3_08;
    #[kani::stub(std::str::from_utf8, from_utf8_model)] #[kani::stub(crate::data::GdsFloat64::encode, enc_bits)] #[kani::stub(crate::data::GdsFloat64::decode, dec_bits)] #[kani::stub(alloc::fmt::format, fmt_stub)] #[kani::stub(crate::read::GdsParser::next, stub_next)] #[kani::unwind(16)] c10_x_p_w3_09;
    #[kani::stub(std::str::from_utf8, from_utf8_model)] #[kani::stub(crate::data::GdsFloat64::encode, enc_bits)] #[kani::stub(crate::data::GdsFloat64::decode, dec_bits)] #[kani::stub(alloc::fmt::format, fmt_stub)] #[kani::stub(crate::read::GdsParser::next, stub_next)] #[kani::unwind(16)] c10_x_p_w3_10;
    #[kani::stub(std::str::from_utf8, from_utf8_model)] #[kani::stub(crate::data::GdsFloat64::encode, enc_bits)] #[kani::stub(crate::data::GdsFloat64::decode, dec_bits)] #[kani::stub(alloc::fmt::format, fmt_stub)] #[kani::stub(crate::read::GdsParser::next, stub_next)] #[kani::unwind(16)] c10_x_p_w3_11;
    #[kani::stub(std::str::from_utf8, from_utf8_model)] #[kani::stub(crate::data::GdsFloat64::encode, enc_bits)] #[kani::stub(crate::data::GdsFloat64::decode, dec_bits)] #[kani::stub(alloc::fmt::format, fmt_stub)] #[kani::stub(crate::read::GdsParser::next, stub_next)] #[kani::unwind(16)] c10_x_p_w3_12;
    #[kani::stub(std::str::from_utf8, from_utf8_model)] #[kani::stub(crate::data::GdsFloat64::encode, enc_bits)] #[kani::stub(crate::data::GdsFloat64::decode, dec_bits)] #[kani::stub(alloc::fmt::format, fmt_stub)] #[kani::stub(crate::read::GdsParser::next, stub_next)] #[kani::unwind(16)] c10_x_p_w3_13;
    #[kani::stub(std::str::from_utf8, from_utf8_model)] #[kani::stub(crate::data::GdsFloat64::encode, enc_bits)] #[kani::stub(crate::data::GdsFloat64::decode, dec_bits)] #[kani::stub(alloc::fmt::format, fmt_stub)] #[kani::stub(crate::read::GdsParser::next, stub_next)] #[kani::unwind(16)] c10_x_p_w3_14;
    #[kani::stub(std::str::from_utf8, from_utf8_model)] #[kani::stub(crate::data::GdsFloat64::encode, enc_bits)] #[kani::stub(crate::data::GdsFloat64::decode, dec_bits)] #[kani::stub(alloc::fmt::format, fmt_stub)] #[kani::stub(crate::read::GdsParser::next, stub_next)] #[kani::unwind(16)] c10_x_p_w3_15;
    #[kani::stub(std::str::from_utf8, from_utf8_model)] #[kani::stub(crate::data::GdsFloat64::encode, enc_bits)] #[kani::stub(crate::data::GdsFloat64::decode, dec_bits)] #[kani::stub(alloc::fmt::format, fmt_stub)] #[kani::stub(crate::read::GdsParser::next, stub_next)] #[kani::unwind(16)] c10_x_p_w3_16;
    #[kani::stub(std::str::from_utf8, from_utf8_model)] #[kani::stub(crate::data::GdsFloat64::encode, enc_bits)] #[kani::stub(crate::data::GdsFloat64::decode, dec_bits)] #[kani::stub(alloc::fmt::format, fmt_stub)] #[kani::stub(crate::read::GdsParser::next, stub_next)] #[kani::unwind(16)] c10_x_p_w3_17;
    #[kani::stub(std::str::from_utf8, from_utf8_model)] #[kani::stub(crate::data::GdsFloat64::encode, enc_bits)] #[kani::stub(crate::data::GdsFloat64::decode, dec_bits)] #[kani::stub(alloc::fmt::format, fmt_stub)] #[kani::stub(crate::read::GdsParser::next, stub_next)] #[kani::unwind(16)] c10_x_p_w3_18;
    #[kani::stub(std::str::from_utf8, from_utf8_model)] #[kani::stub(crate::data::GdsFloat64::encode, enc_bits)] #[kani::stub(crate::data::GdsFloat64::decode, dec_bits)] #[kani::stub(alloc::fmt::format, fmt_stub)] #[kani::stub(crate::read::GdsParser::next, stub_next)] #[kani::unwind(16)] c10_x_p_w3_19;
    #[kani::stub(std::str::from_utf8, from_utf8_model)] #[kani::stub(crate::data::GdsFloat64::encode, enc_bits)] #[kani::stub(crate::data::GdsFloat64::decode, dec_bits)] #[kani::stub(alloc::fmt::format, fmt_stub)] #[kani::stub(crate::read::GdsParser::next, stub_next)] #[kani::unwind(16)] c10_x_p_w3_20;
    #[kani::stub(std::str::from_utf8, from_utf8_model)] #[kani::stub(crate::data::GdsFloat64::encode, enc_bits)] #[kani::stub(crate::data::GdsFloat64::decode, dec_bits)] #[kani::stub(alloc::fmt::format, fmt_stub)] #[kani::stub(crate::read::GdsParser::next, stub_next)] #[kani::unwind(16)] c10_x_p_w3_21;
    #[kani::stub(std::str::from_utf8, from_utf8_model)] #[kani::stub(crate::data::GdsFloat64::encode, enc_bits)] #[kani::stub(crate::data::GdsFloat64::decode, dec_bits)] #[kani::stub(alloc::fmt::format, fmt_stub)] #[kani::stub(crate::read::GdsParser::next, stub_next)] #[kani::unwind(16)] c10_x_p_w3_22;
    #[kani::stub(std::str::from_utf8, from_utf8_model)] #[kani::stub(crate::data::GdsFloat64::encode, enc_bits)] #[kani::stub(crate::data::GdsFloat64::decode, dec_bits)] #[kani::stub(alloc::fmt::format, fmt_stub)] #[kani::stub(crate::read::GdsParser::next, stub_next)] #[kani::unwind(16)] c10_x_p_w3_23;
    #[kani::stub(std::str::from_utf8, from_utf8_model)] #[kani::stub(crate::data::GdsFloat64::encode, enc_bits)] #[kani::stub(crate::data::GdsFloat64::decode, dec_bits)] #[kani::stub(alloc::fmt::format, fmt_stub)] #[kani::stub(crate::read::GdsParser::next, stub_next)] #[kani::unwind(16)] c10_x_p_w3_24;
    #[kani::stub(std::str::from_utf8, from_utf8_model)] #[kani::stub(crate::data::GdsFloat64::encode, enc_bits)] #[kani::stub(crate::data::GdsFloat64::decode, dec_bits)] #[kani::stub(alloc::fmt::format, fmt_stub)] #[kani::stub(crate::read::GdsParser::next, stub_next)] #[kani::unwind(16)] c10_x_p_w3_25;
    #[kani::stub(std::str::from_utf8, from_utf8_model)] #[kani::stub(crate::data::GdsFloat64::encode, enc_bits)] #[kani::stub(crate::data::GdsFloat64::decode, dec_bits)] #[kani::stub(alloc::fmt::format, fmt_stub)] #[kani::stub(crate::read::GdsParser::next, stub_next)] #[kani::unwind(16)] c10_x_p_w3_26;
    #[kani::stub(std::str::from_utf8, from_utf8_model)] #[kani::stub(crate::data::GdsFloat64::encode, enc_bits)] #[kani::stub(crate::data::GdsFloat64::decode, dec_bits)] #[kani::stub(alloc::fmt::format, fmt_stub)] #[kani::stub(crate::read::GdsParser::next, stub_next)] #[kani::unwind(16)] c10_x_p_w3_27;
    #[kani::stub(std::str::from_utf8, from_utf8_model)] #[kani::stub(crate::data::GdsFloat64::encode, enc_bits)] #[kani::stub(crate::data::GdsFloat64::decode, dec_bits)] #[kani::stub(alloc::fmt::format, fmt_stub)] #[kani::stub(crate::read::GdsParser::next, stub_next)] #[kani::unwind(16)] c10_x_p_w3_28;
    #[kani::stub(std::str::from_utf8, from_utf8_model)] #[kani::stub(crate::data::GdsFloat64::encode, enc_bits)] #[kani::stub(crate::data::GdsFloat64::decode, dec_bits)] #[kani::stub(alloc::fmt::format, fmt_stub)] #[kani::stub(crate::read::GdsParser::next, stub_next)] #[kani::unwind(16)] c10_x_p_w3_29;
    #[kani::stub(std::str::from_utf8, from_utf8_model)] #[kani::stub(crate::data::GdsFloat64::encode, enc_bits)] #[kani::stub(crate::data::GdsFloat64::decode, dec_bits)] #[kani::stub(alloc::fmt::format, fmt_stub)] #[kani::stub(crate::read::GdsParser::next, stub_next)] #[kani::unwind(16)] c10_x_p_w3_30;
    #[kani::stub(std::str::from_utf8, from_utf8_model)] #[kani::stub(crate::data::GdsFloat64::encode, enc_bits)] #[kani::stub(crate::data::GdsFloat64::decode, dec_bits)] #[kani::stub(alloc::fmt::format, fmt_stub)] #[kani::stub(crate::read::GdsParser::next, stub_next)] #[kani::unwind(16)] c10_x_p_w3_31;
    #[kani::stub(std::str::from_utf8, from_utf8_model)] #[kani::stub(crate::data::GdsFloat64::encode, enc_bits)] #[kani::stub(crate::data::GdsFloat64::decode, dec_bits)] #[kani::stub(alloc::fmt::format, fmt_stub)] #[kani::stub(crate::read::GdsParser::next, stub_next)] #[kani::unwind(16)] c10_x_p_w3_32;
    #[kani::stub(std::str::from_utf8, from_utf8_model)] #[kani::stub(crate::data::GdsFloat64::encode, enc_bits)] #[kani::stub(crate::data::GdsFloat64::decode, dec_bits)] #[kani::stub(alloc::fmt::format, fmt_stub)] #[kani::stub(crate::read::GdsParser::next, stub_next)] #[kani::unwind(16)] c10_x_p_w3_33;
    #[kani::stub(std::str::from_utf8, from_utf8_model)] #[kani::stub(crate::data::GdsFloat64::encode, enc_bits)] #[kani::stub(crate::data::GdsFloat64::decode, dec_bits)] #[kani::stub(alloc::fmt::format, fmt_stub)] #[kani::stub(crate::read::GdsParser::next, stub_next)] #[kani::unwind(16)] c10_x_p_w3_34;
    #[kani::stub(std::str::from_utf8, from_utf8_model)] #[kani::stub(crate::data::GdsFloat64::encode, enc_bits)] #[kani::stub(crate::data::GdsFloat64::decode, dec_bits)] #[kani::stub(alloc::fmt::format, fmt_stub)] #[kani::stub(crate::read::GdsParser::next, stub_next)] #[kani::unwind(16)] c10_x_p_w3_35;
    #[kani::stub(std::str::from_utf8, from_utf8_model)] #[kani::stub(crate::data::GdsFloat64::encode, enc_bits)] #[kani::stub(crate::data::GdsFloat64::decode, dec_bits)] #[kani::stub(alloc::fmt::format, fmt_stub)] #[kani::stub(crate::read::GdsParser::next, stub_next)] #[kani::unwind(16)] c10_x_p_w3_36;
    #[kani::stub(std::str::from_utf8, from_utf8_model)] #[kani::stub(crate::data::GdsFloat64::encode, enc_bits)] #[kani::stub(crate::data::GdsFloat64::decode, dec_bits)] #[kani::stub(alloc::fmt::format, fmt_stub)] #[kani::stub(crate::read::GdsParser::next, stub_next)] #[kani::unwind(16)] c10_x_p_w3_37;
    #[kani::stub(std::str::from_utf8, from_utf8_model)] #[kani::stub(crate::data::GdsFloat64::encode, enc_bits)] #[kani::stub(crate::data::GdsFloat64::decode, dec_bits)] #[kani::stub(alloc::fmt::format, fmt_stub)] #[kani::stub(crate::read::GdsParser::next, stub_next)] #[kani::unwind(16)] c10_x_p_w3_38;
    #[kani::stub(std::str::from_utf8, from_utf8_model)] #[kani::stub(crate::data::GdsFloat64::encode, enc_bits)] #[kani::stub(crate::data::GdsFloat64::decode, dec_bits)] #[kani::stub(alloc::fmt::format, fmt_stub)] #[kani::stub(crate::read::GdsParser::next, stub_next)] #[kani::unwind(16)] c10_x_p_w3_39;
    #[kani::stub(std::str::from_utf8, from_utf8_model)] #[kani::stub(crate::data::GdsFloat64::encode, enc_bits)] #[kani::stub(crate::data::GdsFloat64::decode, dec_bits)] #[kani::stub(alloc::fmt::format, fmt_stub)] #[kani::stub(crate::read::GdsParser::next, stub_next)] #[kani::unwind(16)] c10_x_p_w3_40;
    #[kani::stub(std::str::from_utf8, from_utf8_model)] #[kani::stub(crate::data::GdsFloat64::encode, enc_bits)] #[kani::stub(crate::data::GdsFloat64::decode, dec_bits)] #[kani::stub(alloc::fmt::format, fmt_stub)] #[kani::stub(crate::read::GdsParser::next, stub_next)] #[kani::unwind(16)] c10_x_p_w3_41;
    #[kani::stub(std::str::from_utf8, from_utf8_model)] #[kani::stub(crate::data::GdsFloat64::encode, enc_bits)] #[kani::stub(crate::data::GdsFloat64::decode, dec_bits)] #[kani::stub(alloc::fmt::format, fmt_stub)] #[kani::stub(crate::read::GdsParser::next, stub_next)] #[kani::unwind(16)] c10_x_p_w3_42;
    #[kani::stub(std::str::from_utf8, from_utf8_model)] #[kani::stub(crate::data::GdsFloat64::encode, enc_bits)] #[kani::stub(crate::data::GdsFloat64::decode, dec_bits)] #[kani::stub(alloc::fmt::format, fmt_stub)] #[kani::stub(crate::read::GdsParser::next, stub_next)] #[kani::unwind(16)] c10_x_p_w3_43;
    #[kani::stub(std::str::from_utf8, from_utf8_model)] #[kani::stub(crate::data::GdsFloat64::encode, enc_bits)] #[kani::stub(crate::data::GdsFloat64::decode, dec_bits)] #[kani::stub(alloc::fmt::format, fmt_stub)] #[kani::stub(crate::read::GdsParser::next, stub_next)] #[kani::unwind(16)] c10_x_p_w3_44;
    #[kani::stub(std::str::from_utf8, from_utf8_model)] #[kani::stub(crate::data::GdsFloat64::encode, enc_bits)] #[kani::stub(crate::data::GdsFloat64::decode, dec_bits)] #[kani::stub(alloc::fmt::format, fmt_stub)] #[kani::stub(crate::read::GdsParser::next, stub_next)] #[kani::unwind(16)] c10_x_p_w3_45;
    #[kani::stub(std::str::from_utf8, from_utf8_model)] #[kani::stub(crate::data::GdsFloat64::encode, enc_bits)] #[kani::stub(crate::data::GdsFloat64::decode, dec_bits)] #[kani::stub(alloc::fmt::format, fmt_stub)] #[kani::stub(crate::read::GdsParser::next, stub_next)] #[kani::unwind(16)] c10_x_p_w3_46;
    #[kani::stub(std::str::from_utf8, from_utf8_model)] #[kani::stub(crate::data::GdsFloat64::encode, enc_bits)] #[kani::stub(crate::data::GdsFloat64::decode, dec_bits)] #[kani::stub(alloc::fmt::format, fmt_stub)] #[kani::stub(crate::read::GdsParser::next, stub_next)] #[kani::unwind(16)] c10_x_p_w3_47;
    #[kani::stub(std::str::from_utf8, from_utf8_model)] #[kani::stub(crate::data::GdsFloat64::encode, enc_bits)] #[kani::stub(crate::data::GdsFloat64::decode, dec_bits)] #[kani::stub(alloc::fmt::format, fmt_stub)] #[kani::stub(crate::read::GdsParser::next, stub_next)] #[kani::unwind(16)] c10_x_p_w3_48;
    #[kani::stub(std::str::from_utf8, from_utf8_model)] #[kani::stub(crate::data::GdsFloat64::encode, enc_bits)] #[kani::stub(crate::data::GdsFloat64::decode, dec_bits)] #[kani::stub(alloc::fmt::format, fmt_stub)] #[kani::stub(crate::read::GdsParser::next, stub_next)] #[kani::unwind(16)] c10_x_p_w3_49;
    #[kani::stub(std::str::from_utf8, from_utf8_model)] #[kani::stub(crate::data::GdsFloat64::encode, enc_bits)] #[kani::stub(crate::data::GdsFloat64::decode, dec_bits)] #[kani::stub(alloc::fmt::format, fmt_stub)] #[kani::stub(crate::read::GdsParser::next, stub_next)] #[kani::unwind(16)] c10_x_p_w3_50;
    #[kani::stub(std::str::from_utf8, from_utf8_model)] #[kani::stub(crate::data::GdsFloat64::encode, enc_bits)] #[kani::stub(crate::data::GdsFloat64::decode, dec_bits)] #[kani::stub(alloc::fmt::format, fmt_stub)] #[kani::stub(crate::read::GdsParser::next, stub_next)] #[kani::unwind(16)] c10_x_p_w3_51;
    #[kani::stub(std::str::from_utf8, from_utf8_model)] #[kani::stub(crate::data::GdsFloat64::encode, enc_bits)] #[kani::stub(crate::data::GdsFloat64::decode, dec_bits)] #[kani::stub(alloc::fmt::format, fmt_stub)] #[kani::stub(crate::read::GdsParser::next, stub_next)] #[kani::unwind(16)] c10_x_p_w3_52;
    #[kani::stub(std::str::from_utf8, from_utf8_model)] #[kani::stub(crate::data::GdsFloat64::encode, enc_bits)] #[kani::stub(crate::data::GdsFloat64::decode, dec_bits)] #[kani::stub(alloc::fmt::format, fmt_stub)] #[kani::stub(crate::read::GdsParser::next, stub_next)] #[kani::unwind(16)] c10_x_p_w3_53;
    #[kani::stub(std::str::from_utf8, from_utf8_model)] #[kani::stub(crate::data::GdsFloat64::encode, enc_bits)] #[kani::stub(crate::data::GdsFloat64::decode, dec_bits)] #[kani::stub(alloc::fmt::format, fmt_stub)] #[kani::stub(crate::read::GdsParser::next, stub_next)] #[kani::unwind(16)] c10_x_p_w3_54;
    #[kani::stub(std::str::from_utf8, from_utf8_model)] #[kani::stub(crate::data::GdsFloat64::encode, enc_bits)] #[kani::stub(crate::data::GdsFloat64::decode, dec_bits)] #[kani::stub(alloc::fmt::format, fmt_stub)] #[kani::stub(crate::read::GdsParser::next, stub_next)] #[kani::unwind(16)] c10_x_p_w3_55;
    #[kani::stub(std::str::from_utf8, from_utf8_model)] #[kani::stub(crate::data::GdsFloat64::encode, enc_bits)] #[kani::stub(crate::data::GdsFloat64::decode, dec_bits)] #[kani::stub(alloc::fmt::format, fmt_stub)] #[kani::stub(crate::read::GdsParser::next, stub_next)] #[kani::unwind(16)] c10_x_p_w3_56;
    #[kani::stub(std::str::from_utf8, from_utf8_model)] #[kani::stub(crate::data::GdsFloat64::encode, enc_bits)] #[kani::stub(crate::data::GdsFloat64::decode, dec_bits)] #[kani::stub(alloc::fmt::format, fmt_stub)] #[kani::stub(crate::read::GdsParser::next, stub_next)] #[kani::unwind(16)] c10_x_p_w3_57;
    #[kani::stub(std::str::from_utf8, from_utf8_model)] #[kani::stub(crate::data::GdsFloat64::encode, enc_bits)] #[kani::stub(crate::data::GdsFloat64::decode, dec_bits)] #[kani::stub(alloc::fmt::format, fmt_stub)] #[kani::stub(crate::read::GdsParser::next, stub_next)] #[kani::unwind(16)] c10_x_p_w3_58;
    #[kani::stub(std::str::from_utf8, from_utf8_model)] #[kani::stub(crate::data::GdsFloat64::encode, enc_bits)] #[kani::stub(crate::data::GdsFloat64::decode, dec_bits)] #[kani::stub(alloc::fmt::format, fmt_stub)] #[kani::stub(crate::read::GdsParser::next, stub_next)] #[kani::unwind(16)] c10_x_p_w3_59;
    #[kani::stub(std::str::from_utf8, from_utf8_model)] #[kani::stub(crate::data::GdsFloat64::encode, enc_bits)] #[kani::stub(crate::data::GdsFloat64::decode, dec_bits)] #[kani::stub(alloc::fmt::format, fmt_stub)] #[kani::stub(crate::read::GdsParser::next, stub_next)] #[kani::unwind(16)] c10_x_p_w3_60;
    #[kani::stub(std::str::from_utf8, from_utf8_model)] #[kani::stub(crate::data::GdsFloat64::encode, enc_bits)] #[kani::stub(crate::data::GdsFloat64::decode, dec_bits)] #[kani::stub(alloc::fmt::format, fmt_stub)] #[kani::stub(crate::read::GdsParser::next, stub_next)] #[kani::unwind(16)] c10_x_p_w3_61;
    #[kani::stub(std::str::from_utf8, from_utf8_model)] #[kani::stub(crate::data::GdsFloat64::encode, enc_bits)] #[kani::stub(crate::data::GdsFloat64::decode, dec_bits)] #[kani::stub(alloc::fmt::format, fmt_stub)] #[kani::stub(crate::read::GdsParser::next, stub_next)] #[kani::unwind(16)] c10_x_p_w3_62;
    #[kani::stub(std::str::from_utf8, from_utf8_model)] #[kani::stub(crate::data::GdsFloat64::encode, enc_bits)] #[kani::stub(crate::data::GdsFloat64::decode, dec_bits)] #[kani::stub(alloc::fmt::format, fmt_stub)] #[kani::stub(crate::read::GdsParser::next, stub_next)] #[kani::unwind(16)] c10_x_p_w3_63;
    #[kani::stub(std::str::from_utf8, from_utf8_model)] #[kani::stub(crate::data::GdsFloat64::encode, enc_bits)] #[kani::stub(crate::data::GdsFloat64::decode, dec_bits)] #[kani::stub(alloc::fmt::format, fmt_stub)] #[kani::stub(crate::read::GdsParser::next, stub_next)] #[kani::unwind(16)] c10_x_p_w3_64;
    #[kani::stub(std::str::from_utf8, from_utf8_model)] #[kani::stub(crate::data::GdsFloat64::encode, enc_bits)] #[kani::stub(crate::data::GdsFloat64::decode, dec_bits)] #[kani::stub(alloc::fmt::format, fmt_stub)] #[kani::stub(crate::read::GdsParser::next, stub_next)] #[kani::unwind(16)] c10_x_p_w3_65;
    #[kani::stub(std::str::from_utf8, from_utf8_model)] #[kani::stub(crate::data::GdsFloat64::encode, enc_bits)] #[kani::stub(crate::data::GdsFloat64::decode, dec_bits)] #[kani::stub(alloc::fmt::format, fmt_stub)] #[kani::stub(crate::read::GdsParser::next, stub_next)] #[kani::unwind(16)] c10_x_p_w3_66;
    #[kani::stub(std::str::from_utf8, from_utf8_model)] #[kani::stub(crate::data::GdsFloat64::encode, enc_bits)] #[kani::stub(crate::data::GdsFloat64::decode, dec_bits)] #[kani::stub(alloc::fmt::format, fmt_stub)] #[kani::stub(crate::read::GdsParser::next, stub_next)] #[kani::unwind(16)] c10_x_p_w3_67;
    #[kani::stub(std::str::from_utf8, from_utf8_model)] #[kani::stub(crate::data::GdsFloat64::encode, enc_bits)] #[kani::stub(crate::data::GdsFloat64::decode, dec_bits)] #[kani::stub(alloc::fmt::format, fmt_stub)] #[kani::stub(crate::read::GdsParser::next, stub_next)] #[kani::unwind(16)] c10_x_p_w3_68;
    #[kani::stub(std::str::from_utf8, from_utf8_model)] #[kani::stub(crate::data::GdsFloat64::encode, enc_bits)] #[kani::stub(crate::data::GdsFloat64::decode, dec_bits)] #[kani::stub(alloc::fmt::format, fmt_stub)] #[kani::stub(crate::read::GdsParser::next, stub_next)] #[kani::unwind(16)] c10_x_p_w3_69;
    #[kani::stub(std::str::from_utf8, from_utf8_model)] #[kani::stub(crate::data::GdsFloat64::encode, enc_bits)] #[kani::stub(crate::data::GdsFloat64::decode, dec_bits)] #[kani::stub(alloc::fmt::format, fmt_stub)] #[kani::stub(crate::read::GdsParser::next, stub_next)] #[kani::unwind(16)] c10_x_p_w4_00;
    #[kani::stub(std::str::from_utf8, from_utf8_model)] #[kani::stub(crate::data::GdsFloat64::encode, enc_bits)] #[kani::stub(crate::data::GdsFloat64::decode, dec_bits)] #[kani::stub(alloc::fmt::format, fmt_stub)] #[kani::stub(crate::read::GdsParser::next, stub_next)] #[kani::unwind(16)] c10_x_p_w4_01;
    #[kani::stub(std::str::from_utf8, from_utf8_model)] #[kani::stub(crate::data::GdsFloat64::encode, enc_bits)] #[kani::stub(crate::data::GdsFloat64::decode, dec_bits)] #[kani::stub(alloc::fmt::format, fmt_stub)] #[kani::stub(crate::read::GdsParser::next, stub_next)] #[kani::unwind(16)] c10_x_p_w4_02;
    #[kani::stub(std::str::from_utf8, from_utf8_model)] #[kani::stub(crate::data::GdsFloat64::encode, enc_bits)] #[kani::stub(crate::data::GdsFloat64::decode, dec_bits)] #[kani::stub(alloc::fmt::format, fmt_stub)] #[kani::stub(crate::read::GdsParser::next, stub_next)] #[kani::unwind(16)] c10_x_p_w4_03;
    #[kani::stub(std::str::from_utf8, from_utf8_model)] #[kani::stub(crate::data::GdsFloat64::encode, enc_bits)] #[kani::stub(crate::data::GdsFloat64::decode, dec_bits)] #[kani::stub(alloc::fmt::format, fmt_stub)] #[kani::stub(crate::read::GdsParser::next, stub_next)] #[kani::unwind(16)] c10_x_p_w4_04;
    #[kani::stub(std::str::from_utf8, from_utf8_model)] #[kani::stub(crate::data::GdsFloat64::encode, enc_bits)] #[kani::stub(crate::data::GdsFloat64::decode, dec_bits)] #[kani::stub(alloc::fmt::format, fmt_stub)] #[kani::stub(crate::read::GdsParser::next, stub_next)] #[kani::unwind(16)] c10_x_p_w4_05;
    #[kani::stub(std::str::from_utf8, from_utf8_model)] #[kani::stub(crate::data::GdsFloat64::encode, enc_bits)] #[kani::stub(crate::data::GdsFloat64::decode, dec_bits)] #[kani::stub(alloc::fmt::format, fmt_stub)] #[kani::stub(crate::read::GdsParser::next, stub_next)] #[kani::unwind(16)] c10_x_p_w4_06;
    #[kani::stub(std::str::from_utf8, from_utf8_model)] #[kani::stub(crate::data::GdsFloat64::encode, enc_bits)] #[kani::stub(crate::data::GdsFloat64::decode, dec_bits)] #[kani::stub(alloc::fmt::format, fmt_stub)] #[kani::stub(crate::read::GdsParser::next, stub_next)] #[kani::unwind(16)] c10_x_p_w4_07;
    #[kani::stub(std::str::from_utf8, from_utf8_model)] #[kani::stub(crate::data::GdsFloat64::encode, enc_bits)] #[kani::stub(crate::data::GdsFloat64::decode, dec_bits)] #[kani::stub(alloc::fmt::format, fmt_stub)] #[kani::stub(crate::read::GdsParser::next, stub_next)] #[kani::unwind(16)] c10_x_p_w4_08;
    #[kani::stub(std::str::from_utf8, from_utf8_model)] #[kani::stub(crate::data::GdsFloat64::encode, enc_bits)] #[kani::stub(crate::data::GdsFloat64::decode, dec_bits)] #[kani::stub(alloc::fmt::format, fmt_stub)] #[kani::stub(crate::read::GdsParser::next, stub_next)] #[kani::unwind(16)] c10_x_p_w4_09;
    #[kani::stub(std::str::from_utf8, from_utf8_model)] #[kani::stub(crate::data::GdsFloat64::encode, enc_bits)] #[kani::stub(crate::data::GdsFloat64::decode, dec_bits)] #[kani::stub(alloc::fmt::format, fmt_stub)] #[kani::stub(crate::read::GdsParser::next, stub_next)] #[kani::unwind(16)] c10_x_p_w4_10;
    #[kani::stub(std::str::from_utf8, from_utf8_model)] #[kani::stub(crate::data::GdsFloat64::encode, enc_bits)] #[kani::stub(crate::data::GdsFloat64::decode, dec_bits)] #[kani::stub(alloc::fmt::format, fmt_stub)] #[kani::stub(crate::read::GdsParser::next, stub_next)] #[kani::unwind(16)] c10_x_p_w4_11;
    #[kani::stub(std::str::from_utf8, from_utf8_model)] #[kani::stub(crate::data::GdsFloat64::encode, enc_bits)] #[kani::stub(crate::data::GdsFloat64::decode, dec_bits)] #[kani::stub(alloc::fmt::format, fmt_stub)] #[kani::stub(crate::read::GdsParser::next, stub_next)] #[kani::unwind(16)] c10_x_p_w4_12;
    #[kani::stub(std::str::from_utf8, from_utf8_model)] #[kani::stub(crate::data::GdsFloat64::encode, enc_bits)] #[kani::stub(crate::data::GdsFloat64::decode, dec_bits)] #[kani::stub(alloc::fmt::format, fmt_stub)] #[kani::stub(crate::read::GdsParser::next, stub_next)] #[kani::unwind(16)] c10_x_p_w4_13;
    #[kani::stub(std::str::from_utf8, from_utf8_model)] #[kani::stub(crate::data::GdsFloat64::encode, enc_bits)] #[kani::stub(crate::data::GdsFloat64::decode, dec_bits)] #[kani::stub(alloc::fmt::format, fmt_stub)] #[kani::stub(crate::read::GdsParser::next, stub_next)] #[kani::unwind(16)] c10_x_p_w4_14;
    #[kani::stub(std::str::from_utf8, from_utf8_model)] #[kani::stub(crate::data::GdsFloat64::encode, enc_bits)] #[kani::stub(crate::data::GdsFloat64::decode, dec_bits)] #[kani::stub(alloc::fmt::format, fmt_stub)] #[kani::stub(crate::read::GdsParser::next, stub_next)] #[kani::unwind(16)] c10_x_p_w4_15;
    #[kani::stub(std::str::from_utf8, from_utf8_model)] #[kani::stub(crate::data::GdsFloat64::encode, enc_bits)] #[kani::stub(crate::data::GdsFloat64::decode, dec_bits)] #[kani::stub(alloc::fmt::format, fmt_stub)] #[kani::stub(crate::read::GdsParser::next, stub_next)] #[kani::unwind(16)] c10_x_p_w4_16;
    #[kani::stub(std::str::from_utf8, from_utf8_model)] #[kani::stub(crate::data::GdsFloat64::encode, enc_bits)] #[kani::stub(crate::data::GdsFloat64::decode, dec_bits)] #[kani::stub(alloc::fmt::format, fmt_stub)] #[kani::stub(crate::read::GdsParser::next, stub_next)] #[kani::unwind(16)] c10_x_p_w4_17;
    #[kani::stub(std::str::from_utf8, from_utf8_model)] #[kani::stub(crate::data::GdsFloat64::encode, enc_bits)] #[kani::stub(crate::data::GdsFloat64::decode, dec_bits)] #[kani::stub(alloc::fmt::format, fmt_stub)] #[kani::stub(crate::read::GdsParser::next, stub_next)] #[kani::unwind(16)] c10_x_p_w4_18;
    #[kani::stub(std::str::from_utf8, from_utf8_model)] #[kani::stub(crate::data::GdsFloat64::encode, enc_bits)] #[kani::stub(crate::data::GdsFloat64::decode, dec_bits)] #[kani::stub(alloc::fmt::format, fmt_stub)] #[kani::stub(crate::read::GdsParser::next, stub_next)] #[kani::unwind(16)] c10_x_p_w4_19;
    #[kani::stub(std::str::from_utf8, from_utf8_model)] #[kani::stub(crate::data::GdsFloat64::encode, enc_bits)] #[kani::stub(crate::data::GdsFloat64::decode, dec_bits)] #[kani::stub(alloc::fmt::format, fmt_stub)] #[kani::stub(crate::read::GdsParser::next, stub_next)] #[kani::unwind(16)] c10_x_p_w4_20;
    #[kani::stub(std::str::from_utf8, from_utf8_model)] #[kani::stub(crate::data::GdsFloat64::encode, enc_bits)] #[kani::stub(crate::data::GdsFloat64::decode, dec_bits)] #[kani::stub(alloc::fmt::format, fmt_stub)] #[kani::stub(crate::read::GdsParser::next, stub_next)] #[kani::unwind(16)] c10_x_p_w4_21;
    #[kani::stub(std::str::from_utf8, from_utf8_model)] #[kani::stub(crate::data::GdsFloat64::encode, enc_bits)] #[kani::stub(crate::data::GdsFloat64::decode, dec_bits)] #[kani::stub(alloc::fmt::format, fmt_stub)] #[kani::stub(crate::read::GdsParser::next, stub_next)] #[kani::unwind(16)] c10_x_p_w4_22;
    #[kani::stub(std::str::from_utf8, from_utf8_model)] #[kani::stub(crate::data::GdsFloat64::encode, enc_bits)] #[kani::stub(crate::data::GdsFloat64::decode, dec_bits)] #[kani::stub(alloc::fmt::format, fmt_stub)] #[kani::stub(crate::read::GdsParser::next, stub_next)] #[kani::unwind(16)] c10_x_p_w4_23;
    #[kani::stub(std::str::from_utf8, from_utf8_model)] #[kani::stub(crate::data::GdsFloat64::encode, enc_bits)] #[kani::stub(crate::data::GdsFloat64::decode, dec_bits)] #[kani::stub(alloc::fmt::format, fmt_stub)] #[kani::stub(crate::read::GdsParser::next, stub_next)] #[kani::unwind(16)] c10_x_p_w4_24;
    #[kani::stub(std::str::from_utf8, from_utf8_model)] #[kani::stub(crate::data::GdsFloat64::encode, enc_bits)] #[kani::stub(crate::data::GdsFloat64::decode, dec_bits)] #[kani::stub(alloc::fmt::format, fmt_stub)] #[kani::stub(crate::read::GdsParser::next, stub_next)] #[kani::unwind(16)] c10_x_p_w4_25;
    #[kani::stub(std::str::from_utf8, from_utf8_model)] #[kani::stub(crate::data::GdsFloat64::encode, enc_bits)] #[kani::stub(crate::data::GdsFloat64::decode, dec_bits)] #[kani::stub(alloc::fmt::format, fmt_stub)] #[kani::stub(crate::read::GdsParser::next, stub_next)] #[kani::unwind(16)] c10_x_p_w4_26;
    #[kani::stub(std::str::from_utf8, from_utf8_model)] #[kani::stub(crate::data::GdsFloat64::encode, enc_bits)] #[kani::stub(crate::data::GdsFloat64::decode, dec_bits)] #[kani::stub(alloc::fmt::format, fmt_stub)] #[kani::stub(crate::read::GdsParser::next, stub_next)] #[kani::unwind(16)] c10_x_p_w4_27;
    #[kani::stub(std::str::from_utf8, from_utf8_model)] #[kani::stub(crate::data::GdsFloat64::encode, enc_bits)] #[kani::stub(crate::data::GdsFloat64::decode, dec_bits)] #[kani::stub(alloc::fmt::format, fmt_stub)] #[kani::stub(crate::read::GdsParser::next, stub_next)] #[kani::unwind(16)] c10_x_p_w4_28;
    #[kani::stub(std::str::from_utf8, from_utf8_model)] #[kani::stub(crate::data::GdsFloat64::encode, enc_bits)] #[kani::stub(crate::data::GdsFloat64::decode, dec_bits)] #[kani::stub(alloc::fmt::format, fmt_stub)] #[kani::stub(crate::read::GdsParser::next, stub_next)] #[kani::unwind(16)] c10_x_p_w4_29;
    #[kani::stub(std::str::from_utf8, from_utf8_model)] #[kani::stub(crate::data::GdsFloat64::encode, enc_bits)] #[kani::stub(crate::data::GdsFloat64::decode, dec_bits)] #[kani::stub(alloc::fmt::format, fmt_stub)] #[kani::stub(crate::read::GdsParser::next, stub_next)] #[kani::unwind(16)] c10_x_p_w4_30;
    #[kani::stub(std::str::from_utf8, from_utf8_model)] #[kani::stub(crate::data::GdsFloat64::encode, enc_bits)] #[kani::stub(crate::data::GdsFloat64::decode, dec_bits)] #[kani::stub(alloc::fmt::format, fmt_stub)] #[kani::stub(crate::read::GdsParser::next, stub_next)] #[kani::unwind(16)] c10_x_p_w4_31;
    #[kani::stub(std::str::from_utf8, from_utf8_model)] #[kani::stub(crate::data::GdsFloat64::encode, enc_bits)] #[kani::stub(crate::data::GdsFloat64::decode, dec_bits)] #[kani::stub(alloc::fmt::format, fmt_stub)] #[kani::stub(crate::read::GdsParser::next, stub_next)] #[kani::unwind(16)] c10_x_p_w4_32;
    #[kani::stub(std::str::from_utf8, from_utf8_model)] #[kani::stub(crate::data::GdsFloat64::encode, enc_bits)] #[kani::stub(crate::data::GdsFloat64::decode, dec_bits)] #[kani::stub(alloc::fmt::format, fmt_stub)] #[kani::stub(crate::read::GdsParser::next, stub_next)] #[kani::unwind(16)] c10_x_p_w4_33;
    #[kani::stub(std::str::from_utf8, from_utf8_model)] #[kani::stub(crate::data::GdsFloat64::encode, enc_bits)] #[kani::stub(crate::data::GdsFloat64::decode, dec_bits)] #[kani::stub(alloc::fmt::format, fmt_stub)] #[kani::stub(crate::read::GdsParser::next, stub_next)] #[kani::unwind(16)] c10_x_p_w4_34;
    #[kani::stub(std::str::from_utf8, from_utf8_model)] #[kani::stub(crate::data::GdsFloat64::encode, enc_bits)] #[kani::stub(crate::data::GdsFloat64::decode, dec_bits)] #[kani::stub(alloc::fmt::format, fmt_stub)] #[kani::stub(crate::read::GdsParser::next, stub_next)] #[kani::unwind(16)] c10_x_p_w4_35;
    #[kani::stub(std::str::from_utf8, from_utf8_model)] #[kani::stub(crate::data::GdsFloat64::encode, enc_bits)] #[kani::stub(crate::data::GdsFloat64::decode, dec_bits)] #[kani::stub(alloc::fmt::format, fmt_stub)] #[kani::stub(crate::read::GdsParser::next, stub_next)] #[kani::unwind(16)] c10_x_p_w4_36;
    #[kani::stub(std::str::from_utf8, from_utf8_model)] #[kani::stub(crate::data::GdsFloat64::encode, enc_bits)] #[kani::stub(crate::data::GdsFloat64::decode, dec_bits)] #[kani::stub(alloc::fmt::format, fmt_stub)] #[kani::stub(crate::read::GdsParser::next, stub_next)] #[kani::unwind(16)] c10_x_p_w4_37;
    #[kani::stub(std::str::from_utf8, from_utf8_model)] #[kani::stub(crate::data::GdsFloat64::encode, enc_bits)] #[kani::stub(crate::data::GdsFloat64::decode, dec_bits)] #[kani::stub(alloc::fmt::format, fmt_stub)] #[kani::stub(crate::read::GdsParser::next, stub_next)] #[kani::unwind(16)] c10_x_p_w4_38;
    #[kani::stub(std::str::from_utf8, from_utf8_model)] #[kani::stub(crate::data::GdsFloat64::encode, enc_bits)] #[kani::stub(crate::data::GdsFloat64::decode, dec_bits)] #[kani::stub(alloc::fmt::format, fmt_stub)] #[kani::stub(crate::read::GdsParser::next, stub_next)] #[kani::unwind(16)] c10_x_p_w4_39;
    #[kani::stub(std::str::from_utf8, from_utf8_model)] #[kani::stub(crate::data::GdsFloat64::encode, enc_bits)] #[kani::stub(crate::data::GdsFloat64::decode, dec_bits)] #[kani::stub(alloc::fmt::format, fmt_stub)] #[kani::stub(crate::read::GdsParser::next, stub_next)] #[kani::unwind(16)] c10_x_p_w4_40;
    #[kani::stub(std::str::from_utf8, from_utf8_model)] #[kani::stub(crate::data::GdsFloat64::encode, enc_bits)] #[kani::stub(crate::data::GdsFloat64::decode, dec_bits)] #[kani::stub(alloc::fmt::format, fmt_stub)] #[kani::stub(crate::read::GdsParser::next, stub_next)] #[kani::unwind(16)] c10_x_p_w4_41;
    #[kani::stub(std::str::from_utf8, from_utf8_model)] #[kani::stub(crate::data::GdsFloat64::encode, enc_bits)] #[kani::stub(crate::data::GdsFloat64::decode, dec_bits)] #[kani::stub(alloc::fmt::format, fmt_stub)] #[kani::stub(crate::read::GdsParser::next, stub_next)] #[kani::unwind(16)] c10_x_p_w4_42;
    #[kani::stub(std::str::from_utf8, from_utf8_model)] #[kani::stub(crate::data::GdsFloat64::encode, enc_bits)] #[kani::stub(crate::data::GdsFloat64::decode, dec_bits)] #[kani::stub(alloc::fmt::format, fmt_stub)] #[kani::stub(crate::read::GdsParser::next, stub_next)] #[kani::unwind(16)] c10_x_p_w4_43;
    #[kani::stub(std::str::from_utf8, from_utf8_model)] #[kani::stub(crate::data::GdsFloat64::encode, enc_bits)] #[kani::stub(crate::data::GdsFloat64::decode, dec_bits)] #[kani::stub(alloc::fmt::format, fmt_stub)] #[kani::stub(crate::read::GdsParser::next, stub_next)] #[kani::unwind(16)] c10_x_p_w4_44;
    #[kani::stub(std::str::from_utf8, from_utf8_model)] #[kani::stub(crate::data::GdsFloat64::encode, enc_bits)] #[kani::stub(crate::data::GdsFloat64::decode, dec_bits)] #[kani::stub(alloc::fmt::format, fmt_stub)] #[kani::stub(crate::read::GdsParser::next, stub_next)] #[kani::unwind(16)] c10_x_p_w4_45;
    #[kani::stub(std::str::from_utf8, from_utf8_model)] #[kani::stub(crate::data::GdsFloat64::encode, enc_bits)] #[kani::stub(crate::data::GdsFloat64::decode, dec_bits)] #[kani::stub(alloc::fmt::format, fmt_stub)] #[kani::stub(crate::read::GdsParser::next, stub_next)] #[kani::unwind(16)] c10_x_p_w4_46;
    #[kani::stub(std::str::from_utf8, from_utf8_model)] #[kani::stub(crate::data::GdsFloat64::encode, enc_bits)] #[kani::stub(crate::data::GdsFloat64::decode, dec_bits)] #[kani::stub(alloc::fmt::format, fmt_stub)] #[kani::stub(crate::read::GdsParser::next, stub_next)] #[kani::unwind(16)] c10_x_p_w4_47;
    #[kani::stub(std::str::from_utf8, from_utf8_model)] #[kani::stub(crate::data::GdsFloat64::encode, enc_bits)] #[kani::stub(crate::data::GdsFloat64::decode, dec_bits)] #[kani::stub(alloc::fmt::format, fmt_stub)] #[kani::stub(crate::read::GdsParser::next, stub_next)] #[kani::unwind(16)] c10_x_p_w4_48;
    #[kani::stub(std::str::from_utf8, from_utf8_model)] #[kani::stub(crate::data::GdsFloat64::encode, enc_bits)] #[kani::stub(crate::data::GdsFloat64::decode, dec_bits)] #[kani::stub(alloc::fmt::format, fmt_stub)] #[kani::stub(crate::read::GdsParser::next, stub_next)] #[kani::unwind(16)] c10_x_p_w4_49;
    #[kani::stub(std::str::from_utf8, from_utf8_model)] #[kani::stub(crate::data::GdsFloat64::encode, enc_bits)] #[kani::stub(crate::data::GdsFloat64::decode, dec_bits)] #[kani::stub(alloc::fmt::format, fmt_stub)] #[kani::stub(crate::read::GdsParser::next, stub_next)] #[kani::unwind(16)] c10_x_p_w4_50;
    #[kani::stub(std::str::from_utf8, from_utf8_model)] #[kani::stub(crate::data::GdsFloat64::encode, enc_bits)] #[kani::stub(crate::data::GdsFloat64::decode, dec_bits)] #[kani::stub(alloc::fmt::format, fmt_stub)] #[kani::stub(crate::read::GdsParser::next, stub_next)] #[kani::unwind(16)] c10_x_p_w4_51;
    #[kani::stub(std::str::from_utf8, from_utf8_model)] #[kani::stub(crate::data::GdsFloat64::encode, enc_bits)] #[kani::stub(crate::data::GdsFloat64::decode, dec_bits)] #[kani::stub(alloc::fmt::format, fmt_stub)] #[kani::stub(crate::read::GdsParser::next, stub_next)] #[kani::unwind(16)] c10_x_p_w4_52;
    #[kani::stub(std::str::from_utf8, from_utf8_model)] #[kani::stub(crate::data::GdsFloat64::encode, enc_bits)] #[kani::stub(crate::data::GdsFloat64::decode, dec_bits)] #[kani::stub(alloc::fmt::format, fmt_stub)] #[kani::stub(crate::read::GdsParser::next, stub_next)] #[kani::unwind(16)] c10_x_p_w4_53;
    #[kani::stub(std::str::from_utf8, from_utf8_model)] #[kani::stub(crate::data::GdsFloat64::encode, enc_bits)] #[kani::stub(crate::data::GdsFloat64::decode, dec_bits)] #[kani::stub(alloc::fmt::format, fmt_stub)] #[kani::stub(crate::read::GdsParser::next, stub_next)] #[kani::unwind(16)] c10_x_p_w4_54;
    #[kani::stub(std::str::from_utf8, from_utf8_model)] #[kani::stub(crate::data::GdsFloat64::encode, enc_bits)] #[kani::stub(crate::data::GdsFloat64::decode, dec_bits)] #[kani::stub(alloc::fmt::format, fmt_stub)] #[kani::stub(crate::read::GdsParser::next, stub_next)] #[kani::unwind(16)] c10_x_p_w4_55;
    #[kani::stub(std::str::from_utf8, from_utf8_model)] #[kani::stub(crate::data::GdsFloat64::encode, enc_bits)] #[kani::stub(crate::data::GdsFloat64::decode, dec_bits)] #[kani::stub(alloc::fmt::format, fmt_stub)] #[kani::stub(crate::read::GdsParser::next, stub_next)] #[kani::unwind(16)] c10_x_p_w4_56;
    #[kani::stub(std::str::from_utf8, from_utf8_model)] #[kani::stub(crate::data::GdsFloat64::encode, enc_bits)] #[kani::stub(crate::data::GdsFloat64::decode, dec_bits)] #[kani::stub(alloc::fmt::format, fmt_stub)] #[kani::stub(crate::read::GdsParser::next, stub_next)] #[kani::unwind(16)] c10_x_p_w4_57;
    #[kani::stub(std::str::from_utf8, from_utf8_model)] #[kani::stub(crate::data::GdsFloat64::encode, enc_bits)] #[kani::stub(crate::data::GdsFloat64::decode, dec_bits)] #[kani::stub(alloc::fmt::format, fmt_stub)] #[kani::stub(crate::read::GdsParser::next, stub_next)] #[kani::unwind(16)] c10_x_p_w4_58;
    #[kani::stub(std::str::from_utf8, from_utf8_model)] #[kani::stub(crate::data::GdsFloat64::encode, enc_bits)] #[kani::stub(crate::data::GdsFloat64::decode, dec_bits)] #[kani::stub(alloc::fmt::format, fmt_stub)] #[kani::stub(crate::read::GdsParser::next, stub_next)] #[kani::unwind(16)] c10_x_p_w4_59;
    #[kani::stub(std::str::from_utf8, from_utf8_model)] #[kani::stub(crate::data::GdsFloat64::encode, enc_bits)] #[kani::stub(crate::data::GdsFloat64::decode, dec_bits)] #[kani::stub(alloc::fmt::format, fmt_stub)] #[kani::stub(crate::read::GdsParser::next, stub_next)] #[kani::unwind(16)] c10_x_p_w4_60;
    #[kani::stub(std::str::from_utf8, from_utf8_model)] #[kani::stub(crate::data::GdsFloat64::encode, enc_bits)] #[kani::stub(crate::data::GdsFloat64::decode, dec_bits)] #[kani::stub(alloc::fmt::format, fmt_stub)] #[kani::stub(crate::read::GdsParser::next, stub_next)] #[kani::unwind(16)] c10_x_p_w4_61;
    #[kani::stub(std::str::from_utf8, from_utf8_model)] #[kani::stub(crate::data::GdsFloat64::encode, enc_bits)] #[kani::stub(crate::data::GdsFloat64::decode, dec_bits)] #[kani::stub(alloc::fmt::format, fmt_stub)] #[kani::stub(crate::read::GdsParser::next, stub_next)] #[kani::unwind(16)] c10_x_p_w4_62;
    #[kani::stub(std::str::from_utf8, from_utf8_model)] #[kani::stub(crate::data::GdsFloat64::encode, enc_bits)] #[kani::stub(crate::data::GdsFloat64::decode, dec_bits)] #[kani::stub(alloc::fmt::format, fmt_stub)] #[kani::stub(crate::read::GdsParser::next, stub_next)] #[kani::unwind(16)] c10_x_p_w4_63;
    #[kani::stub(std::str::from_utf8, from_utf8_model)] #[kani::stub(crate::data::GdsFloat64::encode, enc_bits)] #[kani::stub(crate::data::GdsFloat64::decode, dec_bits)] #[kani::stub(alloc::fmt::format, fmt_stub)] #[kani::stub(crate::read::GdsParser::next, stub_next)] #[kani::unwind(16)] c10_x_p_w4_64;
    #[kani::stub(std::str::from_utf8, from_utf8_model)] #[kani::stub(crate::data::GdsFloat64::encode, enc_bits)] #[kani::stub(crate::data::GdsFloat64::decode, dec_bits)] #[kani::stub(alloc::fmt::format, fmt_stub)] #[kani::stub(crate::read::GdsParser::next, stub_next)] #[kani::unwind(16)] c10_x_p_w4_65;
    #[kani::stub(std::str::from_utf8, from_utf8_model)] #[kani::stub(crate::data::GdsFloat64::encode, enc_bits)] #[kani::stub(crate::data::GdsFloat64::decode, dec_bits)] #[kani::stub(alloc::fmt::format, fmt_stub)] #[kani::stub(crate::read::GdsParser::next, stub_next)] #[kani::unwind(16)] c10_x_p_w4_66;
    #[kani::stub(std::str::from_utf8, from_utf8_model)] #[kani::stub(crate::data::GdsFloat64::encode, enc_bits)] #[kani::stub(crate::data::GdsFloat64::decode, dec_bits)] #[kani::stub(alloc::fmt::format, fmt_stub)] #[kani::stub(crate::read::GdsParser::next, stub_next)] #[kani::unwind(16)] c10_x_p_w4_67;
    #[kani::stub(std::str::from_utf8, from_utf8_model)] #[kani::stub(crate::data::GdsFloat64::encode, enc_bits)] #[kani::stub(crate::data::GdsFloat64::decode, dec_bits)] #[kani::stub(alloc::fmt::format, fmt_stub)] #[kani::stub(crate::read::GdsParser::next, stub_next)] #[kani::unwind(16)] c10_x_p_w4_68;
    #[kani::stub(std::str::from_utf8, from_utf8_model)] #[kani::stub(crate::data::GdsFloat64::encode, enc_bits)] #[kani::stub(crate::data::GdsFloat64::decode, dec_bits)] #[kani::stub(alloc::fmt::format, fmt_stub)] #[kani::stub(crate::read::GdsParser::next, stub_next)] #[kani::unwind(16)] c10_x_p_w4_69;
    #[kani::stub(std::str::from_utf8, from_utf8_model)] #[kani::stub(crate::data::GdsFloat64::encode, enc_bits)] #[kani::stub(crate::data::GdsFloat64::decode, dec_bits)] #[kani::stub(alloc::fmt::format, fmt_stub)] #[kani::stub(crate::read::GdsParser::next, stub_next)] #[kani::unwind(16)] c10_x_p_w5_00;
    #[kani::stub(std::str::from_utf8, from_utf8_model)] #[kani::stub(crate::data::GdsFloat64::encode, enc_bits)] #[kani::stub(crate::data::GdsFloat64::decode, dec_bits)] #[kani::stub(alloc::fmt::format, fmt_stub)] #[kani::stub(crate::read::GdsParser::next, stub_next)] #[kani::unwind(16)] c10_x_p_w5_01;
    #[kani::stub(std::str::from_utf8, from_utf8_model)] #[kani::stub(crate::data::GdsFloat64::encode, enc_bits)] #[kani::stub(crate::data::GdsFloat64::decode, dec_bits)] #[kani::stub(alloc::fmt::format, fmt_stub)] #[kani::stub(crate::read::GdsParser::next, stub_next)] #[kani::unwind(16)] c10_x_p_w5_02;
    #[kani::stub(std::str::from_utf8, from_utf8_model)] #[kani::stub(crate::data::GdsFloat64::encode, enc_bits)] #[kani::stub(crate::data::GdsFloat64::decode, dec_bits)] #[kani::stub(alloc::fmt::format, fmt_stub)] #[kani::stub(crate::read::GdsParser::next, stub_next)] #[kani::unwind(16)] c10_x_p_w5_03;
    #[kani::stub(std::str::from_utf8, from_utf8_model)] #[kani::stub(crate::data::GdsFloat64::encode, enc_bits)] #[kani::stub(crate::data::GdsFloat64::decode, dec_bits)] #[kani::stub(alloc::fmt::format, fmt_stub)] #[kani::stub(crate::read::GdsParser::next, stub_next)] #[kani::unwind(16)] c10_x_p_w5_04;
    #[kani::stub(std::str::from_utf8, from_utf8_model)] #[kani::stub(crate::data::GdsFloat64::encode, enc_bits)] #[kani::stub(crate::data::GdsFloat64::decode, dec_bits)] #[kani::stub(alloc::fmt::format, fmt_stub)] #[kani::stub(crate::read::GdsParser::next, stub_next)] #[kani::unwind(16)] c10_x_p_w5_05;
    #[kani::stub(std::str::from_utf8, from_utf8_model)] #[kani::stub(crate::data::GdsFloat64::encode, enc_bits)] #[kani::stub(crate::data::GdsFloat64::decode, dec_bits)] #[kani::stub(alloc::fmt::format, fmt_stub)] #[kani::stub(crate::read::GdsParser::next, stub_next)] #[kani::unwind(16)] c10_x_p_w5_06;
    #[kani::stub(std::str::from_utf8, from_utf8_model)] #[kani::stub(crate::data::GdsFloat64::encode, enc_bits)] #[kani::stub(crate::data::GdsFloat64::decode, dec_bits)] #[kani::stub(alloc::fmt::format, fmt_stub)] #[kani::stub(crate::read::GdsParser::next, stub_next)] #[kani::unwind(16)] c10_x_p_w5_07;
    #[kani::stub(std::str::from_utf8, from_utf8_model)] #[kani::stub(crate::data::GdsFloat64::encode, enc_bits)] #[kani::stub(crate::data::GdsFloat64::decode, dec_bits)] #[kani::stub(alloc::fmt::format, fmt_stub)] #[kani::stub(crate::read::GdsParser::next, stub_next)] #[kani::unwind(16)] c10_x_p_w5_08;
    #[kani::stub(std::str::from_utf8, from_utf8_model)] #[kani::stub(crate::data::GdsFloat64::encode, enc_bits)] #[kani::stub(crate::data::GdsFloat64::decode, dec_bits)] #[kani::stub(alloc::fmt::format, fmt_stub)] #[kani::stub(crate::read::GdsParser::next, stub_next)] #[kani::unwind(16)] c10_x_p_w5_09;
    #[kani::stub(std::str::from_utf8, from_utf8_model)] #[kani::stub(crate::data::GdsFloat64::encode, enc_bits)] #[kani::stub(crate::data::GdsFloat64::decode, dec_bits)] #[kani::stub(alloc::fmt::format, fmt_stub)] #[kani::stub(crate::read::GdsParser::next, stub_next)] #[kani::unwind(16)] c10_x_p_w5_10;
    #[kani::stub(std::str::from_utf8, from_utf8_model)] #[kani::stub(crate::data::GdsFloat64::encode, enc_bits)] #[kani::stub(crate::data::GdsFloat64::decode, dec_bits)] #[kani::stub(alloc::fmt::format, fmt_stub)] #[kani::stub(crate::read::GdsParser::next, stub_next)] #[kani::unwind(16)] c10_x_p_w5_11;
    #[kani::stub(std::str::from_utf8, from_utf8_model)] #[kani::stub(crate::data::GdsFloat64::encode, enc_bits)] #[kani::stub(crate::data::GdsFloat64::decode, dec_bits)] #[kani::stub(alloc::fmt::format, fmt_stub)] #[kani::stub(crate::read::GdsParser::next, stub_next)] #[kani::unwind(16)] c10_x_p_w5_12;
    #[kani::stub(std::str::from_utf8, from_utf8_model)] #[kani::stub(crate::data::GdsFloat64::encode, enc_bits)] #[kani::stub(crate::data::GdsFloat64::decode, dec_bits)] #[kani::stub(alloc::fmt::format, fmt_stub)] #[kani::stub(crate::read::GdsParser::next, stub_next)] #[kani::unwind(16)] c10_x_p_w5_13;
    #[kani::stub(std::str::from_utf8, from_utf8_model)] #[kani::stub(crate::data::GdsFloat64::encode, enc_bits)] #[kani::stub(crate::data::GdsFloat64::decode, dec_bits)] #[kani::stub(alloc::fmt::format, fmt_stub)] #[kani::stub(crate::read::GdsParser::next, stub_next)] #[kani::unwind(16)] c10_x_p_w5_14;
    #[kani::stub(std::str::from_utf8, from_utf8_model)] #[kani::stub(crate::data::GdsFloat64::encode, enc_bits)] #[kani::stub(crate::data::GdsFloat64::decode, dec_bits)] #[kani::stub(alloc::fmt::format, fmt_stub)] #[kani::stub(crate::read::GdsParser::next, stub_next)] #[kani::unwind(16)] c10_x_p_w5_15;
    #[kani::stub(std::str::from_utf8, from_utf8_model)] #[kani::stub(crate::data::GdsFloat64::encode, enc_bits)] #[kani::stub(crate::data::GdsFloat64::decode, dec_bits)] #[kani::stub(alloc::fmt::format, fmt_stub)] #[kani::stub(crate::read::GdsParser::next, stub_next)] #[kani::unwind(16)] c10_x_p_w5_16;
    #[kani::stub(std::str::from_utf8, from_utf8_model)] #[kani::stub(crate::data::GdsFloat64::encode, enc_bits)] #[kani::stub(crate::data::GdsFloat64::decode, dec_bits)] #[kani::stub(alloc::fmt::format, fmt_stub)] #[kani::stub(crate::read::GdsParser::next, stub_next)] #[kani::unwind(16)] c10_x_p_w5_17;
    #[kani::stub(std::str::from_utf8, from_utf8_model)] #[kani::stub(crate::data::GdsFloat64::encode, enc_bits)] #[kani::stub(crate::data::GdsFloat64::decode, dec_bits)] #[kani::stub(alloc::fmt::format, fmt_stub)] #[kani::stub(crate::read::GdsParser::next, stub_next)] #[kani::unwind(16)] c10_x_p_w5_18;
    #[kani::stub(std::str::from_utf8, from_utf8_model)] #[kani::stub(crate::data::GdsFloat64::encode, enc_bits)] #[kani::stub(crate::data::GdsFloat64::decode, dec_bits)] #[kani::stub(alloc::fmt::format, fmt_stub)] #[kani::stub(crate::read::GdsParser::next, stub_next)] #[kani::unwind(16)] c10_x_p_w5_19;
    #[kani::stub(std::str::from_utf8, from_utf8_model)] #[kani::stub(crate::data::GdsFloat64::encode, enc_bits)] #[kani::stub(crate::data::GdsFloat64::decode, dec_bits)] #[kani::stub(alloc::fmt::format, fmt_stub)] #[kani::stub(crate::read::GdsParser::next, stub_next)] #[kani::unwind(16)] c10_x_p_w5_20;
    #[kani::stub(std::str::from_utf8, from_utf8_model)] #[kani::stub(crate::data::GdsFloat64::encode, enc_bits)] #[kani::stub(crate::data::GdsFloat64::decode, dec_bits)] #[kani::stub(alloc::fmt::format, fmt_stub)] #[kani::stub(crate::read::GdsParser::next, stub_next)] #[kani::unwind(16)] c10_x_p_w5_21;
    #[kani::stub(std::str::from_utf8, from_utf8_model)] #[kani::stub(crate::data::GdsFloat64::encode, enc_bits)] #[kani::stub(crate::data::GdsFloat64::decode, dec_bits)] #[kani::stub(alloc::fmt::format, fmt_stub)] #[kani::stub(crate::read::GdsParser::next, stub_next)] #[kani::unwind(16)] c10_x_p_w5_22;
    #[kani::stub(std::str::from_utf8, from_utf8_model)] #[kani::stub(crate::data::GdsFloat64::encode, enc_bits)] #[kani::stub(crate::data::GdsFloat64::decode, dec_bits)] #[kani::stub(alloc::fmt::format, fmt_stub)] #[kani::stub(crate::read::GdsParser::next, stub_next)] #[kani::unwind(16)] c10_x_p_w5_23;
    #[kani::stub(std::str::from_utf8, from_utf8_model)] #[kani::stub(crate::data::GdsFloat64::encode, enc_bits)] #[kani::stub(crate::data::GdsFloat64::decode, dec_bits)] #[kani::stub(alloc::fmt::format, fmt_stub)] #[kani::stub(crate::read::GdsParser::next, stub_next)] #[kani::unwind(16)] c10_x_p_w5_24;
    #[kani::stub(std::str::from_utf8, from_utf8_model)] #[kani::stub(crate::data::GdsFloat64::encode, enc_bits)] #[kani::stub(crate::data::GdsFloat64::decode, dec_bits)] #[kani::stub(alloc::fmt::format, fmt_stub)] #[kani::stub(crate::read::GdsParser::next, stub_next)] #[kani::unwind(16)] c10_x_p_w5_25;
    #[kani::stub(std::str::from_utf8, from_utf8_model)] #[kani::stub(crate::data::GdsFloat64::encode, enc_bits)] #[kani::stub(crate::data::GdsFloat64::decode, dec_bits)] #[kani::stub(alloc::fmt::format, fmt_stub)] #[kani::stub(crate::read::GdsParser::next, stub_next)] #[kani::unwind(16)] c10_x_p_w5_26;
    #[kani::stub(std::str::from_utf8, from_utf8_model)] #[kani::stub(crate::data::GdsFloat64::encode, enc_bits)] #[kani::stub(crate::data::GdsFloat64::decode, dec_bits)] #[kani::stub(alloc::fmt::format, fmt_stub)] #[kani::stub(crate::read::GdsParser::next, stub_next)] #[kani::unwind(16)] c10_x_p_w5_27;
    #[kani::stub(std::str::from_utf8, from_utf8_model)] #[kani::stub(crate::data::GdsFloat64::encode, enc_bits)] #[kani::stub(crate::data::GdsFloat64::decode, dec_bits)] #[kani::stub(alloc::fmt::format, fmt_stub)] #[kani::stub(crate::read::GdsParser::next, stub_next)] #[kani::unwind(16)] c10_x_p_w5_28;
    #[kani::stub(std::str::from_utf8, from_utf8_model)] #[kani::stub(crate::data::GdsFloat64::encode, enc_bits)] #[kani::stub(crate::data::GdsFloat64::decode, dec_bits)] #[kani::stub(alloc::fmt::format, fmt_stub)] #[kani::stub(crate::read::GdsParser::next, stub_next)] #[kani::unwind(16)] c10_x_p_w5_29;
    #[kani::stub(std::str::from_utf8, from_utf8_model)] #[kani::stub(crate::data::GdsFloat64::encode, enc_bits)] #[kani::stub(crate::data::GdsFloat64::decode, dec_bits)] #[kani::stub(alloc::fmt::format, fmt_stub)] #[kani::stub(crate::read::GdsParser::next, stub_next)] #[kani::unwind(16)] c10_x_p_w5_30;
    #[kani::stub(std::str::from_utf8, from_utf8_model)] #[kani::stub(crate::data::GdsFloat64::encode, enc_bits)] #[kani::stub(crate::data::GdsFloat64::decode, dec_bits)] #[kani::stub(alloc::fmt::format, fmt_stub)] #[kani::stub(crate::read::GdsParser::next, stub_next)] #[kani::unwind(16)] c10_x_p_w5_31;
    #[kani::stub(std::str::from_utf8, from_utf8_model)] #[kani::stub(crate::data::GdsFloat64::encode, enc_bits)] #[kani::stub(crate::data::GdsFloat64::decode, dec_bits)] #[kani::stub(alloc::fmt::format, fmt_stub)] #[kani::stub(crate::read::GdsParser::next, stub_next)] #[kani::unwind(16)] c10_x_p_w5_32;
    #[kani::stub(std::str::from_utf8, from_utf8_model)] #[kani::stub(crate::data::GdsFloat64::encode, enc_bits)] #[kani::stub(crate::data::GdsFloat64::decode, dec_bits)] #[kani::stub(alloc::fmt::format, fmt_stub)] #[kani::stub(crate::read::GdsParser::next, stub_next)] #[kani::unwind(16)] c10_x_p_w5_33;
    #[kani::stub(std::str::from_utf8, from_utf8_model)] #[kani::stub(crate::data::GdsFloat64::encode, enc_bits)] #[kani::stub(crate::data::GdsFloat64::decode, dec_bits)] #[kani::stub(alloc::fmt::format, fmt_stub)] #[kani::stub(crate::read::GdsParser::next, stub_next)] #[kani::unwind(16)] c10_x_p_w5_34;
    #[kani::stub(std::str::from_utf8, from_utf8_model)] #[kani::stub(crate::data::GdsFloat64::encode, enc_bits)] #[kani::stub(crate::data::GdsFloat64::decode, dec_bits)] #[kani::stub(alloc::fmt::format, fmt_stub)] #[kani::stub(crate::read::GdsParser::next, stub_next)] #[kani::unwind(16)] c10_x_p_w5_35;
    #[kani::stub(std::str::from_utf8, from_utf8_model)] #[kani::stub(crate::data::GdsFloat64::encode, enc_bits)] #[kani::stub(crate::data::GdsFloat64::decode, dec_bits)] #[kani::stub(alloc::fmt::format, fmt_stub)] #[kani::stub(crate::read::GdsParser::next, stub_next)] #[kani::unwind(16)] c10_x_p_w5_36;
    #[kani::stub(std::str::from_utf8, from_utf8_model)] #[kani::stub(crate::data::GdsFloat64::encode, enc_bits)] #[kani::stub(crate::data::GdsFloat64::decode, dec_bits)] #[kani::stub(alloc::fmt::format, fmt_stub)] #[kani::stub(crate::read::GdsParser::next, stub_next)] #[kani::unwind(16)] c10_x_p_w5_37;
    #[kani::stub(std::str::from_utf8, from_utf8_model)] #[kani::stub(crate::data::GdsFloat64::encode, enc_bits)] #[kani::stub(crate::data::GdsFloat64::decode, dec_bits)] #[kani::stub(alloc::fmt::format, fmt_stub)] #[kani::stub(crate::read::GdsParser::next, stub_next)] #[kani::unwind(16)] c10_x_p_w5_38;
    #[kani::stub(std::str::from_utf8, from_utf8_model)] #[kani::stub(crate::data::GdsFloat64::encode, enc_bits)] #[kani::stub(crate::data::GdsFloat64::decode, dec_bits)] #[kani::stub(alloc::fmt::format, fmt_stub)] #[kani::stub(crate::read::GdsParser::next, stub_next)] #[kani::unwind(16)] c10_x_p_w5_39;
    #[kani::stub(std::str::from_utf8, from_utf8_model)] #[kani::stub(crate::data::GdsFloat64::encode, enc_bits)] #[kani::stub(crate::data::GdsFloat64::decode, dec_bits)] #[kani::stub(alloc::fmt::format, fmt_stub)] #[kani::stub(crate::read::GdsParser::next, stub_next)] #[kani::unwind(16)] c10_x_p_w5_40;
    #[kani::stub(std::str::from_utf8, from_utf8_model)] #[kani::stub(crate::data::GdsFloat64::encode, enc_bits)] #[kani::stub(crate::data::GdsFloat64::decode, dec_bits)] #[kani::stub(alloc::fmt::format, fmt_stub)] #[kani::stub(crate::read::GdsParser::next, stub_next)] #[kani::unwind(16)] c10_x_p_w5_41;
    #[kani::stub(std::str::from_utf8, from_utf8_model)] #[kani::stub(crate::data::GdsFloat64::encode, enc_bits)] #[kani::stub(crate::data::GdsFloat64::decode, dec_bits)] #[kani::stub(alloc::fmt::format, fmt_stub)] #[kani::stub(crate::read::GdsParser::next, stub_next)] #[kani::unwind(16)] c10_x_p_w5_42;
    #[kani::stub(std::str::from_utf8, from_utf8_model)] #[kani::stub(crate::data::GdsFloat64::encode, enc_bits)] #[kani::stub(crate::data::GdsFloat64::decode, dec_bits)] #[kani::stub(alloc::fmt::format, fmt_stub)] #[kani::stub(crate::read::GdsParser::next, stub_next)] #[kani::unwind(16)] c10_x_p_w5_43;
    #[kani::stub(std::str::from_utf8, from_utf8_model)] #[kani::stub(crate::data::GdsFloat64::encode, enc_bits)] #[kani::stub(crate::data::GdsFloat64::decode, dec_bits)] #[kani::stub(alloc::fmt::format, fmt_stub)] #[kani::stub(crate::read::GdsParser::next, stub_next)] #[kani::unwind(16)] c10_x_p_w5_44;
    #[kani::stub(std::str::from_utf8, from_utf8_model)] #[kani::stub(crate::data::GdsFloat64::encode, enc_bits)] #[kani::stub(crate::data::GdsFloat64::decode, dec_bits)] #[kani::stub(alloc::fmt::format, fmt_stub)] #[kani::stub(crate::read::GdsParser::next, stub_next)] #[kani::unwind(16)] c10_x_p_w5_45;
    #[kani::stub(std::str::from_utf8, from_utf8_model)] #[kani::stub(crate::data::GdsFloat64::encode, enc_bits)] #[kani::stub(crate::data::GdsFloat64::decode, dec_bits)] #[kani::stub(alloc::fmt::format, fmt_stub)] #[kani::stub(crate::read::GdsParser::next, stub_next)] #[kani::unwind(16)] c10_x_p_w5_46;
    #[kani::stub(std::str::from_utf8, from_utf8_model)] #[kani::stub(crate::data::GdsFloat64::encode, enc_bits)] #[kani::stub(crate::data::GdsFloat64::decode, dec_bits)] #[kani::stub(alloc::fmt::format, fmt_stub)] #[kani::stub(crate::read::GdsParser::next, stub_next)] #[kani::unwind(16)] c10_x_p_w5_47;
    #[kani::stub(std::str::from_utf8, from_utf8_model)] #[kani::stub(crate::data::GdsFloat64::encode, enc_bits)] #[kani::stub(crate::data::GdsFloat64::decode, dec_bits)] #[kani::stub(alloc::fmt::format, fmt_stub)] #[kani::stub(crate::read::GdsParser::next, stub_next)] #[kani::unwind(16)] c10_x_p_w5_48;
    #[kani::stub(std::str::from_utf8, from_utf8_model)] #[kani::stub(crate::data::GdsFloat64::encode, enc_bits)] #[kani::stub(crate::data::GdsFloat64::decode, dec_bits)] #[kani::stub(alloc::fmt::format, fmt_stub)] #[kani::stub(crate::read::GdsParser::next, stub_next)] #[kani::unwind(16)] c10_x_p_w5_49;
    #[kani::stub(std::str::from_utf8, from_utf8_model)] #[kani::stub(crate::data::GdsFloat64::encode, enc_bits)] #[kani::stub(crate::data::GdsFloat64::decode, dec_bits)] #[kani::stub(alloc::fmt::format, fmt_stub)] #[kani::stub(crate::read::GdsParser::next, stub_next)] #[kani::unwind(16)] c10_x_p_w5_50;
    #[kani::stub(std::str::from_utf8, from_utf8_model)] #[kani::stub(crate::data::GdsFloat64::encode, enc_bits)] #[kani::stub(crate::data::GdsFloat64::decode, dec_bits)] #[kani::stub(alloc::fmt::format, fmt_stub)] #[kani::stub(crate::read::GdsParser::next, stub_next)] #[kani::unwind(16)] c10_x_p_w5_51;
    #[kani::stub(std::str::from_utf8, from_utf8_model)] #[kani::stub(crate::data::GdsFloat64::encode, enc_bits)] #[kani::stub(crate::data::GdsFloat64::decode, dec_bits)] #[kani::stub(alloc::fmt::format, fmt_stub)] #[kani::stub(crate::read::GdsParser::next, stub_next)] #[kani::unwind(16)] c10_x_p_w5_52;
    #[kani::stub(std::str::from_utf8, from_utf8_model)] #[kani::stub(crate::data::GdsFloat64::encode, enc_bits)] #[kani::stub(crate::data::GdsFloat64::decode, dec_bits)] #[kani::stub(alloc::fmt::format, fmt_stub)] #[kani::stub(crate::read::GdsParser::next, stub_next)] #[kani::unwind(16)] c10_x_p_w5_53;
    #[kani::stub(std::str::from_utf8, from_utf8_model)] #[kani::stub(crate::data::GdsFloat64::encode, enc_bits)] #[kani::stub(crate::data::GdsFloat64::decode, dec_bits)] #[kani::stub(alloc::fmt::format, fmt_stub)] #[kani::stub(crate::read::GdsParser::next, stub_next)] #[kani::unwind(16)] c10_x_p_w5_54;
    #[kani::stub(std::str::from_utf8, from_utf8_model)] #[kani::stub(crate::data::GdsFloat64::encode, enc_bits)] #[kani::stub(crate::data::GdsFloat64::decode, dec_bits)] #[kani::stub(alloc::fmt::format, fmt_stub)] #[kani::stub(crate::read::GdsParser::next, stub_next)] #[kani::unwind(16)] c10_x_p_w5_55;
    #[kani::stub(std::str::from_utf8, from_utf8_model)] #[kani::stub(crate::data::GdsFloat64::encode, enc_bits)] #[kani::stub(crate::data::GdsFloat64::decode, dec_bits)] #[kani::stub(alloc::fmt::format, fmt_stub)] #[kani::stub(crate::read::GdsParser::next, stub_next)] #[kani::unwind(16)] c10_x_p_w5_56;
    #[kani::stub(std::str::from_utf8, from_utf8_model)] #[kani::stub(crate::data::GdsFloat64::encode, enc_bits)] #[kani::stub(crate::data::GdsFloat64::decode, dec_bits)] #[kani::stub(alloc::fmt::format, fmt_stub)] #[kani::stub(crate::read::GdsParser::next, stub_next)] #[kani::unwind(16)] c10_x_p_w5_57;
    #[kani::stub(std::str::from_utf8, from_utf8_model)] #[kani::stub(crate::data::GdsFloat64::encode, enc_bits)] #[kani::stub(crate::data::GdsFloat64::decode, dec_bits)] #[kani::stub(alloc::fmt::format, fmt_stub)] #[kani::stub(crate::read::GdsParser::next, stub_next)] #[kani::unwind(16)] c10_x_p_w5_58;
    #[kani::stub(std::str::from_utf8, from_utf8_model)] #[kani::stub(crate::data::GdsFloat64::encode, enc_bits)] #[kani::stub(crate::data::GdsFloat64::decode, dec_bits)] #[kani::stub(alloc::fmt::format, fmt_stub)] #[kani::stub(crate::read::GdsParser::next, stub_next)] #[kani::unwind(16)] c10_x_p_w5_59;
    #[kani::stub(std::str::from_utf8, from_utf8_model)] #[kani::stub(crate::data::GdsFloat64::encode, enc_bits)] #[kani::stub(crate::data::GdsFloat64::decode, dec_bits)] #[kani::stub(alloc::fmt::format, fmt_stub)] #[kani::stub(crate::read::GdsParser::next, stub_next)] #[kani::unwind(16)] c10_x_p_w5_60;
    #[kani::stub(std::str::from_utf8, from_utf8_model)] #[kani::stub(crate::data::GdsFloat64::encode, enc_bits)] #[kani::stub(crate::data::GdsFloat64::decode, dec_bits)] #[kani::stub(alloc::fmt::format, fmt_stub)] #[kani::stub(crate::read::GdsParser::next, stub_next)] #[kani::unwind(16)] c10_x_p_w5_61;
    #[kani::stub(std::str::from_utf8, from_utf8_model)] #[kani::stub(crate::data::GdsFloat64::encode, enc_bits)] #[kani::stub(crate::data::GdsFloat64::decode, dec_bits)] #[kani::stub(alloc::fmt::format, fmt_stub)] #[kani::stub(crate::read::GdsParser::next, stub_next)] #[kani::unwind(16)] c10_x_p_w5_62;
    #[kani::stub(std::str::from_utf8, from_utf8_model)] #[kani::stub(crate::data::GdsFloat64::encode, enc_bits)] #[kani::stub(crate::data::GdsFloat64::decode, dec_bits)] #[kani::stub(alloc::fmt::format, fmt_stub)] #[kani::stub(crate::read::GdsParser::next, stub_next)] #[kani::unwind(16)] c10_x_p_w5_63;
    #[kani::stub(std::str::from_utf8, from_utf8_model)] #[kani::stub(crate::data::GdsFloat64::encode, enc_bits)] #[kani::stub(crate::data::GdsFloat64::decode, dec_bits)] #[kani::stub(alloc::fmt::format, fmt_stub)] #[kani::stub(crate::read::GdsParser::next, stub_next)] #[kani::unwind(16)] c10_x_p_w5_64;
    #[kani::stub(std::str::from_utf8, from_utf8_model)] #[kani::stub(crate::data::GdsFloat64::encode, enc_bits)] #[kani::stub(crate::data::GdsFloat64::decode, dec_bits)] #[kani::stub(alloc::fmt::format, fmt_stub)] #[kani::stub(crate::read::GdsParser::next, stub_next)] #[kani::unwind(16)] c10_x_p_w5_65;
    #[kani::stub(std::str::from_utf8, from_utf8_model)] #[kani::stub(crate::data::GdsFloat64::encode, enc_bits)] #[kani::stub(crate::data::GdsFloat64::decode, dec_bits)] #[kani::stub(alloc::fmt::format, fmt_stub)] #[kani::stub(crate::read::GdsParser::next, stub_next)] #[kani::unwind(16)] c10_x_p_w5_66;
    #[kani::stub(std::str::from_utf8, from_utf8_model)] #[kani::stub(crate::data::GdsFloat64::encode, enc_bits)] #[kani::stub(crate::data::GdsFloat64::decode, dec_bits)] #[kani::stub(alloc::fmt::format, fmt_stub)] #[kani::stub(crate::read::GdsParser::next, stub_next)] #[kani::unwind(16)] c10_x_p_w5_67;
    #[kani::stub(std::str::from_utf8, from_utf8_model)] #[kani::stub(crate::data::GdsFloat64::encode, enc_bits)] #[kani::stub(crate::data::GdsFloat64::decode, dec_bits)] #[kani::stub(alloc::fmt::format, fmt_stub)] #[kani::stub(crate::read::GdsParser::next, stub_next)] #[kani::unwind(16)] c10_x_p_w5_68;
    #[kani::stub(std::str::from_utf8, from_utf8_model)] #[kani::stub(crate::data::GdsFloat64::encode, enc_bits)] #[kani::stub(crate::data::GdsFloat64::decode, dec_bits)] #[kani::stub(alloc::fmt::format, fmt_stub)] #[kani::stub(crate::read::GdsParser::next, stub_next)] #[kani::unwind(16)] c10_x_p_w5_69;
    #[kani::stub(std::str::from_utf8, from_utf8_model)] #[kani::stub(crate::data::GdsFloat64::encode, enc_bits)] #[kani::stub(crate::data::GdsFloat64::decode, dec_bits)] #[kani::stub(alloc::fmt::format, fmt_stub)] #[kani::stub(crate::read::GdsParser::next, stub_next)] #[kani::unwind(16)] c10_x_p_w6_00;
    #[kani::stub(std::str::from_utf8, from_utf8_model)] #[kani::stub(crate::data::GdsFloat64::encode, enc_bits)] #[kani::stub(crate::data::GdsFloat64::decode, dec_bits)] #[kani::stub(alloc::fmt::format, fmt_stub)] #[kani::stub(crate::read::GdsParser::next, stub_next)] #[kani::unwind(16)] c10_x_p_w6_01;
    #[kani::stub(std::str::from_utf8, from_utf8_model)] #[kani::stub(crate::data::GdsFloat64::encode, enc_bits)] #[kani::stub(crate::data::GdsFloat64::decode, dec_bits)] #[kani::stub(alloc::fmt::format, fmt_stub)] #[kani::stub(crate::read::GdsParser::next, stub_next)] #[kani::unwind(16)] c10_x_p_w6_02;
    #[kani::stub(std::str::from_utf8, from_utf8_model)] #[kani::stub(crate::data::GdsFloat64::encode, enc_bits)] #[kani::stub(crate::data::GdsFloat64::decode, dec_bits)] #[kani::stub(alloc::fmt::format, fmt_stub)] #[kani::stub(crate::read::GdsParser::next, stub_next)] #[kani::unwind(16)] c10_x_p_w6_03;
    #[kani::stub(std::str::from_utf8, from_utf8_model)] #[kani::stub(crate::data::GdsFloat64::encode, enc_bits)] #[kani::stub(crate::data::GdsFloat64::decode, dec_bits)] #[kani::stub(alloc::fmt::format, fmt_stub)] #[kani::stub(crate::read::GdsParser::next, stub_next)] #[kani::unwind(16)] c10_x_p_w6_04;
    #[kani::stub(std::str::from_utf8, from_utf8_model)] #[kani::stub(crate::data::GdsFloat64::encode, enc_bits)] #[kani::stub(crate::data::GdsFloat64::decode, dec_bits)] #[kani::stub(alloc::fmt::format, fmt_stub)] #[kani::stub(crate::read::GdsParser::next, stub_next)] #[kani::unwind(16)] c10_x_p_w6_05;
    #[kani::stub(std::str::from_utf8, from_utf8_model)] #[kani::stub(crate::data::GdsFloat64::encode, enc_bits)] #[kani::stub(crate::data::GdsFloat64::decode, dec_bits)] #[kani::stub(alloc::fmt::format, fmt_stub)] #[kani::stub(crate::read::GdsParser::next, stub_next)] #[kani::unwind(16)] c10_x_p_w6_06;
    #[kani::stub(std::str::from_utf8, from_utf8_model)] #[kani::stub(crate::data::GdsFloat64::encode, enc_bits)] #[kani::stub(crate::data::GdsFloat64::decode, dec_bits)] #[kani::stub(alloc::fmt::format, fmt_stub)] #[kani::stub(crate::read::GdsParser::next, stub_next)] #[kani::unwind(16)] c10_x_p_w6_07;
    #[kani::stub(std::str::from_utf8, from_utf8_model)] #[kani::stub(crate::data::GdsFloat64::encode, enc_bits)] #[kani::stub(crate::data::GdsFloat64::decode, dec_bits)] #[kani::stub(alloc::fmt::format, fmt_stub)] #[kani::stub(crate::read::GdsParser::next, stub_next)] #[kani::unwind(16)] c10_x_p_w6_08;
    #[kani::stub(std::str::from_utf8, from_utf8_model)] #[kani::stub(crate::data::GdsFloat64::encode, enc_bits)] #[kani::stub(crate::data::GdsFloat64::decode, dec_bits)] #[kani::stub(alloc::fmt::format, fmt_stub)] #[kani::stub(crate::read::GdsParser::next, stub_next)] #[kani::unwind(16)] c10_x_p_w6_09;
    #[kani::stub(std::str::from_utf8, from_utf8_model)] #[kani::stub(crate::data::GdsFloat64::encode, enc_bits)] #[kani::stub(crate::data::GdsFloat64::decode, dec_bits)] #[kani::stub(alloc::fmt::format, fmt_stub)] #[kani::stub(crate::read::GdsParser::next, stub_next)] #[kani::unwind(16)] c10_x_p_w6_10;
    #[kani::stub(std::str::from_utf8, from_utf8_model)] #[kani::stub(crate::data::GdsFloat64::encode, enc_bits)] #[kani::stub(crate::data::GdsFloat64::decode, dec_bits)] #[kani::stub(alloc::fmt::format, fmt_stub)] #[kani::stub(crate::read::GdsParser::next, stub_next)] #[kani::unwind(16)] c10_x_p_w6_11;
    #[kani::stub(std::str::from_utf8, from_utf8_model)] #[kani::stub(crate::data::GdsFloat64::encode, enc_bits)] #[kani::stub(crate::data::GdsFloat64::decode, dec_bits)] #[kani::stub(alloc::fmt::format, fmt_stub)] #[kani::stub(crate::read::GdsParser::next, stub_next)] #[kani::unwind(16)] c10_x_p_w6_12;
    #[kani::stub(std::str::from_utf8, from_utf8_model)] #[kani::stub(crate::data::GdsFloat64::encode, enc_bits)] #[kani::stub(crate::data::GdsFloat64::decode, dec_bits)] #[kani::stub(alloc::fmt::format, fmt_stub)] #[kani::stub(crate::read::GdsParser::next, stub_next)] #[kani::unwind(16)] c10_x_p_w6_13;
    #[kani::stub(std::str::from_utf8, from_utf8_model)] #[kani::stub(crate::data::GdsFloat64::encode, enc_bits)] #[kani::stub(crate::data::GdsFloat64::decode, dec_bits)] #[kani::stub(alloc::fmt::format, fmt_stub)] #[kani::stub(crate::read::GdsParser::next, stub_next)] #[kani::unwind(16)] c10_x_p_w6_14;
    #[kani::stub(std::str::from_utf8, from_utf8_model)] #[kani::stub(crate::data::GdsFloat64::encode, enc_bits)] #[kani::stub(crate::data::GdsFloat64::decode, dec_bits)] #[kani::stub(alloc::fmt::format, fmt_stub)] #[kani::stub(crate::read::GdsParser::next, stub_next)] #[kani::unwind(16)] c10_x_p_w6_15;
    #[kani::stub(std::str::from_utf8, from_utf8_model)] #[kani::stub(crate::data::GdsFloat64::encode, enc_bits)] #[kani::stub(crate::data::GdsFloat64::decode, dec_bits)] #[kani::stub(alloc::fmt::format, fmt_stub)] #[kani::stub(crate::read::GdsParser::next, stub_next)] #[kani::unwind(16)] c10_x_p_w6_16;
    #[kani::stub(std::str::from_utf8, from_utf8_model)] #[kani::stub(crate::data::GdsFloat64::encode, enc_bits)] #[kani::stub(crate::data::GdsFloat64::decode, dec_bits)] #[kani::stub(alloc::fmt::format, fmt_stub)] #[kani::stub(crate::read::GdsParser::next, stub_next)] #[kani::unwind(16)] c10_x_p_w6_17;
    #[kani::stub(std::str::from_utf8, from_utf8_model)] #[kani::stub(crate::data::GdsFloat64::encode, enc_bits)] #[kani::stub(crate::data::GdsFloat64::decode, dec_bits)] #[kani::stub(alloc::fmt::format, fmt_stub)] #[kani::stub(crate::read::GdsParser::next, stub_next)] #[kani::unwind(16)] c10_x_p_w6_18;
    #[kani::stub(std::str::from_utf8, from_utf8_model)] #[kani::stub(crate::data::GdsFloat64::encode, enc_bits)] #[kani::stub(crate::data::GdsFloat64::decode, dec_bits)] #[kani::stub(alloc::fmt::format, fmt_stub)] #[kani::stub(crate::read::GdsParser::next, stub_next)] #[kani::unwind(16)] c10_x_p_w6_19;
    #[kani::stub(std::str::from_utf8, from_utf8_model)] #[kani::stub(crate::data::GdsFloat64::encode, enc_bits)] #[kani::stub(crate::data::GdsFloat64::decode, dec_bits)] #[kani::stub(alloc::fmt::format, fmt_stub)] #[kani::stub(crate::read::GdsParser::next, stub_next)] #[kani::unwind(16)] c10_x_p_w6_20;
    #[kani::stub(std::str::from_utf8, from_utf8_model)] #[kani::stub(crate::data::GdsFloat64::encode, enc_bits)] #[kani::stub(crate::data::GdsFloat64::decode, dec_bits)] #[kani::stub(alloc::fmt::format, fmt_stub)] #[kani::stub(crate::read::GdsParser::next, stub_next)] #[kani::unwind(16)] c10_x_p_w6_21;
    #[kani::stub(std::str::from_utf8, from_utf8_model)] #[kani::stub(crate::data::GdsFloat64::encode, enc_bits)] #[kani::stub(crate::data::GdsFloat64::decode, dec_bits)] #[kani::stub(alloc::fmt::format, fmt_stub)] #[kani::stub(crate::read::GdsParser::next, stub_next)] #[kani::unwind(16)] c10_x_p_w6_22;
    #[kani::stub(std::str::from_utf8, from_utf8_model)] #[kani::stub(crate::data::GdsFloat64::encode, enc_bits)] #[kani::stub(crate::data::GdsFloat64::decode, dec_bits)] #[kani::stub(alloc::fmt::format, fmt_stub)] #[kani::stub(crate::read::GdsParser::next, stub_next)] #[kani::unwind(16)] c10_x_p_w6_23;
    #[kani::stub(std::str::from_utf8, from_utf8_model)] #[kani::stub(crate::data::GdsFloat64::encode, enc_bits)] #[kani::stub(crate::data::GdsFloat64::decode, dec_bits)] #[kani::stub(alloc::fmt::format, fmt_stub)] #[kani::stub(crate::read::GdsParser::next, stub_next)] #[kani::unwind(16)] c10_x_p_w6_24;
    #[kani::stub(std::str::from_utf8, from_utf8_model)] #[kani::stub(crate::data::GdsFloat64::encode, enc_bits)] #[kani::stub(crate::data::GdsFloat64::decode, dec_bits)] #[kani::stub(alloc::fmt::format, fmt_stub)] #[kani::stub(crate::read::GdsParser::next, stub_next)] #[kani::unwind(16)] c10_x_p_w6_25;
    #[kani::stub(std::str::from_utf8, from_utf8_model)] #[kani::stub(crate::data::GdsFloat64::encode, enc_bits)] #[kani::stub(crate::data::GdsFloat64::decode, dec_bits)] #[kani::stub(alloc::fmt::format, fmt_stub)] #[kani::stub(crate::read::GdsParser::next, stub_next)] #[kani::unwind(16)] c10_x_p_w6_26;
    #[kani::stub(std::str::from_utf8, from_utf8_model)] #[kani::stub(crate::data::GdsFloat64::encode, enc_bits)] #[kani::stub(crate::data::GdsFloat64::decode, dec_bits)] #[kani::stub(alloc::fmt::format, fmt_stub)] #[kani::stub(crate::read::GdsParser::next, stub_next)] #[kani::unwind(16)] c10_x_p_w6_27;
    #[kani::stub(std::str::from_utf8, from_utf8_model)] #[kani::stub(crate::data::GdsFloat64::encode, enc_bits)] #[kani::stub(crate::data::GdsFloat64::decode, dec_bits)] #[kani::stub(alloc::fmt::format, fmt_stub)] #[kani::stub(crate::read::GdsParser::next, stub_next)] #[kani::unwind(16)] c10_x_p_w6_28;
    #[kani::stub(std::str::from_utf8, from_utf8_model)] #[kani::stub(crate::data::GdsFloat64::encode, enc_bits)] #[kani::stub(crate::data::GdsFloat64::decode, dec_bits)] #[kani::stub(alloc::fmt::format, fmt_stub)] #[kani::stub(crate::read::GdsParser::next, stub_next)] #[kani::unwind(16)] c10_x_p_w6_29;
    #[kani::stub(std::str::from_utf8, from_utf8_model)] #[kani::stub(crate::data::GdsFloat64::encode, enc_bits)] #[kani::stub(crate::data::GdsFloat64::decode, dec_bits)] #[kani::stub(alloc::fmt::format, fmt_stub)] #[kani::stub(crate::read::GdsParser::next, stub_next)] #[kani::unwind(16)] c10_x_p_w6_30;
    #[kani::stub(std::str::from_utf8, from_utf8_model)] #[kani::stub(crate::data::GdsFloat64::encode, enc_bits)] #[kani::stub(crate::data::GdsFloat64::decode, dec_bits)] #[kani::stub(alloc::fmt::format, fmt_stub)] #[kani::stub(crate::read::GdsParser::next, stub_next)] #[kani::unwind(16)] c10_x_p_w6_31;
    #[kani::stub(std::str::from_utf8, from_utf8_model)] #[kani::stub(crate::data::GdsFloat64::encode, enc_bits)] #[kani::stub(crate::data::GdsFloat64::decode, dec_bits)] #[kani::stub(alloc::fmt::format, fmt_stub)] #[kani::stub(crate::read::GdsParser::next, stub_next)] #[kani::unwind(16)] c10_x_p_w6_32;
    #[kani::stub(std::str::from_utf8, from_utf8_model)] #[kani::stub(crate::data::GdsFloat64::encode, enc_bits)] #[kani::stub(crate::data::GdsFloat64::decode, dec_bits)] #[kani::stub(alloc::fmt::format, fmt_stub)] #[kani::stub(crate::read::GdsParser::next, stub_next)] #[kani::unwind(16)] c10_x_p_w6_33;
    #[kani::stub(std::str::from_utf8, from_utf8_model)] #[kani::stub(crate::data::GdsFloat64::encode, enc_bits)] #[kani::stub(crate::data::GdsFloat64::decode, dec_bits)] #[kani::stub(alloc::fmt::format, fmt_stub)] #[kani::stub(crate::read::GdsParser::next, stub_next)] #[kani::unwind(16)] c10_x_p_w6_34;
    #[kani::stub(std::str::from_utf8, from_utf8_model)] #[kani::stub(crate::data::GdsFloat64::encode, enc_bits)] #[kani::stub(crate::data::GdsFloat64::decode, dec_bits)] #[kani::stub(alloc::fmt::format, fmt_stub)] #[kani::stub(crate::read::GdsParser::next, stub_next)] #[kani::unwind(16)] c10_x_p_w6_35;
    #[kani::stub(std::str::from_utf8, from_utf8_model)] #[kani::stub(crate::data::GdsFloat64::encode, enc_bits)] #[kani::stub(crate::data::GdsFloat64::decode, dec_bits)] #[kani::stub(alloc::fmt::format, fmt_stub)] #[kani::stub(crate::read::GdsParser::next, stub_next)] #[kani::unwind(16)] c10_x_p_w6_36;
    #[kani::stub(std::str::from_utf8, from_utf8_model)] #[kani::stub(crate::data::GdsFloat64::encode, enc_bits)] #[kani::stub(crate::data::GdsFloat64::decode, dec_bits)] #[kani::stub(alloc::fmt::format, fmt_stub)] #[kani::stub(crate::read::GdsParser::next, stub_next)] #[kani::unwind(16)] c10_x_p_w6_37;
    #[kani::stub(std::str::from_utf8, from_utf8_model)] #[kani::stub(crate::data::GdsFloat64::encode, enc_bits)] #[kani::stub(crate::data::GdsFloat64::decode, dec_bits)] #[kani::stub(alloc::fmt::format, fmt_stub)] #[kani::stub(crate::read::GdsParser::next, stub_next)] #[kani::unwind(16)] c10_x_p_w6_38;
    #[kani::stub(std::str::from_utf8, from_utf8_model)] #[kani::stub(crate::data::GdsFloat64::encode, enc_bits)] #[kani::stub(crate::data::GdsFloat64::decode, dec_bits)] #[kani::stub(alloc::fmt::format, fmt_stub)] #[kani::stub(crate::read::GdsParser::next, stub_next)] #[kani::unwind(16)] c10_x_p_w6_39;
    #[kani::stub(std::str::from_utf8, from_utf8_model)] #[kani::stub(crate::data::GdsFloat64::encode, enc_bits)] #[kani::stub(crate::data::GdsFloat64::decode, dec_bits)] #[kani::stub(alloc::fmt::format, fmt_stub)] #[kani::stub(crate::read::GdsParser::next, stub_next)] #[kani::unwind(16)] c10_x_p_w6_40;
    #[kani::stub(std::str::from_utf8, from_utf8_model)] #[kani::stub(crate::data::GdsFloat64::encode, enc_bits)] #[kani::stub(crate::data::GdsFloat64::decode, dec_bits)] #[kani::stub(alloc::fmt::format, fmt_stub)] #[kani::stub(crate::read::GdsParser::next, stub_next)] #[kani::unwind(16)] c10_x_p_w6_41;
    #[kani::stub(std::str::from_utf8, from_utf8_model)] #[kani::stub(crate::data::GdsFloat64::encode, enc_bits)] #[kani::stub(crate::data::GdsFloat64::decode, dec_bits)] #[kani::stub(alloc::fmt::format, fmt_stub)] #[kani::stub(crate::read::GdsParser::next, stub_next)] #[kani::unwind(16)] c10_x_p_w6_42;
    #[kani::stub(std::str::from_utf8, from_utf8_model)] #[kani::stub(crate::data::GdsFloat64::encode, enc_bits)] #[kani::stub(crate::data::GdsFloat64::decode, dec_bits)] #[kani::stub(alloc::fmt::format, fmt_stub)] #[kani::stub(crate::read::GdsParser::next, stub_next)] #[kani::unwind(16)] c10_x_p_w6_43;
    #[kani::stub(std::str::from_utf8, from_utf8_model)] #[kani::stub(crate::data::GdsFloat64::encode, enc_bits)] #[kani::stub(crate::data::GdsFloat64::decode, dec_bits)] #[kani::stub(alloc::fmt::format, fmt_stub)] #[kani::stub(crate::read::GdsParser::next, stub_next)] #[kani::unwind(16)] c10_x_p_w6_44;
    #[kani::stub(std::str::from_utf8, from_utf8_model)] #[kani::stub(crate::data::GdsFloat64::encode, enc_bits)] #[kani::stub(crate::data::GdsFloat64::decode, dec_bits)] #[kani::stub(alloc::fmt::format, fmt_stub)] #[kani::stub(crate::read::GdsParser::next, stub_next)] #[kani::unwind(16)] c10_x_p_w6_45;
    #[kani::stub(std::str::from_utf8, from_utf8_model)] #[kani::stub(crate::data::GdsFloat64::encode, enc_bits)] #[kani::stub(crate::data::GdsFloat64::decode, dec_bits)] #[kani::stub(alloc::fmt::format, fmt_stub)] #[kani::stub(crate::read::GdsParser::next, stub_next)] #[kani::unwind(16)] c10_x_p_w6_46;
    #[kani::stub(std::str::from_utf8, from_utf8_model)] #[kani::stub(crate::data::GdsFloat64::encode, enc_bits)] #[kani::stub(crate::data::GdsFloat64::decode, dec_bits)] #[kani::stub(alloc::fmt::format, fmt_stub)] #[kani::stub(crate::read::GdsParser::next, stub_next)] #[kani::unwind(16)] c10_x_p_w6_47;
    #[kani::stub(std::str::from_utf8, from_utf8_model)] #[kani::stub(crate::data::GdsFloat64::encode, enc_bits)] #[kani::stub(crate::data::GdsFloat64::decode, dec_bits)] #[kani::stub(alloc::fmt::format, fmt_stub)] #[kani::stub(crate::read::GdsParser::next, stub_next)] #[kani::unwind(16)] c10_x_p_w6_48;
    #[kani::stub(std::str::from_utf8, from_utf8_model)] #[kani::stub(crate::data::GdsFloat64::encode, enc_bits)] #[kani::stub(crate::data::GdsFloat64::decode, dec_bits)] #[kani::stub(alloc::fmt::format, fmt_stub)] #[kani::stub(crate::read::GdsParser::next, stub_next)] #[kani::unwind(16)] c10_x_p_w6_49;
    #[kani::stub(std::str::from_utf8, from_utf8_model)] #[kani::stub(crate::data::GdsFloat64::encode, enc_bits)] #[kani::stub(crate::data::GdsFloat64::decode, dec_bits)] #[kani::stub(alloc::fmt::format, fmt_stub)] #[kani::stub(crate::read::GdsParser::next, stub_next)] #[kani::unwind(16)] c10_x_p_w6_50;
    #[kani::stub(std::str::from_utf8, from_utf8_model)] #[kani::stub(crate::data::GdsFloat64::encode, enc_bits)] #[kani::stub(crate::data::GdsFloat64::decode, dec_bits)] #[kani::stub(alloc::fmt::format, fmt_stub)] #[kani::stub(crate::read::GdsParser::next, stub_next)] #[kani::unwind(16)] c10_x_p_w6_51;
    #[kani::stub(std::str::from_utf8, from_utf8_model)] #[kani::stub(crate::data::GdsFloat64::encode, enc_bits)] #[kani::stub(crate::data::GdsFloat64::decode, dec_bits)] #[kani::stub(alloc::fmt::format, fmt_stub)] #[kani::stub(crate::read::GdsParser::next, stub_next)] #[kani::unwind(16)] c10_x_p_w6_52;
    #[kani::stub(std::str::from_utf8, from_utf8_model)] #[kani::stub(crate::data::GdsFloat64::encode, enc_bits)] #[kani::stub(crate::data::GdsFloat64::decode, dec_bits)] #[kani::stub(alloc::fmt::format, fmt_stub)] #[kani::stub(crate::read::GdsParser::next, stub_next)] #[kani::unwind(16)] c10_x_p_w6_53;
    #[kani::stub(std::str::from_utf8, from_utf8_model)] #[kani::stub(crate::data::GdsFloat64::encode, enc_bits)] #[kani::stub(crate::data::GdsFloat64::decode, dec_bits)] #[kani::stub(alloc::fmt::format, fmt_stub)] #[kani::stub(crate::read::GdsParser::next, stub_next)] #[kani::unwind(16)] c10_x_p_w6_54;
    #[kani::stub(std::str::from_utf8, from_utf8_model)] #[kani::stub(crate::data::GdsFloat64::encode, enc_bits)] #[kani::stub(crate::data::GdsFloat64::decode, dec_bits)] #[kani::stub(alloc::fmt::format, fmt_stub)] #[kani::stub(crate::read::GdsParser::next, stub_next)] #[kani::unwind(16)] c10_x_p_w6_55;
    #[kani::stub(std::str::from_utf8, from_utf8_model)] #[kani::stub(crate::data::GdsFloat64::encode, enc_bits)] #[kani::stub(crate::data::GdsFloat64::decode, dec_bits)] #[kani::stub(alloc::fmt::format, fmt_stub)] #[kani::stub(crate::read::GdsParser::next, stub_next)] #[kani::unwind(16)] c10_x_p_w6_56;
    #[kani::stub(std::str::from_utf8, from_utf8_model)] #[kani::stub(crate::data::GdsFloat64::encode, enc_bits)] #[kani::stub(crate::data::GdsFloat64::decode, dec_bits)] #[kani::stub(alloc::fmt::format, fmt_stub)] #[kani::stub(crate::read::GdsParser::next, stub_next)] #[kani::unwind(16)] c10_x_p_w6_57;
    #[kani::stub(std::str::from_utf8, from_utf8_model)] #[kani::stub(crate::data::GdsFloat64::encode, enc_bits)] #[kani::stub(crate::data::GdsFloat64::decode, dec_bits)] #[kani::stub(alloc::fmt::format, fmt_stub)] #[kani::stub(crate::read::GdsParser::next, stub_next)] #[kani::unwind(16)] c10_x_p_w6_58;
    #[kani::stub(std::str::from_utf8, from_utf8_model)] #[kani::stub(crate::data::GdsFloat64::encode, enc_bits)] #[kani::stub(crate::data::GdsFloat64::decode, dec_bits)] #[kani::stub(alloc::fmt::format, fmt_stub)] #[kani::stub(crate::read::GdsParser::next, stub_next)] #[kani::unwind(16)] c10_x_p_w6_59;
    #[kani::stub(std::str::from_utf8, from_utf8_model)] #[kani::stub(crate::data::GdsFloat64::encode, enc_bits)] #[kani::stub(crate::data::GdsFloat64::decode, dec_bits)] #[kani::stub(alloc::fmt::format, fmt_stub)] #[kani::stub(crate::read::GdsParser::next, stub_next)] #[kani::unwind(16)] c10_x_p_w6_60;
    #[kani::stub(std::str::from_utf8, from_utf8_model)] #[kani::stub(crate::data::GdsFloat64::encode, enc_bits)] #[kani::stub(crate::data::GdsFloat64::decode, dec_bits)] #[kani::stub(alloc::fmt::format, fmt_stub)] #[kani::stub(crate::read::GdsParser::next, stub_next)] #[kani::unwind(16)] c10_x_p_w6_61;
    #[kani::stub(std::str::from_utf8, from_utf8_model)] #[kani::stub(crate::data::GdsFloat64::encode, enc_bits)] #[kani::stub(crate::data::GdsFloat64::decode, dec_bits)] #[kani::stub(alloc::fmt::format, fmt_stub)] #[kani::stub(crate::read::GdsParser::next, stub_next)] #[kani::unwind(16)] c10_x_p_w6_62;
    #[kani::stub(std::str::from_utf8, from_utf8_model)] #[kani::stub(crate::data::GdsFloat64::encode, enc_bits)] #[kani::stub(crate::data::GdsFloat64::decode, dec_bits)] #[kani::stub(alloc::fmt::format, fmt_stub)] #[kani::stub(crate::read::GdsParser::next, stub_next)] #[kani::unwind(16)] c10_x_p_w6_63;
    #[kani::stub(std::str::from_utf8, from_utf8_model)] #[kani::stub(crate::data::GdsFloat64::encode, enc_bits)] #[kani::stub(crate::data::GdsFloat64::decode, dec_bits)] #[kani::stub(alloc::fmt::format, fmt_stub)] #[kani::stub(crate::read::GdsParser::next, stub_next)] #[kani::unwind(16)] c10_x_p_w6_64;
    #[kani::stub(std::str::from_utf8, from_utf8_model)] #[kani::stub(crate::data::GdsFloat64::encode, enc_bits)] #[kani::stub(crate::data::GdsFloat64::decode, dec_bits)] #[kani::stub(alloc::fmt::format, fmt_stub)] #[kani::stub(crate::read::GdsParser::next, stub_next)] #[kani::unwind(16)] c10_x_p_w6_65;
    #[kani::stub(std::str::from_utf8, from_utf8_model)] #[kani::stub(crate::data::GdsFloat64::encode, enc_bits)] #[kani::stub(crate::data::GdsFloat64::decode, dec_bits)] #[kani::stub(alloc::fmt::format, fmt_stub)] #[kani::stub(crate::read::GdsParser::next, stub_next)] #[kani::unwind(16)] c10_x_p_w6_66;
    #[kani::stub(std::str::from_utf8, from_utf8_model)] #[kani::stub(crate::data::GdsFloat64::encode, enc_bits)] #[kani::stub(crate::data::GdsFloat64::decode, dec_bits)] #[kani::stub(alloc::fmt::format, fmt_stub)] #[kani::stub(crate::read::GdsParser::next, stub_next)] #[kani::unwind(16)] c10_x_p_w6_67;
    #[kani::stub(std::str::from_utf8, from_utf8_model)] #[kani::stub(crate::data::GdsFloat64::encode, enc_bits)] #[kani::stub(crate::data::GdsFloat64::decode, dec_bits)] #[kani::stub(alloc::fmt::format, fmt_stub)] #[kani::stub(crate::read::GdsParser::next, stub_next)] #[kani::unwind(16)] c10_x_p_w6_68;
    #[kani::stub(std::str::from_utf8, from_utf8_model)] #[kani::stub(crate::data::GdsFloat64::encode, enc_bits)] #[kani::stub(crate::data::GdsFloat64::decode, dec_bits)] #[kani::stub(alloc::fmt::format, fmt_stub)] #[kani::stub(crate::read::GdsParser::next, stub_next)] #[kani::unwind(16)] c10_x_p_w6_69;
    #[kani::stub(std::str::from_utf8, from_utf8_model)] #[kani::stub(crate::data::GdsFloat64::encode, enc_bits)] #[kani::stub(crate::data::GdsFloat64::decode, dec_bits)] #[kani::stub(alloc::fmt::format, fmt_stub)] #[kani::stub(crate::read::GdsParser::next, stub_next)] #[kani::unwind(16)] c10_x_p_w7_00;
    #[kani::stub(std::str::from_utf8, from_utf8_model)] #[kani::stub(crate::data::GdsFloat64::encode, enc_bits)] #[kani::stub(crate::data::GdsFloat64::decode, dec_bits)] #[kani::stub(alloc::fmt::format, fmt_stub)] #[kani::stub(crate::read::GdsParser::next, stub_next)] #[kani::unwind(16)] c10_x_p_w7_01;
    #[kani::stub(std::str::from_utf8, from_utf8_model)] #[kani::stub(crate::data::GdsFloat64::encode, enc_bits)] #[kani::stub(crate::data::GdsFloat64::decode, dec_bits)] #[kani::stub(alloc::fmt::format, fmt_stub)] #[kani::stub(crate::read::GdsParser::next, stub_next)] #[kani::unwind(16)] c10_x_p_w7_02;
    #[kani::stub(std::str::from_utf8, from_utf8_model)] #[kani::stub(crate::data::GdsFloat64::encode, enc_bits)] #[kani::stub(crate::data::GdsFloat64::decode, dec_bits)] #[kani::stub(alloc::fmt::format, fmt_stub)] #[kani::stub(crate::read::GdsParser::next, stub_next)] #[kani::unwind(16)] c10_x_p_w7_03;
    #[kani::stub(std::str::from_utf8, from_utf8_model)] #[kani::stub(crate::data::GdsFloat64::encode, enc_bits)] #[kani::stub(crate::data::GdsFloat64::decode, dec_bits)] #[kani::stub(alloc::fmt::format, fmt_stub)] #[kani::stub(crate::read::GdsParser::next, stub_next)] #[kani::unwind(16)] c10_x_p_w7_04;
    #[kani::stub(std::str::from_utf8, from_utf8_model)] #[kani::stub(crate::data::GdsFloat64::encode, enc_bits)] #[kani::stub(crate::data::GdsFloat64::decode, dec_bits)] #[kani::stub(alloc::fmt::format, fmt_stub)] #[kani::stub(crate::read::GdsParser::next, stub_next)] #[kani::unwind(16)] c10_x_p_w7_05;
    #[kani::stub(std::str::from_utf8, from_utf8_model)] #[kani::stub(crate::data::GdsFloat64::encode, enc_bits)] #[kani::stub(crate::data::GdsFloat64::decode, dec_bits)] #[kani::stub(alloc::fmt::format, fmt_stub)] #[kani::stub(crate::read::GdsParser::next, stub_next)] #[kani::unwind(16)] c10_x_p_w7_06;
    #[kani::stub(std::str::from_utf8, from_utf8_model)] #[kani::stub(crate::data::GdsFloat64::encode, enc_bits)] #[kani::stub(crate::data::GdsFloat64::decode, dec_bits)] #[kani::stub(alloc::fmt::format, fmt_stub)] #[kani::stub(crate::read::GdsParser::next, stub_next)] #[kani::unwind(16)] c10_x_p_w7_07;
    #[kani::stub(std::str::from_utf8, from_utf8_model)] #[kani::stub(crate::data::GdsFloat64::encode, enc_bits)] #[kani::stub(crate::data::GdsFloat64::decode, dec_bits)] #[kani::stub(alloc::fmt::format, fmt_stub)] #[kani::stub(crate::read::GdsParser::next, stub_next)] #[kani::unwind(16)] c10_x_p_w7_08;
    #[kani::stub(std::str::from_utf8, from_utf8_model)] #[kani::stub(crate::data::GdsFloat64::encode, enc_bits)] #[kani::stub(crate::data::GdsFloat64::decode, dec_bits)] #[kani::stub(alloc::fmt::format, fmt_stub)] #[kani::stub(crate::read::GdsParser::next, stub_next)] #[kani::unwind(16)] c10_x_p_w7_09;
    #[kani::stub(std::str::from_utf8, from_utf8_model)] #[kani::stub(crate::data::GdsFloat64::encode, enc_bits)] #[kani::stub(crate::data::GdsFloat64::decode, dec_bits)] #[kani::stub(alloc::fmt::format, fmt_stub)] #[kani::stub(crate::read::GdsParser::next, stub_next)] #[kani::unwind(16)] c10_x_p_w7_10;
    #[kani::stub(std::str::from_utf8, from_utf8_model)] #[kani::stub(crate::data::GdsFloat64::encode, enc_bits)] #[kani::stub(crate::data::GdsFloat64::decode, dec_bits)] #[kani::stub(alloc::fmt::format, fmt_stub)] #[kani::stub(crate::read::GdsParser::next, stub_next)] #[kani::unwind(16)] c10_x_p_w7_11;
    #[kani::stub(std::str::from_utf8, from_utf8_model)] #[kani::stub(crate::data::GdsFloat64::encode, enc_bits)] #[kani::stub(crate::data::GdsFloat64::decode, dec_bits)] #[kani::stub(alloc::fmt::format, fmt_stub)] #[kani::stub(crate::read::GdsParser::next, stub_next)] #[kani::unwind(16)] c10_x_p_w7_12;
    #[kani::stub(std::str::from_utf8, from_utf8_model)] #[kani::stub(crate::data::GdsFloat64::encode, enc_bits)] #[kani::stub(crate::data::GdsFloat64::decode, dec_bits)] #[kani::stub(alloc::fmt::format, fmt_stub)] #[kani::stub(crate::read::GdsParser::next, stub_next)] #[kani::unwind(16)] c10_x_p_w7_13;
    #[kani::stub(std::str::from_utf8, from_utf8_model)] #[kani::stub(crate::data::GdsFloat64::encode, enc_bits)] #[kani::stub(crate::data::GdsFloat64::decode, dec_bits)] #[kani::stub(alloc::fmt::format, fmt_stub)] #[kani::stub(crate::read::GdsParser::next, stub_next)] #[kani::unwind(16)] c10_x_p_w7_14;
    #[kani::stub(std::str::from_utf8, from_utf8_model)] #[kani::stub(crate::data::GdsFloat64::encode, enc_bits)] #[kani::stub(crate::data::GdsFloat64::decode, dec_bits)] #[kani::stub(alloc::fmt::format, fmt_stub)] #[kani::stub(crate::read::GdsParser::next, stub_next)] #[kani::unwind(16)] c10_x_p_w8_00;
    #[kani::stub(std::str::from_utf8, from_utf8_model)] #[kani::stub(crate::data::GdsFloat64::encode, enc_bits)] #[kani::stub(crate::data::GdsFloat64::decode, dec_bits)] #[kani::stub(alloc::fmt::format, fmt_stub)] #[kani::stub(crate::read::GdsParser::next, stub_next)] #[kani::unwind(16)] c10_x_p_w8_01;
    #[kani::stub(std::str::from_utf8, from_utf8_model)] #[kani::stub(crate::data::GdsFloat64::encode, enc_bits)] #[kani::stub(crate::data::GdsFloat64::decode, dec_bits)] #[kani::stub(alloc::fmt::format, fmt_stub)] #[kani::stub(crate::read::GdsParser::next, stub_next)] #[kani::unwind(16)] c10_x_p_w8_02;
    #[kani::stub(std::str::from_utf8, from_utf8_model)] #[kani::stub(crate::data::GdsFloat64::encode, enc_bits)] #[kani::stub(crate::data::GdsFloat64::decode, dec_bits)] #[kani::stub(alloc::fmt::format, fmt_stub)] #[kani::stub(crate::read::GdsParser::next, stub_next)] #[kani::unwind(16)] c10_x_p_w8_03;
    #[kani::stub(std::str::from_utf8, from_utf8_model)] #[kani::stub(crate::data::GdsFloat64::encode, enc_bits)] #[kani::stub(crate::data::GdsFloat64::decode, dec_bits)] #[kani::stub(alloc::fmt::format, fmt_stub)] #[kani::stub(crate::read::GdsParser::next, stub_next)] #[kani::unwind(16)] c10_x_p_w8_04;
    #[kani::stub(std::str::from_utf8, from_utf8_model)] #[kani::stub(crate::data::GdsFloat64::encode, enc_bits)] #[kani::stub(crate::data::GdsFloat64::decode, dec_bits)] #[kani::stub(alloc::fmt::format, fmt_stub)] #[kani::stub(crate::read::GdsParser::next, stub_next)] #[kani::unwind(16)] c10_x_p_w8_05;
    #[kani::stub(std::str::from_utf8, from_utf8_model)] #[kani::stub(crate::data::GdsFloat64::encode, enc_bits)] #[kani::stub(crate::data::GdsFloat64::decode, dec_bits)] #[kani::stub(alloc::fmt::format, fmt_stub)] #[kani::stub(crate::read::GdsParser::next, stub_next)] #[kani::unwind(16)] c10_x_p_w8_06;
    #[kani::stub(std::str::from_utf8, from_utf8_model)] #[kani::stub(crate::data::GdsFloat64::encode, enc_bits)] #[kani::stub(crate::data::GdsFloat64::decode, dec_bits)] #[kani::stub(alloc::fmt::format, fmt_stub)] #[kani::stub(crate::read::GdsParser::next, stub_next)] #[kani::unwind(16)] c10_x_p_w8_07;
    #[kani::stub(std::str::from_utf8, from_utf8_model)] #[kani::stub(crate::data::GdsFloat64::encode, enc_bits)] #[kani::stub(crate::data::GdsFloat64::decode, dec_bits)] #[kani::stub(alloc::fmt::format, fmt_stub)] #[kani::stub(crate::read::GdsParser::next, stub_next)] #[kani::unwind(16)] c10_x_p_w8_08;
    #[kani::stub(std::str::from_utf8, from_utf8_model)] #[kani::stub(crate::data::GdsFloat64::encode, enc_bits)] #[kani::stub(crate::data::GdsFloat64::decode, dec_bits)] #[kani::stub(alloc::fmt::format, fmt_stub)] #[kani::stub(crate::read::GdsParser::next, stub_next)] #[kani::unwind(16)] c10_x_p_w8_09;
    #[kani::stub(std::str::from_utf8, from_utf8_model)] #[kani::stub(crate::data::GdsFloat64::encode, enc_bits)] #[kani::stub(crate::data::GdsFloat64::decode, dec_bits)] #[kani::stub(alloc::fmt::format, fmt_stub)] #[kani::stub(crate::read::GdsParser::next, stub_next)] #[kani::unwind(16)] c10_x_p_w8_10;
    #[kani::stub(std::str::from_utf8, from_utf8_model)] #[kani::stub(crate::data::GdsFloat64::encode, enc_bits)] #[kani::stub(crate::data::GdsFloat64::decode, dec_bits)] #[kani::stub(alloc::fmt::format, fmt_stub)] #[kani::stub(crate::read::GdsParser::next, stub_next)] #[kani::unwind(16)] c10_x_p_w8_11;
    #[kani::stub(std::str::from_utf8, from_utf8_model)] #[kani::stub(crate::data::GdsFloat64::encode, enc_bits)] #[kani::stub(crate::data::GdsFloat64::decode, dec_bits)] #[kani::stub(alloc::fmt::format, fmt_stub)] #[kani::stub(crate::read::GdsParser::next, stub_next)] #[kani::unwind(16)] c10_x_p_w8_12;
    #[kani::stub(std::str::from_utf8, from_utf8_model)] #[kani::stub(crate::data::GdsFloat64::encode, enc_bits)] #[kani::stub(crate::data::GdsFloat64::decode, dec_bits)] #[kani::stub(alloc::fmt::format, fmt_stub)] #[kani::stub(crate::read::GdsParser::next, stub_next)] #[kani::unwind(16)] c10_x_p_w8_13;
    #[kani::stub(std::str::from_utf8, from_utf8_model)] #[kani::stub(crate::data::GdsFloat64::encode, enc_bits)] #[kani::stub(crate::data::GdsFloat64::decode, dec_bits)] #[kani::stub(alloc::fmt::format, fmt_stub)] #[kani::stub(crate::read::GdsParser::next, stub_next)] #[kani::unwind(16)] c10_x_p_w8_14;
    #[kani::stub(std::str::from_utf8, from_utf8_model)] #[kani::stub(crate::data::GdsFloat64::encode, enc_bits)] #[kani::stub(crate::data::GdsFloat64::decode, dec_bits)] #[kani::stub(alloc::fmt::format, fmt_stub)] #[kani::stub(crate::read::GdsParser::next, stub_next)] #[kani::unwind(16)] c10_x_p_w8_15;
    #[kani::stub(std::str::from_utf8, from_utf8_model)] #[kani::stub(crate::data::GdsFloat64::encode, enc_bits)] #[kani::stub(crate::data::GdsFloat64::decode, dec_bits)] #[kani::stub(alloc::fmt::format, fmt_stub)] #[kani::stub(crate::read::GdsParser::next, stub_next)] #[kani::unwind(16)] c10_x_p_w8_16;
    #[kani::stub(std::str::from_utf8, from_utf8_model)] #[kani::stub(crate::data::GdsFloat64::encode, enc_bits)] #[kani::stub(crate::data::GdsFloat64::decode, dec_bits)] #[kani::stub(alloc::fmt::format, fmt_stub)] #[kani::stub(crate::read::GdsParser::next, stub_next)] #[kani::unwind(16)] c10_x_p_w8_17;
}
// END GENERATED
