// layout21tetris::conv::proto::l21v — kernel pairs of the gridded-layout <-> protobuf conversion (property C19)
// encodes: layout21tetris::conv::proto::ProtoExporter::{export_outline, export_instance, export_assignment, export_track_cross, export_track_ref, export_dimensions, export_point}, ProtoLibImporter::{import_outline, import_instance, import_assignment, import_track_cross, import_track_ref, import_xy_prim_pitches, import_prim_pitches_list, import_layout}, Outline::from_prim_pitches
// stubs: ProtoLibImporter::import_reference -> harness-chosen Ptr<Cell> for local references (it wraps a HashMap lookup); alloc::fmt::format -> empty string; std::hash::RandomState::new -> fixed keys (cell_map constructed, never used); std::sync::Arc::drop_slow -> no-op
// bound *: outlines of 1..=2 steps, one instance / assignment / cut at a time, i32-range coordinates, names of <= 1 ASCII character
#[allow(unused_imports)]
use super::*;

include!(concat!(env!("L21V_HARNESS_DIR"), "/../common/src.rs"));

#[cfg(kani)]
pub fn fmt_stub(_a: core::fmt::Arguments<'_>) -> String {
    String::new()
}
#[cfg(kani)]
pub fn arc_drop_noop<T: ?Sized, A: std::alloc::Allocator>(_a: &mut std::sync::Arc<T, A>) {}
#[cfg(kani)]
pub fn random_state_stub() -> std::collections::hash_map::RandomState {
    unsafe { core::mem::transmute::<[u64; 2], std::collections::hash_map::RandomState>([0u64, 0u64]) }
}
#[cfg(kani)]
static mut REF_CELL: Option<Ptr<Cell>> = None;
#[cfg(kani)]
pub fn import_reference_stub(_this: &mut ProtoLibImporter, pinst: &tproto::Instance) -> LayoutResult<Ptr<Cell>> {
    match pinst.cell.as_ref().and_then(|r| r.to.as_ref()) {
        Some(proto::utils::reference::To::Local(_)) => Ok(unsafe { REF_CELL.as_ref().unwrap().clone() }),
        _ => Err(LayoutError::msg("")),
    }
}
/// exporter / importer are used by the kernels only for the error-context stack; under Kani their other fields are
/// allocated but uninitialised and never read
fn exporter() -> ProtoExporter<'static> {
    #[cfg(kani)]
    let lib: &'static Library = unsafe { &*Box::leak(Box::new(core::mem::MaybeUninit::<Library>::uninit())).as_ptr() };
    #[cfg(not(kani))]
    let lib: &'static Library = Box::leak(Box::new(Library::default()));
    ProtoExporter { lib, ctx: Vec::with_capacity(8) }
}
/// The importer lives in a STACK slot (a heap-allocated one would make `ctx.len()` a non-constant for CBMC and every
/// error path's `ctx.clone()` would unwind to the bound). Under Kani only `ctx` is initialised; natively all of it.
macro_rules! importer {
    ($slot:ident) => {{
        #[cfg(kani)]
        unsafe {
            core::ptr::addr_of_mut!((*$slot.as_mut_ptr()).ctx).write(Vec::new());
        }
        #[cfg(not(kani))]
        {
            $slot.write(ProtoLibImporter::default());
        }
        unsafe { &mut *$slot.as_mut_ptr() }
    }};
}
fn one_char(c: u8) -> String {
    let mut st = String::with_capacity(1);
    st.push((b'a' + c % 26) as char);
    st
}

/// Results are inspected and then forgotten (LayoutError's drop glue dispatches over every boxed error type)
fn is_err_f<T>(r: LayoutResult<T>) -> bool {
    let e = r.is_err();
    core::mem::forget(r);
    e
}
fn ok_and<T>(r: LayoutResult<T>, f: impl FnOnce(&T) -> bool) -> bool {
    let v = match &r {
        Ok(x) => f(x),
        Err(_) => false,
    };
    core::mem::forget(r);
    v
}

/// outline steps + metal count (number of steps concrete per instance)
fn outline_body<S: Src>(s: &mut S, two: bool) {
    let (x0, y0, x1, y1) = (s.i32() as isize, s.i32() as isize, s.i32() as isize, s.i32() as isize);
    let metals = s.u8() as usize;
    // documented shape of an outline: non-negative, x non-increasing, y non-decreasing
    vassume!(s, x0 >= 0 && y0 >= 0 && x1 >= 0 && y1 >= 0 && x1 <= x0 && y1 >= y0);
    vnote!(s, "in", "steps={} x=[{},{}] y=[{},{}] metals={}", if two { 2 } else { 1 }, x0, x1, y0, y1, metals);
    let n = if two { 2 } else { 1 };
    let o = if two {
        Outline { x: vec![PrimPitches::x(x0), PrimPitches::x(x1)], y: vec![PrimPitches::y(y0), PrimPitches::y(y1)] }
    } else {
        Outline { x: vec![PrimPitches::x(x0)], y: vec![PrimPitches::y(y0)] }
    };
    let mut ex = exporter();
    let mut slot = core::mem::MaybeUninit::<ProtoLibImporter>::uninit();
    let imp: &mut ProtoLibImporter = importer!(slot);
    let p = ex.export_outline(&o, metals);
    let ok = match &p {
        Ok(po) => ok_and(imp.import_outline(po), |(o2, m2)| {
            let mut same = *m2 == metals && o2.x.len() == n && o2.y.len() == n;
            let mut i = 0;
            while same && i < n {
                if o2.x[i] != o.x[i] || o2.y[i] != o.y[i] {
                    same = false;
                }
                i += 1;
            }
            same
        }),
        Err(_) => false,
    };
    vcheck!(s, ok, "c19 outline steps and metal-layer count survive the round trip");
    vcover!(s, ok && x0 > 0, "outline round trip reachable");
    core::mem::forget(p);
    core::mem::forget(ex);
    core::mem::forget(o);
}
pub fn c19_q_outline1<S: Src>(s: &mut S) {
    outline_body(s, false)
}
pub fn c19_q_outline2<S: Src>(s: &mut S) {
    outline_body(s, true)
}
/// instances: name, target cell, location, both reflections
pub fn c19_q_instance<S: Src>(s: &mut S) {
    let (x, y) = (s.i32() as isize, s.i32() as isize);
    let (rh, rv) = (s.bool(), s.bool());
    let (cn, inn) = (s.u8(), s.u8());
    vnote!(s, "in", "name={} cell={} loc=({},{}) reflect_horiz={} reflect_vert={}", one_char(inn), one_char(cn), x, y, rh, rv);
    s.tag("asymmetric_reflection", rh != rv);
    let mut c = Cell::default();
    c.name = one_char(cn);
    let cell = Ptr::new(c);
    #[cfg(kani)]
    unsafe {
        REF_CELL = Some(cell.clone());
    }
    let inst = Instance { inst_name: one_char(inn), cell: cell.clone(), loc: Place::Abs(Xy::new(PrimPitches::x(x), PrimPitches::y(y))), reflect_horiz: rh, reflect_vert: rv };
    let mut ex = exporter();
    let mut slot = core::mem::MaybeUninit::<ProtoLibImporter>::uninit();
    let imp: &mut ProtoLibImporter = importer!(slot);
    #[cfg(not(kani))]
    imp.cell_map.insert(one_char(cn), cell.clone());
    let p = ex.export_instance(&inst);
    match &p {
        Ok(pi) => {
            let to_ok = match pi.cell.as_ref().and_then(|r| r.to.as_ref()) {
                Some(proto::utils::reference::To::Local(n)) => n.len() == 1 && n.as_bytes()[0] == b'a' + cn % 26,
                _ => false,
            };
            vcheck!(s, to_ok, "c19 exported instance references its cell by name");
            let back = imp.import_instance(pi);
            match &back {
                Ok(b) => {
                    let b = b.read().unwrap();
                    let loc_ok = match &b.loc {
                        Place::Abs(xy) => xy.x == PrimPitches::x(x) && xy.y == PrimPitches::y(y),
                        _ => false,
                    };
                    vcheck!(s, b.inst_name.len() == 1 && b.inst_name.as_bytes()[0] == inst.inst_name.as_bytes()[0] && b.cell == cell && loc_ok, "c19 instance keeps name, target cell and location");
                    vcheck!(s, b.reflect_horiz == rh && b.reflect_vert == rv, "c19 instance keeps both reflections");
                }
                Err(_) => {
                    vcheck!(s, false, "c19 exported instance imports back");
                }
            }
            core::mem::forget(back);
        }
        Err(_) => {
            vcheck!(s, false, "c19 a placed instance exports");
        }
    }
    vcover!(s, p.is_ok() && rh && !rv, "horizontally reflected instance reachable");
    core::mem::forget(p);
    core::mem::forget(ex);
    core::mem::forget(inst);
}
/// assignments and cuts
pub fn c19_q_assign_cut<S: Src>(s: &mut S) {
    let (l1, t1, l2, t2) = (s.u32() as usize, s.u32() as usize, s.u32() as usize, s.u32() as usize);
    let c = s.u8();
    vnote!(s, "in", "track=({},{}) cross=({},{}) net={}", l1, t1, l2, t2, one_char(c));
    s.tag("track_ne_cross", (l1, t1) != (l2, t2));
    let tc = TrackCross::new(TrackRef::new(l1, t1), TrackRef::new(l2, t2));
    let a = Assign { net: one_char(c), at: tc };
    let mut ex = exporter();
    let mut slot = core::mem::MaybeUninit::<ProtoLibImporter>::uninit();
    let imp: &mut ProtoLibImporter = importer!(slot);
    let p = ex.export_assignment(&a);
    let same = |x: &TrackCross| x.track.layer == l1 && x.track.track == t1 && x.cross.layer == l2 && x.cross.track == t2;
    let ok = match &p {
        Ok(pa) => ok_and(imp.import_assignment(pa), |b| b.net.len() == 1 && b.net.as_bytes()[0] == a.net.as_bytes()[0] && same(&b.at)),
        Err(_) => false,
    };
    vcheck!(s, ok, "c19 net assignment keeps its net and both track references");
    let pc = ex.export_track_cross(&tc);
    let ok2 = match &pc {
        Ok(pp) => ok_and(imp.import_track_cross(pp), |b| same(b)),
        Err(_) => false,
    };
    vcheck!(s, ok2, "c19 cut keeps both track references");
    vcover!(s, ok && ok2 && l1 != l2 && t1 != t2, "distinct references reachable");
    core::mem::forget(p);
    core::mem::forget(pc);
    core::mem::forget(ex);
    core::mem::forget(a);
}
/// negative clauses: each mandatory sub-message removed in turn, an external reference, a relative placement => Err
pub fn c19_q_missing<S: Src>(s: &mut S) {
    let which = s.u8();
    vassume!(s, which < 9);
    vnote!(s, "which", "{}", which);
    let mut slot = core::mem::MaybeUninit::<ProtoLibImporter>::uninit();
    let imp: &mut ProtoLibImporter = importer!(slot);
    let cell = Ptr::new(Cell::default());
    #[cfg(kani)]
    unsafe {
        REF_CELL = Some(cell.clone());
    }
    #[cfg(not(kani))]
    imp.cell_map.insert(String::new(), cell.clone());
    let good_ref = || Some(proto::utils::Reference { to: Some(proto::utils::reference::To::Local(String::new())) });
    let good_loc = || Some(proto::tetris::Place { place: Some(proto::tetris::place::Place::Abs(rawproto::Point::new(1, 2))) });
    let tr = || Some(tproto::TrackRef { layer: 1, track: 2 });
    let inst = |cell, loc| tproto::Instance { name: String::new(), cell, reflect_vert: false, reflect_horiz: false, loc };
    let err = match which {
        0 => is_err_f(imp.import_layout(&tproto::Layout { name: String::new(), outline: None, instances: vec![], assignments: vec![], cuts: vec![] })),
        1 => is_err_f(imp.import_instance(&inst(None, good_loc()))),
        2 => is_err_f(imp.import_instance(&inst(Some(proto::utils::Reference { to: None }), good_loc()))),
        3 => is_err_f(imp.import_instance(&inst(good_ref(), None))),
        4 => is_err_f(imp.import_instance(&inst(good_ref(), Some(proto::tetris::Place { place: None })))),
        5 => is_err_f(imp.import_assignment(&tproto::Assign { net: String::new(), at: None })),
        6 => is_err_f(imp.import_track_cross(&tproto::TrackCross { track: None, cross: tr() })),
        7 => is_err_f(imp.import_track_cross(&tproto::TrackCross { track: tr(), cross: None })),
        _ => is_err_f(imp.import_instance(&inst(good_ref(), Some(proto::tetris::Place { place: Some(proto::tetris::place::Place::Rel(Default::default())) })))),
    };
    vcheck!(s, err, "c19 a message lacking a mandatory sub-message (or using a relative placement) is an error");
    let ok = imp.import_instance(&inst(good_ref(), good_loc()));
    vcheck!(s, ok.is_ok(), "c19 the complete instance message is accepted");
    vcover!(s, which == 8, "relative placement case reachable");
    core::mem::forget(ok);
}

#[cfg(not(kani))]
pub fn replay(name: &str, vals: Vec<Vec<u8>>) -> ReplayOut {
    run_native(name, vals, k::dispatch)
}

harnesses! { k, "sel_tetris_conv_proto.rs";
    #[kani::stub(alloc::fmt::format, fmt_stub)] #[kani::stub(std::sync::Arc::drop_slow, arc_drop_noop)] #[kani::unwind(4)] c19_q_outline1;
    #[kani::stub(alloc::fmt::format, fmt_stub)] #[kani::stub(std::sync::Arc::drop_slow, arc_drop_noop)] #[kani::unwind(4)] c19_q_outline2;
    #[kani::stub(alloc::fmt::format, fmt_stub)] #[kani::stub(std::sync::Arc::drop_slow, arc_drop_noop)] #[kani::stub(crate::conv::proto::ProtoLibImporter::import_reference, import_reference_stub)] #[kani::unwind(3)] c19_q_instance;
    #[kani::stub(alloc::fmt::format, fmt_stub)] #[kani::stub(std::sync::Arc::drop_slow, arc_drop_noop)] #[kani::unwind(3)] c19_q_assign_cut;
    #[kani::stub(alloc::fmt::format, fmt_stub)] #[kani::stub(std::sync::Arc::drop_slow, arc_drop_noop)] #[kani::stub(crate::conv::proto::ProtoLibImporter::import_reference, import_reference_stub)] #[kani::unwind(3)] c19_q_missing;
}
