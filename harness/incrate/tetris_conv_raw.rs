// layout21tetris::conv::raw::l21v — track state machine and track-position arithmetic (property C08)
// encodes: layout21tetris::tracks::Track::cut_or_block, cut, block, set_net, stop; stack::MetalLayer::to_layer_period, to_layer_period_data, entries, pitch; validate::StackValidator::validate_metal, ValidMetalLayer::center, span, track_index
// stubs: alloc::fmt::format -> empty string (error messages); std::sync::Arc::drop_slow -> no-op
// bound *: tracks in their initial state (one wire or rail segment [0, stop]) receiving ONE cut or blockage, then one net assignment; layer patterns of four entries (gap, signal, rail, signal) with widths 1..=64, offset/overlap in 0..=16 (S3) or 0 (S4), periods 0..=3, both flip modes (S3)
#[allow(unused_imports)]
use super::*;
#[allow(unused_imports)]
use crate::coords::DbUnits;
#[allow(unused_imports)]
use crate::placement::Place;
#[allow(unused_imports)]
use crate::stack::{Assign, FlipMode, MetalLayer, PrimitiveLayer, PrimitiveMode};
#[allow(unused_imports)]
use crate::tracks::{RailKind, Track, TrackCross, TrackData, TrackEntry, TrackSegment, TrackSegmentType, TrackSpec, TrackType};

include!(concat!(env!("L21V_HARNESS_DIR"), "/../common/src.rs"));

#[cfg(kani)]
pub fn fmt_stub(_a: core::fmt::Arguments<'_>) -> String {
    String::new()
}
#[cfg(kani)]
pub fn arc_drop_noop<T: ?Sized, A: std::alloc::Allocator>(_a: &mut std::sync::Arc<T, A>) {}

fn fresh_track<'a>(stop: isize, rail: bool) -> Track<'a> {
    Track {
        data: TrackData { ttype: if rail { TrackType::Rail(RailKind::Pwr) } else { TrackType::Signal }, index: 0, dir: crate::raw::Dir::Horiz, start: DbUnits(0), width: DbUnits(1) },
        segments: vec![TrackSegment { tp: if rail { TrackSegmentType::Rail(RailKind::Pwr) } else { TrackSegmentType::Wire { src: None } }, start: DbUnits(0), stop: DbUnits(stop) }],
    }
}
/// kind of a segment: 0 wire, 1 rail, 2 cut, 3 blockage
fn seg_kind(t: &TrackSegmentType) -> u8 {
    match t {
        TrackSegmentType::Wire { .. } => 0,
        TrackSegmentType::Rail(_) => 1,
        TrackSegmentType::Cut { .. } => 2,
        TrackSegmentType::Blockage { .. } => 3,
    }
}

/// S1: the first cut / blockage on a fresh track
pub fn c08_q_s1_first_cut<S: Src>(s: &mut S) {
    let len = s.i16() as isize;
    let (a, b) = (s.i16() as isize, s.i16() as isize);
    let rail = s.bool();
    let block = s.bool();
    vassume!(s, len >= 1);
    // a cut or blockage is a span inside the track's axis: 0 <= a <= b (requests reaching outside are refused, below)
    vassume!(s, a >= 0 && a <= b);
    vnote!(s, "in", "track [0,{}] rail={} request [{},{}] block={}", len, rail, a, b, block);
    s.tag("at_track_start", a == 0);
    s.tag("at_track_end", b == len);
    s.tag("empty_request", a == b);
    let cross = TrackCross::from_parts(0, 0, 1, 0);
    let inst = Ptr::new(Instance { inst_name: String::new(), cell: Ptr::new(crate::cell::Cell::default()), loc: Place::Abs(Xy::new(PrimPitches::x(0), PrimPitches::y(0))), reflect_horiz: false, reflect_vert: false });
    let mut t = fresh_track(len, rail);
    let r = if block { t.block(DbUnits(a), DbUnits(b), &inst) } else { t.cut(DbUnits(a), DbUnits(b), &cross) };
    let n = t.segments.len();
    match &r {
        Ok(()) => {
            vcheck!(s, b <= len, "c08.s1 a request reaching past the outline edge is refused");
            // the segments tile [0, len] in order without overlap
            let mut ok = n >= 1 && n <= 3 && t.segments[0].start == DbUnits(0) && t.segments[n - 1].stop == DbUnits(len);
            let mut i = 0;
            while ok && i < n {
                if t.segments[i].start > t.segments[i].stop {
                    ok = false;
                }
                if i + 1 < n && t.segments[i].stop != t.segments[i + 1].start {
                    ok = false;
                }
                i += 1;
            }
            vcheck!(s, ok, "c08.s1 segments tile the track from edge to edge without overlap");
            // exactly one segment of the requested type, spanning exactly the request; all others keep the track's type
            let want_kind = if block { 3 } else { 2 };
            let base_kind = if rail { 1 } else { 0 };
            let mut count = 0;
            let mut others_ok = true;
            let mut i = 0;
            while i < n {
                let k = seg_kind(&t.segments[i].tp);
                if k == want_kind {
                    count += 1;
                    if t.segments[i].start != DbUnits(a) || t.segments[i].stop != DbUnits(b) {
                        others_ok = false;
                    }
                } else if k != base_kind {
                    others_ok = false;
                }
                i += 1;
            }
            vcheck!(s, count == 1 && others_ok, "c08.s1 exactly the requested span becomes a cut/blockage, the rest keeps the track's type");
        }
        Err(_) => {
            vcheck!(s, n == 1 && t.segments[0].start == DbUnits(0) && t.segments[0].stop == DbUnits(len), "c08.s1 a refused request leaves the track unchanged");
            vcheck!(s, b > len || a >= len, "c08.s1 an in-range request on a fresh track is accepted");
        }
    }
    vcover!(s, r.is_ok() && n == 3, "interior cut (three segments) reachable");
    vcover!(s, r.is_err(), "refused request reachable");
    core::mem::forget(r);
    core::mem::forget(t);
    core::mem::forget(inst);
}

/// S1 (lean): cut only (no instance pointer), wire or rail concrete per instance
fn s1_cut_body<S: Src>(s: &mut S, rail: bool) {
    let len = s.i16() as isize;
    let (a, b) = (s.i16() as isize, s.i16() as isize);
    vassume!(s, len >= 1);
    vassume!(s, a >= 0 && a <= b);
    vnote!(s, "in", "track [0,{}] rail={} cut [{},{}]", len, rail, a, b);
    s.tag("at_track_start", a == 0);
    s.tag("at_track_end", b == len);
    s.tag("empty_request", a == b);
    let cross = TrackCross::from_parts(0, 0, 1, 0);
    let mut t = fresh_track(len, rail);
    let r = t.cut(DbUnits(a), DbUnits(b), &cross);
    let n = t.segments.len();
    let ok_res = r.is_ok();
    core::mem::forget(r);
    if ok_res {
        vcheck!(s, b <= len, "c08.s1 a request reaching past the outline edge is refused");
        vcheck!(s, n == 2 || n == 3, "c08.s1 a cut splits the track into two or three pieces");
        if n == 3 {
            let t0 = (t.segments[0].start, t.segments[0].stop, seg_kind(&t.segments[0].tp));
            let t1 = (t.segments[1].start, t.segments[1].stop, seg_kind(&t.segments[1].tp));
            let t2 = (t.segments[2].start, t.segments[2].stop, seg_kind(&t.segments[2].tp));
            let base = if rail { 1 } else { 0 };
            vcheck!(s, t0 == (DbUnits(0), DbUnits(a), base) && t1 == (DbUnits(a), DbUnits(b), 2) && t2 == (DbUnits(b), DbUnits(len), base), "c08.s1 pieces tile the track: [0,a) keeps its type, [a,b) is the cut, [b,len] keeps its type");
        }
        if n == 2 {
            let t0 = (t.segments[0].start, t.segments[0].stop, seg_kind(&t.segments[0].tp));
            let t1 = (t.segments[1].start, t.segments[1].stop, seg_kind(&t.segments[1].tp));
            let base = if rail { 1 } else { 0 };
            vcheck!(s, b == len && t0 == (DbUnits(0), DbUnits(a), base) && t1 == (DbUnits(a), DbUnits(len), 2), "c08.s1 a cut reaching the outline edge leaves two pieces that tile the track");
        }
    } else {
        vcheck!(s, n == 1 && t.segments[0].start == DbUnits(0) && t.segments[0].stop == DbUnits(len), "c08.s1 a refused request leaves the track unchanged");
        vcheck!(s, b > len || a >= len, "c08.s1 an in-range request on a fresh track is accepted");
    }
    vcover!(s, ok_res && n == 3, "interior cut (three segments) reachable");
    vcover!(s, !ok_res, "refused request reachable");
    core::mem::forget(t);
}
pub fn c08_q_s1_cut_wire<S: Src>(s: &mut S) {
    s1_cut_body(s, false)
}
pub fn c08_q_s1_cut_rail<S: Src>(s: &mut S) {
    s1_cut_body(s, true)
}

/// S2: a net assignment changes exactly the wire piece containing the crossing
pub fn c08_q_s2_set_net<S: Src>(s: &mut S) {
    let len = s.i16() as isize;
    let (a, b, at) = (s.i16() as isize, s.i16() as isize, s.i16() as isize);
    let with_cut = s.bool();
    vassume!(s, len >= 1 && a >= 0 && a < b && b <= len);
    vnote!(s, "in", "track [0,{}] cut [{},{}] present={} assign at {}", len, a, b, with_cut, at);
    let cross = TrackCross::from_parts(0, 0, 1, 0);
    let assn = Assign { net: String::new(), at: cross };
    let mut t = fresh_track(len, false);
    if with_cut {
        let r = t.cut(DbUnits(a), DbUnits(b), &cross);
        vcheck!(s, r.is_ok(), "c08.s2 setup cut accepted");
        core::mem::forget(r);
    }
    let r = t.set_net(DbUnits(at), &assn);
    let n = t.segments.len();
    // which piece contains `at`: first segment with start <= at <= stop, scanning left to right
    let mut hit: Option<usize> = None;
    let mut i = 0;
    while i < n {
        if hit.is_none() && t.segments[i].start <= DbUnits(at) && t.segments[i].stop >= DbUnits(at) {
            hit = Some(i);
        }
        i += 1;
    }
    let mut named = 0;
    let mut named_idx = 0;
    let mut i = 0;
    while i < n {
        if let TrackSegmentType::Wire { src: Some(_) } = &t.segments[i].tp {
            named += 1;
            named_idx = i;
        }
        i += 1;
    }
    match &r {
        Ok(()) => {
            vcheck!(s, at >= 0 && at <= len, "c08.s2 an assignment outside the track is refused");
            vcheck!(s, named == 1 && hit == Some(named_idx), "c08.s2 exactly the wire piece containing the crossing carries the net");
        }
        Err(_) => {
            vcheck!(s, named == 0, "c08.s2 a refused assignment names nothing");
            let on_cut = with_cut && at >= a && at <= b && !(at == a && a > 0);
            vcheck!(s, at < 0 || at > len || on_cut, "c08.s2 an assignment on a wire piece is accepted");
        }
    }
    vcover!(s, r.is_ok() && with_cut && at > b, "assignment after a cut reachable");
    vcover!(s, r.is_err() && at >= 0 && at <= len, "assignment onto a cut reachable");
    core::mem::forget(r);
    core::mem::forget(t);
}

fn width<S: Src>(s: &mut S) -> isize {
    let v = s.u8() as isize;
    vassume!(s, v >= 1 && v <= 64);
    v
}
fn small<S: Src>(s: &mut S) -> isize {
    let v = s.u8() as isize;
    vassume!(s, v <= 16);
    v
}
fn layer(w: [isize; 4], offset: isize, overlap: isize, flip: bool) -> MetalLayer {
    MetalLayer {
        name: String::new(),
        dir: crate::raw::Dir::Horiz,
        cutsize: DbUnits(1),
        entries: vec![TrackSpec::gap(w[0]), TrackSpec::sig(w[1]), TrackSpec::pwr(w[2]), TrackSpec::sig(w[3])],
        offset: DbUnits(offset),
        overlap: DbUnits(overlap),
        flip: if flip { FlipMode::EveryOther } else { FlipMode::None },
        prim: PrimitiveMode::Stack,
        raw: None,
    }
}

/// S3: the tracks of period `index` sit where the layer's pattern puts them (reversed pattern on odd periods when
/// flipping), each track starting as one segment [0, stop] of its own type
pub fn c08_q_s3_period<S: Src>(s: &mut S) {
    let w = [width(s), width(s), width(s), width(s)];
    let (offset, overlap) = (small(s), small(s));
    let flip = s.bool();
    let index = s.u8() as usize;
    vassume!(s, index <= 3);
    let stop = s.i16() as isize;
    vassume!(s, stop >= 1);
    vnote!(s, "in", "widths={:?} offset={} overlap={} flip={} period={} stop={}", w, offset, overlap, flip, index, stop);
    s.tag("flipped_period", flip && index % 2 == 1);
    let l = layer(w, offset, overlap, flip);
    let p = l.to_layer_period(index, stop);
    let pitch = w[0] + w[1] + w[2] + w[3] - overlap;
    let base = offset + pitch * index as isize;
    // entry order in this period and the running start of each entry
    let rev = flip && index % 2 == 1;
    let order: [usize; 4] = if rev { [3, 2, 1, 0] } else { [0, 1, 2, 3] };
    let mut starts = [0isize; 4]; // start of entry e (by original entry number)
    let mut cur = base;
    let mut i = 0;
    while i < 4 {
        starts[order[i]] = cur;
        cur += w[order[i]];
        i += 1;
    }
    match &p {
        Ok(p) => {
            vcheck!(s, p.index == index && p.signals.len() == 2 && p.rails.len() == 1, "c08.s3 a period has one track per signal / rail entry");
            if p.signals.len() == 2 && p.rails.len() == 1 {
                // signals appear in iteration order
                let (first, second) = if rev { (3, 1) } else { (1, 3) };
                vcheck!(s, p.signals[0].data.start == DbUnits(starts[first]) && p.signals[0].data.width == DbUnits(w[first]), "c08.s3 first signal track position and width");
                vcheck!(s, p.signals[1].data.start == DbUnits(starts[second]) && p.signals[1].data.width == DbUnits(w[second]), "c08.s3 second signal track position and width");
                vcheck!(s, p.rails[0].data.start == DbUnits(starts[2]) && p.rails[0].data.width == DbUnits(w[2]), "c08.s3 rail track position and width");
                let seg_ok = |t: &Track, kind: u8| t.segments.len() == 1 && t.segments[0].start == DbUnits(0) && t.segments[0].stop == DbUnits(stop) && seg_kind(&t.segments[0].tp) == kind;
                vcheck!(s, seg_ok(&p.signals[0], 0) && seg_ok(&p.signals[1], 0) && seg_ok(&p.rails[0], 1), "c08.s3 each track starts as one segment from 0 to the outline edge");
            }
        }
        Err(_) => {
            vcheck!(s, false, "c08.s3 a positive-width pattern instantiates");
        }
    }
    vcover!(s, p.is_ok() && rev, "flipped period reachable");
    core::mem::forget(p);
    core::mem::forget(l);
}

/// S4: centre / span / index of signal tracks of a validated layer agree with the pattern (no flipping, no offset)
pub fn c08_q_s4_centers<S: Src>(s: &mut S) {
    let w = [width(s), width(s), width(s), width(s)];
    let idx = s.u8() as usize;
    vassume!(s, idx <= 7);
    vnote!(s, "in", "widths={:?} track={}", w, idx);
    let l = layer(w, 0, 0, false);
    let prim = PrimitiveLayer::new(Xy::new(DbUnits(1), DbUnits(1)));
    let v = crate::validate::StackValidator.validate_metal(l, 0, &prim);
    match &v {
        Ok(v) => {
            let pitch = w[0] + w[1] + w[2] + w[3];
            let (per, k) = (idx / 2, idx % 2);
            let start = pitch * per as isize + if k == 0 { w[0] } else { w[0] + w[1] + w[2] };
            let wd = if k == 0 { w[1] } else { w[3] };
            let sp = v.span(idx);
            let c = v.center(idx);
            vcheck!(s, matches!(&sp, Ok((a, b)) if *a == DbUnits(start) && *b == DbUnits(start + wd)), "c08.s4 span of a signal track is its position and width in the pattern");
            vcheck!(s, matches!(&c, Ok(x) if *x == DbUnits(start + wd / 2)), "c08.s4 centre of a signal track");
            // every coordinate on the track maps back to its index
            let d = s.u8() as isize;
            vassume!(s, d < wd);
            let ti = v.track_index(DbUnits(start + d));
            vcheck!(s, matches!(&ti, Ok(i) if *i == idx), "c08.s4 a coordinate on a track maps back to that track's index");
            core::mem::forget(sp);
            core::mem::forget(c);
            core::mem::forget(ti);
        }
        Err(_) => {
            vcheck!(s, false, "c08.s4 a positive-width layer validates");
        }
    }
    vcover!(s, v.is_ok() && idx == 5, "track in a later period reachable");
    core::mem::forget(v);
}

#[cfg(not(kani))]
pub fn replay(name: &str, vals: Vec<Vec<u8>>) -> ReplayOut {
    run_native(name, vals, k::dispatch)
}

harnesses! { k, "sel_tetris_conv_raw.rs";
    #[kani::stub(alloc::fmt::format, fmt_stub)] #[kani::stub(std::sync::Arc::drop_slow, arc_drop_noop)] #[kani::unwind(5)] c08_q_s1_first_cut;
    #[kani::stub(alloc::fmt::format, fmt_stub)] #[kani::unwind(5)] c08_q_s1_cut_wire;
    #[kani::stub(alloc::fmt::format, fmt_stub)] #[kani::unwind(5)] c08_q_s1_cut_rail;
    #[kani::stub(alloc::fmt::format, fmt_stub)] #[kani::stub(std::sync::Arc::drop_slow, arc_drop_noop)] #[kani::unwind(5)] c08_q_s2_set_net;
    #[kani::stub(alloc::fmt::format, fmt_stub)] #[kani::stub(std::sync::Arc::drop_slow, arc_drop_noop)] #[kani::unwind(6)] c08_q_s3_period;
    #[kani::stub(alloc::fmt::format, fmt_stub)] #[kani::stub(std::sync::Arc::drop_slow, arc_drop_noop)] #[kani::unwind(6)] c08_q_s4_centers;
}
