// layout21raw::gds::l21v — export-side kernels of the raw <-> GDSII conversion (property C07)
// encodes: layout21raw::gds::PlaceLabels::label_location (Rect, Path, Polygon), GdsExporter::export_shape, export_point, export_instance, export_shape_label, GdsExporter::export_lib (units table), GdsImporter::import_units, Polygon::contains, Rect::center, Vec<Point>::bbox
// stubs: std::sync::Arc::drop_slow -> no-op; alloc::fmt::format -> empty string (error messages); std::hash::RandomState::new -> fixed keys (containers are constructed, never used); gds21::GdsDateTime::now -> fixed date (system clock)
// bound *: label placement: triangles on the grid +-2 (quadrilaterals +-2 thorough), rectangles over i32 corners, 2-point Manhattan paths over i32; shape export: rectangles, 3-point polygons, 2- and 3-point paths over all of i64 (out-of-range => Err); instances: every reflect x {None,0,90,180,270} orientation, i64 locations
#[allow(unused_imports)]
use super::*;

include!(concat!(env!("L21V_HARNESS_DIR"), "/../common/src.rs"));

#[cfg(kani)]
pub fn fmt_stub(_a: core::fmt::Arguments<'_>) -> String {
    String::new()
}
#[cfg(kani)]
pub fn arc_drop_noop<T: ?Sized, A: std::alloc::Allocator>(_a: &mut std::sync::Arc<T, A>) {}
#[cfg(kani)]
pub fn random_state_stub() -> std::collections::hash_map::RandomState {
    // (k0, k1) = (0, 0): hash containers are only constructed in these harnesses, never hashed into
    unsafe { core::mem::transmute::<[u64; 2], std::collections::hash_map::RandomState>([0u64, 0u64]) }
}
#[cfg(kani)]
pub fn now_stub() -> gds21::GdsDateTime {
    gds21::GdsDateTime { year: 100, month: 1, day: 1, hour: 0, minute: 0, second: 0 }
}

// ---- exact point-in-closed-polygon oracle (as in C13; 32-bit arithmetic is ample for the grids used here) ----------
type P = (i32, i32);
fn cross(o: P, a: P, b: P) -> i32 {
    (a.0 - o.0) * (b.1 - o.1) - (a.1 - o.1) * (b.0 - o.0)
}
fn on_seg(a: P, b: P, p: P) -> bool {
    cross(a, b, p) == 0 && p.0 >= a.0.min(b.0) && p.0 <= a.0.max(b.0) && p.1 >= a.1.min(b.1) && p.1 <= a.1.max(b.1)
}
fn sgn(v: i32) -> i32 {
    if v > 0 {
        1
    } else if v < 0 {
        -1
    } else {
        0
    }
}
fn seg_meet(a: P, b: P, c: P, d: P) -> bool {
    let (d1, d2, d3, d4) = (sgn(cross(c, d, a)), sgn(cross(c, d, b)), sgn(cross(a, b, c)), sgn(cross(a, b, d)));
    (d1 * d2 < 0 && d3 * d4 < 0) || on_seg(c, d, a) || on_seg(c, d, b) || on_seg(a, b, c) || on_seg(a, b, d)
}
fn is_simple(p: &[P]) -> bool {
    let n = p.len();
    let mut i = 0;
    while i < n {
        let (a, b, c) = (p[i], p[(i + 1) % n], p[(i + 2) % n]);
        if a == b {
            return false;
        }
        if cross(a, b, c) == 0 && (a.0 - b.0) * (c.0 - b.0) + (a.1 - b.1) * (c.1 - b.1) > 0 {
            return false;
        }
        let mut j = i + 2;
        while j < n {
            if !(i == 0 && j == n - 1) && seg_meet(a, b, p[j], p[(j + 1) % n]) {
                return false;
            }
            j += 1;
        }
        i += 1;
    }
    true
}
fn oracle(p: &[P], q: P) -> bool {
    let n = p.len();
    let mut inside = false;
    let mut i = 0;
    while i < n {
        let (a, b) = (p[i], p[(i + 1) % n]);
        if on_seg(a, b, q) {
            return true;
        }
        if (a.1 > q.1) != (b.1 > q.1) {
            let lhs = (b.0 - a.0) * (q.1 - a.1) - (q.0 - a.0) * (b.1 - a.1);
            if if b.1 > a.1 { lhs > 0 } else { lhs < 0 } {
                inside = !inside;
            }
        }
        i += 1;
    }
    inside
}
fn small<S: Src>(s: &mut S, r: i32) -> i32 {
    let v = s.i8() as i32;
    vassume!(s, v >= -r && v <= r);
    v
}

// ---- E1: the label the exporter places for a named shape lies inside that shape ------------------------------------
fn poly_label_body<S: Src, const N: usize>(s: &mut S, r: i32) {
    let mut p = [(0i32, 0i32); N];
    let mut i = 0;
    while i < N {
        p[i] = (small(s, r), small(s, r));
        i += 1;
    }
    vassume!(s, if N == 3 { cross(p[0], p[1], p[2]) != 0 } else { is_simple(&p) });
    vnote!(s, "poly", "{:?}", p);
    let mut pts = Vec::with_capacity(N);
    let mut i = 0;
    while i < N {
        pts.push(Point::new(p[i].0 as Int, p[i].1 as Int));
        i += 1;
    }
    let poly = Polygon { points: pts };
    let loc = poly.label_location();
    vnote!(s, "label", "{:?}", loc);
    match &loc {
        Ok(l) => {
            vcheck!(s, oracle(&p, (l.x as i32, l.y as i32)), "c07.e1 polygon label lies inside the closed polygon");
        }
        Err(_) => {}
    }
    vcover!(s, loc.is_ok(), "label found reachable");
    // the bounding-box centre is outside for some shapes (the second strategy is exercised)
    vcover!(s, loc.is_ok() && {
        let (mut xlo, mut xhi, mut ylo, mut yhi) = (p[0].0, p[0].0, p[0].1, p[0].1);
        let mut i = 1;
        while i < N {
            xlo = xlo.min(p[i].0);
            xhi = xhi.max(p[i].0);
            ylo = ylo.min(p[i].1);
            yhi = yhi.max(p[i].1);
            i += 1;
        }
        !oracle(&p, ((xlo + xhi) / 2, (ylo + yhi) / 2))
    }, "bbox centre outside the shape reachable");
    core::mem::forget(loc);
    core::mem::forget(poly);
}
pub fn c07_x_e1_tri_label<S: Src>(s: &mut S) {
    poly_label_body::<S, 3>(s, 2)
}
pub fn c07_x_e1_quad_label<S: Src>(s: &mut S) {
    poly_label_body::<S, 4>(s, 2)
}
pub fn c07_q_e1_rect_label<S: Src>(s: &mut S) {
    let (x0, y0, x1, y1) = (s.i32() as Int, s.i32() as Int, s.i32() as Int, s.i32() as Int);
    vnote!(s, "rect", "({},{})-({},{})", x0, y0, x1, y1);
    let r = Rect { p0: Point::new(x0, y0), p1: Point::new(x1, y1) };
    let loc = r.label_location();
    match &loc {
        Ok(l) => {
            vcheck!(s, l.x >= x0.min(x1) && l.x <= x0.max(x1) && l.y >= y0.min(y1) && l.y <= y0.max(y1), "c07.e1 rectangle label lies inside the closed rectangle");
        }
        Err(_) => {
            vcheck!(s, false, "c07.e1 a rectangle always has a label location");
        }
    }
    vcover!(s, x0 > x1 && y0 < y1, "swapped corners reachable");
    core::mem::forget(loc);
}
pub fn c07_q_e1_path_label<S: Src>(s: &mut S) {
    // two-point Manhattan path
    let (x0, y0, d) = (s.i32() as Int, s.i32() as Int, s.i32() as Int);
    let horiz = s.bool();
    let (x1, y1) = if horiz { (d, y0) } else { (x0, d) };
    let w = s.u8() as usize;
    vnote!(s, "path", "({},{})-({},{}) w={}", x0, y0, x1, y1, w);
    let p = Path { points: vec![Point::new(x0, y0), Point::new(x1, y1)], width: w };
    let loc = p.label_location();
    match &loc {
        Ok(l) => {
            vcheck!(s, l.x >= x0.min(x1) && l.x <= x0.max(x1) && l.y >= y0.min(y1) && l.y <= y0.max(y1), "c07.e1 path label lies on the path's first segment");
        }
        Err(_) => {
            vcheck!(s, false, "c07.e1 a path always has a label location");
        }
    }
    vcover!(s, horiz && x0 > x1, "leftward segment reachable");
    core::mem::forget(loc);
    core::mem::forget(p);
}

/// thorough: three-point Manhattan path (an L or a straight run); the label lies on the first segment whatever follows
pub fn c07_t_e1_path3_label<S: Src>(s: &mut S) {
    let (x0, y0, d, e) = (s.i32() as Int, s.i32() as Int, s.i32() as Int, s.i32() as Int);
    let horiz = s.bool();
    let turn = s.bool();
    let (x1, y1) = if horiz { (d, y0) } else { (x0, d) };
    // second segment: perpendicular (turn) or continuing along the same axis
    let (x2, y2) = if horiz != turn { (e, y1) } else { (x1, e) };
    let w = s.u8() as usize;
    vnote!(s, "path", "({},{})-({},{})-({},{}) w={}", x0, y0, x1, y1, x2, y2, w);
    let p = Path { points: vec![Point::new(x0, y0), Point::new(x1, y1), Point::new(x2, y2)], width: w };
    let loc = p.label_location();
    match &loc {
        Ok(l) => {
            vcheck!(s, l.x >= x0.min(x1) && l.x <= x0.max(x1) && l.y >= y0.min(y1) && l.y <= y0.max(y1), "c07.e1 three-point path label lies on the path's first segment");
        }
        Err(_) => {
            vcheck!(s, false, "c07.e1 a three-point path always has a label location");
        }
    }
    vcover!(s, turn && horiz && x0 > x1, "L-shaped leftward path reachable");
    core::mem::forget(loc);
    core::mem::forget(p);
}

// ---- E2: shapes become GDSII elements with exactly their points ------------------------------------------------------
/// an exporter whose library reference is never followed by the functions under test here
fn exporter() -> GdsExporter<'static> {
    // allocated but (under Kani) uninitialised: export_shape / export_instance / export_point never read the library
    #[cfg(kani)]
    let lib: &'static Library = unsafe { &*Box::leak(Box::new(core::mem::MaybeUninit::<Library>::uninit())).as_ptr() };
    #[cfg(not(kani))]
    let lib: &'static Library = Box::leak(Box::new(Library::default()));
    GdsExporter { lib, ctx: Vec::new() }
}
fn fits(v: i64) -> bool {
    v >= i32::MIN as i64 && v <= i32::MAX as i64
}
pub fn c07_q_e2_rect<S: Src>(s: &mut S) {
    let (x0, y0, x1, y1) = (s.i64(), s.i64(), s.i64(), s.i64());
    let (layer, xtype) = (s.i16(), s.i16());
    vnote!(s, "rect", "({},{})-({},{})", x0, y0, x1, y1);
    let mut ex = exporter();
    let shape = Shape::Rect(Rect { p0: Point::new(x0 as Int, y0 as Int), p1: Point::new(x1 as Int, y1 as Int) });
    let r = ex.export_shape(&shape, &gds21::GdsLayerSpec { layer, xtype });
    let all_fit = fits(x0) && fits(y0) && fits(x1) && fits(y1);
    match &r {
        Ok(gds21::GdsElement::GdsBoundary(b)) => {
            vcheck!(s, all_fit, "c07.e2 out-of-range coordinates are an error, never truncated");
            vcheck!(s, b.layer == layer && b.datatype == xtype, "c07.e2 rectangle keeps layer and datatype numbers");
            let want = [(x0, y0), (x1, y0), (x1, y1), (x0, y1), (x0, y0)];
            let mut ok = b.xy.len() == 5;
            let mut i = 0;
            while ok && i < 5 {
                if b.xy[i].x as i64 != want[i].0 || b.xy[i].y as i64 != want[i].1 {
                    ok = false;
                }
                i += 1;
            }
            vcheck!(s, ok, "c07.e2 rectangle becomes the closed five-point boundary through its corners");
            vcheck!(s, b.elflags.is_none() && b.plex.is_none() && b.properties.len() == 0, "c07.e2 no stray optional fields");
        }
        Ok(_) => {
            vcheck!(s, false, "c07.e2 rectangle exports as a boundary");
        }
        Err(_) => {
            vcheck!(s, !all_fit, "c07.e2 in-range rectangle exports");
        }
    }
    vcover!(s, r.is_ok(), "export ok reachable");
    vcover!(s, r.is_err(), "export error reachable");
    core::mem::forget(r);
    core::mem::forget(ex);
}
pub fn c07_x_e2_poly3<S: Src>(s: &mut S) {
    let c = [s.i64(), s.i64(), s.i64(), s.i64(), s.i64(), s.i64()];
    vnote!(s, "poly", "{:?}", c);
    let mut ex = exporter();
    let pt = |i: usize| Point::new(c[2 * i] as Int, c[2 * i + 1] as Int);
    let shape = Shape::Polygon(Polygon { points: vec![pt(0), pt(1), pt(2)] });
    let r = ex.export_shape(&shape, &gds21::GdsLayerSpec { layer: 1, xtype: 2 });
    let all_fit = fits(c[0]) && fits(c[1]) && fits(c[2]) && fits(c[3]) && fits(c[4]) && fits(c[5]);
    match &r {
        Ok(gds21::GdsElement::GdsBoundary(b)) => {
            vcheck!(s, all_fit, "c07.e2 out-of-range coordinates are an error, never truncated");
            let mut ok = b.xy.len() == 4;
            let mut i = 0;
            while ok && i < 4 {
                let j = i % 3;
                if b.xy[i].x as i64 != c[2 * j] || b.xy[i].y as i64 != c[2 * j + 1] {
                    ok = false;
                }
                i += 1;
            }
            vcheck!(s, ok, "c07.e2 polygon becomes its points plus the repeated first point");
        }
        Ok(_) => {
            vcheck!(s, false, "c07.e2 polygon exports as a boundary");
        }
        Err(_) => {
            vcheck!(s, !all_fit, "c07.e2 in-range polygon exports");
        }
    }
    vcover!(s, r.is_ok(), "export ok reachable");
    core::mem::forget(r);
    core::mem::forget(ex);
    core::mem::forget(shape);
}
fn path_export_body<S: Src>(s: &mut S, n: usize) {
    let c = [s.i64(), s.i64(), s.i64(), s.i64(), s.i64(), s.i64()];
    let w = s.u64() as usize;
    vnote!(s, "path", "{:?} n={} w={}", c, n, w);
    s.tag("path", true);
    let mut ex = exporter();
    let mut pts = Vec::with_capacity(n);
    let mut i = 0;
    while i < n {
        pts.push(Point::new(c[2 * i] as Int, c[2 * i + 1] as Int));
        i += 1;
    }
    let shape = Shape::Path(Path { points: pts, width: w });
    let r = ex.export_shape(&shape, &gds21::GdsLayerSpec { layer: 1, xtype: 2 });
    let mut all_fit = w <= i32::MAX as usize;
    let mut i = 0;
    while i < 2 * n {
        if !fits(c[i]) {
            all_fit = false;
        }
        i += 1;
    }
    match &r {
        Ok(gds21::GdsElement::GdsPath(p)) => {
            vcheck!(s, all_fit, "c07.e2 out-of-range coordinates or width are an error, never truncated");
            vcheck!(s, p.xy.len() == n, "c07.e2 an open path stays open: exactly its own points");
            let mut ok = p.xy.len() >= n;
            let mut i = 0;
            while ok && i < n {
                if p.xy[i].x as i64 != c[2 * i] || p.xy[i].y as i64 != c[2 * i + 1] {
                    ok = false;
                }
                i += 1;
            }
            vcheck!(s, ok, "c07.e2 path keeps its points in order");
            vcheck!(s, p.width == Some(w as i32), "c07.e2 path keeps its width");
        }
        Ok(_) => {
            vcheck!(s, false, "c07.e2 path exports as a GDSII path");
        }
        Err(_) => {
            vcheck!(s, !all_fit, "c07.e2 in-range path exports");
        }
    }
    vcover!(s, r.is_ok(), "export ok reachable");
    core::mem::forget(r);
    core::mem::forget(ex);
    core::mem::forget(shape);
}
pub fn c07_q_e2_path2<S: Src>(s: &mut S) {
    path_export_body(s, 2)
}
pub fn c07_q_e2_path3<S: Src>(s: &mut S) {
    path_export_body(s, 3)
}

// ---- E3: instances -----------------------------------------------------------------------------------------
pub fn c07_x_e3_instance<S: Src>(s: &mut S) {
    let (x, y) = (s.i64(), s.i64());
    let refl = s.bool();
    let sel = s.u8();
    vassume!(s, sel <= 4);
    let angle = match sel {
        0 => None,
        1 => Some(0.0),
        2 => Some(90.0),
        3 => Some(180.0),
        _ => Some(270.0),
    };
    let c = s.u8();
    vassume!(s, c >= b'a' && c <= b'z');
    vnote!(s, "inst", "loc=({},{}) refl={} angle={:?} cell={}", x, y, refl, angle, c as char);
    let mut name = String::with_capacity(1);
    name.push(c as char);
    let cell = Ptr::new(Cell { name: name.clone(), abs: None, layout: None });
    let inst = Instance { inst_name: String::new(), cell, loc: Point::new(x as Int, y as Int), reflect_vert: refl, angle };
    let mut ex = exporter();
    let r = ex.export_instance(&inst);
    match &r {
        Ok(g) => {
            vcheck!(s, fits(x) && fits(y), "c07.e3 out-of-range location is an error, never truncated");
            vcheck!(s, g.name == name, "c07.e3 reference names the target cell");
            vcheck!(s, g.xy.x as i64 == x && g.xy.y as i64 == y, "c07.e3 reference keeps the location");
            match &g.strans {
                None => {
                    vcheck!(s, !refl && angle.is_none(), "c07.e3 orientation is not dropped");
                }
                Some(t) => {
                    vcheck!(s, t.reflected == refl, "c07.e3 reflection flag");
                    vcheck!(s, t.angle.map(|a| a.to_bits()) == angle.map(|a: f64| a.to_bits()) || (angle.is_none() && t.angle == Some(0.0)), "c07.e3 angle in degrees");
                    vcheck!(s, t.mag.is_none() && !t.abs_mag && !t.abs_angle, "c07.e3 no magnification invented");
                }
            }
        }
        Err(_) => {
            vcheck!(s, !(fits(x) && fits(y)), "c07.e3 in-range instance exports");
        }
    }
    vcover!(s, r.is_ok() && refl && sel == 4, "reflected 270 reachable");
    core::mem::forget(r);
    core::mem::forget(ex);
    core::mem::forget(inst);
}

// ---- E4: every unit the exporter writes is one the importer recognises ------------------------------------------
pub fn c07_q_e4_units<S: Src>(s: &mut S) {
    let sel = s.u8();
    vassume!(s, sel < 4);
    let u = match sel {
        0 => Units::Micro,
        1 => Units::Nano,
        2 => Units::Angstrom,
        _ => Units::Pico,
    };
    vnote!(s, "units", "{:?}", u);
    s.tag("pico", sel == 3);
    // a library without cells: name, units and the (empty) cell list are all export_lib reads; under Kani the
    // hash-map backed layer table is left uninitialised
    let mut lslot = core::mem::MaybeUninit::<Library>::uninit();
    #[cfg(kani)]
    unsafe {
        core::ptr::addr_of_mut!((*lslot.as_mut_ptr()).name).write(String::new());
        core::ptr::addr_of_mut!((*lslot.as_mut_ptr()).units).write(u);
        core::ptr::addr_of_mut!((*lslot.as_mut_ptr()).cells).write(Default::default());
    }
    #[cfg(not(kani))]
    {
        lslot.write(Library::new("", u));
    }
    let lib: &Library = unsafe { &*lslot.as_ptr() };
    let g = GdsExporter::export(lib);
    match &g {
        Ok(glib) => {
            let mut islot = core::mem::MaybeUninit::<GdsImporter>::uninit();
            #[cfg(kani)]
            unsafe {
                core::ptr::addr_of_mut!((*islot.as_mut_ptr()).ctx).write(Vec::new());
            }
            #[cfg(not(kani))]
            {
                islot.write(GdsImporter::default());
            }
            let imp: &mut GdsImporter = unsafe { &mut *islot.as_mut_ptr() };
            let back = imp.import_units(&glib.units);
            vnote!(s, "gds units", "{:?} -> {:?}", glib.units, back);
            let same = match &back {
                Ok(b) => *b == u,
                Err(_) => false,
            };
            vcheck!(s, same, "c07.e4 exported units import back to the same unit");
            core::mem::forget(back);
        }
        Err(_) => {
            vcheck!(s, false, "c07.e4 an empty library exports");
        }
    }
    vcover!(s, g.is_ok(), "export reachable");
    core::mem::forget(g);
}

#[cfg(not(kani))]
pub fn replay(name: &str, vals: Vec<Vec<u8>>) -> ReplayOut {
    run_native(name, vals, k::dispatch)
}

harnesses! { k, "sel_raw_gds.rs";
    #[kani::unwind(6)] c07_x_e1_tri_label;
    #[kani::unwind(7)] c07_x_e1_quad_label;
    c07_q_e1_rect_label;
    #[kani::unwind(4)] c07_q_e1_path_label;
    #[kani::unwind(5)] c07_t_e1_path3_label;
    #[kani::stub(alloc::fmt::format, fmt_stub)] #[kani::unwind(7)] c07_q_e2_rect;
    #[kani::stub(alloc::fmt::format, fmt_stub)] #[kani::unwind(6)] c07_x_e2_poly3;
    #[kani::stub(alloc::fmt::format, fmt_stub)] #[kani::unwind(8)] c07_q_e2_path2;
    #[kani::stub(alloc::fmt::format, fmt_stub)] #[kani::unwind(8)] c07_q_e2_path3;
    #[kani::stub(alloc::fmt::format, fmt_stub)] #[kani::stub(std::sync::Arc::drop_slow, arc_drop_noop)] #[kani::unwind(4)] c07_x_e3_instance;
    #[kani::stub(alloc::fmt::format, fmt_stub)] #[kani::stub(std::sync::Arc::drop_slow, arc_drop_noop)] #[kani::stub(gds21::GdsDateTime::now, now_stub)] #[kani::unwind(4)] c07_q_e4_units;
}
