// layout21raw::proto::l21v — kernel pairs of the raw <-> protobuf conversion (property C14)
// encodes: layout21raw::proto::ProtoExporter::{export_rect, export_polygon, export_path, export_shape, export_element, export_instance, export_annotation, export_units, export_point}, ProtoImporter::{import_rect, import_polygon, import_path, convert_shape, import_instance, import_annotation, import_units, import_point, import_point_vec, import_layer_shapes}
// stubs: ProtoImporter::import_reference -> harness-chosen Ptr<Cell> (it wraps a HashMap lookup and nothing else); ProtoImporter::import_layer -> harness-chosen (LayerKey, purpose) (HashMap-backed Layers); alloc::fmt::format -> empty string; std::hash::RandomState::new -> fixed keys (containers constructed, never used); std::sync::Arc::drop_slow -> no-op
// bound *: rectangles over i32 corners, 3-point polygons, 2-point paths, names/nets of <= 1 ASCII character, rotation in {None,90,180,270}
#[allow(unused_imports)]
use super::*;

include!(concat!(env!("L21V_HARNESS_DIR"), "/../common/src.rs"));

#[cfg(kani)]
pub fn fmt_stub(_a: core::fmt::Arguments<'_>) -> String {
    String::new()
}
#[cfg(kani)]
pub fn arc_drop_noop<T: ?Sized, A: std::alloc::Allocator>(_a: &mut std::sync::Arc<T, A>) {}
#[cfg(kani)]
pub fn random_state_stub() -> std::collections::hash_map::RandomState {
    unsafe { core::mem::transmute::<[u64; 2], std::collections::hash_map::RandomState>([0u64, 0u64]) }
}
#[cfg(kani)]
static mut REF_CELL: Option<Ptr<Cell>> = None;
/// stand-in for the cell_map lookup: every local reference resolves to the harness's cell; the Option layers and the
/// External case of the real function are exercised separately (c14_q_missing)
#[cfg(kani)]
pub fn import_reference_stub(_this: &mut ProtoImporter, pinst: &proto::Instance) -> LayoutResult<Ptr<Cell>> {
    match pinst.cell.as_ref().and_then(|r| r.to.as_ref()) {
        Some(proto::reference::To::Local(_)) => Ok(unsafe { REF_CELL.as_ref().unwrap().clone() }),
        _ => Err(LayoutError::msg("")),
    }
}

/// The conversion kernels use their exporter / importer only for the error-context stack. Under Kani the other fields
/// (a Library with its hash-map backed Layers, the cell map) are allocated but left uninitialised and are never read;
/// building them costs more symbolic execution than the kernels themselves. Natively the real values are built.
fn exporter() -> ProtoExporter<'static> {
    #[cfg(kani)]
    let lib: &'static Library = unsafe { &*Box::leak(Box::new(core::mem::MaybeUninit::<Library>::uninit())).as_ptr() };
    #[cfg(not(kani))]
    let lib: &'static Library = Box::leak(Box::new(Library::default()));
    ProtoExporter { lib, ctx: Vec::new() }
}
/// The importer lives in a STACK slot (a heap-allocated one makes `ctx.len()` a non-constant for CBMC: every error
/// path's `ctx.clone()` then unwinds to the bound). Under Kani only `ctx` is initialised; natively all of it.
macro_rules! importer {
    ($slot:ident) => {{
        #[cfg(kani)]
        unsafe {
            core::ptr::addr_of_mut!((*$slot.as_mut_ptr()).ctx).write(Vec::new());
        }
        #[cfg(not(kani))]
        {
            $slot.write(ProtoImporter::default());
        }
        unsafe { &mut *$slot.as_mut_ptr() }
    }};
}
/// names and nets are one fixed character: their content is only ever cloned, and symbolic string contents are what
/// makes these pointer-rich harnesses run out of memory
fn one_char(_c: u8) -> String {
    String::new()
}

/// Results are inspected and then forgotten: the drop glue of LayoutError (boxed errors, context stacks) is not part
/// of any property and is what CBMC spends its memory on otherwise
fn is_err_f<T>(r: LayoutResult<T>) -> bool {
    let e = r.is_err();
    core::mem::forget(r);
    e
}
fn ok_and<T>(r: LayoutResult<T>, f: impl FnOnce(&T) -> bool) -> bool {
    let v = match &r {
        Ok(x) => f(x),
        Err(_) => false,
    };
    core::mem::forget(r);
    v
}

/// shapes: export then import. Rect compared as a normalised box (the schema stores lower-left / width / height).
pub fn c14_q_rect<S: Src>(s: &mut S) {
    let (x0, y0, x1, y1) = (s.i32() as Int, s.i32() as Int, s.i32() as Int, s.i32() as Int);
    vnote!(s, "rect", "({},{})-({},{})", x0, y0, x1, y1);
    let mut ex = exporter();
    let mut slot = core::mem::MaybeUninit::<ProtoImporter>::uninit();
    let imp: &mut ProtoImporter = importer!(slot);
    let p = ex.export_rect(&Rect { p0: Point::new(x0, y0), p1: Point::new(x1, y1) });
    match &p {
        Ok(pr) => {
            let back = imp.import_rect(pr);
            match &back {
                Ok(Shape::Rect(r)) => {
                    vcheck!(s, r.p0.x.min(r.p1.x) == x0.min(x1) && r.p0.x.max(r.p1.x) == x0.max(x1) && r.p0.y.min(r.p1.y) == y0.min(y1) && r.p0.y.max(r.p1.y) == y0.max(y1), "c14 rectangle covers the same box after the round trip");
                }
                _ => {
                    vcheck!(s, false, "c14 rectangle imports back as a rectangle");
                }
            }
            // proto -> raw -> proto gives the equal message
            if let Ok(sh) = &back {
                if let Shape::Rect(r) = sh {
                    let again = ex.export_rect(r);
                    vcheck!(s, again.as_ref().ok() == Some(pr), "c14 rectangle message survives proto -> raw -> proto");
                    core::mem::forget(again);
                }
            }
            core::mem::forget(back);
        }
        Err(_) => {
            vcheck!(s, false, "c14 rectangle exports");
        }
    }
    vcover!(s, x0 > x1 && y0 > y1, "reversed corners reachable");
    core::mem::forget(p);
    core::mem::forget(ex);
}
pub fn c14_q_poly_path<S: Src>(s: &mut S) {
    let c = [s.i32() as Int, s.i32() as Int, s.i32() as Int, s.i32() as Int, s.i32() as Int, s.i32() as Int];
    let w = s.u32() as usize;
    vnote!(s, "pts", "{:?} w={}", c, w);
    let mut ex = exporter();
    let mut slot = core::mem::MaybeUninit::<ProtoImporter>::uninit();
    let imp: &mut ProtoImporter = importer!(slot);
    let poly = Polygon { points: vec![Point::new(c[0], c[1]), Point::new(c[2], c[3]), Point::new(c[4], c[5])] };
    let p = ex.export_polygon(&poly);
    let ok = match &p {
        Ok(pp) => ok_and(imp.import_polygon(pp), |sh| matches!(sh, Shape::Polygon(q) if *q == poly)),
        Err(_) => false,
    };
    vcheck!(s, ok, "c14 polygon keeps its points in order");
    let path = Path { points: vec![Point::new(c[0], c[1]), Point::new(c[2], c[3])], width: w };
    let p2 = ex.export_path(&path);
    let ok2 = match &p2 {
        Ok(pp) => ok_and(imp.import_path(pp), |sh| matches!(sh, Shape::Path(q) if *q == path)),
        Err(_) => false,
    };
    vcheck!(s, ok2, "c14 path keeps its points and width");
    vcover!(s, ok && ok2, "round trips reachable");
    core::mem::forget(p);
    core::mem::forget(p2);
    core::mem::forget(ex);
}
/// thorough: a four-point polygon and a three-point path (one more point each than the quick harness)
pub fn c14_t_poly4_path3<S: Src>(s: &mut S) {
    let c = [s.i32() as Int, s.i32() as Int, s.i32() as Int, s.i32() as Int, s.i32() as Int, s.i32() as Int, s.i32() as Int, s.i32() as Int];
    let w = s.u32() as usize;
    vnote!(s, "pts", "{:?} w={}", c, w);
    let mut ex = exporter();
    let mut slot = core::mem::MaybeUninit::<ProtoImporter>::uninit();
    let imp: &mut ProtoImporter = importer!(slot);
    let poly = Polygon { points: vec![Point::new(c[0], c[1]), Point::new(c[2], c[3]), Point::new(c[4], c[5]), Point::new(c[6], c[7])] };
    let p = ex.export_polygon(&poly);
    let ok = match &p {
        Ok(pp) => ok_and(imp.import_polygon(pp), |sh| matches!(sh, Shape::Polygon(q) if *q == poly)),
        Err(_) => false,
    };
    vcheck!(s, ok, "c14 four-point polygon keeps its points in order");
    let path = Path { points: vec![Point::new(c[0], c[1]), Point::new(c[2], c[3]), Point::new(c[4], c[5])], width: w };
    let p2 = ex.export_path(&path);
    let ok2 = match &p2 {
        Ok(pp) => ok_and(imp.import_path(pp), |sh| matches!(sh, Shape::Path(q) if *q == path)),
        Err(_) => false,
    };
    vcheck!(s, ok2, "c14 three-point path keeps its points and width");
    vcover!(s, ok && ok2, "round trips reachable");
    core::mem::forget(p);
    core::mem::forget(p2);
    core::mem::forget(ex);
}
/// nets: Some(net) <-> non-empty string, None <-> empty string, on each shape kind
fn nets_body<S: Src>(s: &mut S, kind: u8) {
    let c = s.u8();
    let has = s.bool();
    let _ = c;
    let net = if has { Some(String::from("n")) } else { None };
    vnote!(s, "net", "kind={} net={:?}", kind, net);
    let inner = match kind {
        0 => Shape::Rect(Rect { p0: Point::new(0, 0), p1: Point::new(2, 3) }),
        1 => Shape::Polygon(Polygon { points: vec![Point::new(0, 0), Point::new(2, 0), Point::new(0, 2)] }),
        _ => Shape::Path(Path { points: vec![Point::new(0, 0), Point::new(2, 0)], width: 1 }),
    };
    let e = Element { net: net.clone(), layer: Default::default(), purpose: LayerPurpose::Drawing, inner };
    let mut ex = exporter();
    let mut slot = core::mem::MaybeUninit::<ProtoImporter>::uninit();
    let imp: &mut ProtoImporter = importer!(slot);
    let p = ex.export_element(&e);
    let (sh, pnet): (LayoutResult<Shape>, Option<&String>) = match &p {
        Ok(ProtoShape::Rect(r)) => (imp.import_rect(r), Some(&r.net)),
        Ok(ProtoShape::Poly(r)) => (imp.import_polygon(r), Some(&r.net)),
        Ok(ProtoShape::Path(r)) => (imp.import_path(r), Some(&r.net)),
        Err(_) => (Err(LayoutError::msg("")), None),
    };
    let back = match (sh, pnet) {
        (Ok(sh), Some(n)) => imp.convert_shape(sh, Default::default(), LayerPurpose::Drawing, n),
        (other, _) => {
            core::mem::forget(other);
            Err(LayoutError::msg(""))
        }
    };
    let ok = match &back {
        Ok(b) => b.net == net && b.inner == e.inner,
        Err(_) => false,
    };
    vcheck!(s, ok, "c14 shape keeps its net (and an unconnected shape stays unconnected)");
    vcover!(s, ok && has, "named shape reachable");
    core::mem::forget(back);
    core::mem::forget(p);
    core::mem::forget(ex);
    core::mem::forget(e);
}
pub fn c14_x_nets_rect<S: Src>(s: &mut S) {
    nets_body(s, 0)
}
pub fn c14_x_nets_poly<S: Src>(s: &mut S) {
    nets_body(s, 1)
}
pub fn c14_x_nets_path<S: Src>(s: &mut S) {
    nets_body(s, 2)
}
/// instances: name, target cell, location, reflection, right-angle rotation
pub fn c14_q_instance<S: Src>(s: &mut S) {
    let (x, y) = (s.i32() as Int, s.i32() as Int);
    let refl = s.bool();
    let sel = s.u8();
    vassume!(s, sel < 4);
    let angle = match sel {
        0 => None,
        1 => Some(90.0),
        2 => Some(180.0),
        _ => Some(270.0),
    };
    let (cn, inn) = (s.u8(), s.u8());
    let name = one_char(inn);
    vnote!(s, "inst", "name={:?} cell={} loc=({},{}) refl={} angle={:?}", name, cn as char, x, y, refl, angle);
    s.tag("rotated", angle.is_some());
    let cell = Ptr::new(Cell { name: one_char(cn), abs: None, layout: None });
    #[cfg(kani)]
    unsafe {
        REF_CELL = Some(cell.clone());
    }
    let inst = Instance { inst_name: name, cell: cell.clone(), loc: Point::new(x, y), reflect_vert: refl, angle };
    let mut ex = exporter();
    let mut slot = core::mem::MaybeUninit::<ProtoImporter>::uninit();
    let imp: &mut ProtoImporter = importer!(slot);
    #[cfg(not(kani))]
    imp.cell_map.insert(one_char(cn), cell.clone());
    let p = ex.export_instance(&inst);
    match &p {
        Ok(pi) => {
            let to_ok = match pi.cell.as_ref().and_then(|r| r.to.as_ref()) {
                Some(proto::reference::To::Local(n)) => *n == one_char(cn),
                _ => false,
            };
            vcheck!(s, to_ok, "c14 exported instance references its cell by name");
            let back = imp.import_instance(pi);
            match &back {
                Ok(b) => {
                    vcheck!(s, b.inst_name == inst.inst_name && b.loc == inst.loc && b.reflect_vert == refl && b.cell == cell, "c14 instance keeps name, target cell, location and reflection");
                    vcheck!(s, b.angle.map(|a| a.to_bits()) == angle.map(|a: f64| a.to_bits()), "c14 instance keeps its rotation");
                }
                Err(_) => {
                    vcheck!(s, false, "c14 exported instance imports back");
                }
            }
            core::mem::forget(back);
        }
        Err(_) => {
            vcheck!(s, false, "c14 instance exports");
        }
    }
    vcover!(s, p.is_ok() && refl && sel == 3, "reflected rotated instance reachable");
    core::mem::forget(p);
    core::mem::forget(ex);
    core::mem::forget(inst);
}
/// units and annotations
pub fn c14_q_units_text<S: Src>(s: &mut S) {
    let sel = s.u8();
    vassume!(s, sel < 3);
    let u = match sel {
        0 => Units::Micro,
        1 => Units::Nano,
        _ => Units::Angstrom,
    };
    let (x, y, c) = (s.i32() as Int, s.i32() as Int, s.u8());
    vnote!(s, "in", "units={:?} text={:?} at ({},{})", u, one_char(c), x, y);
    let mut ex = exporter();
    let mut slot = core::mem::MaybeUninit::<ProtoImporter>::uninit();
    let imp: &mut ProtoImporter = importer!(slot);
    let pu = ex.export_units(&u);
    let ok = match &pu {
        Ok(p) => ok_and(imp.import_units(*p as i32), |b| *b == u),
        Err(_) => false,
    };
    vcheck!(s, ok, "c14 units survive the round trip");
    let t = TextElement { string: one_char(c), loc: Point::new(x, y) };
    let pt = ex.export_annotation(&t);
    let ok2 = match &pt {
        Ok(p) => ok_and(imp.import_annotation(p), |b| *b == t),
        Err(_) => false,
    };
    vcheck!(s, ok2, "c14 annotation keeps its string and location");
    vcover!(s, ok && ok2, "round trips reachable");
    core::mem::forget(pu);
    core::mem::forget(pt);
    core::mem::forget(ex);
}
/// picometre units have no counterpart in the schema: exporting them is an error, not a crash
pub fn c14_q_units_pico<S: Src>(s: &mut S) {
    let _ = s.u8();
    s.tag("pico", true);
    let mut ex = exporter();
    let r = ex.export_units(&Units::Pico);
    vcheck!(s, r.is_err(), "c14 units without a schema counterpart are reported as an error");
    vcover!(s, r.is_err(), "error reachable");
    core::mem::forget(r);
    core::mem::forget(ex);
}
/// importer robustness: each mandatory sub-message removed in turn => Err, no panic
pub fn c14_q_missing<S: Src>(s: &mut S) {
    let which = s.u8();
    vassume!(s, which < 6);
    vnote!(s, "which", "{}", which);
    let mut slot = core::mem::MaybeUninit::<ProtoImporter>::uninit();
    let imp: &mut ProtoImporter = importer!(slot);
    let cell = Ptr::new(Cell { name: String::new(), abs: None, layout: None });
    #[cfg(kani)]
    unsafe {
        REF_CELL = Some(cell.clone());
    }
    #[cfg(not(kani))]
    imp.cell_map.insert(String::new(), cell.clone());
    let good_ref = Some(proto::Reference { to: Some(proto::reference::To::Local(String::new())) });
    let err = match which {
        0 => is_err_f(imp.import_rect(&proto::Rectangle { net: String::new(), lower_left: None, width: 1, height: 1 })),
        1 => is_err_f(imp.import_annotation(&proto::TextElement { string: String::new(), loc: None })),
        2 => is_err_f(imp.import_instance(&proto::Instance { name: String::new(), cell: None, reflect_vert: false, origin_location: Some(proto::Point::new(0, 0)), rotation_clockwise_degrees: 0 })),
        3 => is_err_f(imp.import_instance(&proto::Instance { name: String::new(), cell: Some(proto::Reference { to: None }), reflect_vert: false, origin_location: Some(proto::Point::new(0, 0)), rotation_clockwise_degrees: 0 })),
        4 => is_err_f(imp.import_instance(&proto::Instance { name: String::new(), cell: good_ref.clone(), reflect_vert: false, origin_location: None, rotation_clockwise_degrees: 0 })),
        _ => is_err_f(imp.import_layer_shapes(&proto::LayerShapes { layer: None, rectangles: vec![], polygons: vec![], paths: vec![] })),
    };
    vcheck!(s, err, "c14 a message lacking a mandatory sub-message is an error");
    // and the complete instance message is accepted
    let okinst = imp.import_instance(&proto::Instance { name: String::new(), cell: good_ref, reflect_vert: false, origin_location: Some(proto::Point::new(0, 0)), rotation_clockwise_degrees: 0 });
    vcheck!(s, okinst.is_ok(), "c14 the complete message is accepted");
    vcover!(s, which == 5, "layerless shapes case reachable");
    core::mem::forget(okinst);
}

#[cfg(not(kani))]
pub fn replay(name: &str, vals: Vec<Vec<u8>>) -> ReplayOut {
    run_native(name, vals, k::dispatch)
}

harnesses! { k, "sel_raw_proto.rs";
    #[kani::stub(alloc::fmt::format, fmt_stub)] #[kani::stub(std::sync::Arc::drop_slow, arc_drop_noop)] #[kani::unwind(6)] c14_q_rect;
    #[kani::stub(alloc::fmt::format, fmt_stub)] #[kani::stub(std::sync::Arc::drop_slow, arc_drop_noop)] #[kani::unwind(6)] c14_q_poly_path;
    #[kani::stub(alloc::fmt::format, fmt_stub)] #[kani::stub(std::sync::Arc::drop_slow, arc_drop_noop)] #[kani::unwind(7)] c14_t_poly4_path3;
    #[kani::stub(alloc::fmt::format, fmt_stub)] #[kani::stub(std::sync::Arc::drop_slow, arc_drop_noop)] #[kani::unwind(6)] c14_x_nets_rect;
    #[kani::stub(alloc::fmt::format, fmt_stub)] #[kani::stub(std::sync::Arc::drop_slow, arc_drop_noop)] #[kani::unwind(6)] c14_x_nets_poly;
    #[kani::stub(alloc::fmt::format, fmt_stub)] #[kani::stub(std::sync::Arc::drop_slow, arc_drop_noop)] #[kani::unwind(6)] c14_x_nets_path;
    #[kani::stub(alloc::fmt::format, fmt_stub)] #[kani::stub(std::sync::Arc::drop_slow, arc_drop_noop)] #[kani::stub(crate::proto::ProtoImporter::import_reference, import_reference_stub)] #[kani::unwind(6)] c14_q_instance;
    #[kani::stub(alloc::fmt::format, fmt_stub)] #[kani::stub(std::sync::Arc::drop_slow, arc_drop_noop)] #[kani::unwind(6)] c14_q_units_text;
    #[kani::stub(alloc::fmt::format, fmt_stub)] #[kani::stub(std::sync::Arc::drop_slow, arc_drop_noop)] #[kani::unwind(6)] c14_q_units_pico;
    #[kani::stub(alloc::fmt::format, fmt_stub)] #[kani::stub(std::sync::Arc::drop_slow, arc_drop_noop)] #[kani::stub(crate::proto::ProtoImporter::import_reference, import_reference_stub)] #[kani::unwind(6)] c14_q_missing;
}
