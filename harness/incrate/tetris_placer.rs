// layout21tetris::placer::l21v — relative-placement arithmetic and array flattening (property C09)
// encodes: layout21tetris::placer::Placer::resolve_instance_place, flatten_array_inst, flatten_array, Instance::boundbox, Instance::boundbox_size, Instance::reflected, Cell::outline, Cell::boundbox_size, BoundBox::side, PrimPitches::{add, sub, negate}
// stubs: alloc::fmt::format -> empty string (names / error messages); std::sync::Arc::drop_slow -> no-op
// bound *: one relative placement at a time (chains: two in sequence); sizes 1..=2^15, locations and separations in +-2^15 primitive pitches; arrays of count <= 3, nesting depth <= 2
#[allow(unused_imports)]
use super::*;
#[allow(unused_imports)]
use crate::{cell::Cell, outline::Outline, placement::Separation};

include!(concat!(env!("L21V_HARNESS_DIR"), "/../common/src.rs"));

#[cfg(kani)]
pub fn fmt_stub(_a: core::fmt::Arguments<'_>) -> String {
    String::new()
}
#[cfg(kani)]
pub fn arc_drop_noop<T: ?Sized, A: std::alloc::Allocator>(_a: &mut std::sync::Arc<T, A>) {}

/// A Placer for the arithmetic kernels, in a STACK slot. `resolve_instance_place` and `flatten_array_inst` use `self`
/// only for the error context, so under Kani the (never read) `stack` field is left uninitialised: building and dropping
/// a validated stack costs a million symbolic-execution steps of drop glue. Natively the real thing is built.
macro_rules! placer {
    ($slot:ident) => {{
        #[cfg(kani)]
        unsafe {
            core::ptr::addr_of_mut!((*$slot.as_mut_ptr()).lib).write(Library::default());
            core::ptr::addr_of_mut!((*$slot.as_mut_ptr()).ctx).write(Vec::new());
        }
        #[cfg(not(kani))]
        {
            let stack = stack::Stack {
                units: Default::default(),
                prim: stack::PrimitiveLayer::new(Xy::new(crate::coords::DbUnits(1), crate::coords::DbUnits(1))),
                metals: Vec::new(),
                vias: Vec::new(),
                rawlayers: None,
                boundary_layer: None,
            };
            let stack = match stack.validate() {
                Ok(s) => s,
                Err(_) => panic!("l21v: empty stack must validate"),
            };
            $slot.write(Placer { lib: Library::default(), stack, ctx: Vec::new() });
        }
        unsafe { &mut *$slot.as_mut_ptr() }
    }};
}
/// a cell whose outline is the rectangle w x h (through its abstract view)
fn rect_cell(w: isize, h: isize) -> Ptr<Cell> {
    let outline = Outline { x: vec![PrimPitches::x(w)], y: vec![PrimPitches::y(h)] };
    let mut c = Cell::default();
    c.abs = Some(abs::Abstract { name: String::new(), outline, metals: 0, ports: Vec::new() });
    Ptr::new(c)
}
fn dim<S: Src>(s: &mut S) -> isize {
    let v = s.i16() as isize;
    vassume!(s, v >= 1);
    v
}
fn coord<S: Src>(s: &mut S) -> isize {
    s.i16() as isize
}
fn side_of(k: u8) -> Side {
    match k % 4 {
        0 => Side::Top,
        1 => Side::Bottom,
        2 => Side::Left,
        _ => Side::Right,
    }
}
fn horizontal(sd: Side) -> bool {
    matches!(sd, Side::Left | Side::Right)
}
/// (x0, y0, x1, y1) of an instance's bounding box, independently of Instance::boundbox: the outline rectangle
/// mirrored about the origin per reflection
fn bbox_ref(loc: (isize, isize), size: (isize, isize), rh: bool, rv: bool) -> (isize, isize, isize, isize) {
    let (x0, x1) = if rh { (loc.0 - size.0, loc.0) } else { (loc.0, loc.0 + size.0) };
    let (y0, y1) = if rv { (loc.1 - size.1, loc.1) } else { (loc.1, loc.1 + size.1) };
    (x0, y0, x1, y1)
}

struct Rel {
    side: Side,
    align: Side,
    /// 0 none, 1 primitive pitches, 2 size of another cell
    sepkind: u8,
    sepval: isize,
}
/// resolve `b` (size, reflections) relative to the absolutely placed instance `a_ptr`; returns b's resulting bbox
fn resolve<S: Src>(s: &mut S, pl: &mut Placer, a_ptr: &Ptr<Instance>, bsize: (isize, isize), brh: bool, brv: bool, rel: &Rel) -> Option<(isize, isize, isize, isize)> {
    let side_axis_h = horizontal(rel.side);
    let sepby = match rel.sepkind {
        0 => None,
        1 => Some(SepBy::UnitSpeced(UnitSpeced::PrimPitches(if side_axis_h { PrimPitches::x(rel.sepval) } else { PrimPitches::y(rel.sepval) }))),
        _ => Some(SepBy::SizeOf(rect_cell(rel.sepval, rel.sepval))),
    };
    let sep = if side_axis_h { Separation { x: sepby, y: None, z: None } } else { Separation { x: None, y: sepby, z: None } };
    let rp = RelativePlace { to: Placeable::Instance(a_ptr.clone()), side: rel.side, align: Align::Side(rel.align), sep };
    let mut b = Instance { inst_name: String::new(), cell: rect_cell(bsize.0, bsize.1), loc: Place::Rel(rp.clone()), reflect_horiz: brh, reflect_vert: brv };
    let r = pl.resolve_instance_place(&b, &rp);
    let out = match &r {
        Ok(xy) => {
            // the placer then stores the absolute location; the instance's own bounding box is what must touch
            b.loc = Place::Abs(*xy);
            let want = bbox_ref((xy.x.num, xy.y.num), bsize, brh, brv);
            match b.boundbox() {
                Ok(bb) => {
                    vcheck!(s, (bb.p0.x.num, bb.p0.y.num, bb.p1.x.num, bb.p1.y.num) == want, "c09.p1 instance bounding box is its outline mirrored per reflection at its location");
                    Some(want)
                }
                Err(_) => {
                    vcheck!(s, false, "c09.p1 an absolutely placed instance has a bounding box");
                    None
                }
            }
        }
        Err(_) => None,
    };
    core::mem::forget(r);
    core::mem::forget(b);
    core::mem::forget(rp);
    out
}
fn touches<S: Src>(s: &mut S, a: (isize, isize, isize, isize), b: (isize, isize, isize, isize), rel: &Rel) {
    let sep = if rel.sepkind == 0 { 0 } else { rel.sepval };
    let side_ok = match rel.side {
        Side::Right => b.0 == a.2 + sep,
        Side::Left => b.2 == a.0 - sep,
        Side::Top => b.1 == a.3 + sep,
        Side::Bottom => b.3 == a.1 - sep,
    };
    let align_ok = match rel.align {
        Side::Left => b.0 == a.0,
        Side::Right => b.2 == a.2,
        Side::Bottom => b.1 == a.1,
        Side::Top => b.3 == a.3,
    };
    vcheck!(s, side_ok, "c09.p1 bounding box touches the reference on the requested side at the requested separation");
    vcheck!(s, align_ok, "c09.p1 bounding box is flush with the reference on the alignment edge");
}
fn any_rel<S: Src>(s: &mut S) -> Rel {
    let side = side_of(s.u8());
    let align = side_of(s.u8());
    vassume!(s, horizontal(side) != horizontal(align));
    let sepkind = s.u8();
    vassume!(s, sepkind < 3);
    let sepval = coord(s);
    vassume!(s, sepkind != 2 || sepval >= 1);
    Rel { side, align, sepkind, sepval }
}

/// P1: one relative placement — every side x alignment x reflection of either instance x separation kind
pub fn c09_x_p1_relative<S: Src>(s: &mut S) {
    let (aw, ah, ax, ay) = (dim(s), dim(s), coord(s), coord(s));
    let (arh, arv) = (s.bool(), s.bool());
    let (bw, bh) = (dim(s), dim(s));
    let (brh, brv) = (s.bool(), s.bool());
    let rel = any_rel(s);
    vnote!(s, "in", "A: size=({},{}) loc=({},{}) refl=({},{})  B: size=({},{}) refl=({},{})  side={:?} align={:?} sep={}:{}", aw, ah, ax, ay, arh, arv, bw, bh, brh, brv, rel.side, rel.align, rel.sepkind, rel.sepval);
    s.tag("placed_reflected", brh || brv);
    s.tag("reference_reflected", arh || arv);
    let mut slot = core::mem::MaybeUninit::<Placer>::uninit();
    let pl: &mut Placer = placer!(slot);
    let a = Instance { inst_name: String::new(), cell: rect_cell(aw, ah), loc: Place::Abs(Xy::new(PrimPitches::x(ax), PrimPitches::y(ay))), reflect_horiz: arh, reflect_vert: arv };
    let a_ptr = Ptr::new(a);
    let abox = bbox_ref((ax, ay), (aw, ah), arh, arv);
    let got = resolve(s, pl, &a_ptr, (bw, bh), brh, brv, &rel);
    match got {
        Some(bbox) => touches(s, abox, bbox, &rel),
        None => {
            vcheck!(s, false, "c09.p1 a well-formed relative placement resolves");
        }
    }
    vcover!(s, got.is_some() && brh && !brv && arv && rel.sepkind == 2, "reflected instances with size-of separation reachable");
    core::mem::forget(a_ptr);
}

/// P1 (lean form): separation none / primitive pitches only; the placed instance's box is computed by the reference
/// formula from the resolved location (Instance::boundbox of the REFERENCE instance is still the real code)
fn p1_lean_body<S: Src>(s: &mut S, sizeof: bool) {
    let (aw, ah, ax, ay) = (dim(s), dim(s), coord(s), coord(s));
    let (arh, arv) = (s.bool(), s.bool());
    let (bw, bh) = (dim(s), dim(s));
    let (brh, brv) = (s.bool(), s.bool());
    let rel = any_rel(s);
    vassume!(s, if sizeof { rel.sepkind == 2 } else { rel.sepkind < 2 });
    vnote!(s, "in", "A: size=({},{}) loc=({},{}) refl=({},{})  B: size=({},{}) refl=({},{})  side={:?} align={:?} sep={}:{}", aw, ah, ax, ay, arh, arv, bw, bh, brh, brv, rel.side, rel.align, rel.sepkind, rel.sepval);
    s.tag("placed_reflected", brh || brv);
    s.tag("reference_reflected", arh || arv);
    let mut slot = core::mem::MaybeUninit::<Placer>::uninit();
    let pl: &mut Placer = placer!(slot);
    let a_ptr = Ptr::new(Instance { inst_name: String::new(), cell: rect_cell(aw, ah), loc: Place::Abs(Xy::new(PrimPitches::x(ax), PrimPitches::y(ay))), reflect_horiz: arh, reflect_vert: arv });
    let abox = bbox_ref((ax, ay), (aw, ah), arh, arv);
    let side_axis_h = horizontal(rel.side);
    let sepby = if sizeof {
        Some(SepBy::SizeOf(rect_cell(rel.sepval, rel.sepval)))
    } else if rel.sepkind == 0 {
        None
    } else {
        Some(SepBy::UnitSpeced(UnitSpeced::PrimPitches(if side_axis_h { PrimPitches::x(rel.sepval) } else { PrimPitches::y(rel.sepval) })))
    };
    let sep = if side_axis_h { Separation { x: sepby, y: None, z: None } } else { Separation { x: None, y: sepby, z: None } };
    let rp = RelativePlace { to: Placeable::Instance(a_ptr.clone()), side: rel.side, align: Align::Side(rel.align), sep };
    let b = Instance { inst_name: String::new(), cell: rect_cell(bw, bh), loc: Place::Abs(Xy::new(PrimPitches::x(0), PrimPitches::y(0))), reflect_horiz: brh, reflect_vert: brv };
    let r = pl.resolve_instance_place(&b, &rp);
    match &r {
        Ok(xy) => {
            let bbox = bbox_ref((xy.x.num, xy.y.num), (bw, bh), brh, brv);
            touches(s, abox, bbox, &rel);
        }
        Err(_) => {
            vcheck!(s, false, "c09.p1 a well-formed relative placement resolves");
        }
    }
    vcover!(s, r.is_ok() && brh && !brv && arv, "reflected instances reachable");
    core::mem::forget(r);
    core::mem::forget(b);
    core::mem::forget(rp);
    core::mem::forget(a_ptr);
}

pub fn c09_q_p1_lean<S: Src>(s: &mut S) {
    p1_lean_body(s, false)
}
pub fn c09_q_p1_sizeof<S: Src>(s: &mut S) {
    p1_lean_body(s, true)
}
/// the bounding box of an absolutely placed instance is its outline mirrored about the origin per reflection
pub fn c09_q_bbox<S: Src>(s: &mut S) {
    let (w, h, x, y) = (dim(s), dim(s), coord(s), coord(s));
    let (rh, rv) = (s.bool(), s.bool());
    vnote!(s, "in", "size=({},{}) loc=({},{}) refl=({},{})", w, h, x, y, rh, rv);
    let b = Instance { inst_name: String::new(), cell: rect_cell(w, h), loc: Place::Abs(Xy::new(PrimPitches::x(x), PrimPitches::y(y))), reflect_horiz: rh, reflect_vert: rv };
    let want = bbox_ref((x, y), (w, h), rh, rv);
    let r = b.boundbox();
    match &r {
        Ok(bb) => {
            vcheck!(s, (bb.p0.x.num, bb.p0.y.num, bb.p1.x.num, bb.p1.y.num) == want, "c09.p1 instance bounding box is its outline mirrored per reflection at its location");
        }
        Err(_) => {
            vcheck!(s, false, "c09.p1 an absolutely placed instance has a bounding box");
        }
    }
    vcover!(s, r.is_ok() && rh && !rv, "reflected instance reachable");
    core::mem::forget(r);
    core::mem::forget(b);
}

/// P2: a chain C -> B -> A resolved in dependency order: each link satisfies its own relation
pub fn c09_x_p2_chain<S: Src>(s: &mut S) {
    let (aw, ah, ax, ay) = (dim(s), dim(s), coord(s), coord(s));
    let (bw, bh, cw, ch) = (dim(s), dim(s), dim(s), dim(s));
    let (brh, brv, crh, crv) = (s.bool(), s.bool(), s.bool(), s.bool());
    let r1 = any_rel(s);
    let r2 = any_rel(s);
    vnote!(s, "in", "A=({},{})@({},{}) B=({},{}) refl({},{}) C=({},{}) refl({},{}) r1={:?}/{:?}/{}:{} r2={:?}/{:?}/{}:{}", aw, ah, ax, ay, bw, bh, brh, brv, cw, ch, crh, crv, r1.side, r1.align, r1.sepkind, r1.sepval, r2.side, r2.align, r2.sepkind, r2.sepval);
    let mut slot = core::mem::MaybeUninit::<Placer>::uninit();
    let pl: &mut Placer = placer!(slot);
    let a_ptr = Ptr::new(Instance { inst_name: String::new(), cell: rect_cell(aw, ah), loc: Place::Abs(Xy::new(PrimPitches::x(ax), PrimPitches::y(ay))), reflect_horiz: false, reflect_vert: false });
    let abox = bbox_ref((ax, ay), (aw, ah), false, false);
    if let Some(bbox) = resolve(s, pl, &a_ptr, (bw, bh), brh, brv, &r1) {
        touches(s, abox, bbox, &r1);
        // B is now absolute: its location is the corner the reflections leave at the origin
        let bloc = (if brh { bbox.2 } else { bbox.0 }, if brv { bbox.3 } else { bbox.1 });
        let b_ptr = Ptr::new(Instance { inst_name: String::new(), cell: rect_cell(bw, bh), loc: Place::Abs(Xy::new(PrimPitches::x(bloc.0), PrimPitches::y(bloc.1))), reflect_horiz: brh, reflect_vert: brv });
        match resolve(s, pl, &b_ptr, (cw, ch), crh, crv, &r2) {
            Some(cbox) => touches(s, bbox, cbox, &r2),
            None => {
                vcheck!(s, false, "c09.p2 second link of the chain resolves");
            }
        }
        core::mem::forget(b_ptr);
    } else {
        vcheck!(s, false, "c09.p2 first link of the chain resolves");
    }
    vcover!(s, crh && brv, "reflected chain reachable");
    core::mem::forget(a_ptr);
}

/// P3: arrays expand to `count` copies at successive multiples of the pitch, mirrored per the array's reflection
fn array_body<S: Src>(s: &mut S, count: usize, nested: bool) {
    let (px, py, lx, ly) = (coord(s), coord(s), coord(s), coord(s));
    let (rh, rv) = (s.bool(), s.bool());
    let (ipx, ipy) = (coord(s), coord(s));
    vnote!(s, "in", "count={} nested={} pitch=({},{}) loc=({},{}) refl=({},{}) inner pitch=({},{})", count, nested, px, py, lx, ly, rh, rv, ipx, ipy);
    s.tag("reflected", rh || rv);
    let mut slot = core::mem::MaybeUninit::<Placer>::uninit();
    let pl: &mut Placer = placer!(slot);
    let cell = rect_cell(1, 1);
    let sep = |x: isize, y: isize| Separation {
        x: Some(SepBy::UnitSpeced(UnitSpeced::PrimPitches(PrimPitches::x(x)))),
        y: Some(SepBy::UnitSpeced(UnitSpeced::PrimPitches(PrimPitches::y(y)))),
        z: None,
    };
    let unit = if nested {
        Arrayable::Array(Ptr::new(Array { name: String::new(), unit: Arrayable::Instance(cell.clone()), count: 2, sep: sep(ipx, ipy) }))
    } else {
        Arrayable::Instance(cell.clone())
    };
    let arr = Ptr::new(Array { name: String::new(), unit, count, sep: sep(px, py) });
    let ai = ArrayInstance { name: String::new(), array: arr, loc: Place::Abs(Xy::new(PrimPitches::x(lx), PrimPitches::y(ly))), reflect_vert: rv, reflect_horiz: rh };
    let r = pl.flatten_array_inst(&ai);
    let per = if nested { 2 } else { 1 };
    match &r {
        Ok(v) => {
            vcheck!(s, v.len() == count * per, "c09.p3 array expands to count copies");
            if v.len() == count * per {
                let mut ok = true;
                let mut i = 0;
                while i < count * per {
                    let (k, j) = (i / per, i % per);
                    // position inside the un-reflected array, then the array instance's mirror and translation
                    let (ux, uy) = ((k as isize) * px + (j as isize) * ipx * (nested as isize), (k as isize) * py + (j as isize) * ipy * (nested as isize));
                    let want = (lx + if rh { -ux } else { ux }, ly + if rv { -uy } else { uy });
                    let got = match &v[i].loc {
                        Place::Abs(xy) => Some((xy.x.num, xy.y.num)),
                        _ => None,
                    };
                    if got != Some(want) || v[i].reflect_horiz != rh || v[i].reflect_vert != rv {
                        ok = false;
                    }
                    i += 1;
                }
                vcheck!(s, ok, "c09.p3 copies sit at successive multiples of the pitch, mirrored per the array's reflection");
            }
        }
        Err(_) => {
            vcheck!(s, false, "c09.p3 an absolutely placed array flattens");
        }
    }
    vcover!(s, r.is_ok() && rh && px < 0, "reflected array with negative pitch reachable");
    core::mem::forget(r);
    core::mem::forget(ai);
}
pub fn c09_x_p3_array2<S: Src>(s: &mut S) {
    array_body(s, 2, false)
}
pub fn c09_x_p3_array3<S: Src>(s: &mut S) {
    array_body(s, 3, false)
}
pub fn c09_x_p3_nested2<S: Src>(s: &mut S) {
    array_body(s, 2, true)
}

#[cfg(not(kani))]
pub fn replay(name: &str, vals: Vec<Vec<u8>>) -> ReplayOut {
    run_native(name, vals, k::dispatch)
}

harnesses! { k, "sel_tetris_placer.rs";
    #[kani::stub(alloc::fmt::format, fmt_stub)] #[kani::stub(std::sync::Arc::drop_slow, arc_drop_noop)] #[kani::unwind(2)] c09_q_p1_lean;
    #[kani::stub(alloc::fmt::format, fmt_stub)] #[kani::stub(std::sync::Arc::drop_slow, arc_drop_noop)] #[kani::unwind(2)] c09_q_p1_sizeof;
    #[kani::stub(alloc::fmt::format, fmt_stub)] #[kani::stub(std::sync::Arc::drop_slow, arc_drop_noop)] #[kani::unwind(2)] c09_q_bbox;
    #[kani::stub(alloc::fmt::format, fmt_stub)] #[kani::stub(std::sync::Arc::drop_slow, arc_drop_noop)] #[kani::unwind(2)] c09_x_p1_relative;
    #[kani::stub(alloc::fmt::format, fmt_stub)] #[kani::stub(std::sync::Arc::drop_slow, arc_drop_noop)] #[kani::unwind(2)] c09_x_p2_chain;
    #[kani::stub(alloc::fmt::format, fmt_stub)] #[kani::stub(std::sync::Arc::drop_slow, arc_drop_noop)] #[kani::unwind(4)] c09_x_p3_array2;
    #[kani::stub(alloc::fmt::format, fmt_stub)] #[kani::stub(std::sync::Arc::drop_slow, arc_drop_noop)] #[kani::unwind(5)] c09_x_p3_array3;
    #[kani::stub(alloc::fmt::format, fmt_stub)] #[kani::stub(std::sync::Arc::drop_slow, arc_drop_noop)] #[kani::unwind(6)] c09_x_p3_nested2;
}
