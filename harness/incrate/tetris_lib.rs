// layout21tetris::l21v — native replay dispatch over the crate's harness modules
#[cfg(not(kani))]
pub fn replay(
    name: &str,
    vals: Vec<Vec<u8>>,
) -> (bool, Option<String>, Vec<String>, Vec<(String, String)>, Vec<String>, usize, bool, Option<String>) {
    let r = crate::placer::l21v::replay(name, vals.clone());
    if r.0 {
        return r;
    }
    let r = crate::conv::raw::l21v::replay(name, vals.clone());
    if r.0 {
        return r;
    }
    crate::conv::proto::l21v::replay(name, vals)
}
