// layout21raw::lef::l21v — coordinate kernels of the LEF -> raw import (property C16)
// encodes: layout21raw::lef::LefImporter::import_dist, import_point, import_point_vec, import_rect, import_polygon, import_path, import_shape, import_geometry, rust_decimal::Decimal::{mul, fract, is_zero, mantissa, trunc}
// stubs: rust_decimal `&Decimal * Decimal`, Decimal::trunc, Decimal::fract, Ord::cmp, PartialEq::eq -> exact i128 models on (mantissa, scale) (common/decimal_model.rs; the crate's 96-bit limb loops do not finish under CBMC; the models are compared with the real crate on ~2 million values inside the harness bound by l21v-tablegen on every run); alloc::fmt::format -> empty string (error messages); std::sync::Arc::drop_slow -> no-op
// bound *: decimals m * 10^-scale with |m| <= 2^20 and scale concrete per instance in 0..=6 (so 0..6 decimal places, negative values, trailing zeros); rectangles, 3-point polygons, 2-point paths
#[allow(unused_imports)]
use super::*;

include!(concat!(env!("L21V_HARNESS_DIR"), "/../common/src.rs"));

#[cfg(kani)]
pub fn fmt_stub(_a: core::fmt::Arguments<'_>) -> String {
    String::new()
}
#[cfg(kani)]
pub fn arc_drop_noop<T: ?Sized, A: std::alloc::Allocator>(_a: &mut std::sync::Arc<T, A>) {}
#[cfg(kani)]
pub fn random_state_stub() -> std::collections::hash_map::RandomState {
    unsafe { core::mem::transmute::<[u64; 2], std::collections::hash_map::RandomState>([0u64, 0u64]) }
}

// ---- rust_decimal models (used under Kani only; validated natively against the real crate by l21v-tablegen) -------------
include!(concat!(env!("L21V_HARNESS_DIR"), "/../common/decimal_model.rs"));

/// raw units per micron used by the importer (LEF distances are microns; raw units are angstroms)
const PER_MICRON: i64 = 10_000;

/// The importer lives in a STACK slot; under Kani only `ctx` and `dist_scale` (all the coordinate kernels touch) are
/// initialised, natively the real importer is built.
macro_rules! importer {
    ($slot:ident) => {{
        #[cfg(kani)]
        unsafe {
            core::ptr::addr_of_mut!((*$slot.as_mut_ptr()).ctx).write(Vec::new());
            core::ptr::addr_of_mut!((*$slot.as_mut_ptr()).dist_scale).write(0);
        }
        #[cfg(not(kani))]
        {
            $slot.write(LefImporter::default());
        }
        let imp: &mut LefImporter = unsafe { &mut *$slot.as_mut_ptr() };
        // what import_lib -> import_units sets before any coordinate is converted
        let u = imp.import_units(&None);
        core::mem::forget(u);
        imp
    }};
}
fn pow10(n: u32) -> i64 {
    let mut p = 1i64;
    let mut i = 0;
    while i < n {
        p *= 10;
        i += 1;
    }
    p
}
fn mant<S: Src>(s: &mut S) -> i64 {
    let m = s.i32() as i64;
    vassume!(s, m >= -(1 << 20) && m <= (1 << 20));
    m
}
/// exact expected value of (m * 10^-scale) microns in raw units, if whole
fn expect(m: i64, scale: u32) -> Option<i64> {
    let num = m * PER_MICRON;
    let den = pow10(scale);
    if num % den == 0 {
        Some(num / den)
    } else {
        None
    }
}

/// D1: import_dist is exact, independent of trailing zeros, and refuses fractions of a raw unit
fn dist_body<S: Src>(s: &mut S, scale: u32) {
    dist_body_b(s, scale, 20)
}
/// the same with |m| <= 2^bits (the deep scales, where fractions of a raw unit occur, are run on a smaller range)
fn dist_body_b<S: Src>(s: &mut S, scale: u32, bits: u32) {
    let m = mant(s);
    vassume!(s, m >= -(1i64 << bits) && m <= (1i64 << bits));
    vnote!(s, "dec", "{} * 10^-{}", m, scale);
    s.tag("trailing_zero", scale > 0 && m % 10 == 0 && m != 0);
    s.tag("scaled", scale > 0);
    let d = lef21::LefDecimal::new(m, scale);
    let mut slot = core::mem::MaybeUninit::<LefImporter>::uninit();
    let imp: &mut LefImporter = importer!(slot);
    let r = imp.import_dist(&d);
    let want = expect(m, scale);
    vnote!(s, "got", "{:?} want {:?}", r, want);
    match (&r, want) {
        (Ok(v), Some(w)) => {
            vcheck!(s, *v as i64 == w, "c16.d1 distance = LEF microns x raw units per micron");
        }
        (Ok(_), None) => {
            vcheck!(s, false, "c16.d1 a coordinate that is not a whole number of raw units is an error, not rounded");
        }
        (Err(_), Some(_)) => {
            vcheck!(s, false, "c16.d1 a whole number of raw units converts");
        }
        (Err(_), None) => {}
    }
    vcover!(s, r.is_ok() && m < 0, "negative value converted reachable");
    // (fractions of a raw unit exist only beyond four decimal places)
    vcover!(s, scale <= 4 || (r.is_err() && m < 0), "negative fraction of a raw unit refused reachable");
    core::mem::forget(r);
}
pub fn c16_q_d1_scale0<S: Src>(s: &mut S) {
    dist_body(s, 0)
}
pub fn c16_t_d1_scale1<S: Src>(s: &mut S) {
    dist_body(s, 1)
}
pub fn c16_q_d1_scale2<S: Src>(s: &mut S) {
    dist_body(s, 2)
}
pub fn c16_t_d1_scale3<S: Src>(s: &mut S) {
    dist_body(s, 3)
}
pub fn c16_t_d1_scale4<S: Src>(s: &mut S) {
    dist_body(s, 4)
}
pub fn c16_x_d1_scale5<S: Src>(s: &mut S) {
    dist_body(s, 5)
}
pub fn c16_q_d1_frac5<S: Src>(s: &mut S) {
    dist_body_b(s, 5, 8)
}
pub fn c16_t_d1_frac6<S: Src>(s: &mut S) {
    dist_body_b(s, 6, 8)
}
pub fn c16_x_d1_scale6<S: Src>(s: &mut S) {
    dist_body(s, 6)
}

/// D2: x and y are converted independently, each from its own field
fn point_body<S: Src>(s: &mut S, sx: u32, sy: u32) {
    let (mx, my) = (mant(s), mant(s));
    vnote!(s, "pt", "x={}e-{} y={}e-{}", mx, sx, my, sy);
    s.tag("x_ne_y", expect(mx, sx) != expect(my, sy));
    let p = lef21::LefPoint { x: lef21::LefDecimal::new(mx, sx), y: lef21::LefDecimal::new(my, sy) };
    let mut slot = core::mem::MaybeUninit::<LefImporter>::uninit();
    let imp: &mut LefImporter = importer!(slot);
    let r = imp.import_point(&p);
    let (wx, wy) = (expect(mx, sx), expect(my, sy));
    vnote!(s, "got", "{:?} want ({:?},{:?})", r, wx, wy);
    match (&r, wx, wy) {
        (Ok(q), Some(x), Some(y)) => {
            vcheck!(s, q.x as i64 == x, "c16.d2 x is the LEF x");
            vcheck!(s, q.y as i64 == y, "c16.d2 y is the LEF y (kept distinct from x)");
        }
        (Ok(_), _, _) => {
            vcheck!(s, false, "c16.d2 a fractional coordinate is an error");
        }
        (Err(_), Some(_), Some(_)) => {
            vcheck!(s, false, "c16.d2 whole coordinates convert");
        }
        _ => {}
    }
    vcover!(s, r.is_ok() && wx != wy, "distinct x and y reachable");
    core::mem::forget(r);
}
pub fn c16_q_d2_point_s0<S: Src>(s: &mut S) {
    point_body(s, 0, 0)
}
pub fn c16_t_d2_point_s2_s3<S: Src>(s: &mut S) {
    point_body(s, 2, 3)
}
pub fn c16_x_d2_point_s4_s1<S: Src>(s: &mut S) {
    point_body(s, 4, 1)
}

fn lpt<S: Src>(s: &mut S, scale: u32) -> (lef21::LefPoint, Option<(i64, i64)>) {
    let (mx, my) = (mant(s), mant(s));
    let w = match (expect(mx, scale), expect(my, scale)) {
        (Some(x), Some(y)) => Some((x, y)),
        _ => None,
    };
    (lef21::LefPoint { x: lef21::LefDecimal::new(mx, scale), y: lef21::LefDecimal::new(my, scale) }, w)
}
fn layer_geoms(width: Option<lef21::LefDecimal>) -> lef21::LefLayerGeometries {
    lef21::LefLayerGeometries { layer_name: String::new(), geometries: Vec::new(), vias: Vec::new(), except_pg_net: None, spacing: None, width }
}
fn pt_eq(p: &Point, w: (i64, i64)) -> bool {
    p.x as i64 == w.0 && p.y as i64 == w.1
}

/// D3: one LEF RECT / POLYGON / PATH becomes one shape of the same kind with every point converted
fn shape_body<S: Src>(s: &mut S, kind: u8, scale: u32) {
    let (a, wa) = lpt(s, scale);
    let (b, wb) = lpt(s, scale);
    let (c, wc) = lpt(s, scale);
    let mw = mant(s);
    let has_width = s.bool();
    vnote!(s, "shape", "kind={} a={:?} b={:?} c={:?} width={}e-{} present={}", kind, a, b, c, mw, scale, has_width);
    let lg = layer_geoms(if has_width { Some(lef21::LefDecimal::new(mw, scale)) } else { None });
    let shape = match kind {
        0 => lef21::LefShape::Rect(None, a, b),
        1 => lef21::LefShape::Polygon(None, vec![a, b, c]),
        _ => lef21::LefShape::Path(None, vec![a, b]),
    };
    let mut slot = core::mem::MaybeUninit::<LefImporter>::uninit();
    let imp: &mut LefImporter = importer!(slot);
    let r = imp.import_shape(&shape, &lg);
    vnote!(s, "got", "{:?}", r);
    match (&r, kind) {
        (Ok(Shape::Rect(q)), 0) => {
            let ok = match (wa, wb) {
                (Some(x), Some(y)) => pt_eq(&q.p0, x) && pt_eq(&q.p1, y),
                _ => false,
            };
            vcheck!(s, ok, "c16.d3 rectangle corners are the LEF corners in raw units");
        }
        (Ok(Shape::Polygon(q)), 1) => {
            let ok = match (wa, wb, wc) {
                (Some(x), Some(y), Some(z)) => q.points.len() == 3 && pt_eq(&q.points[0], x) && pt_eq(&q.points[1], y) && pt_eq(&q.points[2], z),
                _ => false,
            };
            vcheck!(s, ok, "c16.d3 polygon points are the LEF points in raw units, in order");
        }
        (Ok(Shape::Path(q)), 2) => {
            let ok = match (wa, wb) {
                (Some(x), Some(y)) => q.points.len() == 2 && pt_eq(&q.points[0], x) && pt_eq(&q.points[1], y),
                _ => false,
            };
            vcheck!(s, ok, "c16.d3 path points are the LEF points in raw units, in order");
            let wok = has_width && match expect(mw, scale) {
                Some(w) => w >= 0 && q.width as i64 == w,
                None => false,
            };
            vcheck!(s, wok, "c16.d3 path width is the layer WIDTH in raw units");
        }
        (Ok(_), _) => {
            vcheck!(s, false, "c16.d3 shape kind is preserved");
        }
        (Err(_), _) => {
            let all_whole = wa.is_some() && wb.is_some() && (kind != 1 || wc.is_some());
            let width_ok = kind != 2 || (has_width && expect(mw, scale).map_or(false, |w| w >= 0));
            vcheck!(s, !(all_whole && width_ok), "c16.d3 a shape with whole coordinates (and a width, for paths) converts");
        }
    }
    vcover!(s, r.is_ok(), "shape converted reachable");
    vcover!(s, r.is_err(), "shape refused reachable");
    core::mem::forget(r);
    core::mem::forget(shape);
    core::mem::forget(lg);
}
pub fn c16_x_d3_rect_s2<S: Src>(s: &mut S) {
    shape_body(s, 0, 2)
}
pub fn c16_x_d3_poly_s3<S: Src>(s: &mut S) {
    shape_body(s, 1, 3)
}
pub fn c16_x_d3_path_s1<S: Src>(s: &mut S) {
    shape_body(s, 2, 1)
}
/// ITERATE (step pattern) geometries are reported as unsupported, never silently dropped or mis-imported
pub fn c16_x_d3_iterate<S: Src>(s: &mut S) {
    let (a, _) = lpt(s, 0);
    let (b, _) = lpt(s, 0);
    let lg = layer_geoms(None);
    let g = lef21::LefGeometry::Iterate {
        shape: lef21::LefShape::Rect(None, a, b),
        pattern: lef21::LefStepPattern { numx: lef21::LefDecimal::new(1, 0), numy: lef21::LefDecimal::new(1, 0), spacex: lef21::LefDecimal::new(1, 0), spacey: lef21::LefDecimal::new(1, 0) },
    };
    let mut slot = core::mem::MaybeUninit::<LefImporter>::uninit();
    let imp: &mut LefImporter = importer!(slot);
    let r = imp.import_geometry(&g, &lg);
    vcheck!(s, r.is_err(), "c16.d3 ITERATE is an error");
    vcover!(s, r.is_err(), "iterate refused reachable");
    core::mem::forget(r);
    core::mem::forget(g);
}

#[cfg(not(kani))]
pub fn replay(name: &str, vals: Vec<Vec<u8>>) -> ReplayOut {
    run_native(name, vals, k::dispatch)
}

harnesses! { k, "sel_raw_lef.rs";
    #[kani::stub(alloc::fmt::format, fmt_stub)] #[kani::stub(std::sync::Arc::drop_slow, arc_drop_noop)] #[kani::stub(<&rust_decimal::Decimal as core::ops::Mul<rust_decimal::Decimal>>::mul, mul_model)] #[kani::stub(rust_decimal::Decimal::trunc, trunc_model)] #[kani::stub(rust_decimal::Decimal::fract, fract_model)] #[kani::stub(<rust_decimal::Decimal as core::cmp::Ord>::cmp, cmp_model)] #[kani::unwind(12)] c16_q_d1_scale0;
    #[kani::stub(alloc::fmt::format, fmt_stub)] #[kani::stub(std::sync::Arc::drop_slow, arc_drop_noop)] #[kani::stub(<&rust_decimal::Decimal as core::ops::Mul<rust_decimal::Decimal>>::mul, mul_model)] #[kani::stub(rust_decimal::Decimal::trunc, trunc_model)] #[kani::stub(rust_decimal::Decimal::fract, fract_model)] #[kani::stub(<rust_decimal::Decimal as core::cmp::Ord>::cmp, cmp_model)] #[kani::unwind(12)] c16_t_d1_scale1;
    #[kani::stub(alloc::fmt::format, fmt_stub)] #[kani::stub(std::sync::Arc::drop_slow, arc_drop_noop)] #[kani::stub(<&rust_decimal::Decimal as core::ops::Mul<rust_decimal::Decimal>>::mul, mul_model)] #[kani::stub(rust_decimal::Decimal::trunc, trunc_model)] #[kani::stub(rust_decimal::Decimal::fract, fract_model)] #[kani::stub(<rust_decimal::Decimal as core::cmp::Ord>::cmp, cmp_model)] #[kani::unwind(12)] c16_q_d1_scale2;
    #[kani::stub(alloc::fmt::format, fmt_stub)] #[kani::stub(std::sync::Arc::drop_slow, arc_drop_noop)] #[kani::stub(<&rust_decimal::Decimal as core::ops::Mul<rust_decimal::Decimal>>::mul, mul_model)] #[kani::stub(rust_decimal::Decimal::trunc, trunc_model)] #[kani::stub(rust_decimal::Decimal::fract, fract_model)] #[kani::stub(<rust_decimal::Decimal as core::cmp::Ord>::cmp, cmp_model)] #[kani::unwind(12)] c16_t_d1_scale3;
    #[kani::stub(alloc::fmt::format, fmt_stub)] #[kani::stub(std::sync::Arc::drop_slow, arc_drop_noop)] #[kani::stub(<&rust_decimal::Decimal as core::ops::Mul<rust_decimal::Decimal>>::mul, mul_model)] #[kani::stub(rust_decimal::Decimal::trunc, trunc_model)] #[kani::stub(rust_decimal::Decimal::fract, fract_model)] #[kani::stub(<rust_decimal::Decimal as core::cmp::Ord>::cmp, cmp_model)] #[kani::unwind(12)] c16_t_d1_scale4;
    #[kani::stub(alloc::fmt::format, fmt_stub)] #[kani::stub(std::sync::Arc::drop_slow, arc_drop_noop)] #[kani::stub(<&rust_decimal::Decimal as core::ops::Mul<rust_decimal::Decimal>>::mul, mul_model)] #[kani::stub(rust_decimal::Decimal::trunc, trunc_model)] #[kani::stub(rust_decimal::Decimal::fract, fract_model)] #[kani::stub(<rust_decimal::Decimal as core::cmp::Ord>::cmp, cmp_model)] #[kani::unwind(12)] c16_x_d1_scale5;
    #[kani::stub(alloc::fmt::format, fmt_stub)] #[kani::stub(std::sync::Arc::drop_slow, arc_drop_noop)] #[kani::stub(<&rust_decimal::Decimal as core::ops::Mul<rust_decimal::Decimal>>::mul, mul_model)] #[kani::stub(rust_decimal::Decimal::trunc, trunc_model)] #[kani::stub(rust_decimal::Decimal::fract, fract_model)] #[kani::stub(<rust_decimal::Decimal as core::cmp::Ord>::cmp, cmp_model)] #[kani::unwind(12)] c16_q_d1_frac5;
    #[kani::stub(alloc::fmt::format, fmt_stub)] #[kani::stub(std::sync::Arc::drop_slow, arc_drop_noop)] #[kani::stub(<&rust_decimal::Decimal as core::ops::Mul<rust_decimal::Decimal>>::mul, mul_model)] #[kani::stub(rust_decimal::Decimal::trunc, trunc_model)] #[kani::stub(rust_decimal::Decimal::fract, fract_model)] #[kani::stub(<rust_decimal::Decimal as core::cmp::Ord>::cmp, cmp_model)] #[kani::unwind(12)] c16_t_d1_frac6;
    #[kani::stub(alloc::fmt::format, fmt_stub)] #[kani::stub(std::sync::Arc::drop_slow, arc_drop_noop)] #[kani::stub(<&rust_decimal::Decimal as core::ops::Mul<rust_decimal::Decimal>>::mul, mul_model)] #[kani::stub(rust_decimal::Decimal::trunc, trunc_model)] #[kani::stub(rust_decimal::Decimal::fract, fract_model)] #[kani::stub(<rust_decimal::Decimal as core::cmp::Ord>::cmp, cmp_model)] #[kani::unwind(12)] c16_x_d1_scale6;
    #[kani::stub(alloc::fmt::format, fmt_stub)] #[kani::stub(std::sync::Arc::drop_slow, arc_drop_noop)] #[kani::stub(<&rust_decimal::Decimal as core::ops::Mul<rust_decimal::Decimal>>::mul, mul_model)] #[kani::stub(rust_decimal::Decimal::trunc, trunc_model)] #[kani::stub(rust_decimal::Decimal::fract, fract_model)] #[kani::stub(<rust_decimal::Decimal as core::cmp::Ord>::cmp, cmp_model)] #[kani::unwind(12)] c16_q_d2_point_s0;
    #[kani::stub(alloc::fmt::format, fmt_stub)] #[kani::stub(std::sync::Arc::drop_slow, arc_drop_noop)] #[kani::stub(<&rust_decimal::Decimal as core::ops::Mul<rust_decimal::Decimal>>::mul, mul_model)] #[kani::stub(rust_decimal::Decimal::trunc, trunc_model)] #[kani::stub(rust_decimal::Decimal::fract, fract_model)] #[kani::stub(<rust_decimal::Decimal as core::cmp::Ord>::cmp, cmp_model)] #[kani::unwind(12)] c16_t_d2_point_s2_s3;
    #[kani::stub(alloc::fmt::format, fmt_stub)] #[kani::stub(std::sync::Arc::drop_slow, arc_drop_noop)] #[kani::stub(<&rust_decimal::Decimal as core::ops::Mul<rust_decimal::Decimal>>::mul, mul_model)] #[kani::stub(rust_decimal::Decimal::trunc, trunc_model)] #[kani::stub(rust_decimal::Decimal::fract, fract_model)] #[kani::stub(<rust_decimal::Decimal as core::cmp::Ord>::cmp, cmp_model)] #[kani::unwind(12)] c16_x_d2_point_s4_s1;
    #[kani::stub(alloc::fmt::format, fmt_stub)] #[kani::stub(std::sync::Arc::drop_slow, arc_drop_noop)] #[kani::stub(<&rust_decimal::Decimal as core::ops::Mul<rust_decimal::Decimal>>::mul, mul_model)] #[kani::stub(rust_decimal::Decimal::trunc, trunc_model)] #[kani::stub(rust_decimal::Decimal::fract, fract_model)] #[kani::stub(<rust_decimal::Decimal as core::cmp::Ord>::cmp, cmp_model)] #[kani::unwind(12)] c16_x_d3_rect_s2;
    #[kani::stub(alloc::fmt::format, fmt_stub)] #[kani::stub(std::sync::Arc::drop_slow, arc_drop_noop)] #[kani::stub(<&rust_decimal::Decimal as core::ops::Mul<rust_decimal::Decimal>>::mul, mul_model)] #[kani::stub(rust_decimal::Decimal::trunc, trunc_model)] #[kani::stub(rust_decimal::Decimal::fract, fract_model)] #[kani::stub(<rust_decimal::Decimal as core::cmp::Ord>::cmp, cmp_model)] #[kani::unwind(12)] c16_x_d3_poly_s3;
    #[kani::stub(alloc::fmt::format, fmt_stub)] #[kani::stub(std::sync::Arc::drop_slow, arc_drop_noop)] #[kani::stub(<&rust_decimal::Decimal as core::ops::Mul<rust_decimal::Decimal>>::mul, mul_model)] #[kani::stub(rust_decimal::Decimal::trunc, trunc_model)] #[kani::stub(rust_decimal::Decimal::fract, fract_model)] #[kani::stub(<rust_decimal::Decimal as core::cmp::Ord>::cmp, cmp_model)] #[kani::unwind(12)] c16_x_d3_path_s1;
    #[kani::stub(alloc::fmt::format, fmt_stub)] #[kani::stub(std::sync::Arc::drop_slow, arc_drop_noop)] #[kani::stub(<&rust_decimal::Decimal as core::ops::Mul<rust_decimal::Decimal>>::mul, mul_model)] #[kani::stub(rust_decimal::Decimal::trunc, trunc_model)] #[kani::stub(rust_decimal::Decimal::fract, fract_model)] #[kani::stub(<rust_decimal::Decimal as core::cmp::Ord>::cmp, cmp_model)] #[kani::unwind(12)] c16_x_d3_iterate;
}
