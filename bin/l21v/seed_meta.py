#!/usr/bin/env python3
"""Writes /verif/seeded/<id>/meta.json from the table below (results filled in by hand after running bin/seedrun)."""
import json, os
V = os.path.dirname(os.path.dirname(os.path.dirname(os.path.abspath(__file__))))
T = {
 'C15-a': dict(property='C15', pkg='gds21', change='GdsFloat64::encode: exponent correction tests the rounded mantissa (< 2^52) instead of comparing the value with 16^(exponent-1)',
   needs='a double exactly one ulp below a power of sixteen (e.g. 0x402FFFFFFFFFFFFF): the scaled mantissa 2^52-0.5 rounds up to 2^52 and passes the test',
   result='caught', by='c15_q_f1_roundtrip, c15_q_f2_exact, c15_q_f4_reencode (quick), exit 1'),
 'C13-a': dict(property='C13', pkg='layout21raw', change='Polygon::contains: early skip on the closed y-range, half-open straddle test removed',
   needs='a query point off the boundary whose ray meets a vertex where the boundary passes monotonically through its y',
   result='caught', by='c13_q_g2_quad_r1, c13_q_g2_tri_r3, c13_q_g2_repeat1 (quick), exit 1'),
 'C13-b': dict(property='C13', pkg='layout21raw', change='Vec<Point>::bbox rewritten as a single pass with else-if between min and max update: the first point is never considered for the maximum',
   needs='a polygon whose first listed vertex is the unique maximum in x or y, queried beyond the second-largest coordinate',
   result='', by=''),
 'C12-a': dict(property='C12', pkg='layout21raw', change='matvec rewritten as a loop with swapped indices (transpose): cascade places the child origin with the transpose of the parent matrix',
   needs='nesting depth >= 2 with an un-reflected 90/270 degree accumulated parent and a non-zero child location',
   result='caught', by='c12_s_t3c_d2_02, c12_s_t3c_d2_16, c12_s_t3c_d3_00 (quick sample for VERIF_SEED=0), exit 1'),
 'C10-a': dict(property='C10', pkg='gds21', change='read_i16/read_i32 decode with ByteOrder::read_i32_into, which asserts src.len() == 4*dst.len()',
   needs='an XY record whose payload length is 4k+2 (e.g. 00 0A 10 03 + 6 bytes) with the bytes present: panic instead of a result',
   result='caught', by='c10_q_r_k10_l6 (quick), exit 1'),
 'C10-b': dict(property='C10', pkg='gds21', change='read_str: NUL stripping rewritten as one expression, dropping the len > 0 guard',
   needs='any string record with an empty payload (00 04 <rtype> 06)', result='', by=''),
 'C02-a': dict(property='C02', pkg='gds21', change='encode_path emits XY before BGNEXTN / ENDEXTN', needs='a path with begin_extn and/or end_extn set',
   result='', by=''),
 'C01-a': dict(property='C01', pkg='gds21', change='encode_path writes BGNEXTN / ENDEXTN only when path_type == Some(4)', needs='a path with an extension and a path type other than 4',
   result='', by=''),
 'C01-b': dict(property='C01', pkg='gds21', change='string records: padding decided by chars().count() parity while the header uses the byte length',
   needs='a non-ASCII string whose byte length and character count differ in parity ("µ", "aé")', result='', by=''),
 'C03-a': dict(property='C03', pkg='gds21', change='parse_box no longer hands the collected properties to the builder', needs='a BOX element carrying at least one PROPATTR/PROPVALUE pair',
   result='', by=''),
 'C03-b': dict(property='C03', pkg='gds21', change='parse_datetime subtracts 1900 from year fields >= 1900', needs='a BGNLIB/BGNSTR date whose year field is in 1900..=32767', result='', by=''),
 'C09-a': dict(property='C09', pkg='layout21tetris', change='resolve_instance_place: separation negated when (offset_side && !reflected(side_axis)) instead of by side',
   needs='placed instance reflected in the side axis, side Left or Bottom, non-zero separation', result='', by=''),
 'C16-a': dict(property='C16', pkg='layout21raw', change='import_dist: fraction test rewritten as `scaled > scaled.trunc()`, which never fires for negative values',
   needs='a negative LEF number with a non-zero digit past the fourth decimal place (-1.23456 imports as -12345 instead of an error)', result='', by=''),
 'C16-regress-scale': dict(property='C16', pkg='layout21raw', change='reverse of fix fd2d7ff (import_dist returns the unscaled mantissa again) — not an independent seed: a regression of a repaired defect',
   needs='any decimal written with digits after the point', result='', by=''),
 'C16-regress-y': dict(property='C16', pkg='layout21raw', change='reverse of fix d594ef0 (import_point converts pt.x twice again) — a regression of a repaired defect',
   needs='any point with x != y', result='', by=''),
 'C14-a': dict(property='C14', pkg='layout21raw', change='raw::DepOrder::push rewritten as an iterative work-list that appends the reversed pre-order',
   needs='a library listing a user before a shared cell, with the user instantiating mid before leaf and mid instantiating leaf', result='', by=''),
 'C07-a': dict(property='C07', pkg='layout21raw', change='GdsImporter::import_boundary: rectangle detection checks only three of the four edges',
   needs='a four-vertex non-rectangle whose closing edge is the only slanted one (right trapezoid)', result='', by=''),
}
R = json.load(open(os.path.join(V, 'seeded', 'results.json'))) if os.path.exists(os.path.join(V, 'seeded', 'results.json')) else {}
for k, t in T.items():
    t.update(R.get(k, {}))
    d = os.path.join(V, 'seeded', k)
    if not os.path.isdir(d):
        continue
    meta = dict(id=k, breaks_property=t['property'], package=t['pkg'], change=t['change'], needs_to_manifest=t['needs'],
                author='independent sub-agent given only the property text and a private worktree',
                verified_by_me=('bin/seedrun (SEED_VERIFY=1): patch applies to /repo HEAD, cargo test -p %s --test seed_demo passes without and fails with the '
                                'change, bin/baseline reports all 76 baseline tests passing with the change; /repo restored afterwards' % t['pkg']),
                demonstration='seed_demo.rs (copy to <package>/tests/seed_demo.rs)',
                check_result=t['result'], detected_by=t['by'])
    json.dump(meta, open(os.path.join(d, 'meta.json'), 'w'), indent=1)
print('meta written for', len(T))
