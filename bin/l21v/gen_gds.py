#!/usr/bin/env python3
"""Generates the instance lists (concrete record kind / optional-field mask per harness) of the gds21 in-crate
harness files, between the BEGIN/END GENERATED markers. Run after editing; the result is committed."""
import os, re

VERIF = os.path.dirname(os.path.dirname(os.path.dirname(os.path.abspath(__file__))))
INC = os.path.join(VERIF, 'harness', 'incrate')

STR_KINDS = [0x02, 0x06, 0x12, 0x19, 0x1F, 0x20, 0x23, 0x2C, 0x37, 0x3A]
ALL_KINDS = [0x00, 0x01, 0x02, 0x03, 0x04, 0x05, 0x06, 0x07, 0x08, 0x09, 0x0A, 0x0B, 0x0C, 0x0D, 0x0E, 0x0F, 0x10, 0x11,
             0x12, 0x13, 0x15, 0x16, 0x17, 0x19, 0x1A, 0x1B, 0x1C, 0x1F, 0x20, 0x21, 0x22, 0x23, 0x26, 0x2A, 0x2B, 0x2C,
             0x2D, 0x2E, 0x2F, 0x30, 0x31, 0x32, 0x33, 0x36, 0x37, 0x38, 0x39, 0x3A, 0x3B]
XY = 0x10

TYPES = ['GdsBoundary', 'GdsPath', 'GdsStructRef', 'GdsArrayRef', 'GdsTextElem', 'GdsNode', 'GdsBox']
M = dict(ELFLAGS=1, PLEX=2, STRANS=4, MAG=8, ANGLE=16, PATHTYPE=32, WIDTH=64, BGNEXTN=128, ENDEXTN=256, PRESENTATION=512, PROP=1024)
KIND_BITS = {
    0: ['ELFLAGS', 'PLEX', 'PROP'],
    1: ['ELFLAGS', 'PLEX', 'PATHTYPE', 'WIDTH', 'BGNEXTN', 'ENDEXTN', 'PROP'],
    2: ['ELFLAGS', 'PLEX', 'STRANS', 'MAG', 'ANGLE', 'PROP'],
    3: ['ELFLAGS', 'PLEX', 'STRANS', 'MAG', 'ANGLE', 'PROP'],
    4: ['ELFLAGS', 'PLEX', 'PRESENTATION', 'PATHTYPE', 'WIDTH', 'STRANS', 'MAG', 'ANGLE', 'PROP'],
    5: ['ELFLAGS', 'PLEX', 'PROP'],
    6: ['ELFLAGS', 'PLEX', 'PROP'],
}


def masks_for(kind, with_prop=True):
    bits = [M[b] for b in KIND_BITS[kind] if with_prop or b != 'PROP']
    full = sum(bits)
    out = {0, full}
    for b in bits:
        m = b
        if b in (M['MAG'], M['ANGLE']):
            m |= M['STRANS']  # MAG / ANGLE only exist inside a STRANS
        out.add(m)
        m2 = full & ~b
        if b == M['STRANS']:
            m2 &= ~(M['MAG'] | M['ANGLE'])
        out.add(m2)
    return sorted(out)


def rec_unwind(k, n):
    """tight loop bound: string/XY lengths read back from an enum payload are not constants for CBMC, so loops over
    them are unwound up to the bound; bytes of the whole record + 2 covers the harness's own comparison loops"""
    if k in STR_KINDS:
        payload = n + n % 2
    elif k == XY:
        payload = 4 * n
    elif k in (0x01, 0x05):
        payload = 24
    elif k == 0x33:
        payload = 12
    elif k == 0x03:
        payload = 16
    else:
        payload = 8
    return payload + 4 + 2


def record_instances():
    out = []
    for k in ALL_KINDS:
        if k in STR_KINDS:
            for n in (0, 1, 2, 3):
                out.append((k, n))
        elif k == XY:
            for n in (0, 2, 5):
                out.append((k, n))
        else:
            out.append((k, 0))
    return out


REC_STUBS = ('#[kani::stub(std::str::from_utf8, from_utf8_model)] #[kani::stub(crate::data::GdsFloat64::encode, enc_bits)] '
             '#[kani::stub(crate::data::GdsFloat64::decode, dec_bits)] #[kani::stub(alloc::fmt::format, fmt_stub)]')
PARSE_STUBS = REC_STUBS + ' #[kani::stub(crate::read::GdsParser::next, stub_next)]'


def gen_write():
    fns, hs = [], []
    hs.append(f'    {REC_STUBS} #[kani::unwind(4)] c02_q_b1_len_limit;')
    hs.append(f'    {REC_STUBS} #[kani::unwind(8)] c02_q_b2_reclist;')
    quick = {(0x02, 1), (0x10, 2), (0x03, 0), (0x1A, 0)}
    for k, n in record_instances():
        t = 'q' if (k, n) in quick else 's'
        nm = f'c02_{t}_b1_k{k:02x}_n{n}'
        fns.append(f'pub fn {nm}<S: Src>(s: &mut S) {{\n    b1_body(s, {k:#04x}, {n})\n}}')
        hs.append(f'    {REC_STUBS} #[kani::unwind({rec_unwind(k, n)})] {nm};')
    for kind in range(7):
        for m in masks_for(kind):
            full = m == sum(M[b] for b in KIND_BITS[kind])
            t = 'q' if full and kind in (1, 4) else 's'
            nm = f'c02_{t}_b2_e{kind}_m{m}'
            npts = 2
            fns.append(f'pub fn {nm}<S: Src>(s: &mut S) {{\n    b2_body::<S, {TYPES[kind]}>(s, {m}, 1, {npts})\n}}')
            hs.append(f'    {REC_STUBS} #[kani::unwind(22)] {nm};')
    # path type pinned to concrete values (code whose record shape depends on it stays tractable)
    for kind, full in ((1, 1507), (4, 1663)):
        for pt in (0, 1, 2, 4):
            t = 'q' if (kind, pt) == (1, 2) else 's'
            nm = f'c02_{t}_b2_e{kind}_m{full}_pt{pt}'
            fns.append(f'pub fn {nm}<S: Src>(s: &mut S) {{\n    b2_body_pin::<S, {TYPES[kind]}>(s, {full}, 1, 2, {pt})\n}}')
            hs.append(f'    {REC_STUBS} #[kani::unwind(22)] {nm};')
    for (t, ns, ne, k0, m) in (('x', 1, 1, 3, 2047), ('x', 2, 2, 0, 2047), ('x', 2, 2, 3, 0), ('x', 1, 2, 5, 1031), ('q', 0, 0, 0, 0)):
        nm = f'c02_{t}_b2_lib_{ns}x{ne}_k{k0}_m{m}'
        fns.append(f'pub fn {nm}<S: Src>(s: &mut S) {{\n    b2_lib_body(s, {ns}, {ne}, {k0}, {m})\n}}')
        hs.append(f'    {REC_STUBS} #[kani::unwind(60)] {nm};')
    body = '\n'.join(fns) + '\n\n#[cfg(not(kani))]\npub fn replay(name: &str, vals: Vec<Vec<u8>>) -> ReplayOut {\n    run_native(name, vals, k::dispatch)\n}\n\nharnesses! { k, "sel_gds21_write.rs";\n' + '\n'.join(hs) + '\n}\n'
    return body


def gen_read():
    fns, hs = [], []
    hs.append('    #[kani::unwind(6)] c10_q_h_header;')
    hs.append(f'    {REC_STUBS} #[kani::stub(crate::read::GdsReader::read_record, stub_read_record)] #[kani::unwind(8)] c01_q_l2n_next;')
    hs.append(f'    {REC_STUBS} #[kani::stub(crate::read::GdsReader::read_record, stub_read_record)] #[kani::unwind(8)] c01_t_l2n_next_early;')
    quick_l1 = {(0x02, 0), (0x02, 1), (0x10, 2), (0x03, 0), (0x19, 2)}
    for k, n in record_instances():
        t = 'q' if (k, n) in quick_l1 else 's'
        nm = f'c01_{t}_l1_k{k:02x}_n{n}'
        fns.append(f'pub fn {nm}<S: Src>(s: &mut S) {{\n    record_rt_body(s, {k:#04x}, {n}, true, false)\n}}')
        hs.append(f'    {REC_STUBS} #[kani::unwind({rec_unwind(k, n)})] {nm};')
        t = 'q' if (k, n) in {(0x06, 0), (0x2C, 3), (0x10, 5)} else 's'
        nm = f'c03_{t}_r1_k{k:02x}_n{n}'
        pad = 'true' if (k + n) % 2 == 0 else 'false'
        fns.append(f'pub fn {nm}<S: Src>(s: &mut S) {{\n    record_rt_body(s, {k:#04x}, {n}, false, {pad})\n}}')
        hs.append(f'    {REC_STUBS} #[kani::unwind({rec_unwind(k, n) + 2})] {nm};')
    for k in (0x02, 0x06, 0x12, 0x19, 0x2C):
        for n in (0, 1, 2, 3):
            t = 'q' if (k, n) in {(0x19, 0), (0x06, 2)} else 's'
            nm = f'c03_{t}_r1pad_k{k:02x}_n{n}'
            fns.append(f'pub fn {nm}<S: Src>(s: &mut S) {{\n    str_padding_body(s, {k:#04x}, {n})\n}}')
            hs.append(f'    {REC_STUBS} #[kani::unwind(8)] {nm};')
    # C10 R-level: every valid record type x payload lengths
    for k in ALL_KINDS:
        for ln in (0, 2, 4, 6, 8, 12, 16, 24):
            if ln not in (0, 2, 4, 8, 24) and k not in STR_KINDS + [XY]:
                continue
            t = 'q' if (k, ln) in {(0x02, 0), (0x10, 6), (0x01, 24), (0x2C, 2)} else 's'
            nm = f'c10_{t}_r_k{k:02x}_l{ln}'
            fixed = {0x01: 24, 0x05: 24, 0x33: 12, 0x03: 16, 0x13: 4, 0x0F: 4, 0x2F: 4, 0x30: 4, 0x31: 4, 0x1B: 8, 0x1C: 8}
            nodata = (0x04, 0x07, 0x08, 0x09, 0x0A, 0x0B, 0x0C, 0x11, 0x15, 0x2D, 0x38)
            size = 0 if k in nodata else fixed.get(k, 2)
            can = 'true' if (k in STR_KINDS or k == XY or ln == size) else 'false'
            fns.append(f'pub fn {nm}<S: Src>(s: &mut S) {{\n    rlevel_body(s, {k:#04x}, {ln}, {can})\n}}')
            hs.append(f'    {REC_STUBS} #[kani::unwind(26)] {nm};')
    # tree level (without PROPATTR/PROPVALUE: `props.push(..)` inside the parsers trips a CBMC pointer-model artefact, see DESIGN)
    for kind in range(7):
        for m in masks_for(kind, with_prop=False):
            full = m == sum(M[b] for b in KIND_BITS[kind] if b != 'PROP')
            t = 'q' if (full and kind in (0, 1, 4)) or (m == 0 and kind == 2) else 's'
            npts = 2
            nm = f'c01_{t}_l2a_e{kind}_m{m}'
            fns.append(f'pub fn {nm}<S: Src>(s: &mut S) {{\n    elem_rt_body::<S, {TYPES[kind]}>(s, {m}, 1, {npts}, true)\n}}')
            hs.append(f'    {PARSE_STUBS} #[kani::unwind(22)] {nm};')
            t = 'q' if (full and kind in (1, 3)) else 's'
            nm = f'c03_{t}_r2_e{kind}_m{m}'
            fns.append(f'pub fn {nm}<S: Src>(s: &mut S) {{\n    elem_rt_body::<S, {TYPES[kind]}>(s, {m}, 1, {npts}, false)\n}}')
            hs.append(f'    {PARSE_STUBS} #[kani::unwind(22)] {nm};')
    for kind, full in ((1, 483), (4, 639)):
        for pt in (0, 1, 2, 4):
            t = 'q' if (kind, pt) == (1, 2) else 's'
            nm = f'c01_{t}_l2a_e{kind}_m{full}_pt{pt}'
            fns.append(f'pub fn {nm}<S: Src>(s: &mut S) {{\n    elem_rt_body_pin::<S, {TYPES[kind]}>(s, {full}, 1, 2, true, {pt})\n}}')
            hs.append(f'    {PARSE_STUBS} #[kani::unwind(22)] {nm};')
            t = 'q' if (kind, pt) == (4, 0) else 's'
            nm = f'c03_{t}_r2_e{kind}_m{full}_pt{pt}'
            fns.append(f'pub fn {nm}<S: Src>(s: &mut S) {{\n    elem_rt_body_pin::<S, {TYPES[kind]}>(s, {full}, 1, 2, false, {pt})\n}}')
            hs.append(f'    {PARSE_STUBS} #[kani::unwind(22)] {nm};')
    # one property on each element kind (all other optional fields absent / all present)
    for kind in range(7):
        full = sum(M[b] for b in KIND_BITS[kind])
        for m in (1024, full):
            t = 'x'  # CBMC pointer-model artefact on props.push (DESIGN §4): kept as experiments only
            nm = f'c01_{t}_l2p_e{kind}_m{m}'
            fns.append(f'pub fn {nm}<S: Src>(s: &mut S) {{\n    elem_rt_body::<S, {TYPES[kind]}>(s, {m}, 1, 2, true)\n}}')
            hs.append(f'    {PARSE_STUBS} #[kani::unwind(22)] {nm};')
            t = 'x'
            nm = f'c03_{t}_r2p_e{kind}_m{m}'
            fns.append(f'pub fn {nm}<S: Src>(s: &mut S) {{\n    elem_rt_body::<S, {TYPES[kind]}>(s, {m}, 1, 2, false)\n}}')
            hs.append(f'    {PARSE_STUBS} #[kani::unwind(22)] {nm};')
    for (t, ns, ne, k0, m) in (('q', 0, 0, 0, 0), ('x', 1, 1, 0, 0), ('x', 1, 1, 4, 1023), ('x', 2, 1, 2, 0), ('x', 1, 2, 5, 7), ('x', 2, 2, 0, 0)):
        nm = f'c01_{t}_l2b_lib_{ns}x{ne}_k{k0}_m{m}'
        fns.append(f'pub fn {nm}<S: Src>(s: &mut S) {{\n    lib_rt_body(s, {ns}, {ne}, {k0}, {m}, true, false)\n}}')
        hs.append(f'    {PARSE_STUBS} #[kani::unwind(60)] {nm};')
    for (t, ns, ne, k0, m) in (('q', 0, 0, 0, 0), ('x', 1, 1, 6, 3), ('x', 1, 1, 3, 1023)):
        nm = f'c03_{t}_r2_lib_junk_{ns}x{ne}_k{k0}_m{m}'
        fns.append(f'pub fn {nm}<S: Src>(s: &mut S) {{\n    lib_rt_body(s, {ns}, {ne}, {k0}, {m}, false, true)\n}}')
        hs.append(f'    {PARSE_STUBS} #[kani::unwind(60)] {nm};')
    for k in (0x39, 0x3A, 0x3B, 0x1F, 0x20, 0x23, 0x22, 0x36):
        t = 'q' if k in (0x39, 0x20) else 's'
        nm = f'c03_{t}_unsup_k{k:02x}'
        fns.append(f'pub fn {nm}<S: Src>(s: &mut S) {{\n    unsupported_body(s, {k:#04x})\n}}')
        hs.append(f'    {PARSE_STUBS} #[kani::unwind(16)] {nm};')
    # C10 P-level: concrete record-kind sequences (payloads symbolic). PROPATTR directly followed by PROPVALUE is left out
    # (props.push trips the CBMC pointer-model artefact, DESIGN §4); every other pairing of the records below occurs.
    import random
    rnd = random.Random(2026)
    ELEM_RECS = [(0x0D, 0), (0x0E, 0), (0x10, 2), (0x10, 5), (0x10, 0), (0x11, 0), (0x12, 1), (0x13, 0), (0x16, 0), (0x17, 0), (0x19, 1), (0x1A, 0),
                 (0x1B, 0), (0x1C, 0), (0x21, 0), (0x0F, 0), (0x26, 0), (0x2A, 0), (0x2B, 0), (0x2C, 1), (0x2E, 0), (0x2F, 0), (0x30, 0), (0x31, 0),
                 (0x04, 0), (0x07, 0), (0x08, 0), (0x00, 0), (0x02, 0)]
    def ok_seq(seq):
        return not any(a[0] == 0x2B and b[0] == 0x2C for a, b in zip(seq, seq[1:]))
    seqs = {}
    for which in range(7):
        out = []
        # every single record followed by end of input, and by ENDEL
        for r in ELEM_RECS:
            out.append([r])
        while len(out) < 70:
            ln = rnd.choice([2, 2, 3, 3, 4])
            sq = [rnd.choice(ELEM_RECS) for _ in range(ln)]
            if ok_seq(sq) and sq not in out:
                out.append(sq)
        seqs[which] = out
    H, B, LN, U, EL, BS, SN, ES = (0x00, 0), (0x01, 0), (0x02, 1), (0x03, 0), (0x04, 0), (0x05, 0), (0x06, 1), (0x07, 0)
    BND = [(0x08, 0), (0x0D, 0), (0x0E, 0), (0x10, 2), (0x11, 0)]
    seqs[7] = [[SN, ES], [ES], [SN], [SN, (0x08, 0)], [SN] + BND + [ES], [SN] + BND, [SN, (0x0D, 0)], [SN, SN, ES], [SN, (0x0C, 0), (0x11, 0), ES], [(0x0D, 0)],
               [SN, (0x15, 0), (0x11, 0), ES], [SN, (0x2D, 0), (0x10, 5), (0x11, 0), ES], [SN, (0x0A, 0), (0x12, 1), (0x11, 0), ES], [SN, (0x0B, 0), (0x13, 0), ES], [SN, EL]]
    seqs[8] = [[H, B, LN, U, EL], [H, B, LN, U], [H, B, EL], [H, EL], [H], [B], [H, B, U, LN, EL], [H, B, LN, U, BS, SN, ES, EL], [H, B, LN, U, BS, SN, ES],
               [H, B, LN, U, BS, SN] + BND + [ES, EL], [H, B, LN, U, BS, EL], [H, B, LN, U, (0x08, 0), EL], [H, H, B, LN, U, EL], [H, B, LN, LN, U, EL],
               [H, B, (0x39, 0), LN, U, EL], [H, B, LN, (0x22, 0), U, EL], [H, B, LN, U, EL, H], [EL]]
    for which in range(9):
        for n, sq in enumerate(seqs[which]):
            quick = (which, n) in {(0, 3), (4, 40), (8, 0), (8, 1), (7, 4)}
            t = 'x'  # error paths (early returns dropping builders / property vectors) trip CBMC's allocator model: experiments only
            nm = f'c10_{t}_p_w{which}_{n:02d}'
            ks = ', '.join(f'{k:#04x}' for k, _ in sq)
            nn = ', '.join(str(x) for _, x in sq)
            fns.append(f'pub fn {nm}<S: Src>(s: &mut S) {{\n    plevel_body(s, {which}, &[{ks}], &[{nn}])\n}}')
            hs.append(f'    {PARSE_STUBS} #[kani::unwind(16)] {nm};')
    body = '\n'.join(fns) + '\n\nharnesses! { k, "sel_gds21_read.rs";\n' + '\n'.join(hs) + '\n}\n'
    return body


def splice(path, body):
    s = open(path).read()
    a = s.index('// BEGIN GENERATED')
    a = s.index('\n', a) + 1
    b = s.index('// END GENERATED')
    s = s[:a] + body + s[b:]
    open(path, 'w').write(s)


if __name__ == '__main__':
    splice(os.path.join(INC, 'gds21_write.rs'), gen_write())
    splice(os.path.join(INC, 'gds21_read.rs'), gen_read())
    print('generated')
