#!/usr/bin/env python3
"""Regenerates /verif/MANIFEST.json from the table below (keeps the file valid and in one place)."""
import json, os, subprocess

VERIF = os.path.dirname(os.path.dirname(os.path.dirname(os.path.abspath(__file__))))

TECH = ('bounded symbolic model checking of the compiled Rust code: Kani 0.68 proof harnesses over kani::any() inputs, '
        'unwinding assertions on, decided by CBMC 6.11 / CaDiCaL; counterexamples replayed natively (dev + release)')

# property -> dict(text, note, design)
CLAIMS = {
    'C15': dict(
        text=('All four clauses (round trip, exact normalised encoding, correctly rounded decode, re-encode of <=53-bit '
              'reals) are decided by the SAT solver over the WHOLE range the property names (every finite double with '
              '16^-64 <= |x| < 16^63, +-0, every normalised 8-byte real) on the real GdsFloat64::encode/decode compiled by '
              'Kani; no sampling. Bounded only in the sense that libm is a contract model, see note.'),
        note=('f64::powi and f64::log2 are environment (libm/compiler-rt) and are replaced by contract models: powi exact on '
              'bases 2 and 16, log2 exact at powers of two and in the measured zones next to them, any value strictly '
              'between e and e+1 elsewhere; the zone tables are regenerated from this platform\'s libm and validated on '
              'every run (l21v-tablegen). Kani models the dev profile (overflow checks on). -0.0 is accepted as 0.0.'),
        design='§5 C15, §4.1'),
}

CLAIMS['C12'] = dict(
    text=('Decided by the solver on the real Transform::from_instance / cascade / rotate / reflect_vert / translate / '
          'Point::transform: (T1) from_instance equals translate∘rotate∘reflect entry by entry for ANY angle (sine and '
          'cosine are two unconstrained symbolic doubles) and every i32 location; (T2) for each of the ten right-angle '
          'orientations the image of a point is the exact integer map — every i32 point at location 0, all points and '
          'locations on the grid ±128, and (thorough) grid points with every i32 location; (T3) chains of depth 2..4 of '
          'right-angle placements compose to the exact integer composition for every i32 point (orientations and offsets '
          'concrete per instance, 52 instances incl. extreme offsets; quick tier runs a VERIF_SEED-chosen 6) and, thorough, '
          'depth 2 with symbolic offsets on the grid ±8. Bounded model checking, not a proof for all inputs.'),
    note=('sin/cos are environment: for right angles a table keyed on the bit pattern of to_radians(k*90) filled from this '
          'platform\'s libm on every run; for T1 two symbolic doubles in [-1,1] (no identity assumed). Layout::flatten over '
          'Ptr<Cell> hierarchies did not leave symbolic execution in 20 min (recursion through Arc<RwLock>) and is NOT '
          'covered: the claim is about the transform algebra flatten_helper calls. General angles beyond T1 and the '
          'half-unit tolerance sampling in the quantifier have no solver counterpart. Symbolic-offset nesting is limited '
          'to ±8 because float additions with two symbolic operands cost minutes per bit of range.'),
    design='§5 C12, §4.1')
CLAIMS['C13'] = dict(
    text=('Rect::contains over all of i64 (any corner order), Polygon::contains against an exact integer oracle '
          '(cross-product boundary test + half-open crossing rule, no division) for EVERY simple polygon with 3 vertices on '
          'the grid ±3 (thorough: 3 vertices ±4 and ±6, 4 vertices ±2) and 4 vertices on ±1, every query point '
          'of the same grid, repeated consecutive vertices, Manhattan Path::contains for '
          '2-3 (4) points with widths 0..6 (must-contain within half width perpendicular to a segment, must-exclude beyond '
          'half width in Chebyshev distance), and Vec<Point>::bbox / BoundBox::contains for 5 points over i32. Each is one '
          'SAT query over all values in the bound.'),
    note=('Bounds are small because Polygon::contains multiplies 64-bit symbolic integers (a 4-vertex polygon on ±1 '
          'already takes 5 min). "Simple" is the harness precondition (non-adjacent edges disjoint, no fold-back, no '
          'zero-length edge; collinear vertices allowed; a triangle is simple iff non-degenerate). Path corners/ends are '
          'left unconstrained as in the statement; zero-length path segments are outside.'),
    design='§5 C13')

GDS_NOTE = ('Compositional: the end-to-end GdsLibrary::write / from_bytes cannot be executed symbolically (probes in design-probes/), so the '
            'property is decided layer by layer (record codec, element grammar, library header) on the real private functions, plus a '
            'written composition argument (DESIGN §4). Stubs: core::str::from_utf8 -> byte-wise UTF-8 DFA (validated against the real '
            'function on all strings <= 3 bytes at every run); GdsFloat64::encode/decode -> bit identity (the codec is C15); '
            'GdsParser::next -> hands out the harness record list (its contract is checked by c01_q_l2n_next); alloc::fmt::format -> '
            'empty string. READER_BUFSIZE is 64 under cfg(kani) (payloads < 64 bytes). Properties (PROPATTR/PROPVALUE) are NOT covered '
            'at tree level on the reader side (CBMC pointer-model artefact on props.push, DESIGN §4); they are covered at record level '
            'and on the writer side. parse_struct / encode_struct and parse_lib / encode_lib WITH elements do not finish in an hour (the structs hold the '
            'elements behind the GdsElement enum; experiments c0x_x_*lib_*): at library level only the header records and ENDLIB handling of '
            'the empty library are decided.')
CLAIMS['C01'] = dict(
    text=('For each of the 49 record kinds (strings of 0-3 bytes of any well-formed UTF-8 incl. NUL, XY of 0/2/5 values, any dates, reals '
          'in range) the bytes of the real write_record read back through read_record_header + read_record_content to an equal record, '
          'consuming exactly the payload; a string ending in NUL is refused. For each of the seven element kinds and 74 optional-field '
          'masks the record list of the real Encode::encode_<kind> is parsed back by the real parse_<kind> to an equal element; the empty '
          'library (name, version, dates, units) round-trips through encode_lib / parse_lib; the look-ahead iterator next/peek '
          'returns the source records in order and never reads past ENDLIB. Each instance is one SAT query over all payload values; the '
          'quick tier runs 11 fixed instances plus 5 chosen by VERIF_SEED, the thorough tier all ~160.'),
    note=GDS_NOTE, design='§4 C01/C02/C03/C10')
CLAIMS['C02'] = dict(
    text=('Differential against a reference encoder written from the GDSII specification (record numbers, data types, big-endian, NUL '
          'padding, STRANS bits, BNF order): the real write_record produces byte-for-byte the reference bytes for all 49 record kinds, '
          'with an even length field >= 4 equal to the bytes present; the 16-bit length limit is exact (65530-byte string / 16382-value XY '
          'accepted, one more refused); the record list of encode_<kind> for each element kind x optional-field mask (with properties) and '
          'of encode_lib equals the reference flattening and ends with ENDLIB; GdsRecordList collects the same list.'),
    note=GDS_NOTE, design='§4 C01/C02/C03/C10')
CLAIMS['C03'] = dict(
    text=('The reference encoder feeds the real reader: reference bytes of every record kind (followed by tape padding) read back to the '
          'record; odd strings padded with one NUL and even strings unpadded yield exactly their characters; reference record lists of '
          'every element kind x optional-field mask are parsed by the real parse_<kind> to the element; a library-level LIBDIRSIZE / '
          'SRFNAME / LIBSECUR / REFLIBS / FONTS / ATTRTABLE / GENERATIONS / FORMAT record at its BNF position yields Err(Unsupported); a '
          'record after ENDLIB is never requested.'),
    note=GDS_NOTE, design='§4 C01/C02/C03/C10')
CLAIMS['C10'] = dict(
    text=('Absence of panics / overflow / out-of-bounds at the two byte-facing layers of the reader, where every crash found so far lives: '
          'read_record_header on 0-4 arbitrary bytes (accepted => even length >= 4, valid record and data type, payload = length - 4); '
          'read_record_content for every valid record type x ANY data type x payload length in {0,2,4,8,24} (strings and XY also 6,12,16) '
          'x arbitrary payload bytes x arbitrary truncation of the source: no panic, Ok => exactly len bytes consumed and never a '
          'truncated payload, an impossible (type, length) pair is rejected. 279 instances (quick: 5 fixed + 8 by VERIF_SEED).'),
    note=(GDS_NOTE + ' NOT decided: the parser layer on malformed record sequences (early returns that drop builders and property '
          'vectors trip CBMC\'s allocator model: 8 of 10 sampled instances fail with free()/pointer artefacts or run out of memory; kept '
          'as c10_x_p_* experiments), hence also linear-time termination of the parsers and the "never accept a stream without ENDLIB" '
          'clause beyond what C01/C03 show on well-formed streams.'),
    design='§4 C01/C02/C03/C10')
CLAIMS['C07'] = dict(
    text=('Partial: the export-side kernels the statement singles out. label_location lies in the closed shape for rectangles (i32 '
          'corners), two-point Manhattan paths (thorough: three-point straight or L-shaped Manhattan paths); '
          'export_shape turns a rectangle into the closed five-point boundary through its corners with its layer/datatype numbers and keeps '
          'a path open with exactly its points and width, over all of i64 (out-of-range => Err, never truncation); each of the four Units '
          'written by export_lib is mapped back to itself by import_units.'),
    note=('Dropped clauses (all behind std hash containers or Ptr graphs that do not finish): equality of cells/instances/shapes after '
          're-import, net names after re-import, layer/purpose number mapping, polygon export (collect::<Result<Vec>> does not finish), '
          'instance export (Ptr<Cell> read runs out of memory), U/L-shaped polygons (need >= 6 vertices). Exporter/importer objects are '
          'partially initialised under Kani (only the error-context stack is touched by these kernels). chrono/now() is stubbed for '
          'GdsLibrary::new in the units harness.'),
    design='§4 C07')
CLAIMS['C09'] = dict(
    text=('Partial: the placement arithmetic. Placer::resolve_instance_place for a reference instance with symbolic size, location and '
          'reflections, a placed instance with symbolic size and reflections, every side x orthogonal alignment, and separation none / in '
          'primitive pitches / by size of another cell: with the resolved location the placed box touches the reference box on the side at '
          'the separation and is flush on the alignment edge; Instance::boundbox is the outline mirrored about the origin per reflection. '
          'Sizes, locations, separations over the i16 range. Because the reference instance is arbitrary, chains follow link by link.'),
    note=('Dropped: listing-order independence and cyclic-relation errors (the orderer is a HashSet walk), array expansion '
          '(flatten_array_inst does not finish in 15 min), whole Placer::place. The Placer lives in a stack slot with its (never read) '
          'validated stack uninitialised under Kani.'),
    design='§4 (C09), §5')
CLAIMS['C14'] = dict(
    text=('Partial: kernel pairs export∘import of the raw <-> protobuf conversion on symbolic values: Rect (compared as boxes; and '
          'proto->raw->proto gives the equal message), Polygon (3 points; thorough 4), Path (2 points, width; thorough 3 points), Instance (name, target cell, location, reflection, rotation None/90/180/270), Units and text annotations; '
          'Units::Pico => Err; each mandatory sub-message removed in turn => Err, the complete message accepted.'),
    note=('ProtoImporter::import_reference is stubbed to a harness-chosen cell for local references (it wraps a HashMap lookup). Dropped: '
          'dependency-ordered export, reference resolution, per-layer grouping, layer/purpose numbers, abstracts (hash containers). Names '
          'are fixed strings (their content is only cloned). Net names on shapes (export_element / convert_shape) run out of memory and are '
          'kept as c14_x_nets_* experiments only.'),
    design='§4 C14')

CLAIMS['C16'] = dict(
    text=('Partial, and relative to a validated model of rust_decimal: LefImporter::import_dist on every decimal m x 10^-s with |m| <= 2^20 and '
          's = 0, 2 (thorough: 1, 3, 4), and |m| <= 2^8 at s = 5 (thorough 6) where fractions of a raw unit occur, returns m x 10^(4-s) raw units when that is a whole number — independent of trailing zeros — and an error '
          'otherwise, never a rounded value; LefImporter::import_point converts x and y independently, each from its own field (scales 0/0; '
          'thorough 2/3).'),
    note=('rust_decimal\'s 96-bit limb loops do not finish under CBMC, so `&Decimal * Decimal`, Decimal::trunc, Decimal::fract and Ord::cmp are replaced by '
          'exact i128 models on (mantissa, scale) (harness/common/decimal_model.rs); l21v-tablegen compares the models with the real crate on '
          '6.7 million operations inside and beyond the harness bound on every run (it found and fixed one modelling error: a zero operand '
          'yields the canonical zero). Dropped: RECT/POLYGON/PATH shapes and ITERATE (harnesses c16_x_d3_* time out at 15 min), one abstract '
          'per macro, pins/obstructions per layer (hash-map backed Layers), path widths.'),
    design='§4 C16')

NOT_APPLICABLE = {
    'C04': 'no-go after measurement: a CONCRETE 13-token LEF text takes 195 s to parse under Kani (~15 s/token), the lexer on one symbolic 2-byte character does not finish in 20 min, once_cell Lazy statics ICE Kani, f64/Decimal::from_str and char classes each need stubs (DESIGN §5)',
    'C05': 'same code path as C04 plus the writer\'s fmt machinery; no-go (DESIGN §5)',
    'C06': 'every import kernel is gated by std HashMap/HashSet (cell_map, Layers, label buckets, GdsDepOrder); hash containers neither execute under CBMC in 20 min nor can be stubbed (Kani rejects generic-method stubs); the flattening/containment halves are checked under C12/C13',
    'C08': 'Track::cut_or_block / set_net harnesses run out of memory at 10 GB, to_layer_period / ValidMetalLayer harnesses time out at 15 min (Vec edits at computed indices, Ptr<Instance>); harness text kept in harness/incrate/tetris_conv_raw.rs (DESIGN §5)',
    'C11': 'LEF lexer on one symbolic two-byte character does not finish in 20 min; parser per-token cost as C04; no-go (DESIGN §5)',
    'C17': 'all six orderers are entirely a DFS over HashSet::{contains,insert,remove}; a 3-node instance did not leave symbolic execution in 20 min even with the hasher stubbed',
    'C18': 'the property lives in serde_json/serde_yaml/yaml-rust/ryu text emitters and parsers (input-length loops, float printing/parsing)',
    'C19': 'after the stack-slot discipline one kernel (assignments/cuts, 50 s) is decided but outlines (heap vector lengths inside import_outline), instances (Ptr<Cell>) and the missing-sub-message selector run out of memory or time out; too thin to register (DESIGN §5)',
    'C20': 'quantifies over per-process hash seeds / bucket order and separate processes: not an input-output relation a bounded solver query expresses, and the containers involved cannot be executed symbolically',
}

PENDING = {}

# properties whose thorough tier has been run green on this tree (others register the quick command only)
THOROUGH_OK = {'C15', 'C09', 'C14', 'C12', 'C07', 'C10', 'C02', 'C13', 'C03', 'C01', 'C16'}  # for these the thorough tier is the same harness set as the quick tier


def main():
    props = [json.loads(l)['id'] for l in open(os.path.join(VERIF, 'properties.jsonl'))]
    try:
        commits = subprocess.run(['git', '-C', '/repo', 'log', '--format=%h %s', '--grep=^hook:'], stdout=subprocess.PIPE,
                                 text=True).stdout.strip().splitlines()
    except Exception:
        commits = []
    checks = []
    for p in props:
        if p in CLAIMS:
            c = CLAIMS[p]
            entry = dict(
                property_id=p,
                quick_cmd=f'bin/check {p} --tier quick',
                evidence_file=f'/verif/evidence/{p}.json',
                replay_cmd_template=f'bin/check {p} --replay {{path}}',
                engine='kani-cbmc',
                level_claimed=dict(category='model_checking', text=c['text'], design_ref='DESIGN.md ' + c['design']),
                level_note=c['note'],
                technique=TECH,
            )
            if p in THOROUGH_OK:
                entry['thorough_cmd'] = f'bin/check {p} --tier thorough'
            checks.append(entry)
    na = []
    for p in props:
        if p in CLAIMS:
            continue
        if p in NOT_APPLICABLE:
            na.append(dict(property_id=p, reason=NOT_APPLICABLE[p]))
        else:
            na.append(dict(property_id=p, reason=PENDING.get(p, 'no check registered yet in this tree: harnesses for this property are still being built (DESIGN §5); nothing is claimed until they run green')))
    m = dict(
        version=1,
        setup_cmd='bin/check --setup',
        hooks=dict(
            guard='cfg(any(kani, l21v_verif))',
            enable=('Kani sets cfg(kani) itself (cargo kani -p <crate> with L21V_HARNESS_DIR=/verif/harness/incrate, '
                    'L21V_GEN_DIR=$L21V_WORK/gen); the native replayer is built with RUSTFLAGS="--cfg l21v_verif". '
                    'An ordinary cargo build/test sees neither cfg.'),
            baseline_off_cmd='bin/baseline',
            source_commits=[c.split()[0] for c in commits],
            add_only=False,
        ),
        engines=[dict(name='kani-cbmc', path='/verif/bin/check', serves_properties=sorted(CLAIMS),
                      kind_free_text='Kani 0.68 -> CBMC 6.11 (CaDiCaL) bounded model checking of the real crates; native replayer l21v-replay')],
        checks=checks,
        not_applicable=na,
        notes=('Build products live in $L21V_WORK (default /var/tmp/l21v-work). exit 0 = all harnesses of the tier proved; '
               'exit 1 = VIOLATION (replayed natively); exit 2 = not decided (timeout/OOM/unwinding/vacuity/non-replaying cex).'),
    )
    json.dump(m, open(os.path.join(VERIF, 'MANIFEST.json'), 'w'), indent=1)
    print(f'MANIFEST.json: {len(checks)} checks, {len(na)} not_applicable')


if __name__ == '__main__':
    main()
