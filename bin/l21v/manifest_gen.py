#!/usr/bin/env python3
"""Regenerates /verif/MANIFEST.json from the table below (keeps the file valid and in one place)."""
import json, os, subprocess

VERIF = os.path.dirname(os.path.dirname(os.path.dirname(os.path.abspath(__file__))))

TECH = ('bounded symbolic model checking of the compiled Rust code: Kani 0.68 proof harnesses over kani::any() inputs, '
        'unwinding assertions on, decided by CBMC 6.11 / CaDiCaL; counterexamples replayed natively (dev + release)')

# property -> dict(text, note, design)
CLAIMS = {
    'C15': dict(
        text=('All four clauses (round trip, exact normalised encoding, correctly rounded decode, re-encode of <=53-bit '
              'reals) are decided by the SAT solver over the WHOLE range the property names (every finite double with '
              '16^-64 <= |x| < 16^63, +-0, every normalised 8-byte real) on the real GdsFloat64::encode/decode compiled by '
              'Kani; no sampling. Bounded only in the sense that libm is a contract model, see note.'),
        note=('f64::powi and f64::log2 are environment (libm/compiler-rt) and are replaced by contract models: powi exact on '
              'bases 2 and 16, log2 exact at powers of two and in the measured zones next to them, any value strictly '
              'between e and e+1 elsewhere; the zone tables are regenerated from this platform\'s libm and validated on '
              'every run (l21v-tablegen). Kani models the dev profile (overflow checks on). -0.0 is accepted as 0.0.'),
        design='§5 C15, §4.1'),
}

CLAIMS['C12'] = dict(
    text=('Decided by the solver on the real Transform::from_instance / cascade / rotate / reflect_vert / translate / '
          'Point::transform: (T1) from_instance equals translate∘rotate∘reflect entry by entry for ANY angle (sine and '
          'cosine are two unconstrained symbolic doubles) and every i32 location; (T2) for each of the ten right-angle '
          'orientations the image of a point is the exact integer map — every i32 point at location 0, all points and '
          'locations on the grid ±128, and (thorough) grid points with every i32 location; (T3) chains of depth 2..4 of '
          'right-angle placements compose to the exact integer composition for every i32 point (orientations and offsets '
          'concrete per instance, 52 instances incl. extreme offsets; quick tier runs a VERIF_SEED-chosen 6) and, thorough, '
          'depth 2 with symbolic offsets on the grid ±8. Bounded model checking, not a proof for all inputs.'),
    note=('sin/cos are environment: for right angles a table keyed on the bit pattern of to_radians(k*90) filled from this '
          'platform\'s libm on every run; for T1 two symbolic doubles in [-1,1] (no identity assumed). Layout::flatten over '
          'Ptr<Cell> hierarchies did not leave symbolic execution in 20 min (recursion through Arc<RwLock>) and is NOT '
          'covered: the claim is about the transform algebra flatten_helper calls. General angles beyond T1 and the '
          'half-unit tolerance sampling in the quantifier have no solver counterpart. Symbolic-offset nesting is limited '
          'to ±8 because float additions with two symbolic operands cost minutes per bit of range.'),
    design='§5 C12, §4.1')
CLAIMS['C13'] = dict(
    text=('Rect::contains over all of i64 (any corner order), Polygon::contains against an exact integer oracle '
          '(cross-product boundary test + half-open crossing rule, no division) for EVERY simple polygon with 3 vertices on '
          'the grid ±3 (thorough: ±6, 4 vertices ±4, 5 vertices ±3, 6 vertices ±2) and 4 vertices on ±1, every query point '
          'of the same grid, repeated consecutive vertices, 2^20-sized coordinates (thorough), Manhattan Path::contains for '
          '2-3 (4) points with widths 0..6 (must-contain within half width perpendicular to a segment, must-exclude beyond '
          'half width in Chebyshev distance), and Vec<Point>::bbox / BoundBox::contains for 5 points over i32. Each is one '
          'SAT query over all values in the bound.'),
    note=('Bounds are small because Polygon::contains multiplies 64-bit symbolic integers (a 4-vertex polygon on ±1 '
          'already takes 5 min). "Simple" is the harness precondition (non-adjacent edges disjoint, no fold-back, no '
          'zero-length edge; collinear vertices allowed; a triangle is simple iff non-degenerate). Path corners/ends are '
          'left unconstrained as in the statement; zero-length path segments are outside.'),
    design='§5 C13')

NOT_APPLICABLE = {
    'C06': 'every import kernel is gated by std HashMap/HashSet (cell_map, Layers, label buckets, GdsDepOrder); hash containers neither execute under CBMC in 20 min nor can be stubbed (Kani rejects generic-method stubs) — DESIGN §6; the flattening/containment halves are checked under C12/C13',
    'C17': 'all six orderers are entirely a DFS over HashSet::{contains,insert,remove}; a 3-node instance did not leave symbolic execution in 20 min even with the hasher stubbed; no code left once the set is removed — DESIGN §6',
    'C18': 'the property lives in serde_json/serde_yaml/yaml-rust/ryu text emitters and parsers (input-length loops, float printing/parsing); from_utf8 on 4 bytes and f64::from_str on 3 bytes each exceed 15-20 min under CBMC; stubbing them removes the subject — DESIGN §6',
    'C20': 'quantifies over per-process hash seeds / bucket order and separate processes: not an input-output relation a bounded solver query expresses, and the containers involved cannot be executed symbolically — DESIGN §6',
}

PENDING = {}


def main():
    props = [json.loads(l)['id'] for l in open(os.path.join(VERIF, 'properties.jsonl'))]
    try:
        commits = subprocess.run(['git', '-C', '/repo', 'log', '--format=%h %s', '--grep=^hook:'], stdout=subprocess.PIPE,
                                 text=True).stdout.strip().splitlines()
    except Exception:
        commits = []
    checks = []
    for p in props:
        if p in CLAIMS:
            c = CLAIMS[p]
            checks.append(dict(
                property_id=p,
                quick_cmd=f'bin/check {p} --tier quick',
                thorough_cmd=f'bin/check {p} --tier thorough',
                evidence_file=f'/verif/evidence/{p}.json',
                replay_cmd_template=f'bin/check {p} --replay {{path}}',
                engine='kani-cbmc',
                level_claimed=dict(category='model_checking', text=c['text'], design_ref='DESIGN.md ' + c['design']),
                level_note=c['note'],
                technique=TECH,
            ))
    na = []
    for p in props:
        if p in CLAIMS:
            continue
        if p in NOT_APPLICABLE:
            na.append(dict(property_id=p, reason=NOT_APPLICABLE[p]))
        else:
            na.append(dict(property_id=p, reason=PENDING.get(p, 'no check registered yet in this tree: harnesses for this property are still being built (DESIGN §5); nothing is claimed until they run green')))
    m = dict(
        version=1,
        setup_cmd='bin/check --setup',
        hooks=dict(
            guard='cfg(any(kani, l21v_verif))',
            enable=('Kani sets cfg(kani) itself (cargo kani -p <crate> with L21V_HARNESS_DIR=/verif/harness/incrate, '
                    'L21V_GEN_DIR=$L21V_WORK/gen); the native replayer is built with RUSTFLAGS="--cfg l21v_verif". '
                    'An ordinary cargo build/test sees neither cfg.'),
            baseline_off_cmd='bin/baseline',
            source_commits=[c.split()[0] for c in commits],
            add_only=True,
        ),
        engines=[dict(name='kani-cbmc', path='/verif/bin/check', serves_properties=sorted(CLAIMS),
                      kind_free_text='Kani 0.68 -> CBMC 6.11 (CaDiCaL) bounded model checking of the real crates; native replayer l21v-replay')],
        checks=checks,
        not_applicable=na,
        notes=('Build products live in $L21V_WORK (default /var/tmp/l21v-work). exit 0 = all harnesses of the tier proved; '
               'exit 1 = VIOLATION (replayed natively); exit 2 = not decided (timeout/OOM/unwinding/vacuity/non-replaying cex).'),
    )
    json.dump(m, open(os.path.join(VERIF, 'MANIFEST.json'), 'w'), indent=1)
    print(f'MANIFEST.json: {len(checks)} checks, {len(na)} not_applicable')


if __name__ == '__main__':
    main()
