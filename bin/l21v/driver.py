"""l21v driver library. See /verif/DESIGN.md §3."""
import concurrent.futures as cf
import glob
import hashlib
import json
import os
import re
import shutil
import subprocess
import sys
import time

VERIF = os.path.dirname(os.path.dirname(os.path.dirname(os.path.abspath(__file__))))
REPO = os.environ.get('L21V_REPO', '/repo')
WORK = os.environ.get('L21V_WORK', '/var/tmp/l21v-work')
HARNESS = os.path.join(VERIF, 'harness')
GEN = os.path.join(WORK, 'gen')
LOGS = os.path.join(WORK, 'logs')
KDIR = WORK  # where the kani target dirs of this run live


def use_workspace(tag):
    """isolate concurrent checks: generated files, logs and Kani target dirs are per property"""
    global GEN, LOGS, KDIR
    KDIR = os.path.join(WORK, tag)
    GEN = os.path.join(KDIR, 'gen')
    LOGS = os.path.join(KDIR, 'logs')
NCPU = os.cpu_count() or 4

# ---- where harnesses live --------------------------------------------------------------
# unit -> (cargo cwd, package, {harness file: kani module path of its `harnesses!` block})
def units():
    u = {}
    ext_files = {}
    for f in sorted(glob.glob(os.path.join(HARNESS, 'ext', 'src', 'c*.rs'))):
        stem = os.path.basename(f)[:-3]
        ext_files[f] = f'{stem}::k'
    u['ext'] = dict(cwd=os.path.join(HARNESS, 'ext'), pkg=None, files=ext_files)
    inc = os.path.join(HARNESS, 'incrate')
    table = {
        'gds21': {'gds21_read.rs': 'read::l21v::k', 'gds21_write.rs': 'write::l21v::k'},
        'lef21': {'lef21_read.rs': 'read::l21v::k', 'lef21_write.rs': 'write::l21v::k'},
        'layout21raw': {'raw_gds.rs': 'gds::l21v::k', 'raw_lef.rs': 'lef::l21v::k',
                        'raw_proto.rs': 'proto::l21v::k'},
        'layout21tetris': {'tetris_placer.rs': 'placer::l21v::k', 'tetris_conv_raw.rs': 'conv::raw::l21v::k',
                           'tetris_conv_proto.rs': 'conv::proto::l21v::k'},
    }
    for crate, files in table.items():
        fm = {os.path.join(inc, f): m for f, m in files.items() if os.path.exists(os.path.join(inc, f))}
        if fm:
            u[crate] = dict(cwd=REPO, pkg=crate, files=fm)
    return u


HARNESS_BLOCK = re.compile(r'harnesses!\s*\{\s*(\w+)\s*,\s*"([\w.]+)"\s*;(.*?)\n\}', re.S)


def discover():
    """-> list of dict(name, unit, full, file, attrs, encodes, stubs)"""
    out = []
    for unit, u in units().items():
        for f, modpath in u['files'].items():
            src = open(f).read()
            enc = re.findall(r'^// encodes: (.*)$', src, re.M)
            stubs = re.findall(r'^// stubs: (.*)$', src, re.M)
            bounds = dict(re.findall(r'^// bound (\w+): (.*)$', src, re.M))
            for m in HARNESS_BLOCK.finditer(src):
                sel = m.group(2)
                body = re.sub(r'//[^\n]*', '', m.group(3))
                # split entries on ';' keeping attribute text
                for ent in body.split(';'):
                    ent = ent.strip()
                    if not ent:
                        continue
                    attrs = re.findall(r'#\[((?:[^\[\]]|\[[^\]]*\])*)\]', ent)
                    name = re.sub(r'#\[((?:[^\[\]]|\[[^\]]*\])*)\]', '', ent).strip()
                    if not re.match(r'^\w+$', name):
                        raise SystemExit(f'cannot parse harness entry in {f}: {ent!r}')
                    out.append(dict(name=name, unit=unit, full=f'{modpath}::{name}', file=f, attrs=attrs, sel=sel,
                                    encodes=enc, stubs=stubs, bounds=bounds.get(name, bounds.get('*', ''))))
    names = [h['name'] for h in out]
    dup = {n for n in names if names.count(n) > 1}
    if dup:
        raise SystemExit(f'duplicate harness names: {dup}')
    return out


def prop_of(name):
    return name[:3].upper()


def tier_of(name):
    return {'q': 'quick', 't': 'thorough', 's': 'sampled', 'x': 'experimental'}[name[4]]


# ---- environment / setup --------------------------------------------------------------
def env():
    e = dict(os.environ)
    e['CARGO_NET_OFFLINE'] = 'true'
    e['L21V_GEN_DIR'] = GEN
    e['L21V_HARNESS_DIR'] = os.path.join(HARNESS, 'incrate')
    e.pop('RUSTFLAGS', None)
    return e


def sh(cmd, cwd=None, extra_env=None, timeout=None, log=None):
    e = env()
    if extra_env:
        e.update(extra_env)
    t0 = time.time()
    try:
        p = subprocess.run(cmd, cwd=cwd, env=e, stdout=subprocess.PIPE, stderr=subprocess.STDOUT, timeout=timeout,
                           text=True, errors='replace')
        out, rc = p.stdout, p.returncode
    except subprocess.TimeoutExpired as ex:
        out = (ex.stdout or '') if isinstance(ex.stdout, str) else (ex.stdout or b'').decode(errors='replace')
        rc = 124
    if log:
        with open(log, 'w') as f:
            f.write(out)
    return rc, out, time.time() - t0


def ensure_dirs():
    for d in (WORK, KDIR, GEN, LOGS):
        os.makedirs(d, exist_ok=True)


def setup_native(verbose=True):
    """build the native replayer (dev + release) and regenerate the libm tables from the platform"""
    ensure_dirs()
    import fcntl
    lock = open(os.path.join(WORK, 'native.lock'), 'w')
    fcntl.flock(lock, fcntl.LOCK_EX)
    try:
        return _setup_native(verbose)
    finally:
        fcntl.flock(lock, fcntl.LOCK_UN)


def _setup_native(verbose=True):
    ext = os.path.join(HARNESS, 'ext')
    shutil.copyfile(os.path.join(REPO, 'Cargo.lock'), os.path.join(ext, 'Cargo.lock'))
    res = {}
    for prof, flag in (('debug', []), ('release', ['--release'])):
        rc, out, dt = sh(['cargo', 'build', '--bins', '--target-dir', os.path.join(WORK, 'native')] + flag, cwd=ext,
                         extra_env={'RUSTFLAGS': '--cfg l21v_verif'}, log=os.path.join(LOGS, f'native-{prof}.log'))
        res[prof] = (rc, dt)
        if rc != 0:
            print(f'native build ({prof}) failed, see {LOGS}/native-{prof}.log', file=sys.stderr)
            print(out[-3000:], file=sys.stderr)
            return False
    rc, out, dt = sh([os.path.join(WORK, 'native', 'debug', 'l21v-tablegen'), GEN])
    if verbose:
        print(f'[setup] native build dev {res["debug"][1]:.0f}s release {res["release"][1]:.0f}s; {out.strip()}')
    if rc != 0:
        print('tablegen: platform libm does not satisfy the modelling assumptions:\n' + out, file=sys.stderr)
        return False
    return True


def kani_base(unit, u):
    cmd = ['cargo', 'kani', '-Z', 'stubbing', '--target-dir', os.path.join(KDIR, f'kani-{unit}')]
    if u['pkg']:
        cmd += ['-p', u['pkg']]
    return cmd


def write_selection(all_h, selected):
    """the #[kani::proof] wrappers of the harnesses selected for this run, one file per harness source file"""
    names = {h['name'] for h in selected}
    files = {}
    for h in all_h:
        files.setdefault(h['sel'], [])
        if h['name'] in names:
            attrs = ''.join(f'#[{a}]\n' for a in h['attrs'])
            files[h['sel']].append(f'#[kani::proof]\n{attrs}pub fn {h["name"]}() {{\n    let mut s = KaniSrc;\n    super::{h["name"]}(&mut s);\n}}\n')
    os.makedirs(GEN, exist_ok=True)
    for f, items in files.items():
        txt = '// generated by the l21v driver for this run\n' + '\n'.join(items)
        path = os.path.join(GEN, f)
        if not os.path.exists(path) or open(path).read() != txt:
            open(path, 'w').write(txt)


def kani_build(unit, u):
    """compile the crate + the selected harnesses once (no verification) so per-harness runs only run CBMC"""
    tdir = os.path.join(KDIR, f'kani-{unit}')
    base = os.path.join(WORK, 'base', f'kani-{unit}')
    if not os.path.exists(tdir) and os.path.exists(base) and KDIR != os.path.join(WORK, 'base'):
        # seed from the dependency cache built by --setup (saves ~40 s of compiling serde & co)
        subprocess.run(['cp', '-a', base, tdir])
    if unit == 'ext':
        shutil.copyfile(os.path.join(REPO, 'Cargo.lock'), os.path.join(u['cwd'], 'Cargo.lock'))
    cmd = kani_base(unit, u) + ['--only-codegen']
    rc, out, dt = sh(cmd, cwd=u['cwd'], log=os.path.join(LOGS, f'kani-build-{unit}.log'), timeout=1800)
    return rc, out, dt


# ---- running and parsing one harness ----------------------------------------------------
CHECK_RE = re.compile(r'^Check (\d+): (.+)\n\s+- Status: (\w+)\n\s+- Description: "(.*)"\n(?:\s+- Location: (.*)\n)?', re.M)


def parse_kani(out):
    r = dict(checks=[], verdict=None, time=None, stubs=[], errors=[])
    for m in CHECK_RE.finditer(out):
        r['checks'].append(dict(id=m.group(2), status=m.group(3), desc=m.group(4), loc=(m.group(5) or '').strip()))
    m = re.search(r'VERIFICATION:- (\w+)', out)
    r['verdict'] = m.group(1) if m else None
    m = re.search(r'Verification Time: ([\d.]+)s', out)
    r['time'] = float(m.group(1)) if m else None
    r['stubs'] = re.findall(r'^\s+- Stub: (.*)$', out, re.M)
    for pat in (r'Status: ERROR', r'CBMC failed', r'out of memory', r'std::bad_alloc', r'internal compiler error',
                r'error: .*', r'Killed', r'SIGKILL', r'SIGSEGV', r'CBMC timed out'):
        mm = re.search(pat, out)
        if mm:
            r['errors'].append(mm.group(0)[:200])
    m = re.search(r'Runtime Symex: ([\d.]+)s', out)
    r['symex_s'] = float(m.group(1)) if m else None
    m = re.search(r'Runtime Solver: ([\d.]+)s', out)
    r['solver_s'] = float(m.group(1)) if m else None
    m = re.search(r'(\d+) variables, (\d+) clauses', out)
    r['vars_clauses'] = [int(m.group(1)), int(m.group(2))] if m else None
    return r


def classify(pr, rc):
    """-> (status, detail) with status in proved | counterexample | undecided"""
    checks = pr['checks']
    if rc == 124:
        return 'undecided', 'timeout'
    if not checks or pr['verdict'] is None:
        return 'undecided', 'no result (' + '; '.join(pr['errors'][:2]) + f') rc={rc}'
    unwind_fail = [c for c in checks if 'unwinding assertion' in c['desc'] and c['status'] == 'FAILURE']
    if unwind_fail:
        return 'undecided', f'unwinding assertion failed: {unwind_fail[0]["id"]}'
    unsupported = [c for c in checks if c['status'] == 'FAILURE' and 'is not currently supported by Kani' in c['desc']]
    if unsupported:
        return 'undecided', f'unsupported construct reached: {unsupported[0]["desc"][:120]}'
    fails = [c for c in checks if c['status'] == 'FAILURE']
    if fails:
        return 'counterexample', '; '.join(sorted({c['desc'] for c in fails}))[:400]
    undet = [c for c in checks if c['status'] == 'UNDETERMINED']
    if undet:
        return 'undecided', f'{len(undet)} checks undetermined'
    covers = [c for c in checks if c['status'] in ('SATISFIED', 'UNSATISFIABLE', 'UNREACHABLE') and '.cover.' in c['id']
              and not IS_CEX(c['desc'])]
    bad = [c for c in covers if c['status'] != 'SATISFIED']
    if bad:
        return 'undecided', 'vacuity witness not reachable: ' + '; '.join(c['desc'] for c in bad)[:300]
    if pr['verdict'] == 'SUCCESSFUL':
        return 'proved', ''
    return 'undecided', f'verdict {pr["verdict"]} rc={rc} ' + '; '.join(pr['errors'][:2])


def run_harness(h, u, tmo, mem_gb, playback=False):
    cmd = kani_base(h['unit'], u) + ['--harness', h['full'], '--exact']
    extra = list(HARNESS_ARGS.get(h['name'], []))
    for pat, args in HARNESS_ARGS_RE:
        if re.search(pat, h['name']):
            extra += args
    cmd += extra
    if playback:
        cmd += ['-Z', 'concrete-playback', '--concrete-playback=print']
    log = os.path.join(LOGS, h['name'] + ('.playback' if playback else '') + '.log')
    wrapped = ['bash', '-c', f'ulimit -v {int(mem_gb * 1024 * 1024)}; exec timeout -k 10 {int(tmo)} "$@"', '--'] + cmd
    rc, out, dt = sh(wrapped, cwd=u['cwd'], log=log, timeout=tmo + 60)
    return rc, out, dt, log


# extra cargo-kani arguments per harness-name pattern
HARNESS_ARGS_RE = [
    # C10 P-level asserts absence of panics (Rust-level checks); CBMC's raw-pointer checks inside std are switched off there
    # because `Vec::new()` + push inside the parsers trips a pointer-model artefact (DESIGN §8)
    (r'^c10_._p_', ['-Z', 'unstable-options', '--no-memory-safety-checks']),
]
HARNESS_ARGS = {}


def IS_CEX(desc):
    """cover goals that are the negation of a vcheck! assertion carry the assertion's id (cNN.…)"""
    return re.match(r'^"?c\d\d[. ]', desc) is not None


PLAYBACK_RE = re.compile(
    r'/// Check for `(\w+)`: "(.*?)"\n.*?let concrete_vals: Vec<Vec<u8>> = vec!\[(.*?)\n    \];', re.S)


def parse_playback(out):
    res = []
    # a harness without symbolic inputs still fails on a concrete path: replay with no values
    if 'VERIFICATION:- FAILED' in out and 'concrete_vals' not in out:
        res.append(dict(kind='assertion', desc='(no symbolic inputs)', vals=[]))
    for m in PLAYBACK_RE.finditer(out):
        kind, desc, body = m.group(1), m.group(2), m.group(3)
        vals = [[int(x) for x in re.findall(r'\d+', v)] for v in re.findall(r'vec!\[(.*?)\]', body)]
        res.append(dict(kind=kind, desc=desc.strip('"'), vals=vals))
    return res


def native_replay(name, vals_path):
    outs = []
    for prof in ('debug', 'release'):
        exe = os.path.join(WORK, 'native', prof, 'l21v-replay')
        try:
            p = subprocess.run(['bash', '-c', 'ulimit -s 8192; exec timeout -k 2 20 "$@"', '--', exe, name, vals_path],
                               stdout=subprocess.PIPE, stderr=subprocess.PIPE, text=True, errors='replace', env=env())
        except Exception as ex:  # pragma: no cover
            outs.append(dict(profile=prof, verdict='tool-error', error=str(ex)))
            continue
        line = [l for l in p.stdout.splitlines() if l.startswith('{')]
        if p.returncode == 124 or p.returncode == 137:
            outs.append(dict(profile=prof, verdict='hang', failed=[], panic=None, tags=[], notes={}))
        elif p.returncode != 0 and not line:
            # abort / stack overflow / signal
            outs.append(dict(profile=prof, verdict='crash', failed=[], panic=f'exit {p.returncode}: {p.stderr[-300:]}',
                             tags=[], notes={}))
        else:
            try:
                d = json.loads(line[-1])
                d['profile'] = prof
                outs.append(d)
            except Exception as ex:
                outs.append(dict(profile=prof, verdict='tool-error', error=f'{ex}: {p.stdout[-300:]}'))
    return outs


REPRO = ('check-failed', 'panic', 'hang', 'crash')


# ---- known findings -----------------------------------------------------------------------
def load_known():
    p = os.path.join(VERIF, 'known_findings.json')
    if not os.path.exists(p):
        return []
    return json.load(open(p)).get('findings', [])


def match_known(known, prop, harness, replay):
    """a counterexample is 'listed' only if property, harness family, failing check and input class all match an
    OPEN entry; fixed entries suppress nothing"""
    what = list(replay.get('failed') or [])
    if replay.get('panic'):
        what.append('panic: ' + replay['panic'])
    if replay.get('verdict') in ('hang', 'crash'):
        what.append(replay['verdict'])
    tags = set(replay.get('tags') or [])
    for k in known:
        if k.get('status') != 'open' or k.get('property') != prop:
            continue
        if not re.search(k.get('harness', '.*'), harness):
            continue
        if not all(any(re.search(k['check'], w) for k in [k]) for w in what):
            continue
        if not set(k.get('tags_all', [])) <= tags:
            continue
        if set(k.get('tags_none', [])) & tags:
            continue
        return k
    return None


# ---- per-property plan ----------------------------------------------------------------------
TIMEOUTS = {'quick': 900, 'thorough': 3600}
MEM_GB = {'quick': 10, 'thorough': 10}
PROP_MEM_GB = {'C09': 20}
SAMPLE_K = {'C12': 6, 'C01': 5, 'C02': 6, 'C03': 5, 'C10': 8}  # how many `s`-tier (enumerated instance) harnesses the quick tier runs (default 12), chosen by VERIF_SEED
PROP_BUDGET = {'quick': 900, 'thorough': 3 * 3600}


def select(all_h, prop, tier, seed, only=None):
    hs = [h for h in all_h if prop_of(h['name']) == prop]
    if only:
        return [h for h in hs if re.search(only, h['name'])]
    # 'x' harnesses are experiments that do not (yet) finish inside the budgets; they run only with --only
    hs = [h for h in hs if tier_of(h['name']) != 'experimental']
    if tier == 'thorough':
        return hs
    q = [h for h in hs if tier_of(h['name']) == 'quick']
    s = sorted([h for h in hs if tier_of(h['name']) == 'sampled'], key=lambda h: h['name'])
    if s:
        import random
        rnd = random.Random(seed)
        k = min(SAMPLE_K.get(prop, 12), len(s))
        q += rnd.sample(s, k)
    return q


def check_property(prop, tier, seed, only=None, jobs=None):
    t0 = time.time()
    use_workspace(prop)
    ensure_dirs()
    all_h = discover()
    hs = select(all_h, prop, tier, seed, only)
    if not hs:
        print(f'no harnesses for {prop} in tier {tier}', file=sys.stderr)
        return 2
    if not setup_native(verbose=True):
        write_evidence(prop, tier, seed, [], t0, note='setup failed')
        return 2
    us = units()
    need_units = sorted({h['unit'] for h in hs})
    build_info = {}
    write_selection(all_h, hs)
    for unit in need_units:
        rc, out, dt = kani_build(unit, us[unit])
        build_info[unit] = dict(rc=rc, s=round(dt, 1))
        print(f'[build] kani {unit}: rc={rc} {dt:.0f}s')
        if rc != 0:
            print(out[-4000:], file=sys.stderr)
            print(f'INCONCLUSIVE property={prop} reason=kani-build-failed unit={unit}')
            write_evidence(prop, tier, seed, [], t0, note=f'kani build failed for {unit}')
            return 2
    jobs = jobs or max(1, min(len(hs), NCPU - 2 if tier == 'quick' else 6))
    tmo = int(os.environ.get('L21V_TIMEOUT', TIMEOUTS[tier]))
    mem = int(os.environ.get('L21V_MEM_GB', PROP_MEM_GB.get(prop, MEM_GB[tier])))
    if tier == 'thorough':
        # memory-bound box: 62 GB, keep jobs*mem below ~56 GB
        jobs = min(jobs, max(1, 56 // mem))
    results = []
    known = load_known()

    def work(h):
        rc, out, dt, log = run_harness(h, us[h['unit']], tmo, mem)
        pr = parse_kani(out)
        status, detail = classify(pr, rc)
        r = dict(h=h, status=status, detail=detail, wall=round(dt, 1), pr=pr, log=log, cex=[])
        if status == 'counterexample':
            # extracting the trace needs noticeably more memory and time than the verdict did
            rc2, out2, dt2, log2 = run_harness(h, us[h['unit']], tmo * 2, 48, playback=True)  # kani-driver parses the whole JSON trace in memory
            r['wall'] += round(dt2, 1)
            pbs = parse_playback(out2)
            fail_descs = {c['desc'] for c in pr['checks'] if c['status'] == 'FAILURE'}
            # Kani prints one playback test per failed check / satisfied cover but merges tests whose values are
            # identical, so the label is not reliable: replay EVERY distinct value set natively and keep those on
            # which the real build misbehaves.
            seen_vals = set()
            for pb in pbs:
                key = json.dumps(pb['vals'])
                if key in seen_vals:
                    continue
                seen_vals.add(key)
                hid = hashlib.sha1(key.encode()).hexdigest()[:10]
                d = os.path.join(VERIF, 'replays', prop)
                os.makedirs(d, exist_ok=True)
                path = os.path.join(d, f'{h["name"]}-{hid}.json')
                rep = dict(property=prop, harness=h['name'], kani_check=pb['desc'].strip('"'), kani_kind=pb['kind'], vals=pb['vals'])
                json.dump(rep, open(path, 'w'))
                nat = native_replay(h['name'], path)
                rep['native'] = nat
                json.dump(rep, open(path, 'w'), indent=1)
                if any(n.get('verdict') in REPRO for n in nat):
                    r['cex'].append(dict(path=path, kani_check=rep['kani_check'], native=nat))
                else:
                    r.setdefault('nonrepro', []).append(dict(path=path, kani_check=rep['kani_check'], native=nat))
                    if pb['kind'] == 'cover' and not IS_CEX(pb['desc']):
                        os.remove(path)
            if not r['cex']:
                r['status'] = 'undecided'
                r['detail'] = ('counterexample-did-not-replay (%d value sets tried natively): ' % len(seen_vals)) + detail
        return r

    print(f'[run] {prop} tier={tier} seed={seed}: {len(hs)} harnesses, {jobs} parallel, {tmo}s/{mem}GB each')
    with cf.ThreadPoolExecutor(max_workers=jobs) as ex:
        futs = {ex.submit(work, h): h for h in hs}
        for f in cf.as_completed(futs):
            r = f.result()
            results.append(r)
            print(f'  {r["h"]["name"]:48s} {r["status"]:14s} {r["wall"]:7.1f}s  {r["detail"][:110]}')
            sys.stdout.flush()
    results.sort(key=lambda r: r['h']['name'])

    # ---- verdict
    violations, known_hits, inconclusive = [], [], []
    for r in results:
        if r['status'] == 'undecided':
            inconclusive.append((r['h']['name'], r['detail']))
        elif r['status'] == 'counterexample':
            any_repro = False
            for c in r['cex']:
                repro = [n for n in c['native'] if n.get('verdict') in REPRO]
                if not repro:
                    continue
                any_repro = True
                # dedupe on what the real code did
                k = match_known(known, prop, r['h']['name'], repro[0])
                if k:
                    known_hits.append((k, c))
                else:
                    violations.append((r['h']['name'], c, repro[0]))
            if not any_repro:
                inconclusive.append((r['h']['name'], 'counterexample-did-not-replay: ' + r['detail']))
    seen = set()
    for k, c in known_hits:
        if k['id'] in seen:
            continue
        seen.add(k['id'])
        print(f'KNOWN-FINDING: property={prop} {k["id"]}: {k["what"]}')
    for name, c, nat in violations:
        what = (nat.get('failed') or [nat.get('panic') or nat.get('verdict')])[0]
        print(f'VIOLATION property={prop} replay={c["path"]}  harness={name} check="{what}" '
              f'profile={nat.get("profile")} inputs={json.dumps(nat.get("notes", {}))[:300]}')
    for name, why in inconclusive:
        print(f'INCONCLUSIVE property={prop} harness={name} reason={why[:300]}')
    write_evidence(prop, tier, seed, results, t0, build_info=build_info, violations=violations, known_hits=known_hits,
                   inconclusive=inconclusive)
    if violations:
        return 1
    if inconclusive:
        return 2
    print(f'OK property={prop} tier={tier}: {len(results)} harnesses proved'
          + (f' ({len(seen)} known findings)' if seen else '') + f' in {time.time() - t0:.0f}s')
    return 0


def tool_versions():
    v = {}
    for k, cmd in (('kani', ['cargo', 'kani', '--version']), ('cbmc', ['cbmc', '--version'])):
        try:
            v[k] = subprocess.run(cmd, stdout=subprocess.PIPE, stderr=subprocess.STDOUT, text=True, env=env()).stdout.strip().splitlines()[-1]
        except Exception:
            v[k] = 'unknown'
    return v


def repo_state():
    try:
        head = subprocess.run(['git', '-C', REPO, 'rev-parse', 'HEAD'], stdout=subprocess.PIPE, text=True).stdout.strip()
        dirty = subprocess.run(['git', '-C', REPO, 'status', '--porcelain', '--untracked-files=no'], stdout=subprocess.PIPE, text=True).stdout.strip()
        return dict(head=head, dirty_files=len(dirty.splitlines()))
    except Exception:
        return {}


def write_evidence(prop, tier, seed, results, t0, note=None, build_info=None, violations=(), known_hits=(), inconclusive=()):
    os.makedirs(os.path.join(VERIF, 'evidence'), exist_ok=True)
    decided_checks = 0
    nontrivial = set()
    samples, functions, stubs, bounds = [], set(), set(), {}
    solver_s = 0.0
    for r in results:
        pr = r['pr']
        h = r['h']
        for c in pr['checks']:
            if c['status'] in ('SUCCESS', 'FAILURE', 'SATISFIED', 'UNSATISFIABLE'):
                decided_checks += 1
            # non-trivial: a harness-level property assertion (vcheck id) that was reachable and decided, or a
            # satisfied cover witness; automatically generated overflow/bounds checks are not counted here
            if c['status'] in ('SUCCESS', 'FAILURE') and re.match(r'^"?c\d\d[. ]', c['desc']):
                nontrivial.add((h['name'], c['desc']))
            if c['status'] == 'SATISFIED' and not IS_CEX(c['desc']):
                nontrivial.add((h['name'], 'cover:' + c['desc']))
        solver_s += pr.get('time') or 0.0
        for e in h['encodes']:
            functions.update(x.strip() for x in e.split(','))
        for e in h['stubs']:
            stubs.add(e.strip())
        stubs.update(pr.get('stubs') or [])
        if h['bounds']:
            bounds[h['name']] = h['bounds']
        s = dict(harness=h['full'], unit=h['unit'], verdict=r['status'], detail=r['detail'][:300], wall_s=r['wall'],
                 cbmc_s=pr.get('time'), checks=len(pr['checks']),
                 failed_checks=sorted({c['desc'] for c in pr['checks'] if c['status'] == 'FAILURE'})[:6],
                 covers_satisfied=len([c for c in pr['checks'] if c['status'] == 'SATISFIED' and not IS_CEX(c['desc'])]),
                 unwind=[a for a in h['attrs'] if 'unwind' in a], bound=h['bounds'])
        if r['cex']:
            s['counterexamples'] = [dict(replay=c['path'], kani_check=c['kani_check'],
                                         native=[{k: n.get(k) for k in ('profile', 'verdict', 'failed', 'panic', 'tags', 'notes')} for n in c['native']])
                                    for c in r['cex'][:4]]
        samples.append(s)
    ev = dict(
        property_id=prop, tier=tier, seed=seed, level='model_checking',
        coverage=dict(
            evaluations=decided_checks,
            distinct_nontrivial=len(nontrivial),
            rule=('evaluations = individual checks (harness assertions, Kani-generated panic/overflow/bounds checks, unwinding '
                  'assertions, cover witnesses) that CBMC decided for ALL values inside the harness bound, summed over the '
                  'harness instances of this tier; distinct_nontrivial = distinct (harness, check) pairs that are either a '
                  'harness-level property assertion (id "cNN.…") reached and decided, or a kani::cover! vacuity witness that '
                  'came back SATISFIED. Instances of the quick tier marked "sampled" are chosen by VERIF_SEED; each instance is '
                  'still decided symbolically.'),
            samples=samples,
            exhaustive=False,
            harnesses=len(results),
            proved=len([r for r in results if r['status'] == 'proved']),
            counterexamples=len([r for r in results if r['status'] == 'counterexample']),
            undecided=[dict(harness=n, reason=w[:300]) for n, w in inconclusive],
            functions_encoded=sorted(functions),
            stubs=sorted(stubs),
            bounds=bounds,
            solver_time_s=round(solver_s, 1),
            known_findings_hit=sorted({k['id'] for k, _ in known_hits}),
            engine_versions=tool_versions(),
            repo=repo_state(),
            build=build_info or {},
        ),
        assumptions=[
            'bounded: every verdict holds for all inputs inside the bound stated per harness, nothing outside it',
            'Kani 0.68 / CBMC 6.11 / CaDiCaL are trusted; unwinding assertions are on',
            'stubbed environment functions follow the contracts in /verif/harness/common (re-validated natively on each run)',
        ] + ([note] if note else []),
        wall_s=round(time.time() - t0, 1),
        violations=len(violations),
    )
    if ev['coverage']['evaluations'] < 1:
        ev['coverage']['evaluations'] = 0
    p = os.path.join(VERIF, 'evidence', f'{prop}.json')
    json.dump(ev, open(p, 'w'), indent=1)


def do_replay(prop, path):
    use_workspace(prop)
    if not setup_native(verbose=False):
        return 2
    rep = json.load(open(path))
    nat = native_replay(rep['harness'], path)
    print(json.dumps(nat, indent=1))
    known = load_known()
    repro = [n for n in nat if n.get('verdict') in REPRO]
    if not repro:
        print('does not reproduce against the current tree')
        return 0
    k = match_known(known, rep.get('property', prop), rep['harness'], repro[0])
    if k:
        print(f'KNOWN-FINDING: property={prop} {k["id"]}: {k["what"]}')
        return 0
    print(f'VIOLATION property={prop} replay={path}')
    return 1


def main(argv):
    import argparse
    ap = argparse.ArgumentParser()
    ap.add_argument('prop', nargs='?')
    ap.add_argument('--tier', default=os.environ.get('VERIF_TIER', 'quick'))
    ap.add_argument('--only')
    ap.add_argument('--jobs', type=int)
    ap.add_argument('--replay')
    ap.add_argument('--setup', action='store_true')
    ap.add_argument('--list', action='store_true')
    a = ap.parse_args(argv)
    seed = int(os.environ.get('VERIF_SEED', '0') or 0)
    if a.setup:
        use_workspace('base')
        ok = setup_native()
        if ok:
            write_selection(discover(), [])
            for unit, u in units().items():
                rc, out, dt = kani_build(unit, u)
                print(f'[setup] kani build {unit}: rc={rc} {dt:.0f}s')
                ok = ok and rc == 0
        return 0 if ok else 2
    if a.list:
        for h in discover():
            print(h['name'], h['unit'], h['full'])
        return 0
    if not a.prop:
        ap.error('property id required')
    prop = a.prop.upper()
    if a.tier not in ('quick', 'thorough'):
        a.tier = 'quick'
    if a.replay:
        return do_replay(prop, a.replay)
    return check_property(prop, a.tier, seed, a.only, a.jobs)
